"""C01: testscript verdict -- a script passes iff every executed line meets its demand.

spec/testscript/Testscript.tla is the reference interpreter of the documented
command set as a TLA+ state machine (one action per script line; state = work
tree over a small path universe, cd, env, stdout/stderr/stdin buffers,
background commands, verdict, reported lines).  TsFS.tla gives the file-system
semantics the commands rely on, TsBytes.tla the text functions (match counts,
unquote, unix2dos, $NAME expansion).  MC_Testscript.tla holds the initial
archive, the configurations (ContinueOnError x RequireExplicitExec /
RequireUniqueNames / custom Cmds / custom Condition / duplicate archive names)
and a vocabulary of ~230 concrete lines.

TLC explores the interpreter's state graph to a depth bound (VIEW hides the
history but keeps the script length, so the explored set does not depend on
worker scheduling), checks the laws of the statement in every state (VerdictLaw,
FreezeLaw, NoNegLaw, NegLaw, CondLaw, PadLaw, TreeLaw) and emits one script per
transition with the predicted verdict, first reported line, final work tree and
probe observations.  harness/drivers/testscript runs every script through the
real testscript.RunT with a recording T (helper programs installed through the
real testscript.Main) and compares; scripts that need nothing the standalone
command lacks are also given to the built cmd/testscript (exit status 0 iff the
verdict is not "fail", with and without -continue).  A second generator run
explores the data-flow lines (stdin, exec, buffers, env, cd, background
commands) one line deeper; the thorough tier adds TLC-simulated long scripts.
"""
import os
import shutil
import threading
import tempfile
import time
from vlib import *

SPECDIR = "testscript"
INVS = "TypeOK TreeLaw VerdictLaw FreezeLaw NoNegLaw NegLaw CondLaw PadLaw"
BUGS = ["NegIgnored", "CondInverted", "NoFreeze", "ContinuePasses", "StopForgetsFailure", "NegatedRmRuns"]

ASSUME = [
    "Linux, process without permission restrictions (the sandbox runs as root): write permission bits only matter to 'exists -readonly' and to "
    "the mode cp gives a new file; as another user the check refuses to give a verdict",
    "the work tree is modelled over the path universe {a b d e l} x depth <= 2 below $WORK; transitions that would create a path outside it are "
    "not taken by the generator (counted by TLC as disabled, never silently accepted)",
    "regular expressions of the vocabulary are literals (plus one that does not compile): matching is substring counting in the specification; "
    "the driver re-computes the specification's counts with Go's regexp and refuses a verdict on any difference",
    "background commands: programs that exit by themselves are only waited for, the blocking program is only signalled "
    "(wait on a process that never exits and kill/skip racing with a spontaneous exit are outside the fragment: Deterministic in Testscript.tla); "
    "at most two background commands at a time",
    "ttyin / ttyout, UpdateScripts, Deadline and the [short] [net] conditions are outside the property's command list / need a test binary and are not modelled",
    "word splitting, quoting and variable expansion inside words are C02's subject: C01 renders every word unambiguously (single quotes where needed) "
    "and only checks that an unterminated quote fails the line before its conditions are looked at",
    "blank / comment lines inserted by the driver between generated lines (seeded) rely on PadLaw (TLC: such a line changes nothing but the line number); "
    "one script in five is written with CRLF line ends",
    "doc.go documents 'chmod perm path...' while the engine accepts exactly one path: for that one line both outcomes "
    "(documented effect, or usage failure at that line with no effect) are accepted and the observed one is recorded as drift",
    "the statement does not say which line a setup failure (RequireUniqueNames with a duplicate name) is reported at: only the verdict and "
    "'no line runs' are compared there",
    "log wording other than the 'FAIL: <file>:<line>:' prefix is not compared; under ContinueOnError only the first reported line is judged, "
    "the complete list is compared as drift",
]


def gen_cfg(depth_main, depth_aux, emit, bug="none", slices='{"fg", "bg"}'):
    return ("SPECIFICATION MCSpec\nVIEW View\nCONSTANTS\n"
            "  Names <- MCNames\n  Vars <- MCVars\n  VarBytes <- MCVarBytes\n  Str <- MCStr\n  BadPats <- MCBadPats\n"
            "  Profiles <- MCProfiles\n  LineSeq <- MCLineSeq\n  Roots <- MCRoots\n  DepthOf <- MCDepthOf\n  InitFS <- MCInitFS\n"
            "  EmitMode = \"%s\"\n  Bug = \"%s\"\n  DepthMain = %d\n  DepthAux = %d\n  Slice = %s\n"
            "INVARIANTS %s\nCHECK_DEADLOCK FALSE\n" % (emit, bug, depth_main, depth_aux, slices, INVS))


def work_root(ctx):
    """Work trees are created and removed tens of thousands of times: use tmpfs when there is one."""
    for base in ("/dev/shm",):
        if os.path.isdir(base) and os.access(base, os.W_OK):
            try:
                return tempfile.mkdtemp(prefix="verif-c01-", dir=base)
            except OSError:
                pass
    return ctx.mkdir("work")


def remove_tree(d):
    for root, dirs, _ in os.walk(d):
        for x in dirs:
            try:
                os.chmod(os.path.join(root, x), 0o700)
            except OSError:
                pass
    shutil.rmtree(d, ignore_errors=True)


def header_of(cases):
    with open(cases) as fh:
        for line in fh:
            if line.startswith('{"header"') or '"header":true' in line[:200]:
                return line
    raise NoVerdict("TLC emitted no header record")


def selftest(ctx):
    ok = True
    for b in BUGS:
        res = tlc(ctx, SPECDIR, "MC_Testscript.tla", "Bug_Testscript_%s.cfg" % b, workers=4, timeout=900, expect_violation=True)
        found = res.violation is not None and "Invariant" in res.violation
        log("selftest Bug=%s: %s" % (b, "law violated, as required" if found else "NO VIOLATION FOUND"))
        ok = ok and found
    drv = go_build(ctx, "drivers/testscript")
    cli = go_build_repo(ctx, "./cmd/testscript", "ts-cli")
    cases = ctx.path("cases.ndjson")
    res = tlc(ctx, SPECDIR, "MC_Testscript.tla", "gen.cfg", cfg_text=gen_cfg(2, 0, "all"), emit_to=cases, workers=NCPU, timeout=900)
    require_tlc_ok(res, "generator")
    wr = work_root(ctx)
    try:
        for bug, kind in (("verdict", "verdict"), ("cli", "cli-exit-status")):
            out = ctx.path("self-%s.json" % bug)
            run_driver(ctx, [drv, "-mode", "replay", "-cases", cases, "-out", out, "-work", wr, "-cli", cli, "-climax", "400", "-selfbug", bug])
            r = load_result(out)
            found = any(v["kind"] == kind for v in r["violations"])
            log("selftest driver comparison corrupted (%s): %s" % (bug, "violation reported, as required" if found else "NOT DETECTED"))
            ok = ok and found
    finally:
        remove_tree(wr)
    if not ok:
        raise NoVerdict("selftest failed")
    return 0


def check(ctx):
    if getattr(ctx, "selftest", False):
        return selftest(ctx)
    if os.geteuid() != 0:
        raise NoVerdict("the file-permission part of the specification is written for a process without permission restrictions (root)")
    quick = ctx.tier == "quick"
    depth_main, depth_aux = (2, 1) if quick else (3, 2)
    cli_max = 450 if quick else 4000
    drv = go_build(ctx, "drivers/testscript")
    cli = go_build_repo(ctx, "./cmd/testscript", "ts-cli")
    log("[%5.1fs] harness and cmd/testscript built" % (time.time() - ctx.t0))

    # (A) TLC: laws on the reference interpreter + one script per transition of its state graph.
    #     Two generators: the full vocabulary, and the data-flow slice explored one line deeper.
    flow_depth = 3 if quick else 4
    gens = [("main", gen_cfg(depth_main, depth_aux, "all"), NCPU if not quick else max(4, NCPU - 4)),
            ("flow", gen_cfg(flow_depth, 0, "all", slices='{"flow"}'), 4 if quick else 6),
            # three background commands alive at once: 8 lines, 5 (6) deep
            ("bg3", gen_cfg(5 if quick else 6, 0, "all", slices='{"bg3"}'), 2)]
    results, errors = {}, []

    def run_gen(name, cfg_text, workers):
        try:
            out = ctx.path("cases-%s.ndjson" % name)
            results[name] = (tlc(ctx, SPECDIR, "MC_Testscript.tla", "MC_Testscript_%s.cfg" % name, cfg_text=cfg_text, emit_to=out,
                                 workers=workers, timeout=900 if quick else 2400, name="gen_" + name), out)
        except Exception as e:          # re-raised in the main thread
            errors.append(e)

    ths = [threading.Thread(target=run_gen, args=g) for g in gens]
    for t in ths:
        t.start()
    for t in ths:
        t.join()
    if errors:
        raise errors[0]
    # (the counters vlib keeps are not thread safe; recompute them from the run list)
    ctx.tlc_states = sum(x["distinct"] for x in ctx.tlc_runs)
    ctx.tlc_transitions = sum(max(x["generated"] - 1, 0) for x in ctx.tlc_runs)
    n_emitted, gen_info = {}, {}
    for name, _, _ in gens:
        res, _ = results[name]
        require_tlc_ok(res, "laws of the statement on the reference interpreter (%s vocabulary)" % name)
        n_emitted[name] = res.emits - 1                       # one header record
        if n_emitted[name] != res.generated:
            raise NoVerdict("TLC emitted %d cases for %d generated states (%s)" % (n_emitted[name], res.generated, name))
        gen_info[name] = dict(states=res.distinct, transitions=res.generated)
    log("[%5.1fs] TLC: laws hold in %d + %d + %d states; %d + %d + %d scripts emitted (full vocabulary depth %d/%d, data-flow slice depth %d, three-background slice)"
        % (time.time() - ctx.t0, gen_info["main"]["states"], gen_info["flow"]["states"], gen_info["bg3"]["states"], n_emitted["main"], n_emitted["flow"],
           n_emitted["bg3"], depth_main, depth_aux, flow_depth))
    header = header_of(results["main"][1])

    violations, drift, samples, counters = [], [], [], {}
    evals = nontriv = 0

    def absorb(path, tag):
        nonlocal evals, nontriv
        r = load_result(path)
        evals += r["evaluations"] + r["counters"].get("cli_runs", 0)
        nontriv += r["distinct_nontrivial"]
        violations.extend(r["violations"])
        drift.extend(r["drift"])
        samples.extend(r["samples"][:9])
        for k, v in r["counters"].items():
            counters[tag + k] = counters.get(tag + k, 0) + v
        if not tag.startswith("sim"):
            counters[(tag.rstrip(":") or "main") + "_vocabulary_lines"] = r.get("extra", {}).get("vocabulary_lines", 0)
        return r

    wr = work_root(ctx)
    try:
        for name, _, _ in gens:
            cases = results[name][1]
            out = ctx.path("replay-%s.json" % name)
            run_driver(ctx, [drv, "-mode", "replay", "-cases", cases, "-out", out, "-work", wr, "-cli", cli,
                             "-climax", str(cli_max if name == "main" else cli_max // 3)], timeout=900 if quick else 3000)
            r = absorb(out, "" if name == "main" else name + ":")
            if r["counters"].get("cases", 0) != n_emitted[name]:
                raise NoVerdict("driver replayed %d of %d emitted scripts (%s)" % (r["counters"].get("cases", 0), n_emitted[name], name))
            log("[%5.1fs] %s: %d scripts replayed into RunT, %d into cmd/testscript"
                % (time.time() - ctx.t0, name, n_emitted[name], r["counters"].get("cli_runs", 0)))
            os.remove(cases)

        n_sim = 0
        if not quick:
            # long scripts: TLC simulation of the same machine, finished scripts only
            sim = ctx.path("sim.ndjson")
            with open(sim, "w") as fh:
                fh.write(header)
            per_worker = 1500
            res2 = tlc(ctx, SPECDIR, "MC_Testscript.tla", "MC_Testscript_sim.cfg", cfg_text=gen_cfg(9, 9, "terminal"),
                       emit_to=sim, workers=NCPU, timeout=1500, simulate="num=%d" % per_worker, depth=14, expect_violation=True)
            if res2.violation:
                raise NoVerdict("TLC reported an error while simulating long scripts:\n%s" % res2.violation[:3000])
            with open(res2.out_path, errors="replace") as fh:
                for line in fh:
                    if line.startswith("The number of states generated:"):
                        ctx.tlc_transitions += int(line.split(":")[1])
            n_sim = res2.emits
            out = ctx.path("sim.json")
            run_driver(ctx, [drv, "-mode", "replay", "-cases", sim, "-out", out, "-work", wr, "-cli", cli, "-climax", "1500"], timeout=2400)
            r2 = absorb(out, "sim:")
            log("[%5.1fs] %d simulated long scripts replayed" % (time.time() - ctx.t0, r2["counters"].get("cases", 0)))
            os.remove(sim)
    finally:
        remove_tree(wr)

    for v in violations:
        v.setdefault("class", "")
    coverage = dict(
        evaluations=evals, distinct_nontrivial=nontriv,
        rule=("one evaluation = one script run through the real engine (testscript.RunT with a recording T, or the built cmd/testscript) and compared "
              "with the specification's prediction: verdict, first 'FAIL: file:line', final work tree (kinds, contents, write bit, link targets), "
              "observations of the probe lines incl. a trailing probe (cd, $V, stdout and stderr buffers; it must not run after a failure, stop or skip). "
              "TLC emits one script per transition of the interpreter's state graph: shortest script to every abstract state reachable within "
              "%d lines (ContinueOnError on/off, full profile) resp. %d lines (RequireExplicitExec+RequireUniqueNames+no Condition+only probe; duplicate archive names "
              "with and without RequireUniqueNames; second initial archive), extended by each of the %d vocabulary lines; the same over the %d-line data-flow "
              "slice (stdin, exec, output buffers, env, cd, background commands, wait / kill / skip / stop) to %d lines%s. "
              "non-trivial = distinct (configuration, script) holding at least one command line (not only blank / comment lines)"
              % (depth_main, depth_aux, counters.get("main_vocabulary_lines", 0), counters.get("flow_vocabulary_lines", 0), flow_depth,
                 "" if quick else "; plus %d finished scripts of up to 9 lines from TLC simulation of the same machine" % n_sim)),
        samples=samples[:12], exhaustive=True, states=ctx.tlc_states, transitions=ctx.tlc_transitions,
        generators=gen_info, simulated_scripts=n_sim,
        traces_validated_against_impl=0, counters=counters, drift=drift[:12], drift_total=counters.get("drift_total", 0) + counters.get("flow:drift_total", 0) + counters.get("sim:drift_total", 0),
        cli_runs=counters.get("cli_runs", 0) + counters.get("flow:cli_runs", 0) + counters.get("sim:cli_runs", 0))
    return conclude(ctx, violations, "model_checking", coverage, ASSUME)


REGISTRY = dict(
    category="model_checking", design_ref="DESIGN.md section 3 C01",
    text=("Testscript.tla is a reference interpreter of the documented script language as a TLA+ state machine (one action per line; work tree, cd, env, "
          "output buffers, stdin, background commands, verdict and reported lines as state), written from doc.go and the statement, with the per-command failure "
          "rules confirmed on the real engine. TLC explores its state graph over a vocabulary of ~230 concrete lines (every documented command, plain and negated, "
          "success / unmet demand / usage-error arguments, built-in and custom conditions, background commands, custom commands, unknown commands, lone prefixes, "
          "tokeniser errors) for both ContinueOnError values and four Params profiles, checks the statement's laws in every state (pass iff every executed line met "
          "its demand; first offending line reported; nothing runs after a failure / everything runs with ContinueOnError and the run still fails; stop and skip; "
          "negation inverts exactly the commands that document it; a false condition disables the whole line) and emits one script per transition with the predicted "
          "verdict, reported line, work tree and probe observations. Every script is run through the real RunT with a recording T and helper programs installed by the "
          "real testscript.Main, and a sample through the built cmd/testscript (exit status, with and without -continue). Exhaustive over the transitions of the "
          "bounded state graph, simulated long scripts beyond it: the right level for a deterministic interpreter whose failure modes are wrong verdicts on short "
          "scripts expected to fail at a known line."),
    note=("trusted: TLC, the reference interpreter (every prediction is compared with the real engine on the unchanged tree, so a wrong rule shows up as an alarm "
          "there), the driver's rendering and comparison code, Go's regexp for the literal patterns; Linux + root only; tokenisation is C02's"),
    technique="TLA+ reference interpreter model-checked by TLC; one TLC-generated script per state-graph transition replayed into testscript.RunT and cmd/testscript")
