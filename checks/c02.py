"""C02: testscript word splitting, quoting and variable expansion are exact.

spec/tokenize/Tokenize.tla is the reference semantics: the byte-at-a-time
tokeniser machine shaped like TestScript.parse, Expand (os.Expand with
testscript's mapping, latest assignment wins, NAME@R = QuoteMeta), the env
command, and the laws of the statement.  Three TLC generators
  MC_Tokenize  every line <= N over the quoting alphabet, walked through the
               machine one byte per step, x 7 environments
  MC_Laws      every word list / every variable value up to a byte bound:
               the three quoting laws (survives quoting; $V is one word equal
               to the value; ${V@R} denotes exactly the value)
  MC_Env       every script of <= Depth env lines over a 22-line vocabulary:
               latest wins, child environment, no re-expansion
check the laws in every state and emit the predicted argument vectors, Getenv
values and child environments.  harness/drivers/tokenize puts them through
the real testscript.RunT (recording T, probe commands in Params.Cmds, a helper
program run with exec) and compares.  Seeded random scripts of arbitrary bytes
are recorded from the real engine and validated by TLC (Trace_Tokenize).
"""
import json
import os
import re
import threading
import time
from vlib import *

SPECDIR = "tokenize"

ALPHA_A = {97, 32, 39, 36, 123, 125, 35, 86}              # a SP ' $ { } # V
ALPHA_B = ALPHA_A | {9, 13, 64, 82, 87}                   # + TAB CR @ R W
WALPHA = {97, 32, 39, 36, 35, 86, 9, 92, 46, 123, 125}     # a SP ' $ # V TAB \ . { }

INV = {
    "MC_Tokenize": "InvMachine InvBalance InvComment InvSplit InvSegments InvNoResplit InvNoDollarNoEnv",
    "MC_Laws": "InvQuoteLaw InvPlainLaw InvValueLaw InvRegexpLaw InvAssignLaw InvJudged",
    "MC_Env": "InvLatestWins InvChild InvFold InvAppendOnly InvNoReexpand InvRegexp InvLastQuoted",
}
HEADERS = {"MC_Tokenize": None, "MC_Laws": 1, "MC_Env": 0}   # emitted records that are not cases (None: the histories)
BUGS = [("MC_Laws", "NoQuoteQuote"), ("MC_Laws", "MetaNoDollar"), ("MC_Laws", "NoExpand"),
        ("MC_Tokenize", "HashOnlyAtWordStart"), ("MC_Env", "FirstWins")]

ASSUME = [
    "the statement names space and tab as separators; the code also separates at CR: lines with an unquoted CR are predicted from the observed behaviour and reported as drift only",
    "'$NAME and ${NAME}' is read with NAME an identifier [A-Za-z_][A-Za-z0-9_]*; what os.Expand does with other uses of '$' (lone $, $1, $*, '${', '${}', "
    "names with punctuation) is modelled from the observed behaviour and reported as drift only; the variables $ / : of doc.go are part of the model",
    "an open quote is expected to fail the line (doc: the script stops); a line with an open quote that is accepted is drift, a balanced line that is rejected is a violation",
    "${NAME@R} is judged by what the pattern denotes (a literal equal to the value, decided with Go's regexp package), not by its spelling; values that are not valid UTF-8 "
    "cannot be denoted by a Go regexp and are not judged for this clause",
    "the child environment is observed with a helper program (the driver binary re-executed through the script's exec command); PWD and the inherited base variables are not compared",
    "Windows case folding of variable names is out of scope (linux sandbox)",
    "exhaustive inside the bounds given in 'rule'; beyond them seeded random scripts validated by TLC",
]


def alpha(s):
    return "{" + ", ".join(str(x) for x in sorted(s)) + "}"


def cfg(module, consts, bug="none"):
    lines = ["SPECIFICATION Spec", "CONSTANTS"]
    for k, v in consts.items():
        lines.append("  %s = %s" % (k, v))
    lines.append('  Bug = "%s"' % bug)
    lines.append("INVARIANTS " + INV[module])
    lines.append("CHECK_DEADLOCK FALSE")
    return "\n".join(lines) + "\n"


def bounds(tier):
    """(module, name, constants, driver mode, TLC workers)"""
    if tier == "quick":
        return [
            ("MC_Tokenize", "tokA", dict(Alphabet=alpha(ALPHA_A), N=6, Emit="TRUE"), "lines", 10),
            ("MC_Laws", "laws", dict(WAlphabet=alpha(WALPHA), NV=4, NW=3, MaxWords=3, Emit="TRUE"), "groups", 4),
            ("MC_Env", "env", dict(Depth=3, Emit="TRUE"), "groups", 2),
        ]
    return [
        ("MC_Tokenize", "tokA", dict(Alphabet=alpha(ALPHA_A), N=7, Emit="TRUE"), "lines", max(4, NCPU * 5 // 8)),
        ("MC_Tokenize", "tokB", dict(Alphabet=alpha(ALPHA_B), N=5, Emit="TRUE"), "lines", max(4, NCPU * 3 // 8)),
        ("MC_Laws", "laws", dict(WAlphabet=alpha(WALPHA), NV=5, NW=4, MaxWords=3, Emit="TRUE"), "groups", max(4, NCPU * 3 // 8)),
        ("MC_Env", "env", dict(Depth=4, Emit="TRUE"), "groups", max(4, NCPU * 3 // 8)),
    ]


def marks(res):
    bad, drift, judged = {}, {}, 0
    with open(res.out_path, errors="replace") as fh:
        for line in fh:
            m = re.match(r'<<"(BAD|DRIFT)", "(\w+)", (\d+)>>', line)
            if m:
                (bad if m.group(1) == "BAD" else drift).setdefault(int(m.group(3)), set()).add(m.group(2))
            elif line.startswith('<<"JUDGED"'):
                judged += 1
    return bad, drift, judged


def b2s(a):
    return bytes(a).decode("latin-1")


def selftest(ctx):
    """Sanity of the oracle: every seeded fault of the specification must make TLC find a
    violation; a corrupted real record must be rejected by the trace specification."""
    ok = True
    for module, bug in BUGS:
        res = tlc(ctx, SPECDIR, module + ".tla", "Bug_%s.cfg" % bug, workers=4, timeout=600, expect_violation=True)
        found = res.violation is not None and "Invariant" in res.violation
        log("selftest %s/%s: %s" % (module, bug, "violation found" if found else "NOT FOUND"))
        ok = ok and found
    drv = go_build(ctx, "drivers/tokenize")
    trace = ctx.path("trace.ndjson")
    run_driver(ctx, [drv, "-mode", "random", "-n", "10", "-trace", trace, "-scratch", ctx.mkdir("drv-self"), "-out", ctx.path("r.json")])
    recs = [json.loads(l) for l in open(trace)]
    # corrupt one judged record: drop the last argument of a line that has arguments and no '$' / CR
    k = next(i for i, r in enumerate(recs) if r["ok"] and len(r["args"]) >= 2 and 36 not in r["line"] and 13 not in r["line"])
    recs[k]["args"] = recs[k]["args"][:-1]
    with open(trace, "w") as fh:
        for r in recs:
            fh.write(json.dumps(r) + "\n")
    res = tlc(ctx, SPECDIR, "Trace_Tokenize.tla", "Trace_Tokenize.cfg", files=[trace], workers=4, timeout=600)
    require_tlc_ok(res, "trace validation run")
    bad, _, _ = marks(res)
    found = (k + 1) in bad
    log("selftest corrupted record %d: %s" % (k + 1, "rejected" if found else "NOT REJECTED"))
    ok = ok and found
    if not ok:
        raise NoVerdict("selftest failed")
    return 0


def check(ctx):
    if getattr(ctx, "selftest", False):
        return selftest(ctx)
    quick = ctx.tier == "quick"
    nscripts = 120 if quick else 1500
    drv = go_build(ctx, "drivers/tokenize")
    log("[%5.1fs] harness built" % (time.time() - ctx.t0))

    # (A) generators: TLC checks the laws on the specification and emits the predictions;
    #     each generator's cases are replayed into the real engine as soon as it is done.
    gens = bounds(ctx.tier)
    results, errors = {}, []

    def run_gen(module, name, consts, mode, workers):
        try:
            cases = ctx.path("cases-%s.ndjson" % name)
            res = tlc(ctx, SPECDIR, module + ".tla", "%s_%s.cfg" % (module, name), cfg_text=cfg(module, consts),
                      emit_to=cases, workers=workers, timeout=900 if quick else 3000, name="%s_%s" % (module, name),
                      heap="8g" if quick else "16g")
            log("[%5.1fs] TLC %s %s: %d states, %d cases emitted, ok=%s" % (time.time() - ctx.t0, module, name, res.distinct, res.emits, res.ok))
            out = ctx.path("replay-%s.json" % name)
            if res.ok and res.emits:
                run_driver(ctx, [drv, "-mode", mode, "-scratch", ctx.mkdir("drv-" + name), "-out", out, cases], timeout=3000)
                log("[%5.1fs] %s replayed into the real engine" % (time.time() - ctx.t0, name))
            if os.path.exists(cases):
                os.remove(cases)
            results[name] = (res, out)
        except Exception as e:   # re-raised in the main thread
            errors.append(e)

    if quick:
        streams = [[g] for g in gens]
    else:
        # two streams side by side: the large line enumeration, and the three smaller generators one after the other
        streams = [gens[:1], gens[1:]]

    def run_stream(gs):
        for g in gs:
            run_gen(*g)

    ths = [threading.Thread(target=run_stream, args=(gs,)) for gs in streams]
    for t in ths:
        t.start()
    for t in ths:
        t.join()
    if errors:
        raise errors[0]
    # (the counters vlib keeps are not thread safe; recompute them from the run list)
    ctx.tlc_states = sum(x["distinct"] for x in ctx.tlc_runs)
    ctx.tlc_transitions = sum(max(x["generated"] - 1, 0) for x in ctx.tlc_runs)

    counters, violations, drift, samples = {}, [], [], []
    evals = nontriv = 0
    states = {}
    for module, name, consts, mode, _ in gens:
        res, out = results[name]
        require_tlc_ok(res, "laws of the statement on the reference semantics (%s %s)" % (module, consts))
        if res.distinct < 2 or res.generated != res.distinct:
            raise NoVerdict("%s %s: %d states generated, %d distinct (the generators are trees)" % (module, name, res.generated, res.distinct))
        with open(out) as fh:
            r = json.load(fh)
        c = r["counters"]
        headers = c.get("histories", 0) if HEADERS[module] is None else HEADERS[module]
        n_cases = c.get("line_cases", 0) + c.get("groups", 0)
        if res.emits != res.distinct + headers or n_cases != res.distinct:
            raise NoVerdict("%s %s: %d states, %d records emitted (%d headers), %d cases evaluated by the driver"
                            % (module, name, res.distinct, res.emits, headers, n_cases))
        states[name] = res.distinct
        for k, v in c.items():
            counters[k] = counters.get(k, 0) + v
        violations.extend(r["violations"])
        drift.extend(r["drift"])
        samples.extend(r["samples"][:3])
        evals += r["evaluations"]
        nontriv += r["distinct_nontrivial"]

    # (B1) seeded random scripts: real results recorded, TLC evaluates the specification on every record.
    trace = ctx.path("trace.ndjson")
    out = ctx.path("random.json")
    run_driver(ctx, [drv, "-mode", "random", "-n", str(nscripts), "-trace", trace, "-scratch", ctx.mkdir("drv-random"), "-out", out])
    with open(out) as fh:
        r2 = json.load(fh)
    for k, v in r2["counters"].items():
        counters[k] = counters.get(k, 0) + v
    violations.extend(r2["violations"])
    drift.extend(r2["drift"])
    samples.extend(r2["samples"][:3])
    evals += r2["evaluations"]
    nontriv += r2["distinct_nontrivial"]
    nrec = r2["counters"].get("random_records", 0)
    res = tlc(ctx, SPECDIR, "Trace_Tokenize.tla", "Trace_Tokenize.cfg", files=[trace], workers=NCPU, timeout=3000)
    # the Rec* invariants only print BAD / DRIFT lines and stay TRUE: anything else is a tool problem
    require_tlc_ok(res, "trace validation run")
    if res.distinct != nrec or nrec == 0:
        raise NoVerdict("trace validation visited %d of %d records\n%s" % (res.distinct, nrec, res.violation))
    bad, drifted, judged = marks(res)
    log("[%5.1fs] %d random records validated by TLC (%d judged byte for byte, %d rejected, %d drift)"
        % (time.time() - ctx.t0, nrec, judged, len(bad), len(drifted)))
    recs = open(trace).read().splitlines() if (bad or drifted) else []
    for idx, invs in sorted(bad.items()):
        rec = json.loads(recs[idx - 1])
        pre = [b2s(x) for x in rec["pre"]]
        line = b2s(rec["line"])
        got = [b2s(x) for x in rec["args"]]
        violations.append(dict(kind="trace-rejected:" + ",".join(sorted(invs)), **{"class": "\n".join(pre) + "\n>" + line},
                               what="TLC rejects the record of the real engine: after %r the line %r was %s" % (
                                   pre, line, ("tokenised as %r" % got) if rec["ok"] else "rejected"),
                               input=dict(env_lines_before=pre, line=line, line_bytes=rec["line"]), detail=rec))
    for idx in sorted(drifted)[:10]:
        rec = json.loads(recs[idx - 1])
        drift.append(dict(kind="random-unjudged-line-differs:" + ",".join(sorted(drifted[idx])),
                          what="after %r the line %r gave %r (ok=%s); not judged" % (
                              [b2s(x) for x in rec["pre"]], b2s(rec["line"]), [b2s(x) for x in rec["args"]], rec["ok"])))
    counters["drift_total"] = counters.get("drift_total", 0) + len(drifted)
    counters["random_records_judged"] = judged

    b = {name: consts for _, name, consts, _, _ in gens}
    rule = ("one evaluation = one probe line (or Getenv value, or child-environment entry) observed in the real engine and compared with the prediction TLC emitted. "
            "MC_Tokenize: every line of <= %d bytes over {a SP ' $ { } # V} (%d lines)%s, lines with an unquoted $ under each of 7 environments "
            "(V unset / empty / 'p q' after x / quote / '$W' / '#' / unbalanced \"'' ${\", plus a, Va, aV for longest-name matching), the others under one; "
            "MC_Laws: every list of <= 3 words with <= %d bytes in total and every value of <= %d bytes over {a SP ' $ # V TAB \\ . { }} (%d states): quoted list, "
            "plain list, and for each value the lines $V ${V} a${V}b_$V '$V'$V $V#$V $V@R ${V@R} after env 'V=<value>'; "
            "MC_Env: every script of <= %d env lines over a 22-line vocabulary (quoted troublemaker values, V=$W, V=${V}x, V=y W=$V) (%d scripts, each in its own "
            "work directory with a helper program run by exec). %d seeded random scripts (%d probe lines of arbitrary bytes, env lines interleaved) are recorded "
            "from the real engine and validated by TLC (Trace_Tokenize, 16 lanes; %d of them fixed byte for byte by the statement). "
            "non-trivial = the line contains a quote, $ or # (Getenv / child entries always); distinct = one per (environment, line) pair"
            % (b["tokA"]["N"], states["tokA"],
               (" and of <= %d bytes over the same + TAB CR @ R W (%d lines)" % (b["tokB"]["N"], states["tokB"])) if "tokB" in b else "",
               b["laws"]["NW"], b["laws"]["NV"], states["laws"], b["env"]["Depth"], states["env"], nscripts, nrec, judged))
    coverage = dict(
        evaluations=evals, distinct_nontrivial=nontriv, rule=rule, samples=samples[:10], exhaustive=True,
        generator_states=states, traces_validated_against_impl=nrec, counters=counters,
        drift=drift[:12], drift_total=counters.get("drift_total", 0), l2_conformant=(counters.get("drift_total", 0) == 0))
    for v in violations:
        v.setdefault("class", "")
    violations.sort(key=lambda v: (v.get("kind", ""), len(json.dumps(v.get("input", "")))))
    return conclude(ctx, violations, "model_checking", coverage, ASSUME)


REGISTRY = dict(
    category="model_checking", design_ref="DESIGN.md section 3 C02",
    text=("Tokenize.tla gives the line tokeniser as a byte-at-a-time machine shaped like TestScript.parse (words kept as quoted / unquoted "
          "segments), Expand as os.Expand with testscript's mapping (latest assignment wins, NAME@R = QuoteMeta), the env command and the child "
          "environment. TLC walks the machine over every line up to a length bound over the quoting alphabet and checks, in every state, the "
          "statement's laws in a formulation that does not mention the machine (a byte is quoted iff an odd number of quotes precedes it: comment law, "
          "open-quote law, split law, segments well formed, word count independent of the values); it enumerates every word list and every value up "
          "to a byte bound and checks the three quoting laws (any word list survives quoting; $V and ${V} are exactly one word equal to the value and "
          "join their neighbours; ${V@R} is a literal pattern denoting exactly the value); it enumerates every short script of env lines and checks "
          "latest-wins, list/lookup agreement and no re-expansion. Every state's prediction is replayed into the real testscript.RunT: argument "
          "vectors seen by a custom command, TestScript.Getenv, and the environment of a program started with exec. Real results on seeded random "
          "scripts of arbitrary bytes are validated by TLC against the same specification. Exhaustive inside the bounds, sampled beyond: the right "
          "level for a deterministic function of (environment history, line) whose interesting inputs are short."),
    note=("trusted: TLC, Tokenize.tla (it reproduces the real engine on every generated case of the unchanged tree, so a difference after a change "
          "is attributable to the change), the Go driver's comparison code and Go's regexp package for the @R clause; behaviours the statement does "
          "not fix (CR as separator, non-identifier uses of $, open quotes, spelling of the quoted pattern) are compared but only reported as drift"),
    technique="TLA+ tokeniser machine and laws model-checked by TLC; TLC-generated lines, values and env scripts replayed into testscript.RunT; real traces validated by TLC")
