from txtar_common import run, TXTAR_LEVEL


def check(ctx):
    return run(ctx, "C03")


REGISTRY = dict(
    category="model_checking", design_ref="DESIGN.md section 3 C03",
    text=TXTAR_LEVEL + " Exhaustive inside the bound, sampled beyond it: the right level for a total, pure function whose "
         "interesting inputs are short marker look-alikes.",
    note="trusted: TLC, the Txtar.tla reference semantics (cross-checked against golang.org/x/tools/txtar on every CR-free input), "
         "the Go driver's comparison code; TrimSpace modelled on ASCII only",
    technique="TLA+ reference semantics model-checked by TLC; TLC-generated cases replayed into txtar.Parse/Format; real traces validated by TLC")
