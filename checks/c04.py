"""C04: testscript runs are isolated from each other and leave nothing behind."""
import concurrent.futures
from vlib import *
from par_common import validate_traces

TS_FILES = {"testscript/testscript.go": {"imports": {"os": "vos", "sync/atomic": "vatomic"}, "rewrite_go": False}}
TS_SHIMS = ["vsched", "vsync", "vatomic", "vrand", "vos", "vsyscall"]

ASSUME = [
    "scheduling points of a controlled batch: Parallel(), the scripts' gate lines, every deferred function, the removal of each work "
    "directory, the reference-count decrement and the removal of the root (testscript.go built with os -> vos, sync/atomic -> vatomic); "
    "code between two points runs atomically; free mode (12+ scripts with real goroutines, -race) complements this",
    "isolation is judged by comparison with the same script run alone (same observations, same verdict)",
    "background processes are `sleep` children whose pids are recorded through TestScript.BackgroundCmds",
    "ContinueOnError = false; TestWork is the retention mode exercised (WorkdirRoot implies it)",
]


def cfg_text(bug="none", record=True, emit=True, live=False):
    return ("SPECIFICATION %s\nCONSTANTS\n  Batches <- MCBatches\n  Bug = \"%s\"\n  Record = %s\n  Emit = %s\n%s"
            "INVARIANTS DeferLIFO NothingLeft RootLast\n%s"
            % ("MCFairSpec" if live else "MCSpec", bug, "TRUE" if record else "FALSE", "TRUE" if emit else "FALSE",
               "" if live else "VIEW View\n", "PROPERTY Termination\n" if live else ""))


def check(ctx):
    quick = ctx.tier == "quick"
    ov = make_overlay(ctx, "runt", TS_FILES, shims=TS_SHIMS)
    drv = go_build(ctx, "drivers/runt", out_name="runtdrv", overlay=ov)
    ovf = make_overlay(ctx, "runt-free", {}, shims=TS_SHIMS)
    free = go_build(ctx, "drivers/runt", out_name="runtdrv-free", overlay=ovf, race=True)
    cases = ctx.path("cases.ndjson")
    res = tlc(ctx, "runt", "MC_RunT.tla", "MC_RunT.cfg", cfg_text=cfg_text("none", True, True), emit_to=cases, workers=8, timeout=1200)
    require_tlc_ok(res, "RunT.tla safety (DeferLIFO, NothingLeft, RootLast)")
    live = tlc(ctx, "runt", "MC_RunT.tla", "Live_RunT.cfg", cfg_text=cfg_text("none", False, False, live=True), workers=8, timeout=1200)
    require_tlc_ok(live, "RunT.tla termination")
    bugs = []
    if not quick or ctx.selftest:
        for b in ["DecBeforeRemove", "DeferFIFO", "NoBgCleanupOnFail", "DeferStopsOnFail"]:
            r = tlc(ctx, "runt", "MC_RunT.tla", "Bug_%s.cfg" % b, cfg_text=cfg_text(b, True, False), workers=4, timeout=600, expect_violation=True)
            if r.ok:
                raise NoVerdict("sanity: TLC did not reject Bug=%s" % b)
            bugs.append(b)
    results, files = {}, []
    def drive(job):
        tag, binary, mode, extra = job
        tf = ctx.path("traces-%s.ndjson" % tag)
        out = ctx.path("result-%s.json" % tag)
        tmp = ctx.mkdir("runttmp-" + tag)
        run_driver(ctx, [binary, "-mode", mode, "-configs", cases, "-cases", cases, "-traces", tf, "-out", out, "-tmp", tmp] + extra, timeout=3000)
        return tag, load_result(out), tf
    stride = 5 if quick else 1
    jobs = [("replay%d" % k, drv, "replay", ["-stride", str(stride * 4)]) for k in range(1)]
    jobs = []
    for k in range(4):
        jobs.append(("replay%d" % k, drv, "replay", ["-stride", str(stride * 4)]))
    jobs.append(("dfs", drv, "dfs", ["-bound", "2", "-maxruns", "60" if quick else "1500"]))
    jobs.append(("random", drv, "random", ["-runs", "250" if quick else "5000"]))
    jobs.append(("free", free, "free", ["-runs", "6" if quick else "100"]))
    # replay shards need distinct offsets: VERIF_SEED shifts the stride window
    def drive_shard(job):
        tag = job[0]
        if tag.startswith("replay"):
            k = int(tag[6:])
            tf = ctx.path("traces-%s.ndjson" % tag)
            out = ctx.path("result-%s.json" % tag)
            tmp = ctx.mkdir("runttmp-" + tag)
            run_driver(ctx, [job[1], "-mode", "replay", "-cases", cases, "-traces", tf, "-out", out, "-tmp", tmp, "-stride", str(stride * 4)],
                       env={"VERIF_SEED": str(ctx.seed * 4 + k * stride)}, timeout=3000)
            return tag, load_result(out), tf
        return drive(job)
    with concurrent.futures.ThreadPoolExecutor(max_workers=8) as ex:
        for tag, r, tf in ex.map(drive_shard, jobs):
            results[tag] = r
            files.append(tf)
    recs, bad, vres = validate_traces(ctx, "runt", "Trace_RunT.tla", "Trace_RunT.cfg", files, lanes=32)
    violations = []
    for idx, invs in sorted(bad.items()):
        rec = json.loads(recs[idx - 1])
        names = [s["name"] for s in rec["scripts"]]
        diff = {n: dict(batch=rec["obs"][n], solo=rec["solo"][n], verdict=rec["verdict"][n], solo_verdict=rec["solov"][n])
                for n in names if rec["obs"][n] != rec["solo"][n] or rec["verdict"][n] != rec["solov"][n]}
        desc = dict(scripts={s["name"]: s["lines"] for s in rec["scripts"]}, retain=rec["retain"], mode=rec["mode"], differs=diff,
                    left=rec["left"], live=rec["live"], host=rec["host"], canary=rec["canary"], leaked=rec.get("leaked"), missing=rec.get("missing"), rootlast=rec["rootlast"], end=rec["end"],
                    ran=rec["ran"], reg=rec["reg"], events=" ".join("%s:%s%s" % (e["s"], e["ev"], "" if e["ev"] == "obs" else "(" + e["v"] + ")") for e in rec["events"][:80]),
                    schedule=rec.get("sched"))
        shapes = sorted(set(json.dumps(s["lines"]) for s in rec["scripts"] if s["name"] in diff)) if diff else []
        violations.append(dict(kind="l1-rejected:" + ",".join(sorted(invs)),
                               what="the RunT contract rejects a batch run of the real testscript (%s): %s" % (rec["mode"], ",".join(sorted(invs))),
                               **{"class": "%s|%s" % (",".join(sorted(invs)), ";".join(shapes))}, input=desc, detail=rec.get("detail", "")))
    drift = sum((r["drift"] for r in results.values()), [])
    replayed = sum(r["counters"].get("runs", 0) for t, r in results.items() if t.startswith("replay"))
    coverage = dict(
        evaluations=sum(r["counters"].get("runs", 0) for r in results.values()), distinct_nontrivial=len(recs),
        rule=("batch runs of the real testscript.RunT over the batches of MC_RunT (2-3 scripts of 9 shapes: cd/env/write/probe, deferred "
              "functions, background processes, failing / skipping / stopping midway, read-only directories, PATH-dependent [exec:] "
              "conditions; with and without retention): %d TLC-generated schedules replayed (one per transition of the RunT state graph, "
              "stride %d), bounded DFS, random/PCT schedules, free runs of 12+ scripts under -race. distinct_nontrivial = distinct run "
              "records, each validated by TLC against the contract (Trace_RunT)" % (replayed, stride)),
        samples=results["dfs"]["samples"][:2], traces_validated_against_impl=len(recs),
        runs_by_mode={t: r["counters"] for t, r in results.items() if not t.startswith("replay") or t == "replay0"},
        tlc_schedules_replayed=replayed, l2_conformant=(len(drift) == 0), drift_total=len(drift), drift=drift[:5],
        bug_configs_rejected_by_tlc=bugs, exhaustive=False)
    return conclude(ctx, violations, "model_checking", coverage, ASSUME)


REGISTRY = dict(
    category="model_checking", design_ref="DESIGN.md section 3 C04",
    text="RunT.tla models the life cycle of parallel scripts (lines between gates, deferred functions, background processes, removal of "
         "the work directory, reference count, removal of the shared root); TLC checks LIFO deferral, nothing-left-behind, root-removed-last "
         "and termination over all interleavings (bug switches DecBeforeRemove, DeferFIFO, NoBgCleanupOnFail, DeferStopsOnFail are rejected). Every transition "
         "is replayed as a schedule into the real RunT (testscript.go built with os/atomic redirected so that removals and the reference "
         "count are scheduling points), plus bounded DFS, PCT and free -race batches. Every batch record - per-script observations compared "
         "with the solo run, verdicts, deferred order, leftovers, live pids, host state, canary - is validated by TLC against the contract.",
    note="trusted: TLC, shims/scheduler, the recording T implementation, plain-os inspection after the run; isolation is relative to the solo run of the same script",
    technique="TLA+ life-cycle model checked by TLC; TLC schedules + DFS + PCT replayed into real testscript.RunT via overlay; batch records validated by TLC against the contract")
