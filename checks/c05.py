"""C05 -- the cache returns exactly what was stored, or not-found, never other bytes.

spec/cacheseq/CacheSeq.tla is a sequential, API-level model of the cache directory (index
files, content-addressed output files) under Put / PutBytes / Get / GetBytes / GetFile /
OutputFile and under damage done behind the cache's back (truncate, extend, flip, delete,
replace of either kind of file); the sentences of the statement are its invariants, phrased
on history ghosts.  MC_CacheSeq bounds it (ids, contents, number of stores and of acts of
damage per history); TLC checks the laws in every reachable state and, the history being
hidden by the VIEW, emits one test per transition of the state graph.
spec/cacheseq/IndexEntry.tla is the grammar of the 175-byte index entry (code shaped and
statement shaped, TLC checks that they agree); MC_IndexEntry enumerates the neighbourhood
of the entry the real Put writes: every single-byte substitution, truncation, short
extension and (sampled in quick) double substitutions at the field boundaries.
harness/drivers/cacheseq replays both families into the real, unmodified cache package and,
for seeded random index files, records what the real Get returns for TLC to validate
(Trace_IndexEntry)."""
import glob
import json
import os
from vlib import *

SPECDIR = "cacheseq"
LAWS = "TypeOK LawStoredComesBack LawBytesSound LawFileSound LawRepair LawNeverStoredMisses GhostsConsistent"
ENTRY_LAWS = "LawGrammar LawIdBound LawLength LawShape LawRoundTrip LawGates"
N_TWO_ALL = 22 * 22 * 15 * 15      # NTwoAll of MC_IndexEntry

ASSUME = [
    "SHA-256 collisions are assumed away: in CacheSeq.tla a block sequence hashes to OutputID(c) iff it is Blocks(c)",
    "histories are sequential and single-process (concurrent users: C11; interrupted or failing Put: C12; Trim and mtimes: C13); "
    "'trimmed' in the statement is represented by the deletion of an output or index file",
    "contents are 0..5 bytes long (the model's blocks are bytes); damage is one of: truncate to 0 / 67 / 174 / 175 (index) or to 0 / len-1 (output), "
    "append 1-2 bytes, overwrite one byte with a byte foreign to the content / to every field of the entry, delete, replace by a copy of another index file, "
    "by a freshly forged well-formed entry (right or wrong size, existing or never-stored output id), by the bytes of another content",
    "judged (violation): panics; GetBytes ok with SHA-256(bytes) != reported OutputID; GetFile ok naming a file whose length != reported size; "
    "an id whose Put returned nil and whose entry was not overwritten or damaged since does not give back exactly the data from GetBytes / GetFile "
    "(this includes a Put made after damage: it starts a new promise); an id never stored misses in a history without damage; "
    "a Put of the same content over a damaged output leaves the output file holding exactly the content",
    "not judged (drift only): what a lookup returns for an entry that was damaged and not stored again (hit or miss, which class), what Get reports, "
    "which byte strings Get accepts as an index entry and the reason it gives, the projected directory after each action, error texts, OutputFile's path; "
    "any non-nil error of a lookup counts as not-found",
    "index-entry neighbourhood: derived from the entry the real Put writes for one fixed (id, content); substitutes are "
    "v 1 SP a F 7 0 + - LF Z NUL 0xff and the two single-bit flips (xor 1, xor 32) of the original byte",
]


def tla_set(xs):
    return "{" + ", ".join('"%s"' % x for x in xs) + "}"


def hist_cfg(ids, contents, maxput, maxdam, emit=True, bug="none", laws=LAWS):
    return ("SPECIFICATION MCSpec\nVIEW View\nCONSTANTS\n  Ids = %s\n  Contents = %s\n  Size <- MCSize\n  Ghost = \"ghost\"\n"
            "  Bug = \"%s\"\n  MaxPut = %d\n  MaxDam = %d\n  Emit = %s\nINVARIANTS %s\nCHECK_DEADLOCK FALSE\n"
            % (tla_set(ids), tla_set(contents), bug, maxput, maxdam, "TRUE" if emit else "FALSE", laws))


def entry_cfg(stride, offset, emit=True, bug="none", laws=ENTRY_LAWS):
    return ("SPECIFICATION Spec\nCONSTANTS\n  Bug = \"%s\"\n  K = 16\n  Stride = %d\n  Offset = %d\n  Emit = %s\n"
            "INVARIANTS %s\nCHECK_DEADLOCK FALSE\n" % (bug, stride, offset, "TRUE" if emit else "FALSE", laws))


def hist_configs(tier):
    """(name, ids, contents, MaxPut, MaxDam); sizes fitted to measured transition counts (see REGISTRY note)"""
    if tier == "quick":
        return [("h22", ["i1", "i2"], ["c0", "c2", "c3"], 2, 2)]          # 196,415 transitions, 12,000 states, 76k tests
    return [("h32", ["i1", "i2"], ["c0", "c2", "c3"], 3, 2),            # 495,642 transitions, 25,389 states, 241k tests
            ("c4", ["i1", "i2"], ["c0", "c1", "c2", "c3"], 2, 2),       # 568,169 transitions, 32,205 states, 214k tests
            ("i3", ["i1", "i2", "i3"], ["c0", "c2", "c3"], 2, 2),       # 768,181 transitions, 39,402 states, 256k tests
            ("d3", ["i1", "i2"], ["c2", "c3"], 2, 3),                   # 488,308 transitions, 28,792 states, 229k tests
            ("deep", ["i1"], ["c2", "c3"], 3, 4)]                       # 376,984 transitions, 24,447 states, 230k tests


def selftest(ctx):
    """every Bug_*.cfg must make TLC find a violation of the law it names"""
    bad = []
    for path in sorted(glob.glob(os.path.join(SPEC, SPECDIR, "Bug_*.cfg"))):
        name = os.path.basename(path)
        module = "MC_CacheSeq.tla" if name.startswith("Bug_CacheSeq") else "MC_IndexEntry.tla"
        res = tlc(ctx, SPECDIR, module, name, workers=8, timeout=600, expect_violation=True)
        law = [l for l in open(path) if l.startswith("INVARIANTS")][0].split()[1]
        found = bool(res.violation) and ("Invariant %s is violated" % law) in res.violation
        log("selftest %s: %s" % (name, "violates %s as required" % law if found else "NOT DETECTED"))
        if not found:
            bad.append(name)
    if bad:
        raise NoVerdict("bug configurations not detected by TLC: %s" % bad)
    return 0


def check(ctx):
    if getattr(ctx, "selftest", False):
        return selftest(ctx)
    drv = go_build(ctx, "drivers/cacheseq")
    violations, drift, samples = [], [], []
    counters = {}
    evals = nontriv = 0
    runs = []

    def absorb(path, tag):
        nonlocal evals, nontriv
        r = load_result(path)
        evals += r["evaluations"]
        nontriv += r["distinct_nontrivial"]
        violations.extend(r["violations"])
        drift.extend(r["drift"])
        samples.extend(r["samples"][:4])
        for k, v in r["counters"].items():
            counters[tag + ":" + k] = counters.get(tag + ":" + k, 0) + v
            if k in ("violations_total", "drift_total"):
                counters[k] = counters.get(k, 0) + v
        return r

    # (A1) histories: one test per transition of the state graph of CacheSeq
    hist_transitions = 0
    for name, ids, contents, maxput, maxdam in hist_configs(ctx.tier):
        cases = ctx.path("cases-%s.ndjson" % name)
        res = tlc(ctx, SPECDIR, "MC_CacheSeq.tla", "MC_%s.cfg" % name, cfg_text=hist_cfg(ids, contents, maxput, maxdam),
                  emit_to=cases, workers=min(NCPU, 12), timeout=2400, name="MC_" + name)
        require_tlc_ok(res, "laws of the statement on the cache model (%s)" % name)
        # every state has exactly 3|Ids| + |Contents| + 1 lookup self-loops; every other transition and the initial state
        # are emitted as tests (+ 1 config line): certifies on the TLC side that no transition was left out
        loops = res.distinct * (3 * len(ids) + len(contents) + 1)
        if res.emits - 2 != res.generated - 1 - loops:
            raise NoVerdict("TLC emitted %d tests for %d transitions of which %d are lookups (%s)"
                            % (res.emits - 2, res.generated - 1, loops, name))
        out = ctx.path("replay-%s.json" % name)
        run_driver(ctx, [drv, "-mode", "hist", "-cases", cases, "-work", ctx.mkdir("work-" + name), "-out", out], timeout=2400)
        r = absorb(out, "hist")
        c = r["counters"]
        if c.get("cases", 0) != res.emits - 1:
            raise NoVerdict("driver replayed %d of %d emitted tests (%s)" % (c.get("cases", 0), res.emits - 1, name))
        hist_transitions += res.generated - 1
        runs.append(dict(config=name, ids=len(ids), contents=contents, max_put=maxput, max_damage=maxdam,
                         tlc_distinct_states=res.distinct, transitions=res.generated - 1, lookup_self_loops=loops,
                         tests_emitted=res.emits - 1, replayed=c.get("cases", 0),
                         completed=c.get("completed", 0), violations=c.get("violations_total", 0), drift=c.get("drift_total", 0)))
        log("C05 %s: %d states, %d transitions (%d lookups) covered by %d replayed tests, %d violations, drift %d"
            % (name, res.distinct, res.generated - 1, loops, res.emits - 1, c.get("violations_total", 0), c.get("drift_total", 0)))
        os.remove(cases)

    def guarded(stage):
        """A later stage whose driver cannot run on this tree (the fixture itself trips over the change, say) must not hide
        what an earlier stage found: with violations in hand the stage is skipped, without them it is no verdict."""
        try:
            stage()
        except NoVerdict as e:
            if not violations:
                raise
            log("stage %s not run to its end (%s); judging what the earlier stages found" % (stage.__name__, str(e).splitlines()[0][:200]))

    stride = 97 if ctx.tier == "quick" else 3
    offset = ctx.seed % stride
    nrand = 2000 if ctx.tier == "quick" else 30000

    def stage_entries():
        # (A2) index entries: the neighbourhood of the entry Put writes
        cases = ctx.path("cases-entries.ndjson")
        res = tlc(ctx, SPECDIR, "MC_IndexEntry.tla", "MC_entries.cfg", cfg_text=entry_cfg(stride, offset), emit_to=cases,
                  workers=NCPU, timeout=2400, name="MC_entries")
        require_tlc_ok(res, "laws of the index entry grammar")
        out = ctx.path("replay-entries.json")
        run_driver(ctx, [drv, "-mode", "entries", "-cases", cases, "-work", ctx.mkdir("work-entries"), "-out", out], timeout=1200)
        r = absorb(out, "entries")
        n_entries = r["counters"].get("cases", 0)
        if n_entries != res.emits - 1 or n_entries == 0:
            raise NoVerdict("driver replayed %d of %d emitted index entries" % (n_entries, res.emits - 1))
        runs.append(dict(config="entries", stride=stride, offset=offset, tlc_distinct_states=res.distinct, entries_emitted=n_entries,
                         accepted_by_real_get=r["counters"].get("accepted", 0), violations=r["counters"].get("violations_total", 0),
                         drift=r["counters"].get("drift_total", 0)))
        log("C05 entries: %d states, %d index entries replayed (%d accepted), %d violations, drift %d"
            % (res.distinct, n_entries, r["counters"].get("accepted", 0), r["counters"].get("violations_total", 0),
               r["counters"].get("drift_total", 0)))
        os.remove(cases)


    def stage_fuzz():
        # (B1) seeded random index files: the real Get is recorded, TLC evaluates the grammar on every record
        trace = ctx.path("trace.ndjson")
        out = ctx.path("fuzz.json")
        crumbs = ctx.mkdir("crumbs")
        fuzz_died = None
        try:
            run_driver(ctx, [drv, "-mode", "fuzz", "-n", str(nrand), "-trace", trace, "-work", ctx.mkdir("work-fuzz"), "-out", out,
                             "-crumbs", crumbs], timeout=1200)
            absorb(out, "fuzz")
        except NoVerdict as e:
            # the driver process died.  If the entries whose lookups were in flight kill a fresh process again, each on its own,
            # that is the code under test ("no lookup panics": a lookup that takes the process down is worse), not the harness
            fuzz_died = e
            killers = []
            for k, f in enumerate(sorted(os.listdir(crumbs))[:16]):
                one = ctx.path("one-%d.json" % k)
                try:
                    run_driver(ctx, [drv, "-mode", "one", "-cases", os.path.join(crumbs, f), "-work", ctx.mkdir("work-one-%d" % k), "-out", one],
                               timeout=120)
                except NoVerdict as e1:
                    with open(os.path.join(crumbs, f)) as fh:
                        c = json.load(fh)
                    entry = bytes(c["e"]).decode("latin-1")
                    tail = str(e1)
                    why = "out of memory" if "out of memory" in tail else "makeslice" if "makeslice" in tail else "crash"
                    killers.append(dict(kind="lookup-kills-process", **{"class": "i%d %r" % (c["id"], entry)},
                                        what="Get / GetBytes / GetFile on an index file with these bytes brings the whole process down (%s), "
                                             "reproduced in a process of its own" % why,
                                        input=dict(index_file=entry, bytes=c["e"], id="i%d" % c["id"]), detail=tail[-1500:]))
            if not killers:
                raise
            violations.extend(killers)
            counters["fuzz:lookup_kills_process"] = len(killers)
        if fuzz_died is None:
            res = tlc(ctx, SPECDIR, "Trace_IndexEntry.tla", "Trace_IndexEntry.cfg", files=[trace], workers=NCPU, timeout=2400,
                      expect_violation=True)
            ctx.tlc_states += res.distinct
            ctx.tlc_transitions += max(res.generated - 1, 0)
            if not res.ok:
                raise NoVerdict("trace validation did not complete:\n%s" % res.violation)
            if res.distinct != nrand:
                raise NoVerdict("trace validation visited %d of %d records" % (res.distinct, nrand))
            bad = bad_traces(res)
            trace_drift = 0
            if bad:
                recs = open(trace).read().splitlines()
                for idx, invs in sorted(bad.items()):
                    rec = json.loads(recs[idx - 1])
                    text = bytes(rec["e"]).decode("latin-1")
                    if "RecNoPanic" in invs:
                        violations.append(dict(kind="panic", **{"class": "i%d %r" % (rec["id"], text)},
                                               what="Get panicked on the index file %r (rejected by TLC: RecNoPanic)" % text,
                                               input=dict(index_file=text, bytes=rec["e"], id="i%d" % rec["id"])))
                    else:
                        trace_drift += 1
                        drift.append(dict(kind="trace-" + ",".join(sorted(invs)), what="the real Get and the grammar of IndexEntry.tla differ on %r" % text,
                                          input=dict(index_file=text, id="i%d" % rec["id"], real_accepts=rec["acc"])))
            counters["drift_total"] = counters.get("drift_total", 0) + trace_drift
            runs.append(dict(config="fuzz", records=nrand, validated_by_tlc=res.distinct, rejected=len(bad)))
            log("C05 fuzz: %d records of the real Get validated by TLC, %d rejected" % (nrand, len(bad)))


    def stage_envdamage():
        # (C) states that reads and writes of file contents cannot produce (links to themselves, directories in place of
        # files and the other way round): lookups must not panic and must stay sound
        out = ctx.path("envdamage.json")
        run_driver(ctx, [drv, "-mode", "envdamage", "-work", ctx.mkdir("work-envdamage"), "-out", out], timeout=600)
        r = absorb(out, "envdamage")
        runs.append(dict(config="envdamage", states=r["counters"].get("envdamage_states", 0)))

    guarded(stage_entries)
    guarded(stage_fuzz)
    guarded(stage_envdamage)

    # panics are reported by the driver and by TLC: once is enough
    seen = set()
    uniq = []
    for v in violations:
        v.setdefault("class", "")
        key = (v.get("kind"), v.get("class"))
        if key in seen:
            continue
        seen.add(key)
        uniq.append(v)
    coverage = dict(
        evaluations=evals, distinct_nontrivial=nontriv,
        rule=("histories: every transition of the state graph of MC_CacheSeq (VIEW hides the history, so each abstract directory x ghost state is "
              "reached by one representative path; bounds per run in 'runs') is one test: path, then the action, judged, then Get / GetBytes / GetFile "
              "of every id and the projected directory; between the steps of a path seeded probes (VERIF_SEED) call the lookups and evaluate the "
              "statement's predicates. non-trivial = more than one action or some damage. "
              "index entries: case 0 (canonical) + 175 x 15 single substitutions + 175 truncations + 12 extensions + every %d-th (offset %d) of the "
              "%d double substitutions at 22 field-boundary positions; non-trivial = differs from the canonical entry. "
              "%d seeded random index files recorded from the real Get and validated by TLC (Trace_IndexEntry, 16 lanes)."
              % (stride, offset, N_TWO_ALL, nrand)),
        samples=samples[:10], exhaustive=True,
        exhaustive_scope="all histories within the bounds of each hist run modulo the VIEW; all single substitutions / truncations / extensions; "
                         "double substitutions are %s" % ("sampled" if stride > 1 else "complete"),
        history_transitions=hist_transitions, index_entries=next((r["entries_emitted"] for r in runs if r.get("config") == "entries"), 0),
        traces_validated_against_impl=nrand, runs=runs, counters=counters, drift=drift[:10],
        drift_total=counters.get("drift_total", 0), l2_conformant=(counters.get("drift_total", 0) == 0))
    return conclude(ctx, uniq, "model_checking", coverage, ASSUME)


REGISTRY = dict(
    category="model_checking", design_ref="DESIGN.md section 3 C05",
    text="CacheSeq.tla models the cache directory at API level (index entry per id, content-addressed output per content, both damageable by "
         "truncate / extend / flip / delete / replace) and states the statement's sentences as invariants over history ghosts (promise[id], stored); "
         "TLC checks them in every state reachable with <= MaxPut stores and <= MaxDam acts of damage and emits one test per transition, replayed into "
         "the real cache package with the SHA-256 and size predicates evaluated on everything a lookup returns. IndexEntry.tla is the 175-byte entry "
         "grammar written twice (code shaped / statement shaped, equivalence checked by TLC); its near-valid neighbourhood is replayed into Get / GetBytes / "
         "GetFile and seeded random index files recorded from the real Get are validated by TLC. Exhaustive within small bounds: the right level for a "
         "store whose failures need a specific short history (damage, then the one lookup or re-store that trusts it).",
    note="trusted: TLC, the reading of the statement in CacheSeq.tla (Bug_CacheSeq_*.cfg show each law can fail), the driver's comparison code, "
         "plain os file operations as damage; measured: quick 196k transitions (12k states), thorough see evidence",
    technique="TLA+ directory model with history ghosts model-checked by TLC; one generated test per transition replayed into the real cache package; "
              "byte-level entry grammar enumerated by TLC and replayed; real traces validated by TLC")
