"""C06 lockedfile: a write lock excludes every other holder, across goroutines and processes."""
from vlib import *
from lockedfile_common import *

ASSUME = [
    "flock(2) semantics are the kernel's own: the shim issues the real flock with LOCK_NB when the schedule lets an actor try; locks are "
    "per open file description, so goroutines of one process conflict exactly like processes (free mode adds real processes)",
    "hold intervals: [acq logged after the acquiring call returned, rel logged before the releasing call] for OpenFile/Edit/Create/Mutex; "
    "[first, last body file operation] for Read/Write/Transform; in free mode one O_APPEND log orders events of all processes, so a logged overlap is a real overlap",
    "mode perm: every open for writing is refused with EACCES by the os shim (a lock file or data file the caller may read but not write): "
    "the calls fail, and no call may enter a writer's critical section on a weaker open",
    "an unlocked per-domain witness file stamped and re-read by every write-lock holder detects overlap independently of any log",
]


def check(ctx):
    quick = ctx.tier == "quick"
    drv = build(ctx)
    cfgs, res = model_check(ctx, "C06")
    bugs = bug_sanity(ctx) if (not quick or ctx.selftest) else []
    jobs = [("dfs", "C06", "dfs", cfgs, ["-bound", "2" if quick else "3", "-maxruns", "1500" if quick else "60000"]),
            ("random", "C06", "random", cfgs, ["-runs", "1500" if quick else "40000"]),
            ("perm", "C06", "perm", cfgs, ["-bound", "2", "-maxruns", "400" if quick else "5000"]),
            ("free", "C06", "free", cfgs, ["-runs", "2" if quick else "20", "-procs", "4", "-gor", "4", "-iters", "10" if quick else "20"])]
    results, files = drive_all(ctx, drv, jobs)
    recs, violations = lock_l1(ctx, files)
    coverage = dict(
        evaluations=sum(r["counters"].get("runs", 0) for r in results.values()), distinct_nontrivial=len(recs),
        rule=("runs of the real lockedfile package: for each program of MC_Lockedfile family C06 (3 actors: OpenFile/Edit/Create holders, "
              "Read/Write/Transform, shared and separate Mutex values) a bounded DFS over all scheduling choices (preemption bound %s; the "
              "kernel decides every flock), seeded random/PCT schedules, and free runs of 4 processes x 4 goroutines with real blocking "
              "flock. distinct_nontrivial = distinct traces, each validated by TLC against the locking contract (Trace_LockL1)" % ("2" if quick else "3")),
        samples=results["dfs"]["samples"][:2] + results["free"]["samples"][:1],
        traces_validated_against_impl=len(recs), runs_by_mode={t: r["counters"] for t, r in results.items()},
        bug_configs_rejected_by_tlc=bugs, exhaustive=(results["dfs"]["counters"].get("dfs_truncated", 0) == 0),
        l2_note="Lockedfile.tla (L2) is model-checked by TLC and supplies the program family; conformance of real runs is judged at L1 only")
    settle(ctx, violations)
    return conclude(ctx, violations, "model_checking", coverage, ASSUME)


REGISTRY = dict(
    category="model_checking", design_ref="DESIGN.md section 3 C06",
    text="Lockedfile.tla decomposes every API call into open / flock / truncate / body / unlock / close; TLC checks exclusion of "
         "writers, sharing among readers, mutex exclusion and absence of lock deadlock over all interleavings of 3 actors (bug switches "
         "NoLock, WriteShared, TruncBeforeLock are rejected). The real package, with os / syscall / sync redirected to shims, runs under "
         "a cooperative scheduler in which the real flock(2) decides admission: bounded exhaustive DFS, PCT/random, plus free multi-process "
         "runs; holders come from Open / Edit / Create / OpenFile with O_EXCL and O_APPEND, a FIFO, a descriptor inherited by a child process, shared and per-actor Mutex values, and a mode in which every open for writing is refused (nobody may then get in on a weaker open). Every run's event trace is validated by TLC against the contract: no two hold intervals on one file overlap unless both "
         "are readers; witness files give log-independent confirmation.",
    note="trusted: TLC, the kernel's flock, the vos/vsyscall/vsync shims and scheduler, O_APPEND log ordering across processes",
    technique="TLA+ lock-protocol model checked by TLC; controlled schedules (kernel flock decides) + free multi-process runs of the real lockedfile; hold-interval traces validated by TLC")
