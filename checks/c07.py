"""C07 lockedfile: Read/Write/Transform linearize; Transform keeps the old contents on error."""
from vlib import *
from lockedfile_common import *

ASSUME = [
    "linearizability is decided by TLC on recorded call/return histories (silent linearization steps); log order only "
    "under-approximates overlap (call logged before the call, ret after the return)",
    "under the cooperative scheduler every file operation is atomic; free mode (2 processes x 2 goroutines per history) provides real overlap",
    "fault enumeration: every write step (WriteAt / Truncate) Transform performs, failing outright or after a short write, for results "
    "longer (append, grow), shorter (chop) and of equal length, plus a failing transformation function; io.Copy failures inside Write are documented as non-atomic and not asserted",
]


def check(ctx):
    quick = ctx.tier == "quick"
    drv = build(ctx)
    cfgs, res = model_check(ctx, "C07")
    fcfgs, fres = model_check(ctx, "Fault", faults=1)
    bugs = bug_sanity(ctx) if (not quick or ctx.selftest) else []
    jobs = [("dfs", "C07", "dfs", cfgs, ["-bound", "2" if quick else "3", "-maxruns", "1200" if quick else "60000"]),
            ("random", "C07", "random", cfgs, ["-runs", "1500" if quick else "40000"]),
            ("free", "C07", "free", cfgs, ["-runs", "6" if quick else "200", "-procs", "2", "-gor", "2", "-iters", "12"]),
            ("fault", "Fault", "fault", fcfgs, [])]
    results, files = drive_all(ctx, drv, jobs)
    recs, violations = register_l1(ctx, files)
    recs2, v2 = lock_l1(ctx, files)      # fault runs: previous contents remain; all runs: termination, witnesses
    violations += [v for v in v2 if "L1NoOverlap" not in v["kind"] or True]
    coverage = dict(
        evaluations=sum(r["counters"].get("runs", 0) for r in results.values()), distinct_nontrivial=len(recs),
        rule=("histories of the real lockedfile.Read/Write/Transform: bounded DFS over all scheduling choices for each program of "
              "MC_Lockedfile family C07 (preemption bound %s), seeded random/PCT schedules, free multi-process histories; each history is "
              "checked for linearizability by TLC (Trace_Register). Fault family: Transform of every length relation with a failure "
              "injected at each write step (%d fail + %d short) and a failing function: the file must keep its previous contents. "
              "distinct_nontrivial = distinct histories" % ("2" if quick else "3", results["fault"]["counters"].get("inject_fail", 0),
                                                            results["fault"]["counters"].get("inject_short", 0))),
        samples=results["fault"]["samples"][:2] + results["dfs"]["samples"][:1],
        traces_validated_against_impl=len(recs), distinct_api_histories_decided_by_tlc=getattr(ctx, "register_histories", 0), runs_by_mode={t: r["counters"] for t, r in results.items()},
        bug_configs_rejected_by_tlc=bugs, exhaustive=(results["dfs"]["counters"].get("dfs_truncated", 0) == 0))
    settle(ctx, violations)
    return conclude(ctx, violations, "model_checking", coverage, ASSUME)


REGISTRY = dict(
    category="model_checking", design_ref="DESIGN.md section 3 C07",
    text="Lockedfile.tla models Read / Write / Transform at system-call granularity including Transform's tail-first write, rollback "
         "and truncation; TLC checks that reads only ever see whole values, that appended tokens are never lost and that one failing write "
         "step leaves the old contents (bug switches TruncBeforeLock, WriteShared, HeadFirst are rejected). Histories of the real package "
         "(controlled DFS / PCT schedules, free multi-process runs) are decided linearizable or not by TLC's search over silent "
         "linearization steps; a failure is injected at every write step of the real Transform for all length relations.",
    note="trusted: TLC, shims and scheduler, the driver's call/return logging, plain-os read of the final contents",
    technique="TLA+ system-call model checked by TLC; linearizability of recorded real histories decided by TLC (silent Lin steps); fault injection at every write step of Transform via os-import overlay")
