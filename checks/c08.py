"""C08 -- diff.Diff returns a correct, well-formed unified diff.

spec/diff/PatchApply.tla is an independent patch applier written as a state
machine (forward old->new and reverse new->old appliers driven by the same
events).  TLC
  * model-checks the machine itself (MC_PatchApply: it accepts exactly the
    event sequences that satisfy the declarative ValidPatch, in both
    directions; Bug_*.cfg show the laws are not vacuous),
  * certifies the input domains (MC_DiffDomain: D1 enumeration is a bijection,
    D2 pairs are generated and emitted by TLC),
  * replays every diff the REAL diff.Diff returned as a behaviour of the
    machine (Trace_PatchApply, one machine action per tokenised event, traces
    concatenated with TraceReset) and names every diff it rejects.
"""
import json
import os
import re
from concurrent.futures import ThreadPoolExecutor

from vlib import *

SPECDIR = "diff"

ASSUME = [
    "line contents are abstracted to identities (the driver interns them): diff.Diff only compares lines for equality, "
    "so exhaustive domains are over equality patterns; look-alike contents are exercised by the random domain D3",
    "the driver's tokeniser (count-driven, no judgement) and its rendering of <<id, nl>> lines to bytes are trusted",
    "file names in the header are short printable names without newlines",
    "the consumer in testscript/cmd.go: the diff a failing cmp / cmpenv / cmp stdout logs is cut out of the real failure log "
    "(between the echoed command and the FAIL line) and replayed like a direct Diff call against the texts that were compared "
    "(file2 after expansion for cmpenv); a log the driver cannot read is drift; the verdict of cmp itself is C01's",
    "coverage-guided fuzzing named in the quantifier is replaced by exhaustive small domains plus seeded random long texts",
]

V = 3


def mc_cfg(bug="none", n=1, start=2, count=2, hunks=2, v=2):
    return ("SPECIFICATION Spec\nCONSTANTS\n  Bug = \"%s\"\n  MCV = %d\n  MCN = %d\n  MaxStart = %d\n  MaxCount = %d\n"
            "  MaxHunks = %d\nINVARIANTS InvDecl InvSym InvShape InvNewSideArithmetic InvExist\nCHECK_DEADLOCK FALSE\n"
            % (bug, v, n, start, count, hunks))


def dom_cfg(v, n, b, sites, sample, nlv="{0, 1, 2}"):
    return ("SPECIFICATION Spec\nCONSTANTS\n  V = %d\n  N = %d\n  B = %d\n  MaxSites = %d\n  Sample = %d\n"
            "  NLVariants = %s\nINVARIANT InvD2\nCHECK_DEADLOCK FALSE\n" % (v, n, b, sites, sample, nlv))


def trace_cfg(v, n, lo, count, strict=False):
    return ("SPECIFICATION Spec\nCONSTANTS\n  Bug = \"none\"\n  K = 1\n  V = %d\n  N = %d\n  D1Lo = %d\n  D1Count = %d\n"
            "  Strict = %s\nINVARIANT AllAccepted\nCHECK_DEADLOCK FALSE\n"
            % (v, n, lo, count, "TRUE" if strict else "FALSE"))


def _entry(s):
    # entries that are not valid UTF-8 travel hex-encoded (see tabT in the driver); shown here as Latin-1
    return bytes.fromhex(s[5:]).decode("latin-1") if s.startswith("\x00hex:") else s


def render(t, tab):
    return "".join(_entry(tab[l[0] - 1]) + ("\n" if l[1] == 1 else "") for l in t)


class Shard:
    def __init__(self, path, name, lo=0, count=0):
        self.path, self.name, self.lo, self.count = path, name, lo, count
        self.lines = 0
        self.events = 0
        self.v, self.n = V, 1


_RUN = [0]


def split(ctx, src, name, nshards, d1):
    """Split an ndjson trace into contiguous shards (each validated by its own TLC)."""
    with open(src) as fh:
        lines = fh.readlines()
    n = len(lines)
    nshards = max(1, min(nshards, n))
    shards = []
    per = (n + nshards - 1) // nshards
    for s in range(nshards):
        part = lines[s * per:(s + 1) * per]
        if not part:
            break
        d = ctx.mkdir("shard", "%s-%d" % (name, s))
        p = os.path.join(d, "trace.ndjson")
        with open(p, "w") as fh:
            fh.writelines(part)
        sh = Shard(p, "%s-%d" % (name, s), lo=(s * per + 1) if d1 else 1, count=len(part) if d1 else 0)
        sh.lines = len(part)
        sh.events = sum(l.count("],[") for l in part)  # rough, only for balancing
        shards.append(sh)
    return shards, n


def validate(ctx, shards, pool):
    """Run Trace_PatchApply on every shard (one single-worker TLC each, in parallel).
    Returns (reports, states, transitions)."""
    def one(sh):
        emit = sh.path + ".emit"
        res = tlc(ctx, SPECDIR, "Trace_PatchApply.tla", "Trace_%s.cfg" % sh.name,
                  cfg_text=trace_cfg(sh.v, sh.n, sh.lo, sh.count), files=[sh.path], workers=1, heap="3g",
                  emit_to=emit, timeout=2400, expect_violation=True, name="trace-" + sh.name)
        return sh, res, emit
    reports = []
    states = trans = 0
    for sh, res, emit in pool.map(one, shards):
        if not res.ok:
            raise NoVerdict("trace validation of shard %s did not complete (harness or spec problem, not a verdict):\n%s"
                            % (sh.name, (res.violation or "")[:3000]))
        states += res.distinct
        trans += max(res.generated - 1, 0)
        recs = None
        if os.path.exists(emit):
            with open(emit) as fh:
                for line in fh:
                    rep = json.loads(line)
                    if recs is None:
                        with open(sh.path) as th:
                            recs = th.readlines()
                    rep["record"] = json.loads(recs[rep["c"] - 1])
                    reports.append(rep)
    return reports, states, trans


def slug(s):
    return re.sub(r"[^a-z0-9]+", "-", s.lower()).strip("-")[:60]


def show(ctx, drv, rec, selfbug=None):
    p = ctx.path("show", "rec.json")
    with open(p, "w") as fh:
        json.dump(rec, fh)
    out = ctx.path("show", "out.json")
    argv = [drv, "-mode", "show", "-cases", p, "-out", out]
    if selfbug:
        argv += ["-selfbug", selfbug]
    run_driver(ctx, argv)
    with open(out) as fh:
        return json.load(fh)["extra"]["show"]


def confirm(ctx, bad):
    """TLC itself must report the named cases: Strict = TRUE makes acceptance an invariant."""
    d = ctx.mkdir("confirm")
    p = os.path.join(d, "trace.ndjson")
    with open(p, "w") as fh:
        for rep in bad:
            fh.write(json.dumps(rep["record"]) + "\n")
    res = tlc(ctx, SPECDIR, "Trace_PatchApply.tla", "Trace_confirm.cfg", cfg_text=trace_cfg(V, 1, 1, 0, strict=True),
              files=[p], workers=1, heap="2g", timeout=600, expect_violation=True, name="confirm")
    if res.ok or "AllAccepted" not in (res.violation or ""):
        raise NoVerdict("TLC named rejected diffs but the strict replay did not violate AllAccepted:\n%s"
                        % (res.violation or "")[:2000])
    return res.violation


def run_domains(ctx, drv, pool, selfbug=None, small=False):
    """Drive the real code over D1, D2, D3 and have TLC replay every returned diff."""
    quick = ctx.tier == "quick"
    n = 3 if small else (4 if quick else 5)
    sb = ["-selfbug", selfbug] if selfbug else []
    drv_results = []
    _RUN[0] += 1
    tag = "r%d" % _RUN[0]

    # domains: certified / generated by TLC
    d2cases = ctx.path(tag, "d2cases.ndjson")
    if small:
        b, sites, sample = 14, 1, 0
    elif quick:
        b, sites, sample = 14, 2, 1000
    else:
        b, sites, sample = 16, 3, 0
    def drive(mode, trace, extra):
        out = ctx.path(tag, "drv-%s-%d.json" % (mode, len(drv_results)))
        run_driver(ctx, [drv, "-mode", mode, "-trace", trace, "-out", out] + extra + sb)
        with open(out) as fh:
            r = json.load(fh)
        drv_results.append(r)
        return r

    nsh = 4 if small else (8 if quick else 12)
    shards = []
    d1doms = []

    def d1_pass(v, n, cfg, emit_to, label):
        """TLC certifies the enumeration of D1(v, n) (and emits D2 when asked); the driver enumerates the
        same pairs through the real Diff; the shards are later checked record by record against PairAt."""
        res = tlc(ctx, SPECDIR, "MC_DiffDomain.tla", "MC_DiffDomain_%s.cfg" % label, cfg_text=cfg,
                  emit_to=emit_to, workers=min(NCPU, 12), timeout=1800, name="domain-%s-%s" % (tag, label))
        require_tlc_ok(res, "domain definitions D1/D2")
        d1size = None
        with open(res.out_path, errors="replace") as fh:
            for line in fh:
                m = re.match(r'<<"D1SIZE", (\d+), (\d+), (\d+), (\d+)>>', line)
                if m and int(m.group(1)) == v and int(m.group(2)) == n:
                    d1size = int(m.group(4))
        if not d1size:
            raise NoVerdict("MC_DiffDomain did not report the size of D1")
        t1 = ctx.path(tag, "d1-%s.ndjson" % label)
        r = drive("d1", t1, ["-v", str(v), "-n", str(n)])
        if r["extra"]["d1_size"] != d1size or r["evaluations"] != d1size:
            raise NoVerdict("driver enumerated %d pairs, the specification's D1(%d,%d) has %d"
                            % (r["evaluations"], v, n, d1size))
        s1, cnt = split(ctx, t1, "%s-d1%s" % (tag, label), nsh, d1=True)
        if cnt != d1size:
            raise NoVerdict("D1 trace has %d records, expected %d" % (cnt, d1size))
        os.remove(t1)
        for sh in s1:
            sh.v, sh.n = v, n
        shards.extend(s1)
        d1doms.append((v, n, d1size))
        return res

    res = d1_pass(V, n, dom_cfg(V, n, b, sites, sample), d2cases, "a")
    n_d2 = res.emits
    if n_d2 * 2 != res.distinct:
        raise NoVerdict("D2: %d cases emitted for %d states" % (n_d2, res.distinct))
    if not quick and not small:
        # second exhaustive domain: two line values, longer texts (more duplicate lines, no anchors)
        d1_pass(2, 7, dom_cfg(2, 7, 1, 0, 0, nlv="{0}"), None, "b")
    d1size = sum(d[2] for d in d1doms)
    # D2
    t2 = ctx.path(tag, "d2.ndjson")
    r = drive("cases", t2, ["-cases", d2cases])
    if r["evaluations"] != n_d2:
        raise NoVerdict("driver evaluated %d of %d D2 cases" % (r["evaluations"], n_d2))
    with open(d2cases) as fh:
        want = sorted(json.dumps(json.loads(l), sort_keys=True) for l in fh)
    with open(t2) as fh:
        got = sorted(json.dumps({"old": x["old"], "new": x["new"]}, sort_keys=True) for x in map(json.loads, fh))
    if want != got:
        raise NoVerdict("D2 records are not the pairs TLC emitted")
    s2, _ = split(ctx, t2, tag + "-d2", max(2, nsh // 2), d1=False)
    shards += s2
    # D3
    n_d3 = 60 if small else (400 if quick else 20000)
    t3 = ctx.path(tag, "d3.ndjson")
    r = drive("random", t3, ["-count", str(n_d3)])
    s3, _ = split(ctx, t3, tag + "-d3", max(2, nsh // 2), d1=False)
    shards += s3

    # D4: the consumer (testscript cmp / cmpenv): the diff cut out of the real failure log
    n_d4 = 0
    if not selfbug:
        t4 = ctx.path(tag, "d4.ndjson")
        r = drive("consumer", t4, ["-count", str(40 if small else (240 if quick else 4000)), "-tmp", ctx.mkdir(tag, "consumer")])
        n_d4 = r["extra"]["consumer_records"]
        if n_d4 == 0:
            raise NoVerdict("the consumer mode produced no record (no failing cmp logged a diff the driver could cut out)")
        s4, _ = split(ctx, t4, tag + "-d4", 2, d1=False)
        shards += s4

    shards.sort(key=lambda s: -s.events)
    reports, states, trans = validate(ctx, shards, pool)
    total = d1size + n_d2 + n_d3 + n_d4
    events = sum(d["counters"].get("events", 0) for d in drv_results)
    nbad = len([x for x in reports if x["t"] == "BAD"])
    # one state per record plus one per replayed event; a rejected diff stops early
    if states > total + events or states < total or (nbad == 0 and states != total + events):
        raise NoVerdict("trace validation visited %d states for %d records with %d events (%d rejected)"
                        % (states, total, events, nbad))
    return dict(n=n, d1doms=d1doms, d1size=d1size, n_d2=n_d2, n_d3=n_d3, n_d4=n_d4, b=b, sites=sites, sample=sample, reports=reports,
                states=states, trans=trans, drv=drv_results, total=total)


def selftest(ctx, drv, pool):
    """The oracle must fail on broken variants: each Bug_*.cfg must make TLC find a violation of the
    machine's laws, and each corruption of the real output must be rejected by the trace validation."""
    ok = True
    for bug in ("CountsUnchecked", "OverlapAllowed", "NoNewlineIgnored"):
        res = tlc(ctx, SPECDIR, "MC_PatchApply.tla", "Bug_%s.cfg" % bug, workers=4, timeout=900,
                  expect_violation=True, name="bug-" + bug)
        found = (not res.ok) and "is violated" in (res.violation or "")
        log("selftest: Bug_%s.cfg -> %s" % (bug, "violation found (as required)" if found else "NO VIOLATION"))
        ok = ok and found
    for sb in ("offbyone", "startshift", "onezero", "dropmarker", "duphunk", "noheader", "nil", "nonnil"):
        r = run_domains(ctx, drv, pool, selfbug=sb, small=True)
        bad = [x for x in r["reports"] if x["t"] == "BAD"]
        reasons = sorted({x["f"] or x["r"] for x in bad})
        log("selftest: corruption %-10s -> %d of %d records rejected; reasons: %s"
            % (sb, len(bad), r["total"], "; ".join(reasons)[:300]))
        ok = ok and len(bad) > 0
        if bad and sb == "offbyone":
            confirm(ctx, bad[:2])
            log("selftest: strict replay: TLC reports invariant AllAccepted violated (as required)")
    log("selftest %s" % ("passed" if ok else "FAILED"))
    return 0 if ok else 2


def check(ctx):
    quick = ctx.tier == "quick"
    drv = go_build(ctx, "drivers/diff")
    pool = ThreadPoolExecutor(max_workers=12 if not quick else 8)
    if getattr(ctx, "selftest", False):
        return selftest(ctx, drv, pool)

    # (1) the machine itself, model-checked (runs beside the domain work)
    if quick:
        mcs = [("mc-n1", mc_cfg(n=1, start=2, count=2, hunks=2), 3)]
    else:
        mcs = [("mc-n1", mc_cfg(n=1, start=2, count=2, hunks=2), 3),
               ("mc-n2-h1", mc_cfg(n=2, start=3, count=2, hunks=1), 4),
               ("mc-n2-h2", mc_cfg(n=2, start=2, count=1, hunks=2), 4),
               ("mc-v1-n2-h2", mc_cfg(n=2, start=3, count=2, hunks=2, v=1), 4),
               ("mc-v1-n3-h2", mc_cfg(n=3, start=4, count=2, hunks=2, v=1), 6)]
    mpool = ThreadPoolExecutor(max_workers=3)
    futs = [mpool.submit(tlc, ctx, SPECDIR, "MC_PatchApply.tla", "MC_%s.cfg" % nm, cfg_text=cfg, workers=w,
                         timeout=1800, expect_violation=True, name=nm, heap="4g") for nm, cfg, w in mcs]

    # (2) + (3) domains, real code, replay by TLC
    r = run_domains(ctx, drv, pool)

    mc_states = 0
    for f in futs:
        res = f.result()
        require_tlc_ok(res, "laws of the patch-application machine")
        mc_states += res.distinct
        ctx.tlc_states += res.distinct
        ctx.tlc_transitions += max(res.generated - 1, 0)
    ctx.tlc_states += r["states"]
    ctx.tlc_transitions += r["trans"]

    evals = nontriv = 0
    counters, drift, samples = {}, [], []
    for d in r["drv"]:
        evals += d["evaluations"]
        nontriv += d["distinct_nontrivial"]
        drift.extend(d["drift"])
        samples.extend(d["samples"][:3])
        for k, v in d["counters"].items():
            counters[k] = counters.get(k, 0) + v

    if len(r["d1doms"]) == 2:
        # pairs that belong to both exhaustive domains were counted twice by the two driver runs
        (v1, n1, _), (v2, n2, _) = r["d1doms"]
        t = 1 + 2 * sum(min(v1, v2) ** k for k in range(1, min(n1, n2) + 1))
        nontriv -= t * t - t
        r["d1size"] -= t * t
    bad = [x for x in r["reports"] if x["t"] == "BAD"]
    for x in r["reports"]:
        if x["t"] == "DRIFT":
            rec = x["record"]
            counters["drift_total"] = counters.get("drift_total", 0) + 1
            if len(drift) < 10:
                drift.append(dict(kind="hunk-shape", what="; ".join(x["notes"]),
                                  input=dict(old=render(rec["old"], rec["tab"]), new=render(rec["new"], rec["tab"]))))
    violations = []
    if bad:
        cex = confirm(ctx, bad[:3])
        shown = {}
        for x in bad:
            rec = x["record"]
            reason = x["f"] or x["r"]
            kind = "rejected:" + slug(reason)
            old, new = render(rec["old"], rec["tab"]), render(rec["new"], rec["tab"])
            v = dict(kind=kind, **{"class": "old=%r new=%r" % (old, new)},
                     what="the independent patch applier (PatchApply.tla, replayed by TLC) rejects what diff.Diff(%r, %r) returned: "
                          "forward: %s; reverse: %s (after event %d)" % (old, new, x["f"] or "accepted so far",
                                                                        x["r"] or "accepted so far", x["e"]),
                     input=dict(old=old, new=new, old_name=rec["on"], new_name=rec["nn"]),
                     detail=dict(reason_forward=x["f"], reason_reverse=x["r"], event_index=x["e"], record=rec))
            if shown.get(kind, 0) < 3:
                shown[kind] = shown.get(kind, 0) + 1
                s = show(ctx, drv, rec)
                v["detail"]["diff_returned"] = s["diff"]
                v["detail"]["panic"] = s["panic"]
                if len(violations) == 0:
                    v["detail"]["tlc_counterexample"] = cex[-3000:]
            else:
                v["detail"].pop("record")
            violations.append(v)

    coverage = dict(
        evaluations=evals, distinct_nontrivial=nontriv,
        rule=("every call of the real diff.Diff is one record; TLC (Trace_PatchApply) replays the returned diff as a behaviour "
              "of the patch-application machine, forward and reverse, and checks 'nothing returned <=> texts identical'. "
              "D1 = %s, texts with and without final newline (enumeration certified "
              "by MC_DiffDomain, each record checked against PairAt by TLC); D2 = %d pairs emitted by TLC: backbone of %d unique "
              "lines, all edit choices with <= %d sites x {del, ins, rep, dup}%s x 3 final-newline variants; D3 = %d seeded random "
              "pairs (duplicate lines, diff-syntax and printf-verb look-alike contents, files up to ~1800 lines); D4 = %d diffs logged by failing cmp / cmpenv / cmp stdout lines of real scripts. non-trivial = the two texts "
              "differ (a diff must be produced); distinct = distinct (old, new) byte pairs, counted by the driver"
              % (" and ".join("all %d ordered pairs of texts of <= %d lines over %d line values" % (sz, nn, vv)
                              for vv, nn, sz in r["d1doms"]), r["n_d2"], r["b"], r["sites"],
                 " + %d random choices with %d sites" % (r["sample"], r["sites"] + 1) if r["sample"] else "", r["n_d3"], r["n_d4"])),
        samples=samples[:6], exhaustive=True, exhaustive_pairs=r["d1size"] + r["n_d2"],
        traces_validated_against_impl=r["total"], machine_states_model_checked=mc_states,
        trace_states=r["states"], diffs_rejected=len(bad), counters=counters, drift=drift[:10],
        drift_total=counters.get("drift_total", 0), l2_conformant=(counters.get("drift_total", 0) == 0))
    return conclude(ctx, violations, "model_checking", coverage, ASSUME)


REGISTRY = dict(
    category="model_checking", design_ref="DESIGN.md section 3 C08",
    text=("PatchApply.tla is an independent patch applier written as a TLA+ state machine (forward and reverse appliers, hunk "
          "header arithmetic incl. the 0,0 empty-side convention, order/overlap, counts, no-newline attribute). TLC model-checks "
          "the machine against a declarative definition of a valid patch for every event sequence over a tiny universe "
          "(Bug_*.cfg: violations found when the machine is broken), certifies the input domains, and replays EVERY diff "
          "returned by the real diff.Diff over D1 (all pairs of short texts), D2 (multi-hunk backbone, generated by TLC) and "
          "D3 (seeded random, diff-syntax and printf-verb look-alike lines, long files) and D4 (the diff that failing cmp / cmpenv / cmp stdout lines of real scripts write to the log, cut out and judged against the texts that were compared) as a behaviour of the machine; every rejected diff is named and "
          "re-confirmed by TLC as an invariant violation with the rejecting prefix as counterexample. Exhaustive inside the "
          "bounds, sampled beyond: the right level for a pure function whose failure modes are arithmetic at hunk and file boundaries."),
    note="trusted: TLC, PatchApply.tla (itself model-checked against ValidPatch), the driver's count-driven tokeniser and "
         "line interning; contents abstracted to identities in D1/D2; the amount of context is reported as drift only",
    technique="TLA+ patch-application machine; real diff.Diff outputs tokenised into events and replayed by TLC (trace validation), "
              "domains defined and certified in TLA+")
