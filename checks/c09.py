"""C09 par.Work: exactly once, at most n at a time, returns when done, terminates."""
from vlib import *
from par_common import *

ASSUME = [
    "the cooperative scheduler runs one actor at a time and switches only at sync / rand operations (sound reduction: "
    "the code between two operations touches shared state only under w.mu); unsynchronised accesses are the race detector's job (free mode, -race)",
    "item graphs come from the MCGraphs family (<= 4 items) for exhaustive modes and seeded random graphs (<= 8 items, n <= 6) beyond",
    "bounded DFS explores every scheduling / rand / Signal choice of the real code up to the stated preemption bound",
]


def check(ctx):
    quick = ctx.tier == "quick"
    drv = build_controlled(ctx, "drivers/parwork", "parwork")
    free = build_free(ctx, "drivers/parwork", "parwork-free")

    # 1. TLC: L2 model satisfies the laws (safety with VIEW, liveness under fairness),
    #    and emits one schedule per transition of its state graph
    cases = ctx.path("cases.ndjson")
    res = tlc(ctx, "parwork", "MC_ParWork.tla", "MC_ParWork.cfg", emit_to=cases, workers=8, timeout=1200)
    require_tlc_ok(res, "ParWork L2 safety")
    n_sched = res.emits
    live = tlc(ctx, "parwork", "MC_ParWork.tla", "Live_ParWork.cfg", workers=8, timeout=1200)
    require_tlc_ok(live, "ParWork L2 termination under weak fairness")
    bugs_caught = []
    if not quick or ctx.selftest:
        for b in ["NoBroadcast", "NoDedupe", "EarlyDone", "ExtraRunner"]:
            r = tlc(ctx, "parwork", "MC_ParWork.tla", "Bug_ParWork_%s.cfg" % b, workers=4, timeout=600, expect_violation=True)
            if r.ok:
                raise NoVerdict("sanity: TLC did not reject Bug=%s - invariants vacuous?" % b)
            bugs_caught.append(b)

    # 2. the real code: replay of every TLC schedule, bounded DFS, random/PCT, free mode under -race
    results, trace_files, crashed = {}, [], []
    renv, rdir = race_env(ctx, "free")
    def drive(binary, mode, extra):
        tf = ctx.path("traces-%s.ndjson" % mode)
        out = ctx.path("result-%s.json" % mode)
        try:
            run_driver(ctx, [binary, "-mode", mode, "-cases", cases, "-traces", tf, "-out", out] + extra, timeout=3000,
                       env=renv if mode == "free" else None)
        except NoVerdict as e:
            if mode != "free":
                raise
            # the free-mode process died (e.g. a panic in a goroutine the package started itself cannot be recovered
            # by the driver): what the controlled modes observed is judged first; without a violation there it is no verdict
            crashed.append(str(e))
            results[mode] = dict(counters={}, samples=[], drift=[], violations=[], evaluations=0, distinct_nontrivial=0, extra={})
            return
        results[mode] = load_result(out)
        trace_files.append(tf)
    drive(drv, "replay", [])
    drive(drv, "dfs", ["-bound", "2" if quick else "3", "-maxruns", "60000" if quick else "400000"])
    drive(drv, "random", ["-runs", "3000" if quick else "100000"])
    big = ctx.path("big.ndjson")
    drive(free, "free", ["-runs", "300" if quick else "5000", "-big", big])
    stalled = sum(r["counters"].get("stalled_runs", 0) for r in results.values())
    if stalled:
        # the implementation blocks in a primitive the shims do not model (e.g. a channel): controlled execution was
        # given up, the verdict rests on free runs - so there are more of them
        log("controlled execution not applicable to this tree (%d runs stalled): verdict from free runs" % stalled)
        results["free1"] = results.pop("free")
        trace_files.pop()          # the second free job writes the same trace file again
        drive(free, "free", ["-runs", "4000" if quick else "20000"])

    # 3. TLC validates every distinct observable trace against the L1 contract
    recs, bad, vres = validate_traces(ctx, "parwork", "Trace_ParWork.tla", "Trace_ParWork.cfg", trace_files)
    violations = race_violations(rdir, "free runs of the unsubstituted par.Work")
    # 3b. the runs that are too large for an event trace: TLC judges their counters
    nbig = 0
    if os.path.exists(big) and os.path.getsize(big) > 0:
        bres = tlc(ctx, "parwork", "Trace_ParWorkBig.tla", "Trace_ParWorkBig.cfg", files=[big], workers=1, timeout=300, name="big")
        require_tlc_ok(bres, "validation of the large runs (the laws print BAD lines)")
        bigrecs = [json.loads(l) for l in open(big) if l.strip()]
        nbig = len(bigrecs)
        for idx, invs in sorted(bad_traces(bres).items()):
            rec = bigrecs[idx - 1]
            violations.append(dict(kind="l1-rejected:" + ",".join(sorted(invs)),
                                   what="the contract rejects a run of the real par.Work with n=%d in which one item adds %d others and each of those adds an "
                                        "earlier one again: %d calls of f for %d distinct items, at most %d for one item, at most %d in progress, end=%s (%s)"
                                        % (rec["n"], rec["items"] - 1, rec["fcalls"], rec["items"], rec["maxper"], rec["maxinprog"], rec["end"], ",".join(sorted(invs))),
                                   input=rec, **{"class": "%s|big|n=%d" % (",".join(sorted(invs)), rec["n"])}))
    for idx, invs in sorted(bad.items()):
        rec = json.loads(recs[idx - 1])
        evs = " ".join("%s(%s,%s)" % (e["e"], e["r"], e["x"]) for e in rec["events"])
        violations.append(dict(kind="l1-rejected:" + ",".join(sorted(invs)),
                               what="ParWorkL1 rejects a run of the real par.Work (n=%d, mode=%s, end=%s): %s" % (
                                   rec["n"], rec.get("mode"), rec["end"], ",".join(sorted(invs))),
                               **{"class": "%s|n=%d|%s" % (",".join(sorted(invs)), rec["n"], json.dumps(rec.get("graph"), sort_keys=True))},
                               input=dict(n=rec["n"], graph=rec.get("graph"), events=evs, schedule=rec.get("sched")),
                               detail=rec.get("detail", "")))
    runs = sum(r["counters"].get("runs", 0) for r in results.values())
    drift = sum((r["drift"] for r in results.values()), [])
    drift_total = sum(r["counters"].get("drift_total", 0) for r in results.values())
    counters = {m: r["counters"] for m, r in results.items()}
    coverage = dict(
        evaluations=runs,
        distinct_nontrivial=len(recs),
        rule=("one run of the real par.Work per TLC-generated schedule (one per transition of the ParWork L2 state graph: n<=3, "
              "7 item graphs), per DFS choice vector (every scheduling/rand/Signal choice, preemption bound %s), per seeded random/PCT "
              "schedule and per free-mode run under -race; distinct_nontrivial = distinct observable event traces (AddCall/DoCall/FStart/"
              "FEnd/DoReturn/End), each validated by TLC against ParWorkL1" % ("2" if quick else "3")),
        samples=(results["replay"]["samples"][:2] + results["random"]["samples"][:1]),
        traces_validated_against_impl=len(recs), runs_by_mode=counters,
        tlc_schedules_replayed=n_sched, l2_conformant=(drift_total == 0), drift_total=drift_total, drift=drift[:5],
        bug_configs_rejected_by_tlc=bugs_caught, exhaustive=(results["dfs"]["counters"].get("dfs_truncated", 0) == 0))
    if crashed and not violations:
        raise NoVerdict("the free-mode process died and the controlled modes found nothing:\n" + crashed[0][:3000])
    return conclude(ctx, violations, "model_checking", coverage, ASSUME)


REGISTRY = dict(
    category="model_checking", design_ref="DESIGN.md section 3 C09",
    text="ParWork.tla (implementation-shaped, one action per scheduling step of work.go) is model-checked by TLC for exactly-once, "
         "at-most-n, return-means-done, no-stuck and termination under fairness (bug switches are rejected). Every transition of its "
         "state graph is replayed as a schedule into the real par.Work, built with sync/math-rand redirected to a cooperative scheduler; "
         "the real code is additionally explored by preemption-bounded exhaustive DFS, random/PCT schedules and free runs under -race. "
         "Every distinct observable trace of the real code is validated by TLC against the contract spec ParWorkL1; deadlock is "
         "detected by the scheduler as a fact. Schedule-dependent property, so controlled exhaustive scheduling is the right level.",
    note="trusted: TLC, the cooperative scheduler and sync shims (harness/_shim), the overlay rewriting of imports and go statements, "
         "the driver's event logging inside f",
    technique="TLA+ L2 model checked by TLC; TLC-generated schedules + bounded DFS + PCT replayed into real par.Work via import overlay; traces validated by TLC against L1 contract")
