"""C10 par.Cache: f once per key, Do returns that value after completion, Get never blocks."""
from vlib import *
from par_common import *

ASSUME = [
    "atomics are sequentially consistent scheduling points; memory-model level publication (result written before done without "
    "a data race) is checked by the race detector run on the unsubstituted package (free mode), not by the specification",
    "programs: the MCProgs family (3 actors, 2 keys) for TLC schedules and DFS; seeded random programs (<= 5 actors, 3 keys, <= 4 calls each) beyond",
]


def check(ctx):
    quick = ctx.tier == "quick"
    drv = build_controlled(ctx, "drivers/parcache", "parcache")
    free = build_free(ctx, "drivers/parcache", "parcache-free")
    cases = ctx.path("cases.ndjson")
    res = tlc(ctx, "parcache", "MC_ParCache.tla", "MC_ParCache.cfg", emit_to=cases, workers=8, timeout=1200)
    require_tlc_ok(res, "ParCache L2 safety")
    n_sched = res.emits
    live = tlc(ctx, "parcache", "MC_ParCache.tla", "Live_ParCache.cfg", workers=8, timeout=1200)
    require_tlc_ok(live, "ParCache L2 termination under weak fairness")
    bugs_caught = []
    if not quick or ctx.selftest:
        for b in ["NoSecondCheck", "NoLock", "DoneBeforeResult"]:
            r = tlc(ctx, "parcache", "MC_ParCache.tla", "Bug_ParCache_%s.cfg" % b, workers=4, timeout=600, expect_violation=True)
            if r.ok:
                raise NoVerdict("sanity: TLC did not reject Bug=%s" % b)
            bugs_caught.append(b)
    results, trace_files, crashed = {}, [], []
    renv, rdir = race_env(ctx, "free")
    def drive(binary, mode, extra):
        tf = ctx.path("traces-%s.ndjson" % mode)
        out = ctx.path("result-%s.json" % mode)
        try:
            run_driver(ctx, [binary, "-mode", mode, "-cases", cases, "-traces", tf, "-out", out] + extra, timeout=3000,
                       env=renv if mode == "free" else None)
        except NoVerdict as e:
            if mode != "free":
                raise
            # the free-mode process died (e.g. a panic in a goroutine the package started itself cannot be recovered
            # by the driver): what the controlled modes observed is judged first; without a violation there it is no verdict
            crashed.append(str(e))
            results[mode] = dict(counters={}, samples=[], drift=[], violations=[], evaluations=0, distinct_nontrivial=0, extra={})
            return
        results[mode] = load_result(out)
        trace_files.append(tf)
    drive(drv, "replay", [])
    drive(drv, "dfs", ["-bound", "2" if quick else "3", "-maxruns", "40000" if quick else "400000"])
    drive(drv, "random", ["-runs", "3000" if quick else "30000"])
    drive(free, "free", ["-runs", "2000" if quick else "12000"])
    stalled = sum(r["counters"].get("stalled_runs", 0) for r in results.values())
    if stalled:
        # the implementation blocks in a primitive the shims do not model (e.g. a channel): controlled execution was
        # given up, the verdict rests on free runs - so there are more of them
        log("controlled execution not applicable to this tree (%d runs stalled): verdict from free runs" % stalled)
        results["free1"] = results.pop("free")
        trace_files.pop()          # the second free job writes the same trace file again
        drive(free, "free", ["-runs", "12000" if quick else "40000"])
    recs, bad, vres = validate_traces(ctx, "parcache", "Trace_ParCache.tla", "Trace_ParCache.cfg", trace_files)
    violations = race_violations(rdir, "free runs of the unsubstituted par.Cache")
    for idx, invs in sorted(bad.items()):
        rec = json.loads(recs[idx - 1])
        evs = " ".join("%s(%s,%s,%s)" % (e["e"], e["a"], e["k"], e["v"]) for e in rec["events"])
        violations.append(dict(kind="l1-rejected:" + ",".join(sorted(invs)),
                               what="ParCacheL1 rejects a run of the real par.Cache (mode=%s, end=%s): %s" % (
                                   rec.get("mode"), rec["end"], ",".join(sorted(invs))),
                               **{"class": "%s|%s" % (",".join(sorted(invs)), json.dumps(rec.get("prog"), sort_keys=True))},
                               input=dict(prog=rec.get("prog"), events=evs, schedule=rec.get("sched")),
                               detail=rec.get("detail", "")))
    runs = sum(r["counters"].get("runs", 0) for r in results.values())
    drift = sum((r["drift"] for r in results.values()), [])
    drift_total = sum(r["counters"].get("drift_total", 0) for r in results.values())
    coverage = dict(
        evaluations=runs, distinct_nontrivial=len(recs),
        rule=("one run of the real par.Cache per TLC-generated schedule (one per transition of the ParCache L2 state graph), per DFS "
              "choice vector (preemption bound %s), per seeded random/PCT schedule over random programs and per free-mode run under "
              "-race; distinct_nontrivial = distinct observable event traces, each validated by TLC against ParCacheL1" % ("2" if quick else "3")),
        samples=(results["replay"]["samples"][:2] + results["random"]["samples"][:1]),
        traces_validated_against_impl=len(recs), runs_by_mode={m: r["counters"] for m, r in results.items()},
        tlc_schedules_replayed=n_sched, l2_conformant=(drift_total == 0), drift_total=drift_total, drift=drift[:5],
        bug_configs_rejected_by_tlc=bugs_caught, exhaustive=(results["dfs"]["counters"].get("dfs_truncated", 0) == 0))
    if crashed and not violations:
        raise NoVerdict("the free-mode process died and the controlled modes found nothing:\n" + crashed[0][:3000])
    return conclude(ctx, violations, "model_checking", coverage, ASSUME)


REGISTRY = dict(
    category="model_checking", design_ref="DESIGN.md section 3 C10",
    text="ParCache.tla (one action per sync.Map / atomic / mutex operation of Cache.Do and Cache.Get) is model-checked by TLC for "
         "once-per-key, returned value = the single invocation's value, no early return, termination; bug switches (no second check, "
         "no lock, done before result) are rejected. Every transition of its state graph is replayed as a schedule into the real "
         "par.Cache built with sync and sync/atomic redirected to a cooperative scheduler; bounded DFS, random/PCT schedules and free "
         "runs under -race follow. Every distinct observable trace is validated by TLC against ParCacheL1, including 'Get never "
         "blocks' (the scheduler records whether the Get caller was ever parked disabled).",
    note="trusted: TLC, scheduler and shims, overlay rewriting, driver event logging; sequential consistency of atomics assumed in the model",
    technique="TLA+ L2 model checked by TLC; TLC-generated schedules + bounded DFS + PCT replayed into real par.Cache via import overlay; traces validated by TLC against L1 contract")
