"""C11: concurrent cache users never observe corrupt or foreign data."""
import concurrent.futures
from vlib import *
from cache_common import *

ASSUME = [
    "under the cooperative scheduler every file operation is atomic and a scheduling point (local-filesystem assumption: a single "
    "write/truncate is atomic with respect to other operations on the same file); free mode runs real processes with real overlap",
    "actors of a controlled run are goroutines of one process; in every other run each actor has a Cache value of its own on the "
    "directory (what separate processes have), in the others they share one (what the goroutines of one process have); after the run "
    "every id is looked up through a fresh value and through each actor's own",
    "programs and start states: MC_Cache family C11 (2 writers + 1 reader, 2 ids, 4 contents incl. empty and equal-length ones)",
]


def check(ctx):
    quick = ctx.tier == "quick"
    drv = build(ctx)
    cases = ctx.path("cases.ndjson")
    res = tlc(ctx, "cache", "MC_Cache.tla", "MC_Cache_C11.cfg", cfg_text=cfg_text("C11", "none", False, 0, emit=True),
              emit_to=cases, workers=NCPU, timeout=2400)
    require_tlc_ok(res, "Cache.tla, all interleavings of the file operations of 3 actors")
    n_sched = res.emits
    bugs = bug_sanity(ctx) if (not quick or ctx.selftest) else []
    files, results = [], {}
    def drive(tag, mode, extra):
        tf = ctx.path("traces-%s.ndjson" % tag)
        out = ctx.path("result-%s.json" % tag)
        tmp = ctx.mkdir("cachetmp-" + tag)
        run_driver(ctx, [drv, "-mode", mode, "-configs", cases, "-cases", cases, "-traces", tf, "-out", out, "-tmp", tmp] + extra, timeout=3000)
        return tag, load_result(out), tf
    jobs = []
    stride = 12 if quick else 1
    shards = 6
    # the TLC schedules are replayed in parallel shards (one scheduler per process)
    for k in range(shards):
        jobs.append(("replay%d" % k, "conc-replay", ["-stride", str(stride * shards), "-shard", str(k * stride)]))
    jobs.append(("dfs", "conc-dfs", ["-bound", "2" if quick else "3", "-maxruns", "250" if quick else "20000"]))
    jobs.append(("random", "conc-random", ["-runs", "1500" if quick else "60000"]))
    jobs.append(("free", "free", ["-runs", "3" if quick else "40", "-procs", "4", "-gor", "4", "-iters", "30"]))
    with concurrent.futures.ThreadPoolExecutor(max_workers=10) as ex:
        for tag, r, tf in ex.map(lambda j: drive(*j), jobs):
            results[tag] = r
            files.append(tf)
    recs, violations, drift = judge(ctx, "C11", files, "C11")
    for r in results.values():
        for d in r["drift"]:
            drift.append(d)
    replayed = sum(r["counters"].get("runs", 0) for t, r in results.items() if t.startswith("replay"))
    conf = sum(r["counters"].get("l2_conformant_runs", 0) for t, r in results.items() if t.startswith("replay"))
    coverage = dict(
        evaluations=sum(r["counters"].get("runs", 0) for r in results.values()),
        distinct_nontrivial=len(recs),
        rule=("runs of the real cache package with every file operation a scheduling point: %d of the %d schedules TLC emitted (one per "
              "API return of the Cache.tla state graph, stride %d) replayed, bounded DFS over all choices (preemption bound %s, cap per "
              "configuration), seeded random/PCT schedules, and free runs of 4 processes x 4 goroutines on one directory. Each run is a "
              "trace validated by TLC: L1 (contract, verdict) and L2 (replay against Cache.tla, conformance); distinct_nontrivial = distinct traces"
              % (replayed, n_sched, stride, "2" if quick else "3")),
        samples=results["replay0"]["samples"][:2] + results["free"]["samples"][:1],
        traces_validated_against_impl=len(recs), tlc_schedules_replayed=replayed, replay_l2_conformant=conf,
        runs_by_mode={t: r["counters"] for t, r in results.items() if not t.startswith("replay") or t == "replay0"},
        l2_conformant=(len(drift) == 0), drift_total=len(drift), drift=drift[:5], bug_configs_rejected_by_tlc=bugs,
        exhaustive=False)
    return conclude(ctx, violations, "model_checking", coverage, ASSUME)


REGISTRY = dict(
    category="model_checking", design_ref="DESIGN.md section 3 C11",
    text="Cache.tla (one action per file operation of Put / GetBytes / GetFile) is model-checked by TLC over all interleavings of two "
         "writers and a reader: every lookup returns not-found or content some Put of that id carried, an identical re-store never makes "
         "a lookup miss (bug switch OTruncIndex is rejected), every stored id is readable at quiescence. The real package, built with `os` "
         "redirected to an intercepting shim, is driven through TLC's schedules, bounded DFS, PCT/random schedules and free multi-process "
         "runs; every run's trace is validated by TLC against the contract (L1) and replayed against Cache.tla (L2).",
    note="trusted: TLC, vos shim + cooperative scheduler, atomicity of single file operations on a local file system, O_APPEND log order in free mode",
    technique="TLA+ file-operation model checked by TLC; TLC schedules + bounded DFS + PCT replayed into the real cache via os-import overlay; free multi-process runs; traces validated by TLC (L1 + L2)")
