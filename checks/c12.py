"""C12: an interrupted or failing Put leaves the cache consistent."""
from vlib import *
from cache_common import *

ASSUME = [
    "a crash is 'the process stops between two file operations': completed writes persist (no power-failure / fsync model)",
    "one adverse event per Put: a misbehaving source reader, or one failing operation (EIO; writes may be short), or a stop - plus, for the index entry, a write cut at any byte followed at once by a stop (mode tear)",
    "file operations are atomic with respect to each other (single process under the cooperative scheduler); real SIGKILLs of a "
    "separate writer process complement this in the thorough tier",
    "contents: empty, 1 byte, two 21-byte contents of equal length; start states: empty, output trimmed away, output shared with "
    "another id, overwrite with different content, pre-damaged output (same size / shorter / longer)",
]


def check(ctx):
    quick = ctx.tier == "quick"
    drv = build(ctx)
    cases = ctx.path("configs.ndjson")
    res = tlc(ctx, "cache", "MC_Cache.tla", "MC_Cache_C12.cfg", cfg_text=cfg_text("C12", "none", True, 1, emit=True),
              emit_to=cases, workers=8, timeout=1200)
    require_tlc_ok(res, "Cache.tla with crash and fault at every operation boundary")
    bugs = bug_sanity(ctx) if (not quick or ctx.selftest) else []
    tmp = ctx.mkdir("cachetmp")
    files, results = [], {}
    def drive(mode, extra):
        tf = ctx.path("traces-%s.ndjson" % mode)
        out = ctx.path("result-%s.json" % mode)
        run_driver(ctx, [drv, "-mode", mode, "-configs", cases, "-traces", tf, "-out", out, "-tmp", tmp] + extra, timeout=3000)
        results[mode] = load_result(out)
        files.append(tf)
    drive("crash", [])
    drive("tear", [])
    drive("sigkill", ["-runs", "40" if quick else "1500"])
    recs, violations, drift = judge(ctx, "C12", files, "C12")
    c = results["crash"]["counters"]
    coverage = dict(
        evaluations=sum(r["counters"].get("runs", 0) for r in results.values()),
        distinct_nontrivial=len(recs),
        rule=("for every configuration TLC enumerates (program x start state of MC_Cache family C12: %d) the real Put is run once "
              "cleanly to number its file operations, then once per (operation boundary, stop | fail | short write), with each "
              "scripted source-reader behaviour; afterwards lookups run from scratch on the same directory. Every run is one trace "
              "(file operations + API results + fresh lookups) validated by TLC: L1 = the statement's predicates, L2 = replay against "
              "Cache.tla. distinct_nontrivial = distinct traces. %s real SIGKILL runs of a writer process." % (
                  res.emits, results["sigkill"]["counters"].get("sigkill_runs", 0))),
        samples=results["crash"]["samples"][:3],
        traces_validated_against_impl=len(recs), injections=dict(crash=c.get("inject_crash", 0), fail=c.get("inject_fail", 0), short=c.get("inject_short", 0),
                                                                     torn_index_write_then_halt=results["tear"]["counters"].get("inject_tear", 0)),
        l2_conformant=(len(drift) == 0), drift_total=len(drift), drift=drift[:5], bug_configs_rejected_by_tlc=bugs, exhaustive=True)
    return conclude(ctx, violations, "model_checking", coverage, ASSUME)


REGISTRY = dict(
    category="model_checking", design_ref="DESIGN.md section 3 C12",
    text="Cache.tla models Put/GetBytes/GetFile one file operation per action; TLC checks, with a stop allowed between any two "
         "operations and any single operation failing (writes possibly short) and every scripted source-reader misbehaviour, that a "
         "fresh reader never gets unverified content, other ids stay readable and a same-content Put repairs a damaged output (bug "
         "switches CommitFirst, NoRehash, NoSizeGate, OTruncIndex are rejected). The real cache package, built with `os` redirected to an "
         "intercepting shim, is then stopped / failed at every operation boundary of the real Put; each run's trace is validated by TLC "
         "against the contract (L1, verdict) and replayed action by action against Cache.tla (L2, conformance). Exhaustive fault "
         "enumeration at the granularity the statement names.",
    note="trusted: TLC, the vos shim (complete forwarding of package os; File overrides every I/O method), the cooperative scheduler's "
         "Freeze as a model of a stopped process, plain-os projection and fresh lookups in the driver",
    technique="TLA+ file-operation model checked by TLC (crash/fault at every boundary); fault-injected runs of the real Put via os-import overlay; traces validated by TLC (L1 contract + L2 replay)")
