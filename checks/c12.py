"""C12: an interrupted or failing Put leaves the cache consistent."""
from vlib import *
from cache_common import *

ASSUME = [
    "a crash is 'the process stops between two file operations': completed writes persist (no power-failure / fsync model)",
    "one adverse event per Put: a misbehaving source reader, or one failing operation (EIO; writes may be short), or a stop - plus, for the index entry, a write cut at any byte followed at once by a stop (mode tear)",
    "file operations are atomic with respect to each other (single process under the cooperative scheduler); real SIGKILLs of a "
    "separate writer process complement this in the thorough tier",
    "contents: empty, 1 byte, two 21-byte contents of equal length; start states: empty, output trimmed away, output shared with "
    "another id, overwrite with different content, pre-damaged output (same size / shorter / longer)",
]


def check(ctx):
    quick = ctx.tier == "quick"
    drv = build(ctx)
    cases = ctx.path("configs.ndjson")
    res = tlc(ctx, "cache", "MC_Cache.tla", "MC_Cache_C12.cfg", cfg_text=cfg_text("C12", "none", True, 1, emit=True),
              emit_to=cases, workers=8, timeout=1200)
    require_tlc_ok(res, "Cache.tla with crash and fault at every operation boundary")
    bugs = bug_sanity(ctx) if (not quick or ctx.selftest) else []
    tmp = ctx.mkdir("cachetmp")
    files, results = [], {}
    def drive(mode, extra):
        tf = ctx.path("traces-%s.ndjson" % mode)
        out = ctx.path("result-%s.json" % mode)
        run_driver(ctx, [drv, "-mode", mode, "-configs", cases, "-traces", tf, "-out", out, "-tmp", tmp] + extra, timeout=3000)
        results[mode] = load_result(out)
        files.append(tf)
    drive("crash", [])
    drive("tear", [])
    drive("sigkill", ["-runs", "40" if quick else "1500"])
    recs, violations, drift = judge(ctx, "C12", files, "C12")
    # ---- IndexTear.tla: TLC checks the statement's laws on every (old content, new content, cut position) and predicts
    # ---- what the fresh lookups find; the tear runs of the real code are compared with the predictions (conformance: drift)
    pred_file = ctx.path("tear-pred.ndjson")
    tcfg = open(os.path.join(SPEC, "cache", "MC_IndexTear.cfg")).read().replace("Emit = FALSE", "Emit = TRUE")
    tres = tlc(ctx, "cache", "MC_IndexTear.tla", "MC_IndexTear_emit.cfg", cfg_text=tcfg, emit_to=pred_file, workers=4, timeout=600,
               name="indextear")
    require_tlc_ok(tres, "IndexTear.tla: a cut index write at every byte position")
    pred = {}
    for line in open(pred_file):
        c = json.loads(line)
        pred[(c["old"], c["new"], c["k"])] = c
    import hashlib
    blocks = {"c0": b"", "c1": b"1", "c2": b"c2-first-|c2-second|Z", "c3": b"c3-FIRST-|c3-SECOND|Y"}
    hx = {c: hashlib.sha256(b).hexdigest() for c, b in blocks.items()}
    # the abstraction "an id field the cut runs through names no stored output" is checked on the real SHA-256 values;
    # a (pair, cut) for which it does not hold is left out of the comparison
    def mix_is_torn(o, n, k):
        j = k - 68
        return o == n or not (0 < j < 64) or (hx[n][:j] + hx[o][j:]) not in hx.values()
    tear_cmp = tear_diff = stale = 0
    for line in open(ctx.path("traces-tear.ndjson")):
        r = json.loads(line)
        if r.get("mode") != "tear":
            continue
        ops = r["prog"]["w1"]
        pc = pred.get((ops[0]["c"], ops[1]["c"], r["inject"]["k"]))
        if pc is None or not mix_is_torn(ops[0]["c"], ops[1]["c"], r["inject"]["k"]):
            continue
        tear_cmp += 1
        stale += 1 if pc["stale"] else 0
        if pc["getbytes"] != r["fresh"]["i1.getbytes"] or pc["getfile"] != r["fresh"]["i1.getfile"]:
            tear_diff += 1
            drift.append(dict(kind="tear-differs-from-IndexTear", what="old=%s new=%s cut after %d bytes: real %s / %s, IndexTear.tla %s / %s" % (
                ops[0]["c"], ops[1]["c"], r["inject"]["k"], r["fresh"]["i1.getbytes"], r["fresh"]["i1.getfile"], pc["getbytes"], pc["getfile"])))
    c = results["crash"]["counters"]
    coverage = dict(
        evaluations=sum(r["counters"].get("runs", 0) for r in results.values()),
        distinct_nontrivial=len(recs),
        rule=("for every configuration TLC enumerates (program x start state of MC_Cache family C12: %d) the real Put is run once "
              "cleanly to number its file operations, then once per (operation boundary, stop | fail | short write), with each "
              "scripted source-reader behaviour; afterwards lookups run from scratch on the same directory. Every run is one trace "
              "(file operations + API results + fresh lookups) validated by TLC: L1 = the statement's predicates, L2 = replay against "
              "Cache.tla. distinct_nontrivial = distinct traces. %s real SIGKILL runs of a writer process." % (
                  res.emits, results["sigkill"]["counters"].get("sigkill_runs", 0))),
        samples=results["crash"]["samples"][:3],
        traces_validated_against_impl=len(recs), injections=dict(crash=c.get("inject_crash", 0), fail=c.get("inject_fail", 0), short=c.get("inject_short", 0),
                                                                     torn_index_write_then_halt=results["tear"]["counters"].get("inject_tear", 0)),
        index_tear_model=dict(states=tres.distinct, predictions=len(pred), real_runs_compared=tear_cmp, differing=tear_diff,
                              cuts_with_complete_bytes_but_stale_size_predicted=stale),
        l2_conformant=(len(drift) == 0), drift_total=len(drift), drift=drift[:5], bug_configs_rejected_by_tlc=bugs, exhaustive=True)
    return conclude(ctx, violations, "model_checking", coverage, ASSUME)


REGISTRY = dict(
    category="model_checking", design_ref="DESIGN.md section 3 C12",
    text="Cache.tla models Put/GetBytes/GetFile one file operation per action; TLC checks, with a stop allowed between any two "
         "operations and any single operation failing (writes possibly short) and every scripted source-reader misbehaviour, that a "
         "fresh reader never gets unverified content, other ids stay readable and a same-content Put repairs a damaged output (bug "
         "switches CommitFirst, NoRehash, NoSizeGate, OTruncIndex are rejected). The real cache package, built with `os` redirected to an "
         "intercepting shim, is then stopped / failed at every operation boundary of the real Put; each run's trace is validated by TLC "
         "against the contract (L1, verdict) and replayed action by action against Cache.tla (L2, conformance). Exhaustive fault "
         "enumeration at the granularity the statement names.",
    note="trusted: TLC, the vos shim (complete forwarding of package os; File overrides every I/O method), the cooperative scheduler's "
         "Freeze as a model of a stopped process, plain-os projection and fresh lookups in the driver",
    technique="TLA+ file-operation model checked by TLC (crash/fault at every boundary); fault-injected runs of the real Put via os-import overlay; traces validated by TLC (L1 contract + L2 replay)")
