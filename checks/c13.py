"""C13 -- cache Trim removes only stale entries and only when a trim is due.

spec/cachetrim/CacheTrim.tla is the retention rule with history ghosts (true last use of
every file) and the five sentences of the statement as invariants; MC_CacheTrim.tla is the
bounded instance and case generator.  TLC (a) checks the laws in every reachable state of
each configuration and (b) emits one case per Trim transition: population, history, and what
the statement fixes about the outcome.  harness/drivers/cachetrim replays every case into
the real cache package (ages realised with Chtimes, no clock hook) and judges the directory
after the final Trim."""
import glob
import json
import os
from vlib import *

NON_ENTRIES = '{"readme", "rootent", "fuzzent", "subplain", "subtmp", "subdash", "otherdir"}'
LAWS = "TypeOK LawRecentKept LawOnlyEntries LawSkipNothing LawStaleRemoved LawDueRuns LawRefresh"

# minutes.  Every value keeps >= 10 min from 60 (refresh), 7260 (cutoff = 5d+1h), 1440 (interval), -60 (future tolerance)
D5 = 7200

ASSUME = [
    "time is simulated through file mtimes and the contents of trim.txt relative to the real clock (os.Chtimes, no clock hook); "
    "every generated case keeps >= 10 minutes from each boundary (1h refresh, 5d+1h cutoff, 24h interval, 1h future tolerance) "
    "and a case that takes longer than 4 minutes of wall clock is discarded, so run time cannot change an outcome",
    "'Advance(dt)' is realised by moving every mtime dt into the past and rewriting the number the real Trim stored in trim.txt "
    "to (t - dt); the bytes in between come from the real code",
    "a file found in a population with mtime age M stands for every history consistent with it (last use between M-59 and M minutes ago): "
    "Trim sees only the directory, so it must satisfy all of them",
    "not judged (reported as drift only): a last-trim time less than one day in the future (the code tolerates 1h of skew, the statement "
    "is silent), entries last used between 5d and 5d+1h ago, foreign files inside a cache subdirectory whose name ends in -a/-d, "
    "mtime bookkeeping of lookups as such, hit/miss results of lookups (C05)",
    "a trim is taken to be due exactly when no trim completed less than a day ago (missing/corrupt record, record a day old or more, "
    "record more than a day in the future); a Trim that does nothing then is reported",
    "contents of entries are valid (written by the real Put); damaged index/output files are C05/C12's subject",
    "local file system with nanosecond mtimes (scratch directory), single process, no concurrent cache users (C11)",
]


def tla_set(xs):
    return "{" + ", ".join(str(x) for x in xs) + "}"


def cfg(ids, ages, future_ages, ne_ages, ne_all, tt_past, tt_future, tt_corrupt, adv, max_look, max_adv, max_trim,
        with_store=True, sample=0, tt_sample=1, bug="none", emit=True, laws=LAWS):
    return ("SPECIFICATION Spec\nVIEW view\nCONSTANTS\n"
            "  Ids = %s\n  NonEntries = %s\n  Ambiguous = {\"subdash\"}\n  InSubdir = {\"subplain\", \"subtmp\", \"subdash\"}\n"
            "  Bug = \"%s\"\n  AgeSet = %s\n  FutureAges = %s\n  NEAgeSet = %s\n  NEAll = %s\n  TTPast = %s\n  TTFuture = %s\n"
            "  TTCorrupt = %d\n  AdvSet = %s\n  MaxLook = %d\n  MaxAdv = %d\n  MaxTrim = %d\n  WithStore = %s\n  Sample = %d\n"
            "  TTSample = %d\n  Emit = %s\nINVARIANTS %s\nCHECK_DEADLOCK FALSE\n"
            % (tla_set(ids), NON_ENTRIES, bug, tla_set(ages), tla_set(future_ages), tla_set(ne_ages),
               "TRUE" if ne_all else "FALSE", tla_set(tt_past), tla_set(tt_future), tt_corrupt, tla_set(adv),
               max_look, max_adv, max_trim, "TRUE" if with_store else "FALSE", sample, tt_sample,
               "TRUE" if emit else "FALSE", laws))


AGES_FULL = [0, 50, 70, 110, 2880, D5 - 10, D5 + 10, D5 + 50, D5 + 70, 8700, 43200]
TT_PAST_FULL = [0, 10, 720, 1430, 1450, D5, 43200]
TT_FUTURE_FULL = [10, 50, 70, 1430, 1450, 43200]
ADV_FULL = [30, 720, 1430, 1450, D5 - 10, D5 + 80]


def configs(tier):
    """(name, cfg text) per TLC run.  Sizes are fitted to measured case counts (see per-config comments)."""
    common_wide = dict(ages=AGES_FULL, future_ages=[120], ne_ages=[0, 43200], ne_all=False,
                       tt_past=TT_PAST_FULL, tt_future=TT_FUTURE_FULL, tt_corrupt=7)
    if tier == "quick":
        return [
            # exhaustive: one index entry + its output, every pair of ages, a due trim, <= 1 use, <= 1 advance of 5d-10m
            ("ages", cfg(ids=[1], ages=[0, 50, 110, D5 + 50, D5 + 70], future_ages=[], ne_ages=[43200], ne_all=True,
                         tt_past=[1450], tt_future=[], tt_corrupt=0, adv=[D5 - 10], max_look=1, max_adv=1, max_trim=1)),
            # exhaustive: every trim.txt class x coarse populations, time passing, two trims in a row
            ("due", cfg(ids=[1], ages=[0, D5 + 70, 43200], future_ages=[], ne_ages=[43200], ne_all=True,
                        tt_past=[0, 1430, 1450, 43200], tt_future=[50, 70, 43200], tt_corrupt=2, adv=[1430, 1450],
                        max_look=0, max_adv=1, max_trim=2, with_store=False)),
            # sampled: three ids (two sharing an output), random populations incl. non-entry subsets and future mtimes
            ("wide", cfg(ids=[1, 2, 3], adv=[1450], max_look=1, max_adv=1, max_trim=1, sample=15, tt_sample=2, **common_wide)),
        ]
    return [
        ("ages", cfg(ids=[1], ages=AGES_FULL, future_ages=[120], ne_ages=[43200], ne_all=True,
                     tt_past=[1450], tt_future=[], tt_corrupt=0, adv=[30, 1450, D5 - 10], max_look=1, max_adv=1, max_trim=1)),
        ("due", cfg(ids=[1], ages=[0, D5 + 70, 43200], future_ages=[], ne_ages=[43200], ne_all=True,
                    tt_past=TT_PAST_FULL, tt_future=TT_FUTURE_FULL, tt_corrupt=7, adv=[30, 1430, 1450, D5 - 10],
                    max_look=0, max_adv=1, max_trim=2, with_store=False)),
        ("wide", cfg(ids=[1, 2, 3], adv=[720, 1450, D5 - 10], max_look=1, max_adv=1, max_trim=1, sample=100, tt_sample=2, **common_wide)),
        ("wide2", cfg(ids=[1, 2, 3], adv=[1450], max_look=1, max_adv=1, max_trim=2, sample=30, tt_sample=1, **common_wide)),
        ("wide4", cfg(ids=[1, 2, 3, 4], adv=ADV_FULL, max_look=2, max_adv=0, max_trim=1, sample=40, tt_sample=1, **common_wide)),
    ]


def selftest(ctx):
    """every Bug_*.cfg must make TLC find a violation of the law it names"""
    bad = []
    for path in sorted(glob.glob(os.path.join(SPEC, "cachetrim", "Bug_*.cfg"))):
        name = os.path.basename(path)
        res = tlc(ctx, "cachetrim", "MC_CacheTrim.tla", name, workers=8, timeout=600, expect_violation=True)
        law = [l for l in open(path) if l.startswith("INVARIANTS")][0].split()[1]
        found = res.violation and ("Invariant %s is violated" % law) in res.violation
        log("selftest %s: %s" % (name, "violates %s as required" % law if found else "NOT DETECTED"))
        if not found:
            bad.append(name)
    if bad:
        raise NoVerdict("bug configurations not detected by TLC: %s" % bad)
    return 0


def check(ctx):
    if getattr(ctx, "selftest", False):
        return selftest(ctx)
    drv = go_build(ctx, "drivers/cachetrim")
    violations, drift, samples = [], [], []
    counters = {}
    evals = nontriv = 0
    per_run = []
    for name, text in configs(ctx.tier):
        cases = ctx.path("cases-%s.ndjson" % name)
        res = tlc(ctx, "cachetrim", "MC_CacheTrim.tla", "MC_%s.cfg" % name, cfg_text=text, emit_to=cases,
                  workers=NCPU, timeout=1500, name="MC_" + name)
        require_tlc_ok(res, "laws of the statement on the retention model (%s)" % name)
        if res.emits == 0:
            raise NoVerdict("TLC emitted no case for %s" % name)
        out = ctx.path("replay-%s.json" % name)
        run_driver(ctx, [drv, "-cases", cases, "-out", out, "-work", ctx.mkdir("work-" + name)], timeout=1500)
        with open(out) as fh:
            r = json.load(fh)
        c = r["counters"]
        if c.get("cases", 0) != res.emits:
            raise NoVerdict("driver read %d of %d emitted cases (%s)" % (c.get("cases", 0), res.emits, name))
        if c.get("slow_cases", 0):
            raise NoVerdict("%d cases took longer than 4 minutes; margins no longer guaranteed" % c["slow_cases"])
        evals += r["evaluations"]
        nontriv += r["distinct_nontrivial"]
        violations.extend(r["violations"])
        drift.extend(r["drift"])
        samples.extend(r["samples"][:6])
        for k, v in c.items():
            counters[k] = counters.get(k, 0) + v
        per_run.append(dict(config=name, tlc_distinct_states=res.distinct, trim_transitions_emitted=res.emits,
                            replayed=r["evaluations"], violations=c.get("violations_total", 0)))
        log("C13 %s: %d states, %d trim transitions emitted, %d replayed, %d violations, drift %d"
            % (name, res.distinct, res.emits, r["evaluations"], c.get("violations_total", 0), c.get("drift_total", 0)))
        os.remove(cases)
    if evals == 0:
        raise NoVerdict("no case was judged")
    coverage = dict(
        evaluations=evals, distinct_nontrivial=nontriv,
        rule=("every Trim transition of the bounded state graphs of MC_CacheTrim is one case (initial population: every entry file "
              "absent or aged from the boundary set, non-entry files, trim.txt class; history of Get/GetFile/GetBytes/OutputFile/Put/"
              "Advance steps; final Trim). 'ages' (every pair of ages of one index entry and its output) and 'due' (every trim.txt class, two trims in a row) are exhaustive products, 'wide*' take TLC-seeded random populations "
              "of 3-4 ids with shared outputs and arbitrary non-entry subsets. Each case is replayed into the real package and the "
              "directory after the Trim is judged by the classes the specification derives from the statement. Duplicate lines are "
              "dropped by hash; non-trivial = at least one entry file exists before the judged Trim and, when the trim must be "
              "skipped, at least one of them is stale (so that skipping is observable)"),
        samples=samples[:10], exhaustive=True,
        exhaustive_scope="configurations 'ages' and 'due' are complete products (every population over their age sets x every trim.txt class x "
                         "every history within the bounds); 'wide*' are TLC-seeded samples of a larger population space, complete in the histories",
        traces_validated_against_impl=0,
        runs=per_run, counters=counters, drift=drift[:10], drift_total=counters.get("drift_total", 0),
        l2_conformant=(counters.get("drift_total", 0) == 0))
    for v in violations:
        v.setdefault("class", "")
    return conclude(ctx, violations, "model_checking", coverage, ASSUME)


REGISTRY = dict(
    category="model_checking", design_ref="DESIGN.md section 3 C13",
    text="CacheTrim.tla models the retention rule (mtime ages, trim.txt, the skip window, the 5d+1h cutoff, the *-a/*-d candidate rule) "
         "together with history ghosts (true last use of each file) and states the five sentences of the statement as invariants; TLC "
         "checks them on every reachable state of bounded populations x trim.txt classes x histories of lookups, stores and elapsed time, "
         "and emits every Trim transition as a case that is replayed into the real cache package with ages realised through Chtimes. "
         "Exhaustive for one entry over the boundary ages, seeded sampling for larger populations: the right level for a rule whose "
         "failures are silent deletions at age boundaries.",
    note="trusted: TLC, the CacheTrim.tla reading of the statement (Bug_*.cfg show each law can fail), the Go driver's directory "
         "comparison, os.Chtimes as a stand-in for elapsed time (10 minute margins)",
    technique="TLA+ retention model with history ghosts model-checked by TLC; TLC-generated populations and histories replayed into cache.Trim")
