from txtar_common import run, TXTAR_LEVEL


def check(ctx):
    return run(ctx, "C14")


REGISTRY = dict(
    category="model_checking", design_ref="DESIGN.md section 3 C14",
    text=TXTAR_LEVEL + " NeedsQuote is defined from the parser in the specification (TLC proves 'contains a marker line' = "
         "'changes the parse' on every state) and the real NeedsQuote/Quote/Unquote are judged against the real parser and the specification.",
    note="trusted: TLC, Txtar.tla, the Go driver; UTF-8 validity is outside the ASCII alphabets (only exercised by random inputs)",
    technique="TLA+ reference semantics model-checked by TLC; TLC-generated cases replayed into NeedsQuote/Quote/Unquote; real traces validated by TLC")
