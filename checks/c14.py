from txtar_common import run
def check(ctx):
    return run(ctx, "C14")
