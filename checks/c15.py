"""C15: txtar.Write / txtar-x stay inside the given directory, never overwrite, reject
absolute and '..' names; txtar-c | txtar-x reproduces path and content of every file.

spec/txtarwrite/  TxtarWrite.tla (laws + model of Write), TxtarWriteEnv.tla (sandbox),
                  MC_TxtarWrite (generator: one test per transition), Trace_TxtarWrite,
                  TxtarCli.tla (SaveDir / Extract on top of ../txtar/Txtar.tla),
                  MC_TxtarCli (tree enumerator), Trace_TxtarCli, Bug_*.cfg
harness/drivers/txtarwrite/  the Go driver (real txtar.Write in process, real txtar-c and
                  txtar-x binaries built from the tree under test)
"""
import json
import os
import re
import threading
import time
from vlib import *

SPECDIR = "txtarwrite"
TXTAR_TLA = os.path.join(SPEC, "txtar", "Txtar.tla")     # the format semantics of C03/C14, reused as is

ASSUME = [
    "the platform is Linux: '/' is the only separator, a backslash is an ordinary character of a name",
    "no symbolic links inside the sandbox (a pre-existing symlink that leaves the directory is outside the statement's quantifier)",
    "file contents are valid UTF-8 text; file names have no leading/trailing white space and no newline (txtar cannot represent those)",
    "the sandbox is observed with plain os calls (ReadDir/Lstat/ReadFile); permissions and timestamps are not compared",
    "strings.TrimSpace is modelled on the ASCII subset (as in Txtar.tla)",
    "'every archived file' = every regular file of the tree that the documented flags select: dot files only with -a, files "
    "containing marker lines only with -quote; whether txtar-c skips or fails on the others is not judged",
]

SEGS = '{"a", "b", ".", "..", ""}'


def write_cfg(maxsegs, maxentries, emit=True, bug="none"):
    return ("SPECIFICATION Spec\nCONSTANTS\n  Segs = %s\n  MaxSegs = %d\n  MaxEntries = %d\n  Emit = %s\n  Bug = \"%s\"\n"
            "VIEW View\nINVARIANTS InvContained InvNoOverwrite InvMustError InvHolds InvCall InvReplay\n"
            "PROPERTIES StepProp\nCHECK_DEADLOCK FALSE\n"
            % (SEGS, maxsegs, maxentries, "TRUE" if emit else "FALSE", bug))


def cli_cfg(maxfiles, nc, emit=True, bug="none"):
    return ("SPECIFICATION Spec\nCONSTANTS\n  MaxFiles = %d\n  NC = %d\n  Emit = %s\n  CliBug = \"%s\"\n"
            "INVARIANTS InvRoundTrip InvUniverse\nCHECK_DEADLOCK FALSE\n"
            % (maxfiles, nc, "TRUE" if emit else "FALSE", bug))


class Acc:
    def __init__(self):
        self.violations, self.drift, self.samples = [], [], []
        self.counters = {}
        self.evals = self.nontriv = 0

    def absorb(self, path):
        with open(path) as fh:
            r = json.load(fh)
        self.evals += r["evaluations"]
        self.nontriv += r["distinct_nontrivial"]
        self.violations.extend(r["violations"])
        self.drift.extend(r["drift"])
        self.samples.extend(r["samples"][:4])
        for k, v in r["counters"].items():
            self.counters[k] = self.counters.get(k, 0) + v
        return r


def selftest(ctx):
    """Every Bug_*.cfg must make TLC find a violation (the invariants are not vacuous)."""
    failed = []
    for bug in ("PrefixOnly", "RawPrefix", "Trunc", "AbsAsRel"):
        res = tlc(ctx, SPECDIR, "MC_TxtarWrite.tla", "Bug_TxtarWrite_%s.cfg" % bug, workers=4, timeout=600,
                  expect_violation=True)
        log("selftest Bug_TxtarWrite_%s: %s" % (bug, "violation found" if res.violation else "NO VIOLATION"))
        if not res.violation:
            failed.append(bug)
    for bug in ("IncludeMarker", "NoUnquoteLine"):
        res = tlc(ctx, SPECDIR, "MC_TxtarCli.tla", "Bug_TxtarCli_%s.cfg" % bug, workers=4, timeout=600,
                  files=[TXTAR_TLA], expect_violation=True)
        log("selftest Bug_TxtarCli_%s: %s" % (bug, "violation found" if res.violation else "NO VIOLATION"))
        if not res.violation:
            failed.append(bug)
    if failed:
        raise NoVerdict("bug configurations without a TLC counterexample: %s" % failed)
    # a record of the real code with one corrupted field must be rejected by the trace validation
    drv = go_build(ctx, "drivers/txtarwrite")
    cases = ctx.path("st_cases.ndjson")
    require_tlc_ok(tlc(ctx, SPECDIR, "MC_TxtarWrite.tla", "MC_TxtarWrite_st.cfg", cfg_text=write_cfg(2, 1), emit_to=cases,
                       workers=4, timeout=600, name="stgen"), "selftest generator")
    trace = ctx.path("sttrace", "trace.ndjson")
    run_driver(ctx, [drv, "-mode", "write-random", "-cases", cases, "-work", ctx.mkdir("work"), "-n", "100",
                     "-trace", trace, "-out", ctx.path("st.json")])
    recs = [json.loads(l) for l in open(trace)]
    recs[6]["after"].append(dict(path=["w", "zz"], kind="file", data="n1"))      # a file next to the target's ancestors
    with open(trace, "w") as fh:
        for r in recs:
            fh.write(json.dumps(r) + "\n")
    res = tlc(ctx, SPECDIR, "Trace_TxtarWrite.tla", "Trace_TxtarWrite.cfg", files=[trace], workers=4, timeout=600, name="sttrace")
    require_tlc_ok(res, "selftest trace validation")
    bad = bad_traces(res)
    log("selftest corrupted record 7: rejected by %s" % sorted(bad.get(7, [])))
    if "RecContained" not in bad.get(7, set()) or any(i != 7 and (v - {"RecModel"}) for i, v in bad.items()):
        raise NoVerdict("corrupted record not (or not only) rejected: %s" % bad)
    return 0


def check(ctx):
    if getattr(ctx, "selftest", False):
        return selftest(ctx)
    quick = ctx.tier == "quick"
    # bounds fitted to measured counts (16 cores): see REGISTRY text
    # (MaxSegs, MaxEntries): measured 2,340 / 5,425 cases quick; 55,380 / 11,715 / 49,755 thorough
    write_runs = [(4, 1), (3, 2)] if quick else [(4, 2), (5, 1), (3, 3)]
    xstride = 8 if quick else 40                                # txtar-x on every n-th Write case (if representable)
    n_wrand = 3000 if quick else 40000
    # (MaxFiles, NC, stride): measured 9,508 states quick; 21,172 / 181,540 thorough
    cli_runs = [(2, 8, 3)] if quick else [(2, 12, 1), (3, 8, 6)]
    n_crand = 600 if quick else 8000

    t_last = [time.time()]

    def phase(name):
        now = time.time()
        log("  [%6.1fs] %s" % (now - t_last[0], name))
        t_last[0] = now

    drv = go_build(ctx, "drivers/txtarwrite")
    cbin = go_build_repo(ctx, "./cmd/txtar-c", "txtar-c")
    xbin = go_build_repo(ctx, "./cmd/txtar-x", "txtar-x")
    acc = Acc()
    work = ctx.mkdir("work")
    phase("built driver, txtar-c, txtar-x")

    # ---- (A) both generators run side by side: TLC checks the laws on the specification and emits the cases ----
    gen = {}
    errs = []

    def run_write_gen(k, maxsegs, maxentries):
        try:
            p = ctx.path("wcases%d.ndjson" % k)
            gen["w%d" % k] = (p, tlc(ctx, SPECDIR, "MC_TxtarWrite.tla", "MC_TxtarWrite_gen%d.cfg" % k,
                                     cfg_text=write_cfg(maxsegs, maxentries), emit_to=p, workers=8, timeout=2400,
                                     name="wgen%d" % k))
        except Exception as e:      # noqa: re-raised in the main thread
            errs.append(e)

    def run_cli_gen(k, maxfiles, nc):
        try:
            p = ctx.path("ccases%d.ndjson" % k)
            gen["c%d" % k] = (p, tlc(ctx, SPECDIR, "MC_TxtarCli.tla", "MC_TxtarCli_gen%d.cfg" % k, cfg_text=cli_cfg(maxfiles, nc),
                                     emit_to=p, workers=NCPU, timeout=2400, files=[TXTAR_TLA], name="cgen%d" % k))
        except Exception as e:      # noqa
            errs.append(e)

    threads = [threading.Thread(target=run_write_gen, args=(k, a, b)) for k, (a, b) in enumerate(write_runs)]
    threads += [threading.Thread(target=run_cli_gen, args=(k, a, b)) for k, (a, b, _) in enumerate(cli_runs)]
    for t in threads:
        t.start()
    for t in threads:
        t.join()
    if errs:
        raise errs[0]
    # the generator runs were concurrent: recompute the totals from the per-run list (append is atomic, += is not)
    ctx.tlc_states = sum(r["distinct"] for r in ctx.tlc_runs)
    ctx.tlc_transitions = sum(max(r["generated"] - 1, 0) for r in ctx.tlc_runs)

    phase("TLC generators (laws checked on the specification, cases emitted)")
    # ---- Write: replay of every transition of the model into the real txtar.Write (+ txtar-x on a stride) ----
    write_cases = 0
    first_cases = None
    for k in range(len(write_runs)):
        cases, res = gen["w%d" % k]
        require_tlc_ok(res, "laws of Write on the specification (MC_TxtarWrite %s)" % (write_runs[k],))
        ncases = res.generated - 4          # 4 initial states (populations), every other generated state is a transition
        if res.emits != res.generated:
            raise NoVerdict("MC_TxtarWrite emitted %d lines for %d generated states" % (res.emits, res.generated))
        out = ctx.path("wreplay%d.json" % k)
        run_driver(ctx, [drv, "-mode", "write-replay", "-cases", cases, "-work", work, "-xbin", xbin,
                         "-stride", str(xstride), "-out", out])
        r = acc.absorb(out)
        if r["evaluations"] != ncases:
            raise NoVerdict("driver replayed %d of %d Write cases" % (r["evaluations"], ncases))
        write_cases += ncases
        first_cases = first_cases or cases

    phase("replayed %d Write cases" % write_cases)
    # ---- Write: seeded random archives recorded from the real code, judged by TLC ----
    wtrace = ctx.path("wtrace", "trace.ndjson")
    out = ctx.path("wrandom.json")
    run_driver(ctx, [drv, "-mode", "write-random", "-cases", first_cases, "-work", work, "-n", str(n_wrand),
                     "-trace", wtrace, "-out", out])
    acc.absorb(out)
    res = tlc(ctx, SPECDIR, "Trace_TxtarWrite.tla", "Trace_TxtarWrite.cfg", files=[wtrace], workers=NCPU, timeout=2400,
              name="wtrace")
    require_tlc_ok(res, "validation of the Write records (Trace_TxtarWrite)")
    if res.distinct != n_wrand:
        raise NoVerdict("Trace_TxtarWrite visited %d of %d records" % (res.distinct, n_wrand))
    bad = bad_traces(res)
    judged_w = {"RecNoPanic", "RecContained", "RecNoOverwrite", "RecMustError", "RecHolds"}
    if bad:
        recs = open(wtrace).read().splitlines()
        for idx, invs in sorted(bad.items()):
            rec = json.loads(recs[idx - 1])
            names = ["/".join(e["name"]) for e in rec["entries"]]
            cls = "pop=%s names=%s" % (rec["pop"], json.dumps(names))
            l1 = invs & judged_w
            if l1 and not (rec.get("flagged") and not (l1 & {"RecMustError", "RecHolds"})):
                acc.violations.append(dict(
                    kind="trace-rejected:" + ",".join(sorted(l1)), **{"class": cls},
                    what="TLC rejects the record of the real txtar.Write on %s in the '%s' sandbox (%s); error returned: %s"
                         % (names, rec["pop"], ",".join(sorted(l1)), rec.get("error")),
                    input=dict(population=rec["pop"], entry_names=names), detail=rec))
            elif "RecModel" in invs and not l1:
                acc.counters["model_mismatch"] = acc.counters.get("model_mismatch", 0) + 1
                acc.drift.append(dict(kind="write-differs-from-model", what="record %s differs from the model of Write" % cls))

    phase("random Write records validated by TLC")
    # ---- CLI: the enumerated trees through the real txtar-c and txtar-x ----
    cli_states = cli_replayed = 0
    for k, (_, _, cli_stride) in enumerate(cli_runs):
        cases, res = gen["c%d" % k]
        require_tlc_ok(res, "round-trip laws on the specification (MC_TxtarCli %s)" % (cli_runs[k],))
        if res.emits != res.distinct:
            raise NoVerdict("MC_TxtarCli emitted %d cases for %d states" % (res.emits, res.distinct))
        out = ctx.path("creplay%d.json" % k)
        run_driver(ctx, [drv, "-mode", "cli-replay", "-cases", cases, "-work", work, "-cbin", cbin, "-xbin", xbin,
                         "-stride", str(cli_stride), "-out", out])
        r = acc.absorb(out)
        if abs(r["evaluations"] * cli_stride - res.distinct) > cli_stride:
            raise NoVerdict("driver ran %d round trips for %d trees (stride %d)" % (r["evaluations"], res.distinct, cli_stride))
        cli_states += res.distinct
        cli_replayed += r["evaluations"]
    phase("ran %d CLI round trips" % cli_replayed)
    # ---- CLI: seeded random trees recorded from the real commands, judged by TLC ----
    ctrace = ctx.path("ctrace", "trace.ndjson")
    out = ctx.path("crandom.json")
    run_driver(ctx, [drv, "-mode", "cli-random", "-work", work, "-cbin", cbin, "-xbin", xbin, "-n", str(n_crand),
                     "-trace", ctrace, "-out", out])
    acc.absorb(out)
    res = tlc(ctx, SPECDIR, "Trace_TxtarCli.tla", "Trace_TxtarCli.cfg", files=[ctrace, TXTAR_TLA], workers=NCPU,
              timeout=2400, name="ctrace")
    require_tlc_ok(res, "validation of the round-trip records (Trace_TxtarCli)")
    if res.distinct != n_crand:
        raise NoVerdict("Trace_TxtarCli visited %d of %d records" % (res.distinct, n_crand))
    bad = bad_traces(res)
    judged_c = {"RecExit", "RecExtractModel", "RecReproduces"}
    if bad:
        recs = open(ctrace).read().splitlines()
        for idx, invs in sorted(bad.items()):
            rec = json.loads(recs[idx - 1])
            l1 = invs & judged_c
            if l1 and not rec.get("flagged"):
                acc.violations.append(dict(
                    kind="trace-rejected:" + ",".join(sorted(l1)), **{"class": rec["text"]},
                    what="TLC rejects the record of the real txtar-c | txtar-x round trip on %s (%s)" % (rec["text"], ",".join(sorted(l1))),
                    input=dict(tree=rec["text"], archive=bytes(rec["archive"]).decode("utf-8", "replace")),
                    detail=dict(cexit=rec["cexit"], xexit=rec["xexit"],
                                extracted={bytes(f["name"]).decode("utf-8", "replace"): bytes(f["data"]).decode("utf-8", "replace")
                                           for f in rec["out"]})))
            elif not l1:
                acc.counters["model_mismatch"] = acc.counters.get("model_mismatch", 0) + 1
                acc.drift.append(dict(kind="cli-differs-from-model:" + ",".join(sorted(invs)),
                                      what="round trip on %s differs from the SaveDir/Extract model" % rec["text"]))

    phase("random CLI records validated by TLC")
    coverage = dict(
        evaluations=acc.evals, distinct_nontrivial=acc.nontriv,
        rule=("Write: every transition of MC_TxtarWrite (state = population x file system x outcome, hidden history; an entry name is "
              "any sequence of <= MaxSegs segments over {a, b, ., .., empty}; runs (MaxSegs, MaxEntries) = %s; populations empty / "
              "populated / fresh) is one archive replayed into the real txtar.Write in a pristine sandbox = %d cases, and through the "
              "real txtar-x on every %d-th one if representable as archive text (%d runs); %d seeded random archives (look-alike "
              "segments, 1-3 entries) are recorded and judged by TLC (Trace_TxtarWrite). Round trip: every tree of <= MaxFiles files "
              "over a 9-path universe (dot files, dot dirs, nested dirs, a space) x the first NC of 12 marker look-alike bodies x {-a} x "
              "{-quote} is a state of MC_TxtarCli; runs (MaxFiles, NC, stride) = %s = %d states, of which every stride-th (offset by "
              "the seed) is run through the real txtar-c and txtar-x (%d round trips, 5 x 4 invocation forms); %d seeded random trees "
              "are recorded and judged by TLC (Trace_TxtarCli). non-trivial = a Write case with a '..' or empty segment, a tree with a "
              "nested / dot / marker file; random cases are not counted as distinct."
              % (write_runs, write_cases, xstride, acc.counters.get("txtar_x_runs", 0), n_wrand, cli_runs, cli_states,
                 cli_replayed, n_crand)),
        samples=acc.samples[:24], exhaustive=all(st == 1 for _, _, st in cli_runs), write_cases=write_cases, cli_states=cli_states,
        cli_round_trips=acc.counters.get("cli_round_trips", 0),
        traces_validated_against_impl=n_wrand + n_crand, counters=acc.counters, drift=acc.drift[:10],
        drift_total=max(len(acc.drift), acc.counters.get("drift_total", 0)),
        l2_conformant=(acc.counters.get("model_mismatch", 0) == 0 and not acc.drift))
    for v in acc.violations:
        v.setdefault("class", "")
    return conclude(ctx, acc.violations, "model_checking", coverage, ASSUME)


REGISTRY = dict(
    category="model_checking", design_ref="DESIGN.md section 3 C15",
    text=("TxtarWrite.tla states the statement's laws (containment, no overwrite, error for absolute / climbing names, content on "
          "success) independently of a model of Write (Clean on segment sequences, MkdirAll, O_EXCL); TLC checks the model against "
          "the laws in every state and for every transition (action property) and emits one archive per transition of the "
          "(population, file system, outcome) graph, which the driver replays into the real txtar.Write and the real txtar-x "
          "inside a sandbox snapshotted with plain os calls. TxtarCli.tla builds txtar-c (SaveDir) and txtar-x (Parse + Write) on "
          "top of the C03 format semantics; TLC checks the round-trip laws on every enumerated tree and the driver runs the two "
          "real binaries on each. Beyond the bounds, records of the real code on seeded random archives / trees are judged by "
          "TLC (Trace_TxtarWrite, Trace_TxtarCli). Measured: quick = 7,765 Write cases (names <= 4 segments single entry, <= 3 "
          "segments two entries) + ~950 txtar-x runs + 3,000 records; 9,508 trees of <= 2 files, every 3rd through the binaries "
          "(~3,200 round trips) + 600 records, 45-90 s. thorough = 116,850 Write cases (names <= 5 segments, archives <= 3 "
          "entries) + 40,000 records; 21,172 trees x 12 bodies all run, 181,540 trees of <= 3 files every 6th run (~51,000 round "
          "trips) + 8,000 records, ~6 min. Bug_*.cfg (PrefixOnly, RawPrefix, Trunc, AbsAsRel, IncludeMarker, NoUnquoteLine) and "
          "a corrupted record are the --selftest."),
    note="trusted: TLC, Txtar.tla / TxtarWrite.tla / TxtarCli.tla, the driver's os-level snapshot and comparison code, the "
         "real txtar.Parse/Unquote for reading 'unquote' comment lines (judged by C03/C14); Linux path rules only; symlinks not modelled",
    technique="TLA+ model + laws model-checked by TLC; one generated test per transition replayed into txtar.Write / txtar-x / "
              "txtar-c; records of the real code validated by TLC")
