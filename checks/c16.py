"""C16: with UpdateScripts a failing cmp against an archive entry passes and rewrites exactly that
entry (quoted if needed); script text, other entries, order and names unchanged; files outside the
archive, cmpenv and ! cmp never modify the script; the updated script re-runs clean.

spec/updatescripts/  UpdateScripts.tla (script vocabulary, the machine of testscript.go/cmd.go restricted to
                     exec / cp / mkdir / cmp / ! cmp / cmpenv + ApplyUpdates, the laws of the statement),
                     MC_UpdateScripts.tla (bounded enumerator of scripts, one emitted case per state), Bug_*.cfg
harness/drivers/updatescripts/  the Go driver: real testscript.RunT twice on a scratch copy of every script
"""
import json
import os
import threading
import time
from vlib import *

SPECDIR = "updatescripts"
TXTAR_TLA = os.path.join(SPEC, "txtar", "Txtar.tla")     # the format semantics of C03/C14, reused as is
SHARDS = 8
SIM_WORKERS = dict(quick=3, thorough=4)

INVARIANTS = ("InvCanonical InvVerdict InvNoRewrite InvNeverModify InvPreserve InvHoldsActual InvUnquotable "
              "InvSecondRun InvShape")
BUGS = {   # seeded fault of the machine -> a law TLC must report as violated
    "NoQuoteLastLine": "the defect the tree once had: NeedsQuote misses a marker on a last line without newline",
    "UpdateOnCmpenv": "cmpenv records an update",
    "UpdateOnNeg": "! cmp records an update",
    "RewriteAlways": "the file is written even without updates",
    "ShiftEntry": "the update lands in the neighbouring entry",
}

ASSUME = [
    "scripts are generated in canonical txtar form (`-- name --` markers, final newline, unique names at most one directory deep); "
    "for scripts that must not be modified a non-canonical spelling (blanks inside a marker, no final newline) is run as well",
    "contents are ASCII without '$' (cmpenv's expansion of the second file is the identity); the content table is the "
    "specification's: '', 'x\\n', 'x', '-- m --\\n', 'a\\n-- m --', plus 'old\\n' and 'E\\n'",
    "every golden is compared once; the actual content comes from a helper program (real exec: stdout / stderr), from a file "
    "copied from stdout at run time, or from another archive entry",
    "the file after a run is read with os.ReadFile and parsed with the tree's own txtar.Parse (judged by C03)",
    "a content that cannot be quoted as it is (marker line, no final newline) cannot be stored, so the statement cannot be "
    "met; required there: the run ends through the T it was given (no panic leaving the subtest), names / order / other "
    "entries / script text unchanged, the entry holds the old data or the quoted content with the newline added",
    "the verdict of a run whose failing comparison is not against an archive entry (outside file, cmpenv, ! cmp) is C01's "
    "business: only 'the script is not modified by it' is judged here",
    "ContinueOnError off, one script per RunT call, T.Parallel is a no-op in the recording T",
]


def gen_cfg(maxslots, kindmode, cs, archg, by, emit=True, bug="none", sub=("plain", "sub", "stop", "dup", "again")):
    st = lambda xs: "{" + ", ".join(str(x) for x in xs) + "}"
    return ("SPECIFICATION Spec\nCONSTANTS\n  Bug = \"%s\"\n  MaxSlots = %d\n  KindMode = \"%s\"\n  Cs = %s\n  ArchG = %s\n"
            "  ByOpts = %s\n  SubOpts = %s\n  Emit = %s\nINVARIANTS %s\nCHECK_DEADLOCK FALSE\n"
            % (bug, maxslots, kindmode, st(cs), st(archg), st("TRUE" if b else "FALSE" for b in by),
               st('"%s"' % b for b in sub),
               "TRUE" if emit else "FALSE", INVARIANTS))


def selftest(ctx):
    failed = []
    for bug, what in BUGS.items():
        res = tlc(ctx, SPECDIR, "MC_UpdateScripts.tla", "Bug_UpdateScripts_%s.cfg" % bug, workers=4, timeout=900,
                  files=[TXTAR_TLA], expect_violation=True)
        log("selftest Bug_UpdateScripts_%s (%s): %s" % (bug, what, "violation found" if res.violation else "NO VIOLATION"))
        if not res.violation:
            failed.append(bug)
    if failed:
        raise NoVerdict("bug configurations without a TLC counterexample: %s" % failed)
    # the driver's comparison must reject a damaged script file
    drv = go_build(ctx, "drivers/updatescripts")
    cases = ctx.path("st_cases.ndjson")
    require_tlc_ok(tlc(ctx, SPECDIR, "MC_UpdateScripts.tla", "MC_st.cfg", cfg_text=gen_cfg(1, "core", [1, 2, 4], [2, 6], [True], sub=["plain"]),
                       emit_to=cases, workers=4, timeout=900, files=[TXTAR_TLA], name="stgen"), "selftest generator")
    expect = {"comment": "script-text-changed", "swap": "entries-renamed-or-reordered", "other": "other-entry-changed",
              "revert": "updated-entry-not-holding-actual"}
    for mode, kind in expect.items():
        out = ctx.path("st_%s.json" % mode)
        run_driver(ctx, [drv, "-cases", cases, "-work", ctx.fastdir("work"), "-selfbug", mode, "-out", out])
        r = load_result(out)
        n = r["counters"].get("violation:" + kind, 0)
        log("selftest driver -selfbug %s: %d x %s" % (mode, n, kind))
        if n == 0:
            failed.append(mode)
    if failed:
        raise NoVerdict("tampered script files not rejected: %s" % failed)
    return 0


def check(ctx):
    if getattr(ctx, "selftest", False):
        return selftest(ctx)
    quick = ctx.tier == "quick"
    allc = [1, 2, 3, 4, 5, 8, 9]
    B = ["plain", "sub", "stop", "dup", "again", "setupcd"]   # SubOpts: the script works in $WORK / after `cd sub` with every entry under sub/ / ends with a `stop` line
    # (MaxSlots, KindMode, Cs, ArchG, ByOpts, driver stride, walks per worker, SubOpts); bounds fitted to measured counts, see REGISTRY.
    # walks = 0: TLC explores every state; walks > 0: seeded random walks (-simulate, SIM_WORKERS workers) through a slot
    # domain with three goldens that is too large to enumerate; TLC checks and emits EVERY successor of every state on a
    # walk (measured: 6 walks x 3 steps x 135 core slots = 2,430 scripts; 32 walks x 3 x 255 full slots = 24,480)
    if quick:
        runs = [(1, "full", allc, [1, 2, 6], [True, False], 1, 0, B),
                (2, "core", [2, 4, 5], [2, 6], [True], 1, 0, ["plain", "sub"]),   # (the other variants: runs 1 and 3)
                (3, "core", allc, [1, 2, 6], [True, False], 1, 2, B)]
    else:
        runs = [(1, "full", allc, [1, 2, 6], [True, False], 1, 0, B),
                (2, "core", allc, [1, 2, 6], [True, False], 1, 0, B),
                (3, "mini", [2, 4, 5], [2, 6], [False], 1, 0, B),
                (3, "full", allc, [1, 2, 6], [True, False], 1, 8, B)]
    t_last = [time.time()]

    def phase(name):
        now = time.time()
        log("  [%6.1fs] %s" % (now - t_last[0], name))
        t_last[0] = now

    drv = go_build(ctx, "drivers/updatescripts")
    phase("built driver")

    # ---- per run: TLC checks the laws on every enumerated script and emits one case per state; as soon as a generator
    # ---- is done its cases are replayed into the real testscript.RunT (the runs overlap: TLC of the larger bound
    # ---- works while the smaller one is replayed)
    done, errs = {}, []
    t_start = time.time()

    def run_one(k, spec):
        try:
            cases = ctx.path("cases%d.ndjson" % k)
            if spec[6]:
                res = tlc(ctx, SPECDIR, "MC_UpdateScripts.tla", "MC_gen%d.cfg" % k, cfg_text=gen_cfg(*spec[:5], sub=spec[7]), emit_to=cases,
                          workers=SIM_WORKERS[ctx.tier], timeout=3000, files=[TXTAR_TLA], name="sim%d" % k, simulate="num=%d" % spec[6],
                          depth=spec[0] + 1, expect_violation=True)
                if res.violation or res.emits < 2:
                    raise NoVerdict("TLC reported an error while simulating scripts (or produced nothing): spec-level "
                                    "inconsistency, not a code verdict\n%s" % (res.violation or "")[:3000])
                res.distinct = res.emits - 1            # visited states, each checked against the laws and emitted
                with open(res.out_path, errors="replace") as fh:
                    for line in fh:
                        if line.startswith("The number of states generated:"):
                            res.generated = int(line.split(":")[1])
            else:
                res = tlc(ctx, SPECDIR, "MC_UpdateScripts.tla", "MC_gen%d.cfg" % k, cfg_text=gen_cfg(*spec[:5], sub=spec[7]), emit_to=cases,
                          workers=max(4, NCPU // (1 if spec[0] > 1 else 4)), timeout=3000, files=[TXTAR_TLA], name="gen%d" % k)
                require_tlc_ok(res, "laws of C16 on the specification (MC_UpdateScripts %s)" % (spec[:5],))
                if res.emits != res.distinct + 1:           # one case per state + the content table
                    raise NoVerdict("MC_UpdateScripts emitted %d lines for %d states" % (res.emits, res.distinct))
            t_gen = time.time() - t_start
            # process spawning is serialised inside one Go process (syscall.ForkLock): several driver processes share the file
            shards = 1 if res.distinct < 2000 else SHARDS
            outs = [ctx.path("replay%d_%d.json" % (k, i)) for i in range(shards)]

            def run_shard(i):
                try:
                    run_driver(ctx, [drv, "-cases", cases, "-work", ctx.fastdir("work"), "-stride", str(spec[5]), "-shard", str(i),
                                     "-shards", str(shards), "-out", outs[i]], timeout=3000)
                except Exception as e:      # noqa: re-raised in the main thread
                    errs.append(e)

            ths = [threading.Thread(target=run_shard, args=(i,)) for i in range(shards)]
            for t in ths:
                t.start()
            for t in ths:
                t.join()
            done[k] = (res, outs, t_gen, time.time() - t_start)
        except Exception as e:      # noqa: re-raised in the main thread
            errs.append(e)

    threads = [threading.Thread(target=run_one, args=(k, spec)) for k, spec in enumerate(runs)]
    for t in threads:
        t.start()
    for t in threads:
        t.join()
    if errs:
        raise errs[0]
    # the TLC runs were concurrent: recompute the totals from the per-run list (append is atomic, += is not)
    ctx.tlc_states = sum(done[k][0].distinct for k in done)
    ctx.tlc_transitions = sum(max(done[k][0].generated - 1, 0) for k in done)

    violations, drift, samples, counters = [], [], [], {}
    evals = nontriv = total_states = 0
    for k, spec in enumerate(runs):
        res, outs, t_gen, t_end = done[k]
        ran = 0
        for o in outs:
            r = load_result(o)
            if r["counters"].pop("cases_emitted", 0) != res.distinct:
                raise NoVerdict("a driver process did not see all %d cases" % res.distinct)
            ran += r["evaluations"]
            nontriv += r["distinct_nontrivial"]
            violations.extend(r["violations"])
            drift.extend(r["drift"])
            samples.extend(r["samples"][:2])
            for key, v in r["counters"].items():
                counters[key] = counters.get(key, 0) + v
        if abs(ran * spec[5] - res.distinct) > spec[5]:
            raise NoVerdict("drivers ran %d of %d cases (stride %d)" % (ran, res.distinct, spec[5]))
        evals += ran
        total_states += res.distinct
        if spec[6]:
            counters["simulated_scripts"] = counters.get("simulated_scripts", 0) + ran
        log("  run %s%s: %d states, laws hold (TLC done at %.1fs); %d scripts replayed (done at %.1fs)"
            % (spec[:2], " random walks" if spec[6] else "", res.distinct, t_gen, ran, t_end))
    phase("TLC + replay, %d real runs" % counters.get("runs", 0))

    coverage = dict(
        evaluations=evals, distinct_nontrivial=nontriv,
        rule=("a case = one state of MC_UpdateScripts = one script: a sequence of <= MaxSlots golden slots, a slot = (actual from stdout / "
              "stderr / run-time file / archive entry) x (cmp / ! cmp / cmpenv) x actual content x (golden is an archive entry holding "
              "Content[g], g in ArchG | golden created at run time, equal or 'old\\n'), with or without untouched entries first and last; "
              "runs (MaxSlots, KindMode, Cs, ArchG, ByOpts, stride, random walks per worker or 0 = all states) = %s. TLC checks the eight laws of the statement on each and emits "
              "script bytes, verdicts, file bytes afterwards and per entry the data the laws allow; the driver runs the real RunT with "
              "UpdateScripts, again without it when the first run passed, and once more on a non-canonical spelling when the script must "
              "not be modified (%d real runs). non-trivial = a script in which some comparison mismatches (an update is recorded or the "
              "run fails)." % ([tuple(s) for s in runs], counters.get("runs", 0))),
        samples=samples[:12], exhaustive=all(s[5] == 1 for s in runs), simulated_scripts=counters.get("simulated_scripts", 0), scripts=total_states,
        traces_validated_against_impl=0, counters=counters, drift=drift[:10],
        drift_total=max(len(drift), counters.get("drift_total", 0)), l2_conformant=not drift)
    for v in violations:
        v.setdefault("class", "")
    return conclude(ctx, violations, "model_checking", coverage, ASSUME)


REGISTRY = dict(
    category="model_checking", design_ref="DESIGN.md section 3 C16",
    text=("UpdateScripts.tla models a script as a txtar archive (Txtar.tla of C03/C14) whose comment is a list of commands, the "
          "machine of testscript.go / cmd.go for exec helper, cp, mkdir, cmp, ! cmp, cmpenv (scriptFiles, scriptUpdates, stop at the "
          "first failing line) and the deferred ApplyUpdates (NeedsQuote -> Quote -> replace data -> Format, written once), and states "
          "the statement's laws from the slots alone: verdict, no rewrite without an archive mismatch, outside files / cmpenv / ! cmp "
          "never modify, script text / names / order / other entries preserved in what Parse sees afterwards, the named entries hold "
          "the actual content (quoted when it has marker lines), an unquotable content changes nothing, the second run never writes "
          "and passes when every stored content is representable. TLC checks the machine against the laws for every enumerated script "
          "and emits one case per state; the driver runs the real testscript.RunT (recording T, real exec of a helper) twice per "
          "script on a scratch copy and compares verdicts, bytes and the parsed archive. Measured: quick = all 512 one-golden scripts "
          "(12 src x cmp kinds, 5 contents, 5 goldens, with / without untouched entries) + 4,161 two-golden scripts (core kinds, "
          "contents 'x\\n' / needs-quote / unquotable) + 2,432 three-golden scripts on 6 seeded random walks = ~7,100 scripts, ~15,500 "
          "real runs, 25-60 s depending on machine load. thorough = 512 + 36,722 (all two-golden core scripts) + 47,989 (all "
          "three-golden scripts over 3 kinds x 3 contents x 4 goldens) + 24,482 on 32 random walks through the full domain = ~110,000 "
          "scripts, ~217,000 real runs, 5-10 min. Bug_*.cfg (NoQuoteLastLine, UpdateOnCmpenv, UpdateOnNeg, RewriteAlways, "
          "ShiftEntry) and a tampering driver (-selfbug comment / swap / other / revert) are the --selftest."),
    note="trusted: TLC, Txtar.tla / UpdateScripts.tla, the driver's comparison code, the tree's txtar.Parse for reading the file "
         "back (judged by C03); verdict of runs that fail for a non-updatable comparison is compared with the model as drift only",
    technique="TLA+ model + laws model-checked by TLC; one generated script per state replayed twice into testscript.RunT")
