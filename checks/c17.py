"""C17 -- testscript honours Params.Deadline: blocked commands are stopped and reported.

spec/deadline/Deadline.tla is the implementation-shaped model of the waitOrStop protocol
(main in cmd.Wait / receiving errc, the watcher goroutine, the child, the context timer)
over a discrete clock; TLC checks it for every interleaving and every exit time of the child
(no deadlock over the unbuffered channel, interrupt iff the context expired before Wait
returned, kill only after the grace period, error attribution, bounded return, early
finishers keep their own status) and checks that its observable projection satisfies the
contract spec/deadline/DeadlineL1.tla.  MC_DeadlinePlan.tla derives the real-time experiment
plan from the contract's formulas; harness/drivers/deadline runs every planned script
through the REAL testscript.RunT with Params.Deadline set (helper children stamp their own
logs) and Trace_Deadline.tla validates every recorded observation against DeadlineL1.

Timing is the one place where a single observation is not trusted: a miss is re-run and
only a reproduced miss is a VIOLATION (see judge())."""
import json
import os
import random
from vlib import *

HARD = {"HFinished", "HNotEarlyInt", "HInterruptedIfBlocked", "HVerdictBlocked", "HVerdictEarly",
        "HVerdictBoundary", "HNoChildLeft", "HNotEarlyTimeout", "HLateKillNotBeforeGrace"}
SMIN = 150            # ms; the slack of a record is SMIN + 3 * (largest scheduling delay measured during its run) + spawn baseline
JIT_LIMIT = 120       # ms; a run during which a 5 ms sleep overshot by more than this is not judged (machine too busy)
TICK = 25             # ms per tick of the L2 model (GMinT = 4)

ASSUME = [
    "scripts that cannot be observed in three attempts (scheduling delays above the limit while they ran) are left unjudged and counted in the "
    "evidence (scripts_not_judged); more than a third of the plan unjudged ends the check without verdict",
    "real time, not a virtual clock: the sweep over exit times and deadline distances is bounded (the exhaustive part is the Deadline.tla "
    "model); a miss counts only when it reproduces (laws a slow machine cannot break: once more in 3 + 18..72 re-runs, the later ones spread "
    "+-3 ms around the exit time; laws bounding a delay by the slack: in all 3 re-runs of a round), otherwise it is reported as transient / "
    "unreproduced (evidence file, log) or, for mixed outcomes, the check ends without verdict",
    "measured on this sandbox, outside testscript: 1..15 of 6000 SIGQUITs sent with os.Process.Signal (returning nil) to a Go program that "
    "called signal.Notify stay in the kernel's shared pending set and never reach the handler; the helper therefore takes the arrival of "
    "the interrupt from os/signal or from the pending mask in /proc/self/status (read with every 5 ms beat), whichever shows it first",
    "scheduling slack S = %d ms + 3 x (largest overshoot of a 5 ms sleep measured in the driver while the run was in flight) + the largest of 12 "
    "helper start-to-exit times measured before the runs; runs during which the overshoot exceeded %d ms are re-run, not judged" % (SMIN, JIT_LIMIT),
    "with S >= 150 ms a shift of the interrupt or the kill by less than S is not observable; the deadline distances of 3 s and more "
    "(grace 150..400 ms) are there so that a one-grace-period shift exceeds S",
    "the moment the interrupt arrives, the last sign of life (a beat every 5 ms) and the voluntary exit are stamped by the helper child "
    "itself (CLOCK_MONOTONIC, same clock as the driver) and sent to the driver over a unix socket (file writes stall on the shared disk); "
    "an observation whose helper was silent for more than 40 ms + 3 x measured delay, in the middle or at the end of its life, is "
    "taken again, not judged; 'about the moment the deadline fires' = the helper left on its own later than 40 ms "
    "before and earlier than S + 40 ms after the nominal interrupt time: either attribution is accepted there",
    "the failure message class is read from the FAIL line of the script log (timed out / timeout / deadline => timed-out message); "
    "its wording is not judged.  [signal: killed] / [context deadline exceeded] lines are recorded, not judged",
    "one foreground exec per script, 1..8 scripts per RunT call with a T implementation that runs subtests in parallel, plus (per deadline "
    "distance) three scripts that start late: second script of a RunT call whose T runs subtests one after the other, the first script "
    "leaving a third of the way to the interrupt; "
    "background commands (killDelay = -1) are modelled in Deadline.tla (no escalation) but not part of the statement",
    "the entry point testscript.Run is covered by a second stage: the cases of two deadline distances are repeated through Run with a real "
    "*testing.T inside testing.Main (-test.timeout 10m, go test's default, so T.Deadline() is set and later than every Params.Deadline); the "
    "verdict is T.Failed()/T.Skipped() and the end of the script the moment a function registered with Env.Defer runs; Params.Deadline left "
    "zero (Run then takes T.Deadline()) is not part of the statement and not exercised",
    "one script per deadline distance of 3 s and more starts after the interrupt was due (second script of a sequential RunT call, half a "
    "grace period into the reserved time) with a command that ignores the interrupt from its first instruction: the driver that runs these "
    "cases ignores SIGQUIT itself, so its children start out ignoring it (the Go helper's runtime takes the signal over a moment later; an "
    "interrupt sent at the very start is lost on it, which is the point); such a command is force-killed one grace period after it "
    "started - SLateKillNotBeforeGrace / SLateKillOnTime count from the helper's first sign of life",
    "Deadline.tla idealisation: goroutine steps take no time but interleave in every order with the timed events of the same instant; "
    "timed events (context, kill timer, process death) happen within J = 1 tick (25 ms) of their due time",
]


def tla_set(xs):
    return "{" + ", ".join(str(x) for x in sorted(set(xs))) + "}"


def mc_cfg(tier, bug="none", emit=True, fgs="{TRUE}"):
    if tier == "quick":
        ds, step = [12, 20, 32, 48, 80, 120, 200, 320], 4
    else:
        ds, step = [12, 14, 16, 20, 24, 26, 28, 32, 40, 48, 64, 80, 100, 120, 160, 200, 320, 480], 1
    return ("SPECIFICATION Spec\nCONSTANTS\n  GMinT = 4\n  J = 1\n  Bug = \"%s\"\n  Emit = %s\n  Scenarios <- MCScenarios\n"
            "  Ds = %s\n  XStep = %d\n  Near = 4\n  Fgs = %s\nCONSTRAINT TimeBound\n"
            "INVARIANTS TypeOK NoStuck IntIffCtxBeforeWait KillOnlyAfterGrace NoEscalationInBg Attribution BoundedReturn "
            "EarlyOwnStatus NoChildLeft SatisfiesL1 NotHung\nCHECK_DEADLOCK TRUE\n"
            % (bug, "TRUE" if emit else "FALSE", tla_set(ds), step, fgs)), ds


def plan_cfg(tier, rng):
    """deadline distances and sweep offsets (ms), perturbed by the seed"""
    if tier == "quick":
        base = [300, 500, 800, 1200, 2000, 3000, 5000, 8000]
        die = [-120, -60, -25, -8, -3, -1, 0, 1, 3, 8, 25, 60, 120, 260]
        ign = [-8, 8, 50, 230]
        kill = [-45, 45, 230]
        early = [5, 30, 150, 400]
    else:
        base = [300, 400, 500, 650, 800, 1000, 1200, 1600, 2000, 2500, 3000, 4000, 5000, 8000, 12000]
        die = list(range(-150, 151, 10)) + [-5, -3, -2, -1, 1, 2, 3, 5, 260]
        ign = [-30, -8, 8, 30, 50, 75, 230]
        kill = [-70, -45, -20, 20, 45, 70, 230]
        early = [5, 30, 80, 150, 400, 1000]
    ds = [d + rng.randrange(0, 12) for d in base]
    pert = lambda xs: [x + (rng.randrange(-4, 5) if abs(x) > 5 else 0) for x in xs]
    text = ("SPECIFICATION Spec\nCONSTANTS\n  G100 = 100\n  M = 40\n  Delta = 10\n  SNom = %d\n  Ds = %s\n  EarlyXs = %s\n"
            "  BOffsDie = %s\n  BOffsIgn = %s\n  BOffsKill = %s\nINVARIANTS LabelSound EveryClassEveryD GraceFormula\nCHECK_DEADLOCK FALSE\n"
            % (SMIN + 20, tla_set(ds), tla_set(early), tla_set([1000 + o for o in pert(die)]),
               tla_set([1000 + o for o in pert(ign)]), tla_set([1000 + o for o in pert(kill)])))
    return text, dict(zip(ds, base))


def read_ndjson(p):
    with open(p) as fh:
        return [json.loads(l) for l in fh if l.strip()]


class Runner:
    """plan -> real runs -> TLC validation; keeps the counts for the evidence file"""

    def __init__(self, ctx, drv):
        self.ctx, self.drv = ctx, drv
        self.n = 0
        self.next_id = 1
        self.validated = 0
        self.scripts = 0
        self.runt_calls = 0
        self.classes = {}
        self.noisy = 0
        self.unobserved = 0
        self.samples = []
        self.extra = {}
        self.all_records = []
        self.via_scripts = 0

    def run(self, cases, par, group, tag):
        """cases: plan records without id.  Returns [(record, set of failed laws, class)].  Cases marked via="run" are made
        through testscript.Run with a real *testing.T (driver mode viarun), the others through RunT with the driver's T."""
        withid = []
        for c in cases:
            c = dict(c)
            c["id"] = self.next_id
            self.next_id += 1
            withid.append(c)
        out = []
        for mode, part in (("run", [c for c in withid if not c.get("via") and not c.get("ign")]), ("viarun", [c for c in withid if c.get("via")]),
                           ("ign", [c for c in withid if c.get("ign") and not c.get("via")])):
            if part:
                out += self._run(part, par, group, tag, mode)
        return out

    def _run(self, cases, par, group, tag, mode):
        self.n += 1
        name = "%s%d" % (tag, self.n)
        plan = self.ctx.path("plan-%s.ndjson" % name)
        with open(plan, "w") as fh:
            for c in cases:
                fh.write(json.dumps(c, sort_keys=True) + "\n")
        traces = self.ctx.path("val-%s" % name, "trace.ndjson")
        out = self.ctx.path("result-%s.json" % name)
        longest = max(c["D"] for c in cases) / 1000.0
        extra = []
        if mode == "ign":       # the driver ignores SIGQUIT itself: what it starts begins life ignoring the interrupt
            mode, extra = "run", ["-ignquit"]
        run_driver(self.ctx, [self.drv, mode] + extra + ["-plan", plan, "-traces", traces, "-out", out, "-work", self.ctx.mkdir("work-" + name),
                              "-par", str(par), "-group", str(group), "-smin", str(SMIN)],
                   timeout=int(120 + (longest + 8) * (len(cases) / float(par * group) + 2)))
        if mode == "viarun":
            self.via_scripts += len(cases)
        r = load_result(out)
        self.scripts += r["counters"].get("scripts", 0)
        self.runt_calls += r["counters"].get("runT_calls", 0)
        for k in ("spawn_baseline_max_ms", "max_sleep_overshoot_ms"):
            self.extra[k] = max(self.extra.get(k, 0), r["extra"].get(k, 0))
        recs = read_ndjson(traces)
        if len(recs) != len(cases):
            raise NoVerdict("driver recorded %d of %d planned scripts" % (len(recs), len(cases)))
        with open(os.path.join(SPEC, "deadline", "Trace_Deadline.cfg")) as fh:
            cfg_text = re.sub(r"K = \d+", "K = %d" % max(1, min(32, len(recs))), fh.read())
        res = tlc(self.ctx, "deadline", "Trace_Deadline.tla", "Trace_Deadline.cfg", files=[traces], workers=min(NCPU, 8), timeout=900,
                  cfg_text=cfg_text, emit_to=self.ctx.path("classes-%s.ndjson" % name), name="Trace_" + name)
        require_tlc_ok(res, "validation of recorded observations (the laws print BAD lines, they do not stop TLC)")
        bad = bad_traces(res)
        cls = {c["idx"]: c["class"] for c in read_ndjson(self.ctx.path("classes-%s.ndjson" % name))}
        if len(cls) != len(recs):
            raise NoVerdict("TLC classified %d of %d records" % (len(cls), len(recs)))
        self.validated += len(recs)
        result = []
        for k, rec in enumerate(recs, 1):
            laws = set(bad.get(k, ()))
            if "WellFormed" in laws:
                raise NoVerdict("malformed observation: %s" % json.dumps(rec)[:600])
            if not observed(rec):
                # too busy a moment to judge, or the helper never got as far as its first stamp (e.g. it was started so late
                # that the interrupt hit it before its signal handler existed): nothing was observed, run it again
                self.noisy += 1
                self.unobserved += int(rec["jit"] <= JIT_LIMIT)
                result.append((rec, None, cls[k]))        # not judged
                continue
            self.classes[cls[k]] = self.classes.get(cls[k], 0) + 1
            if len(self.samples) < 8 and (k % 37 == 1 or laws):
                self.samples.append({kk: vv for kk, vv in rec.items() if kk not in ("log", "clog")} | {"class": cls[k]})
            result.append((rec, laws, cls[k]))
        self.all_records.extend((rec, cls[k]) for k, rec in enumerate(recs, 1))
        return result


def observed(rec):
    """Is this record an observation at all?  Not when the machine was too busy while it was taken, when the helper never
    got as far as its first stamp (e.g. started so late that the interrupt hit it before its signal handler existed), or when
    the helper - which beats every 5 ms - was silent for long, in the middle or at the end of its life: a stalled helper
    looks exactly like one that was not interrupted."""
    if early_timeout(rec):
        return True       # reported as timed out before the interrupt was due: load only delays things, and no helper is needed to see it
    if rec["jit"] > JIT_LIMIT or rec["start"] < 0:
        return False
    lim = 40 + 3 * rec["jit"]
    if rec["gap"] > lim:
        return False
    if not rec["hung"] and not rec["alive"] and rec["done"] - rec["last"] > lim + 20:
        return False
    return True


def early_timeout(rec):
    g = max(100, rec["D"] // 20)
    return (not rec["hung"]) and rec["msg"] == "timedout" and 0 <= rec["done"] and rec["done"] + 10 < max(0, rec["D"] - 2 * g)


def case_of(rec):
    return {k: rec.get(k, 0) for k in ("label", "D", "x", "onint", "ok", "neg", "after")} | ({"via": rec["via"]} if rec.get("via") else {}) | ({"ign": True} if rec.get("ign") else {}) | {k: True for k in ("custom", "coe", "bg") if rec.get(k)}


def judge(ctx, runner, misses, all_ds=frozenset()):
    """misses: [(record, laws)].  Re-runs each missed case alone (3 copies, then 3..6 more if undecided) and decides.
    A law a slow machine cannot break (H*) is confirmed by one reproduction; a law bounding a delay (S*) only if every
    re-run reproduces it.  Returns (violations, transient, unreproduced, inconclusive, skipped)."""
    violations, transient, unreproduced, inconclusive = [], [], [], []
    todo, seen = [], set()
    for rec, laws in misses:          # one representative per (laws, case) is enough to decide; cap the work
        key = (tuple(sorted(laws)), rec["D"], rec["onint"], rec["x"], rec["ok"], rec["neg"], rec.get("after", 0), rec.get("via", ""))
        if key not in seen:
            seen.add(key)
            todo.append(dict(rec=rec, laws=laws, repro={l: 0 for l in laws}, tries=0, last_round={}))
    skipped = max(0, len(todo) - 16)
    todo = todo[:16]

    def rerun(items, copies_of, par, spread=0):
        plan, owner = [], []
        for n, it in enumerate(items):
            for k in range(copies_of(it)):
                c = case_of(it["rec"])
                if spread and c["x"] >= 0:
                    c["x"] = max(1, c["x"] + (k % (2 * spread + 1)) - spread)      # a race near a boundary needs the neighbourhood, not the point
                plan.append(c)
                owner.append(n)
        for it in items:
            it["last_round"] = {l: [0, 0] for l in it["laws"]}
        # the first observation was made in a process that had made RunT calls with other deadline distances before and beside
        # it: a re-run keeps that history (the driver starts the longest distance first) - one early finisher per other distance
        for D in sorted(all_ds - {c["D"] for c in plan}):
            plan.append(dict(label="early", D=D, x=5, onint="die", ok=True, neg=False, after=0))
            owner.append(-1)
        # records come back in completion order: match by the id the runner hands out
        first_id = runner.next_id
        rs = runner.run(plan, par=par, group=1, tag="retry")
        for r2, laws2, _ in rs:
            if owner[r2["id"] - first_id] < 0:
                continue
            it = items[owner[r2["id"] - first_id]]
            if laws2 is None:
                continue
            it["tries"] += 1
            for l in it["laws"]:
                it["last_round"][l][1] += 1
                if l in laws2:
                    it["repro"][l] += 1
                    it["last_round"][l][0] += 1

    def confirmed(it):
        c = [l for l in it["laws"] if l in HARD and it["repro"][l] >= 1]
        c += [l for l in it["laws"] if l not in HARD and it["last_round"][l][1] >= 3 and it["last_round"][l][0] == it["last_round"][l][1]]
        return c

    def close(it, verdict, laws):
        rec = it["rec"]
        info = dict(case=case_of(rec), first_observation={k: v for k, v in rec.items() if k != "log"}, log=rec.get("log", "")[:800],
                    laws=sorted(it["laws"]), reproduced=it["repro"], reruns=it["tries"])
        if verdict == "violation":
            law = sorted(laws)[0]
            violations.append(dict(
                kind="l1-rejected:" + law,
                what="DeadlineL1.%s rejects what the real %s did with Params.Deadline = now + %d ms for a child that %s and %s "
                     "%s(reproduced in %d of %d re-runs): %s" % (
                         law, "testscript.Run (real *testing.T, -test.timeout 10m)" if rec.get("via") else "RunT", rec["D"], "ignores the interrupt" if rec["onint"] == "ignore" else "dies of the interrupt",
                         "never leaves on its own" if rec["x"] < 0 else "leaves on its own at %d ms" % rec["x"],
                         "in a script that starts after an earlier script of the same RunT call ended at about %d ms " % rec["after"] if rec.get("after") else "",
                         it["repro"][law], it["tries"], explain(law, rec)),
                input=info, **{"class": "%s|D=%d|x=%d|%s|ok=%s|neg=%s%s" % (law, rec["D"], rec["x"], rec["onint"], rec["ok"], rec["neg"],
                                                                      ("|after=%d" % rec["after"] if rec.get("after") else "") + ("|via=Run" if rec.get("via") else ""))}))
        else:
            dict(transient=transient, unreproduced=unreproduced, inconclusive=inconclusive)[verdict].append(info)

    # a child that is still alive after its subtest and RunT have returned is a fact the driver saw with its own eyes (the
    # process table, by command line): no machine is slow enough to produce it, it needs no second look
    for it in todo:
        if "HNoChildLeft" in it["laws"] and not it["rec"]["hung"]:
            it["repro"]["HNoChildLeft"] += 1
    rerun(todo, lambda it: 3, par=8)
    second = []
    for it in todo:
        c = confirmed(it)
        if c:
            close(it, "violation", c)
        elif all(v == 0 for v in it["repro"].values()) and not (it["laws"] & HARD) and it["tries"] >= 3:
            close(it, "transient", it["laws"])
        else:
            second.append(it)
    if second:
        many = lambda D: 72 if D < 1500 else 36 if D < 4000 else 18
        rerun(second, lambda it: many(it["rec"]["D"]) if it["laws"] & HARD else 3, par=12, spread=3)
        for it in second:
            c = confirmed(it)
            if c:
                close(it, "violation", c)
            elif all(n == 0 for n, _ in it["last_round"].values()) and it["tries"] >= 3:
                close(it, "unreproduced" if it["laws"] & HARD else "transient", it["laws"])
            else:
                close(it, "inconclusive", it["laws"])
    return violations, transient, unreproduced, inconclusive, skipped


def explain(law, r):
    return {
        "HFinished": "the subtest did not finish within D + 6 s",
        "HNotEarlyInt": "interrupt received at %d ms, before two grace periods before the deadline" % r["sig"],
        "HInterruptedIfBlocked": "the blocked command was never interrupted (sig=%d, run done at %d ms)" % (r["sig"], r["done"]),
        "HVerdictBlocked": "blocked command reported as %s/%s instead of failed with a timed-out message" % (r["verdict"], r["msg"]),
        "HVerdictEarly": "command that finished at %d ms was signalled at %d / reported %s/%s" % (r["selfexit"], r["sig"], r["verdict"], r["msg"]),
        "HVerdictBoundary": "reported %s/%s, neither its own verdict nor timed out" % (r["verdict"], r["msg"]),
        "HNoChildLeft": "child pid %d still alive after the run" % r["pid"],
        "HLateKillNotBeforeGrace": "a command started no earlier than %d ms (what ran in front of it was alive until then) was last alive at %d ms: killed before one grace period was over" % (r.get("prevend", -1), r["last"]),
        "HNotEarlyTimeout": "reported as timed out at %d ms, before the interrupt was due (two grace periods before the deadline)" % r["done"],
        "SIntOnTime": "interrupt at %d ms, later than two grace periods before the deadline + slack %d" % (r["sig"], r["s"]),
        "SKillOnTime": "ignoring child last alive at %d ms (interrupt at %d), not killed one grace period later (+ slack %d)" % (r["last"], r["sig"], r["s"]),
        "SKillNotBeforeGrace": "ignoring child interrupted at %d ms was last alive at %d ms: killed before the grace period was over" % (r["sig"], r["last"]),
        "SDoneByDeadline": "subtest done at %d ms / RunT and all subtests at %d ms, deadline %d + slack %d" % (r["done"], r["rundone"], r["D"], r["s"]),
        "SEarlyUndelayed": "finished on its own at %d ms but the subtest only ended at %d ms" % (r["selfexit"], r["done"]),
    }.get(law, law)


def l2_conformance(ctx, outcomes, records, base_of):
    """drift only: is the outcome of every real run one the L2 model reaches for the same scenario (+-2 ticks)?"""
    reach = {}
    for o in outcomes:
        reach.setdefault((o["D"], o["x"], o["onint"], o["ok"], o["neg"]), set()).add((o["sig"], o["killed"], o["verdict"], o["msg"]))
    xs_of = {}
    for (D, x, oi, ok, ng) in reach:
        xs_of.setdefault(D, set()).add(x)
    drift, checked = [], 0
    for rec, cls in records:
        if rec["hung"] or not observed(rec) or rec["D"] not in base_of:
            continue
        Dt = base_of[rec["D"]] // TICK
        if Dt not in xs_of:
            continue
        if rec["x"] < 0:
            cand = [-1]
        else:
            # same distance from the nominal interrupt time, in ticks
            gt = max(4, Dt // 20)
            tit = Dt - 2 * gt
            g = max(100, rec["D"] // 20)
            xt = tit + int(round((rec["x"] - (rec["D"] - 2 * g)) / float(TICK)))
            near = sorted(xs_of[Dt] - {-1}, key=lambda v: abs(v - xt))
            cand = [v for v in near if abs(v - xt) <= 2] or near[:1]
        allowed = set()
        for v in cand:
            allowed |= reach.get((Dt, v, rec["onint"], rec["ok"], rec["neg"]), set())
        got = (rec["sig"] >= 0, rec["onint"] == "ignore" and rec["sig"] >= 0 and rec["selfexit"] < 0, rec["verdict"], rec["msg"])
        checked += 1
        if got not in allowed:
            drift.append(dict(kind="l2-outcome-not-reached", what="outcome %s of the real run is not among the outcomes Deadline.tla reaches "
                              "for D=%d ticks, x in %s" % (list(got), Dt, cand), case=case_of(rec)))
    return checked, drift


def selftest(ctx):
    bad = []
    for b, inv in [("OneGrace", "SatisfiesL1"), ("NoKill", "BoundedReturn"), ("KillAtOnce", "KillOnlyAfterGrace"),
                   ("NoNilOnDone", "NoStuck"), ("WaitErrFirst", "Attribution"), ("EarlySelect", "IntIffCtxBeforeWait")]:
        r = tlc(ctx, "deadline", "MC_Deadline.tla", "Bug_Deadline_%s.cfg" % b, workers=4, timeout=600, expect_violation=True)
        found = bool(r.violation) and ("Invariant %s is violated" % inv) in r.violation
        log("selftest Bug=%s: %s" % (b, "violates %s as required" % inv if found else "NOT DETECTED"))
        if not found:
            bad.append(b)
    if bad:
        raise NoVerdict("bug switches not detected by TLC: %s" % bad)
    return ["OneGrace", "NoKill", "KillAtOnce", "NoNilOnDone", "WaitErrFirst", "EarlySelect"]


def check(ctx):
    if getattr(ctx, "selftest", False):
        selftest(ctx)
        return 0
    quick = ctx.tier == "quick"
    rng = random.Random(ctx.seed * 7919 + 17)
    drv = go_build(ctx, "drivers/deadline")

    # 1. TLC: the L2 model satisfies its laws and the contract, for every interleaving and exit time
    text, model_ds = mc_cfg(ctx.tier)
    outcomes_p = ctx.path("outcomes.ndjson")
    res = tlc(ctx, "deadline", "MC_Deadline.tla", "MC_Deadline.cfg", cfg_text=text, emit_to=outcomes_p, workers=8, timeout=1500)
    require_tlc_ok(res, "Deadline.tla laws (foreground)")
    l2_states = res.distinct
    text_bg, _ = mc_cfg("quick", emit=False, fgs="{FALSE}")
    res_bg = tlc(ctx, "deadline", "MC_Deadline.tla", "MC_Deadline_bg.cfg", cfg_text=text_bg, workers=8, timeout=900, name="MC_Deadline_bg")
    require_tlc_ok(res_bg, "Deadline.tla laws (background variant: no escalation)")
    bugs = selftest(ctx) if not quick else []
    outcomes = read_ndjson(outcomes_p)

    # 2. TLC: the experiment plan from the contract's formulas
    runner = Runner(ctx, drv)
    batches = 1 if quick else 3
    misses, base_of, plan_sizes, unjudged = [], {}, [], []
    for b in range(batches):
        ptext, bmap = plan_cfg(ctx.tier, rng)
        base_of.update(bmap)
        plan_p = ctx.path("plan-%d.ndjson" % b)
        pres = tlc(ctx, "deadline", "MC_DeadlinePlan.tla", "MC_DeadlinePlan.cfg", cfg_text=ptext, emit_to=plan_p, workers=1, timeout=600,
                   name="MC_DeadlinePlan%d" % b)
        require_tlc_ok(pres, "experiment plan")
        cases = read_ndjson(plan_p)
        if not cases:
            raise NoVerdict("TLC emitted an empty plan")
        plan_sizes.append(len(cases))
        # 3. the real code, 4. TLC validates every observation against DeadlineL1
        todo, attempt = cases, 0
        while todo:
            attempt += 1
            rs = runner.run(todo, par=(16 if quick else 12), group=8, tag="main")
            todo = [case_of(rec) for rec, laws, _ in rs if laws is None]        # too noisy: run again
            misses += [(rec, laws) for rec, laws, _ in rs if laws]
            if todo and attempt >= 3:
                # what could not be observed in three attempts is set aside: what the other scripts showed is judged first
                unjudged += todo
                break
    # 3b. the entry point users call: testscript.Run with a real *testing.T whose own deadline (-test.timeout 10m, go test's
    # default) is far later than Params.Deadline.  Two deadline distances, every class of the plan, same validation.
    via_ds = sorted({c["D"] for c in cases})[1:4:2]
    todo, attempt = [dict(case_of(c), via="run") for c in cases if c["D"] in via_ds and not c.get("after")], 0
    while todo:
        attempt += 1
        rs = runner.run(todo, par=8, group=8, tag="via")
        todo = [case_of(rec) for rec, laws, _ in rs if laws is None]
        misses += [(rec, laws) for rec, laws, _ in rs if laws]
        if todo and attempt >= 3:
            unjudged += todo
            break
    log("C17 %d scripts in %d RunT calls; classes %s; %d observations with a failed law; %d runs not judged (noisy)"
        % (runner.scripts, runner.runt_calls, json.dumps(runner.classes, sort_keys=True), len(misses), runner.noisy))

    # 5. a miss must reproduce
    violations, transient, unreproduced, inconclusive, skipped = judge(ctx, runner, misses, all_ds=set(base_of)) if misses else ([], [], [], [], 0)
    for t in transient:
        log("transient timing miss (not reproduced in 3+ re-runs): %s %s" % (t["laws"], json.dumps(t["case"], sort_keys=True)))
    for t in unreproduced:
        log("UNREPRODUCED observation (seen once, not again in %d re-runs, so not an alarm - but a slow machine does not explain it): %s %s helper log: %s"
            % (t["reruns"], t["laws"], json.dumps(t["case"], sort_keys=True), t["first_observation"].get("clog")))
    if unjudged and not violations:
        # scripts that could not be observed in three attempts (the machine was too busy while they ran, or their helper never
        # got as far as its first stamp) are not judged and are named in the evidence; when they are more than a third of
        # the plan the sweep says too little to end with a verdict
        if 3 * len(unjudged) > sum(plan_sizes):
            raise NoVerdict("machine too busy: scheduling delays above %d ms (or stalled / never started helpers) in 3 attempts for %d of %d scripts, e.g. %s"
                            % (JIT_LIMIT, len(unjudged), sum(plan_sizes), json.dumps(unjudged[0], sort_keys=True)))
        log("%d of %d planned scripts could not be observed in three attempts and are not judged (machine busy), e.g. %s"
            % (len(unjudged), sum(plan_sizes), json.dumps(unjudged[0], sort_keys=True)))
    need = ["early", "blocked", "blocked-killed", "boundary"]
    if any(runner.classes.get(c, 0) == 0 for c in need) and not violations:
        raise NoVerdict("no observation in class(es) %s" % [c for c in need if runner.classes.get(c, 0) == 0])
    if inconclusive and not violations:
        raise NoVerdict("a miss could neither be reproduced as required nor dismissed: %s" % json.dumps(inconclusive[:2], sort_keys=True)[:1500])

    checked, drift = l2_conformance(ctx, outcomes, runner.all_records, base_of)
    lat = sorted(rec["sig"] - (rec["D"] - 2 * max(100, rec["D"] // 20)) for rec, cls in runner.all_records
                 if cls.startswith("blocked") and rec["sig"] >= 0 and observed(rec))
    coverage = dict(
        evaluations=runner.scripts,
        distinct_nontrivial=len({(r["D"], r["x"], r["onint"], r["ok"], r["neg"]) for r, c in runner.all_records if c in need and observed(r)}),
        rule=("one script (a single foreground exec / ! exec of a helper child) per case of the TLC-generated plan MC_DeadlinePlan: "
              "deadline distances %s ms (+ seeded 0..11 ms), children that block forever / leave on their own at seeded offsets "
              "around the nominal interrupt and kill instants, dying of or ignoring the interrupt, own status ok/failing, with and "
              "without `!`; run 8 per RunT call, 16 calls in flight, plus the re-runs of missed cases.  distinct non-trivial = distinct "
              "(D, exit time, reaction, status, negation) among the judged observations that the contract classifies as early, blocked, "
              "blocked-killed or boundary (re-runs of the same case count once)"
              % sorted(set(base_of.values()))),
        samples=runner.samples[:8], traces_validated_against_impl=runner.validated, exhaustive=False,
        exhaustive_scope="Deadline.tla is explored exhaustively (every interleaving, every exit tick) for the listed distances; "
                         "the real-time sweep is a bounded sample",
        l2_model=dict(distinct_states=l2_states, deadline_ticks=model_ds, tick_ms=TICK, outcomes_emitted=len(outcomes),
                      background_variant_states=res_bg.distinct),
        plan_sizes=plan_sizes, runT_calls=runner.runt_calls, scripts_through_testscript_Run=runner.via_scripts, classes=runner.classes, noisy_runs_not_judged=runner.noisy, helpers_unobservable=runner.unobserved,
        observations_with_failed_law=len(misses), scripts_not_judged=len(unjudged), scripts_not_judged_sample=unjudged[:3], transient_misses=transient[:5], transient_total=len(transient),
        unreproduced_misses=unreproduced[:5], unreproduced_total=len(unreproduced),
        unjudged_similar_misses=skipped,
        interrupt_lateness_ms=dict(min=lat[0], median=lat[len(lat) // 2], max=lat[-1]) if lat else {},
        scheduling=runner.extra, l2_checked=checked, l2_conformant=(len(drift) == 0), drift_total=len(drift), drift=drift[:5],
        bug_configs_rejected_by_tlc=bugs)
    return conclude(ctx, violations, "model_checking", coverage, ASSUME)


REGISTRY = dict(
    category="model_checking", design_ref="DESIGN.md section 3 C17",
    text="Deadline.tla models the waitOrStop protocol (main in cmd.Wait then receiving the unbuffered errc, the watcher goroutine with its two "
         "selects, Signal / kill timer / Kill, the child, the context expiring two grace periods before the deadline) over a discrete clock; "
         "TLC explores every interleaving for every exit time of the child and checks: no deadlock or leaked goroutine, interrupt iff the "
         "context expired before Wait returned, kill only after the grace period, context error (timed-out verdict) exactly when the interrupt "
         "was sent, return bounded by D - g + 3J, early finishers keep their own status, and that the observable projection satisfies the "
         "contract DeadlineL1 (six bug switches are rejected).  The real-time plan is generated by TLC from the contract's formulas; every "
         "planned script (among them scripts that start late: second script of a RunT call whose T runs subtests one after the other) is run through the real RunT with Params.Deadline set (the cases of two distances also through testscript.Run with a real *testing.T whose own deadline is later), helper children stamp interrupt arrival / last sign of life / "
         "own exit on the monotonic clock, and TLC validates every observation against DeadlineL1 (interrupt window, kill window, verdict and "
         "message class, completion by the deadline, no child left, early finishers untouched).  Timing needs real time, so the exhaustive "
         "part is the model and the binding is recorded real runs with adaptive slack and reproduce-before-alarm.",
    note="trusted: TLC, the DeadlineL1 reading of the statement, the helper's own timestamps (CLOCK_MONOTONIC), /proc/<pid>/cmdline (helper with the same unique log path) as liveness "
         "test, the driver's T implementation (parallel subtests), the slack rule; shifts smaller than the slack (>= 150 ms) are not observable",
    technique="TLA+ timed L2 model of waitOrStop checked by TLC against an L1 timing contract; TLC-generated real-time sweep through the real "
              "RunT, observations validated by TLC against the contract")
