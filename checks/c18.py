"""C18: imports.ReadImports returns exactly the file's imports and a safe prefix.

spec/imports:  ImportsGrammar.tla (generator machine for valid Go file headers),
               ImportsReader.tla (byte-level reference semantics of the reader),
               MC_ImportsFiles / MC_ImportsBytes (model checking + case emission),
               Trace_Imports (validation of records of the real code).
driver:        harness/drivers/imports.
"""
import json
import os
import re
from vlib import *

ALL_SEPS = ["SP", "TAB", "LF", "CRLF", "SEMI", "LC", "BC", "BCQ", "BCS", "BCNL"]
ALL_PKGS = ["PKG_P", "PKG_I", "PKG_U"]
ALL_NAMES = ["DOT", "BLANK", "NAME", "NAMEI", "NAMEU"]
ALL_STRS = ["S_A", "S_RAW", "S_ESC", "S_LONG", "S_C"]
ALL_TAILS = ["T_VAR", "T_FUNC", "T_TYPE", "T_CONST"]
FRAGMENTS = ["PKG", "IMP", "DQ", "BQ", "SLASH", "STAR", "LF", "LP", "RP", "SP", "BSL", "NUL", "xEF", "A", "SEMI", "DOT"]

FILE_INVS = "InvCompleteFileReads InvImportsExact InvPrefix InvPrefixReparses InvReaderLaws InvIncompleteRejected"

# name -> (seps, pkgs, names, strs, tails, eofs, MaxTok, MaxSep); exhaustive inside the bounds
PROFILES = {
    "quick": {
        # every kind of separator in every position, one kind of spec
        "separators": (["SP", "LF", "SEMI", "LC", "BC", "BCNL"], ["PKG_P"], ["NAME"], ["S_A"], ["T_FUNC"], ["T_LC"], 10, 3),
        # every kind of spec, string literal, package name and tail, plain separators
        "specs": (["SP", "LF", "SEMI"], ["PKG_P", "PKG_I"], ALL_NAMES, ["S_A", "S_RAW", "S_ESC"], ALL_TAILS, [], 10, 3),
    },
    "thorough": {
        "separators": (ALL_SEPS, ["PKG_P"], ["NAME", "DOT"], ["S_A"], ["T_FUNC"], ["T_LC"], 9, 4),
        "specs": (["SP", "LF", "SEMI", "BC"], ALL_PKGS, ALL_NAMES, ALL_STRS, ALL_TAILS, ["T_LC"], 11, 3),
    },
}
# TLC -simulate: num walks PER WORKER, invariants evaluated on every generated successor (measured ~14k states/s on 16 workers)
SIM = {"quick": dict(num=25, depth=40), "thorough": dict(num=900, depth=60)}
BYTES_N = {"quick": 4, "thorough": 5}
BYTES_FRAGS = {"quick": [f for f in FRAGMENTS if f not in ("xEF", "DOT", "SEMI")], "thorough": FRAGMENTS}
NMUT = {"quick": 3000, "thorough": 40000}

ASSUME = [
    "valid Go files are generated from the header grammar of ImportsGrammar.tla (token table fixed in the module); every generated file is "
    "confirmed syntactically valid by a full go/parser parse, otherwise the run ends without verdict",
    "go/parser of the local toolchain (ParseFile, ImportsOnly) is the reference named by the statement; import paths are compared as literals (quotes included), in order",
    "arbitrary bytes are explored as strings over byte/keyword fragments ('package p' and 'import' count as one fragment), exhaustively to the bound, "
    "and as seeded random mutations of generated files beyond it",
    "which inputs count as syntax errors, and how many bytes accompany a reported error, are not fixed by the statement: differences from the reference reader there are reported as drift",
    "termination is judged with a 20 s watchdog per call",
]


def tla_set(xs):
    return "{" + ", ".join('"%s"' % x for x in xs) + "}"


def files_cfg(p, emit=True, bug="none", allow_bom=True, invs=FILE_INVS):
    seps, pkgs, names, strs, tails, eofs, maxtok, maxsep = p
    return ("SPECIFICATION Spec\nCONSTANTS\n  Bug = \"%s\"\n  Emit = %s\n  SepToks = %s\n  PkgToks = %s\n  NameToks = %s\n"
            "  StrToks = %s\n  TailToks = %s\n  EofToks = %s\n  AllowBOM = %s\n  MaxTok = %d\n  MaxSep = %d\n"
            "INVARIANTS %s\nCHECK_DEADLOCK FALSE\n"
            % (bug, "TRUE" if emit else "FALSE", tla_set(seps), tla_set(pkgs), tla_set(names), tla_set(strs),
               tla_set(tails), tla_set(eofs), "TRUE" if allow_bom else "FALSE", maxtok, maxsep, invs))


def bytes_cfg(n, emit=True, frags=FRAGMENTS):
    return ("SPECIFICATION Spec\nCONSTANTS\n  Bug = \"none\"\n  Emit = %s\n  Alphabet = %s\n  N = %d\n"
            "INVARIANTS InvReaderLaws InvOutIsPrefix InvNulOnlyWithNUL InvQuiet\nPROPERTIES StopIsFinal\nCHECK_DEADLOCK FALSE\n"
            % ("TRUE" if emit else "FALSE", tla_set(frags), n))


def selftest(ctx):
    """Non-vacuity: TLC must find a violation for every Bug switch of the reference reader."""
    failed = []
    for bug in ("KeepBOM", "SemiNotSpace", "CommentNotSpace"):
        res = tlc(ctx, "imports", "MC_ImportsFiles.tla", "Bug_%s.cfg" % bug, workers=4, timeout=600, expect_violation=True)
        found = res.violation is not None and "Invariant" in res.violation
        log("selftest Bug=%s: %s" % (bug, "violation found (%s)" % res.violation.splitlines()[0] if found else "NO violation"))
        if not found:
            failed.append(bug)
    if failed:
        raise NoVerdict("selftest: TLC finds no violation for Bug in %s: the invariants are vacuous" % failed)
    return 0


def check(ctx):
    drv = go_build(ctx, "drivers/imports")
    if getattr(ctx, "selftest", False):
        return selftest(ctx)
    violations, drift, samples = [], [], []
    counters = {}
    tot = dict(evals=0, nontriv=0)

    def absorb(path):
        with open(path) as fh:
            r = json.load(fh)
        tot["evals"] += r["evaluations"]
        tot["nontriv"] += r["distinct_nontrivial"]
        violations.extend(r["violations"])
        drift.extend(r["drift"])
        samples.extend(r["samples"][:4])
        for k, v in r["counters"].items():
            counters[k] = counters.get(k, 0) + v
        return r

    if getattr(ctx, "replay", None):
        out = ctx.path("one.json")
        run_driver(ctx, [drv, "-mode", "one", "-input", ctx.replay, "-out", out])
        r = absorb(out)
        log(json.dumps(r["samples"], indent=1)[:3000])
        for v in violations:
            v.setdefault("class", "")
        return conclude(ctx, violations, "model_checking",
                        dict(evaluations=1, distinct_nontrivial=1, rule="replay of one recorded input", samples=samples, exhaustive=False),
                        ASSUME)

    # (A) valid Go files: TLC enumerates the token sequences of the header grammar, checks the
    #     laws between grammar and reference reader in every state and emits one case per
    #     complete file; the driver replays them into the real ReadImports and go/parser.
    cases = ctx.path("files.ndjson")
    n_files_exhaustive = 0
    profile_sizes = {}
    for name, p in sorted(PROFILES[ctx.tier].items()):
        res = tlc(ctx, "imports", "MC_ImportsFiles.tla", "MC_ImportsFiles_%s.cfg" % name, cfg_text=files_cfg(p),
                  emit_to=cases, workers=NCPU, timeout=2400, name="files-" + name)
        require_tlc_ok(res, "laws between header grammar and reference reader (profile %s)" % name)
        profile_sizes[name] = dict(states=res.distinct, files=res.emits)
        n_files_exhaustive += res.emits
    # beyond the bound: seeded random walks through the same machine with every token kind
    simp = (ALL_SEPS, ALL_PKGS, ALL_NAMES, ALL_STRS, ALL_TAILS, ["T_LC"], SIM[ctx.tier]["depth"], SIM[ctx.tier]["depth"])
    res = tlc(ctx, "imports", "MC_ImportsFilesSim.tla", "MC_ImportsFilesSim_gen.cfg", cfg_text=files_cfg(simp, invs="InvFileLaws"),
              emit_to=cases, workers=NCPU, timeout=2400, name="files-sim",
              simulate="num=%d" % SIM[ctx.tier]["num"], depth=SIM[ctx.tier]["depth"])
    if res.violation:
        raise NoVerdict("TLC reported an error while simulating the header grammar: spec-level inconsistency\n%s" % res.violation[:3000])
    sim_states = 0
    with open(res.out_path, errors="replace") as fh:
        for line in fh:
            m = re.match(r"The number of states generated: (\d+)", line)
            if m:
                sim_states = int(m.group(1))
    if sim_states == 0 or res.emits == 0:
        raise NoVerdict("TLC simulation of the header grammar produced nothing (states %d, cases %d)" % (sim_states, res.emits))
    ctx.tlc_states += res.emits          # accepting states visited by the walks (each emitted once)
    ctx.tlc_transitions += sim_states    # successor states generated and checked against the laws
    n_sim_emits = res.emits
    out = ctx.path("files.json")
    run_driver(ctx, [drv, "-mode", "files", "-cases", cases, "-out", out])
    r = absorb(out)
    aborted = counters.get("aborted_after_hang", 0) > 0
    if not aborted and r["counters"].get("cases_read", 0) != n_files_exhaustive + n_sim_emits:
        raise NoVerdict("driver read %d of %d file cases" % (r["counters"].get("cases_read", 0), n_files_exhaustive + n_sim_emits))
    n_files_distinct = r["evaluations"]

    # (A) arbitrary input, exhaustive: every fragment string up to the bound is a state of
    #     MC_ImportsBytes; laws of the reference reader checked there, cases replayed.
    n_bytes = 0
    if not aborted:
        bcases = ctx.path("bytes.ndjson")
        res = tlc(ctx, "imports", "MC_ImportsBytes.tla", "MC_ImportsBytes_gen.cfg", cfg_text=bytes_cfg(BYTES_N[ctx.tier], frags=BYTES_FRAGS[ctx.tier]),
                  emit_to=bcases, workers=NCPU, timeout=2400, name="bytes")
        require_tlc_ok(res, "laws of the reference reader on arbitrary fragment strings")
        if res.emits != res.distinct:
            raise NoVerdict("emitted %d cases for %d states" % (res.emits, res.distinct))
        out = ctx.path("bytes.json")
        run_driver(ctx, [drv, "-mode", "bytes", "-cases", bcases, "-out", out])
        r = absorb(out)
        aborted = counters.get("aborted_after_hang", 0) > 0
        n_bytes = r["evaluations"]
        if not aborted and n_bytes != res.distinct:
            raise NoVerdict("driver evaluated %d of %d fragment strings" % (n_bytes, res.distinct))
        os.remove(bcases)

    # (B1) seeded random mutations of the generated files and random fragment strings: the real
    #      results are recorded and TLC evaluates the statement's predicates on every record.
    nrec = 0
    if not aborted:
        trace = ctx.path("trace.ndjson")
        out = ctx.path("mutate.json")
        run_driver(ctx, [drv, "-mode", "mutate", "-cases", cases, "-n", str(NMUT[ctx.tier]), "-trace", trace, "-out", out])
        r = absorb(out)
        aborted = counters.get("aborted_after_hang", 0) > 0
    if not aborted:
        # valid files inflated with comments / literals longer than any buffer (4 KiB .. 70 KB): go/parser is the judge
        out2 = ctx.path("inflate.json")
        run_driver(ctx, [drv, "-mode", "inflate", "-cases", cases, "-n", "400" if ctx.tier == "quick" else "6000", "-out", out2])
        absorb(out2)
    if not aborted:
        nrec = NMUT[ctx.tier]
        res = tlc(ctx, "imports", "Trace_Imports.tla", "Trace_Imports.cfg", files=[trace], workers=NCPU,
                  timeout=2400, name="trace")
        if not res.ok:
            raise NoVerdict("trace validation did not complete:\n%s" % (res.violation or "")[:3000])
        if res.distinct != nrec:
            raise NoVerdict("trace validation visited %d of %d records\n%s" % (res.distinct, nrec, res.violation))
        bad = bad_traces(res)
        if bad:
            recs = open(trace).read().splitlines()
            for idx, invs in sorted(bad.items()):
                rec = json.loads(recs[idx - 1])
                text = bytes(rec["input"]).decode("latin-1")
                if "RecL2" in invs:
                    counters["drift_total"] = counters.get("drift_total", 0) + 1
                    drift.append(dict(kind="trace-differs-from-reference-reader", what="record %d: the real result on %r is not the reference reader's" % (idx, text),
                                      input=dict(text=text, bytes=rec["input"])))
                judged = sorted(invs - {"RecL2"})
                if judged:
                    violations.append(dict(kind="trace-rejected:" + ",".join(judged), **{"class": text},
                                           what="TLC rejects the record of the real ReadImports on %r (%s)" % (text, ",".join(judged)),
                                           input=dict(text=text, bytes=rec["input"]), detail=rec))

    if counters.get("spec_vs_goparser_disagreements"):
        raise NoVerdict("specification disagrees with go/parser on %d generated inputs: spec bug\n%s"
                        % (counters["spec_vs_goparser_disagreements"], json.dumps(drift[:3])[:2000]))

    # smallest failing inputs first: they are the ones written to the replay files
    violations.sort(key=lambda v: (v.get("kind", ""), not ((v.get("detail") or {}).get("goparser_imports") if isinstance(v.get("detail"), dict) else None), len(v.get("class", "")), v.get("class", "")))
    coverage = dict(
        evaluations=tot["evals"], distinct_nontrivial=tot["nontriv"],
        rule=("valid files: every token sequence of the header grammar inside the bounds of the profiles %s is a state of MC_ImportsFiles "
              "(TLC checks the laws between grammar and reference reader in every state and emits each complete file with its imports and "
              "prefix length), plus %d seeded TLC random walks per worker of depth <= %d over all token kinds (laws checked on every generated successor); %d distinct files replayed into ReadImports "
              "(both reportSyntaxError values) and go/parser. arbitrary input: all %d strings of <= %d fragments (+1 after 'package p') over %d "
              "fragments from MC_ImportsBytes replayed; %d seeded mutations / fragment strings recorded from the real code and validated by TLC "
              "(Trace_Imports, 16 lanes). non-trivial = a valid file with at least one import, or an arbitrary input containing the word import; "
              "distinct by content"
              % (json.dumps(profile_sizes, sort_keys=True), SIM[ctx.tier]["num"], SIM[ctx.tier]["depth"], n_files_distinct,
                 n_bytes, BYTES_N[ctx.tier], len(BYTES_FRAGS[ctx.tier]), nrec)),
        samples=samples[:10], exhaustive=True, exhaustive_files=n_files_exhaustive, simulated_file_cases=n_sim_emits, simulated_states_checked=sim_states,
        distinct_files=n_files_distinct, exhaustive_fragment_strings=n_bytes,
        traces_validated_against_impl=nrec, counters=counters, drift=drift[:10], drift_total=counters.get("drift_total", 0),
        l2_conformant=(counters.get("drift_total", 0) == 0))
    for v in violations:
        v.setdefault("class", "")
    return conclude(ctx, violations, "model_checking", coverage, ASSUME)


REGISTRY = dict(
    category="model_checking", design_ref="DESIGN.md section 3 C18",
    text=("TLC enumerates the token sequences of an explicit Go file-header grammar machine (ImportsGrammar.tla: optional BOM, comments, "
          "explicit and automatic semicolons, grouped / named / dot / blank imports, raw and interpreted literals, a following declaration) "
          "and checks in every state that the byte-level reference reader (ImportsReader.tla) reads a complete file without error, yields "
          "exactly the file's import literals, returns a leading portion that covers the import section and re-reads to the same imports, "
          "and rejects incomplete headers; every complete file is replayed into the real ReadImports and compared three-way with go/parser "
          "(imports, prefix law with a parse of the returned prefix). Arbitrary input: all fragment strings to a bound are states of "
          "MC_ImportsBytes (reader laws, 'nothing after the stop matters' as an action property) and are replayed (no panic, termination, "
          "prefix, whole input when a syntax error is swallowed); records of the real code on seeded mutations are validated by TLC. "
          "Exhaustive inside the bounds, sampled beyond: the right level for a pure function of the input bytes."),
    note=("trusted: TLC, go/parser as the reference, the driver's comparison code; the token table of the grammar is finite (a few "
          "representatives per token kind); which inputs are syntax errors is compared with the reference reader as drift only"),
    technique="TLA+ grammar machine and reference reader model-checked by TLC; TLC-generated files and fragment strings replayed into imports.ReadImports and go/parser; real traces validated by TLC")
