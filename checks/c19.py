"""C19: imports.ShouldBuild / imports.MatchFile implement Go's build-constraint rules.

spec/buildtags/BuildTags.tla is the reference semantics (byte level, written
twice: statement-shaped and code-shaped).  Four TLC generators enumerate
  MC_BuildExpr   every token string <= N after "// +build"        x 32 tag sets
  MC_BuildBlock  every sequence of <= L lines (placement of the
                 +build lines, leading block, look-alikes)        x 32 tag sets
  MC_BuildNames  every name of <= MaxSeg segments x 3 extensions  x 64 tag sets
  MC_BuildKnown  every known OS / arch token and OS_arch pair     x <= 8 tag sets
check the laws of the statement on the specification in every state and emit
the predicted booleans; harness/drivers/buildtags replays them into the real
package, three-way with go/build.Context.MatchFile and go/build/constraint.
Seeded random contents / names are run through the real functions and the
records are validated by TLC (Trace_BuildTags).
"""
import json
import os
import re
import threading
import time
from vlib import *

SPECDIR = "buildtags"

ASSUME = [
    "only ASCII is modelled: white space is {TAB LF VT FF CR SP}, letters/digits are [A-Za-z0-9]; the drivers never feed bytes >= 128 or NUL",
    "the statement is about '// +build' lines; no generated file contains a '//go:build' line (imports.ShouldBuild ignores them, go/build does not)",
    "go/build (go1.23 toolchain in the sandbox) is the reference only where the statement and it are about the same thing: no '*' tag, "
    "every term well formed (go/build/constraint reads a negated malformed term as 'not ignore', the statement says malformed terms are false), "
    "file names that go/build does not ignore for other reasons (leading '_' or '.', extension other than .go); "
    "tag sets are mapped to a build.Context with GOOS=android iff android is set and every other tag as a plain build tag",
    "with tags['*'] a +build line without options or with a malformed term is not judged (the two sentences of the statement disagree there); differences are recorded as drift",
    "'known OS or architecture' is the list in imports/build.go at the time the specification was written (17 OS, 24 architectures, all known to go/build); "
    "tokens go/build knows in addition (wasip1) are reported as drift, not judged",
    "exhaustive inside the bounds given in 'rule'; beyond them seeded random inputs validated by TLC",
]

INV = {
    "MC_BuildExpr": "InvOneLine InvL1L2 InvAndroid InvStar InvNegation InvMalformed",
    "MC_BuildBlock": "InvL1L2 InvCount InvNoBlank InvAfterCode",
    "MC_BuildNames": "InvTokens InvL1L2 InvAndroid InvStar InvMonotone InvExt InvNoUnderscore",
    "MC_BuildKnown": "InvExact InvL1L2 InvTokens",
}


def cfg(module, consts, bug="none"):
    lines = ["SPECIFICATION Spec", "CONSTANTS"]
    for k, v in consts.items():
        lines.append("  %s = %s" % (k, v))
    lines.append('  Bug = "%s"' % bug)
    lines.append("INVARIANTS " + INV[module])
    lines.append("CHECK_DEADLOCK FALSE")
    return "\n".join(lines) + "\n"


def alpha(s):
    return "{" + ", ".join(str(x) for x in sorted(s)) + "}"


FULL = set(range(1, 15))
CORE = FULL - {12, 13, 14}


def bounds(tier):
    """(module, cfg name, constants, expected number of states)"""
    if tier == "quick":
        return [
            ("MC_BuildExpr", "expr", dict(N=4, Emit="TRUE")),
            ("MC_BuildBlock", "blockA", dict(L=3, Alpha=alpha(FULL), Emit="TRUE")),
            ("MC_BuildBlock", "blockB", dict(L=4, Alpha=alpha({1, 3, 4, 6, 7, 9, 10, 11}), Emit="TRUE")),
            ("MC_BuildNames", "names", dict(MaxSeg=3, Emit="TRUE")),
            ("MC_BuildKnown", "known", dict(Emit="TRUE")),
        ]
    return [
        ("MC_BuildExpr", "expr", dict(N=5, Emit="TRUE")),
        ("MC_BuildBlock", "blockA", dict(L=4, Alpha=alpha(FULL), Emit="TRUE")),
        ("MC_BuildBlock", "blockB", dict(L=5, Alpha=alpha({1, 2, 3, 4, 6, 7, 8, 10, 11}), Emit="TRUE")),
        ("MC_BuildNames", "names", dict(MaxSeg=4, Emit="TRUE")),
        ("MC_BuildKnown", "known", dict(Emit="TRUE")),
    ]


def bad_records(res):
    bad, drift = {}, set()
    with open(res.out_path, errors="replace") as fh:
        for line in fh:
            m = re.match(r'<<"BAD", "(\w+)", (\d+)>>', line)
            if m:
                bad.setdefault(int(m.group(2)), set()).add(m.group(1))
            m = re.match(r'<<"DRIFT", "(\w+)", (\d+)>>', line)
            if m:
                drift.add(int(m.group(2)))
    return bad, drift


def selftest(ctx):
    """Sanity of the oracle: every seeded fault of the specification must make TLC
    find a violation; a corrupted real record must be rejected by the trace spec."""
    ok = True
    for module, bug in [("MC_BuildNames", "MatchFileNoAndroid"), ("MC_BuildExpr", "NegatedMalformedTrue"),
                        ("MC_BuildExpr", "NoAndroidInTags"), ("MC_BuildBlock", "BlockNeedsNoBlank")]:
        res = tlc(ctx, SPECDIR, module + ".tla", "Bug_%s.cfg" % bug, workers=4, timeout=600, expect_violation=True)
        found = res.violation is not None and "Invariant" in res.violation
        log("selftest %s/%s: %s" % (module, bug, "violation found" if found else "NOT FOUND"))
        ok = ok and found
    drv = go_build(ctx, "drivers/buildtags")
    trace = ctx.path("trace.ndjson")
    run_driver(ctx, [drv, "-mode", "random", "-n", "200", "-trace", trace, "-out", ctx.path("r.json")])
    recs = [json.loads(l) for l in open(trace)]
    k = next(i for i, r in enumerate(recs) if r["kind"] == "mf" and "*" not in ["".join(map(chr, t)) for t in r["tags"]])
    recs[k]["got"] = not recs[k]["got"]
    with open(trace, "w") as fh:
        for r in recs:
            fh.write(json.dumps(r) + "\n")
    res = tlc(ctx, SPECDIR, "Trace_BuildTags.tla", "Trace_BuildTags.cfg", files=[trace], workers=4, timeout=600)
    require_tlc_ok(res, "trace validation run")
    bad, _ = bad_records(res)
    found = (k + 1) in bad
    log("selftest corrupted record %d: %s" % (k + 1, "rejected" if found else "NOT REJECTED"))
    ok = ok and found
    if not ok:
        raise NoVerdict("selftest failed")
    return 0


def check(ctx):
    if getattr(ctx, "selftest", False):
        return selftest(ctx)
    quick = ctx.tier == "quick"
    nrand = 4000 if quick else 40000
    drv = go_build(ctx, "drivers/buildtags")
    log("[%5.1fs] harness built" % (time.time() - ctx.t0))

    # (A) generators: TLC checks the laws on the specification and emits the predictions.
    gens = bounds(ctx.tier)
    per = max(2, NCPU // len(gens)) if quick else max(4, NCPU // 2)
    results, errors = {}, []

    def run_gen(module, name, consts):
        try:
            out = ctx.path("cases-%s.ndjson" % name)
            results[name] = (tlc(ctx, SPECDIR, module + ".tla", "%s_%s.cfg" % (module, name), cfg_text=cfg(module, consts),
                                 emit_to=out, workers=per, timeout=1500 if quick else 3000, name="%s_%s" % (module, name)), out)
        except Exception as e:   # re-raised in the main thread
            errors.append(e)

    if quick:
        # the generators are independent and small: run them side by side (JVM start dominates)
        ths = [threading.Thread(target=run_gen, args=g) for g in gens]
        for t in ths:
            t.start()
        for t in ths:
            t.join()
    else:
        for g in gens:
            run_gen(*g)
    if errors:
        raise errors[0]
    # (the counters vlib keeps are not thread safe; recompute them from the run list)
    ctx.tlc_states = sum(x["distinct"] for x in ctx.tlc_runs)
    ctx.tlc_transitions = sum(max(x["generated"] - 1, 0) for x in ctx.tlc_runs)
    files, emitted, states = [], 0, {}
    for module, name, consts in gens:
        res, out = results[name]
        require_tlc_ok(res, "laws of the statement on the reference semantics (%s %s)" % (module, consts))
        if res.emits == 0 or res.distinct < 2:
            raise NoVerdict("%s emitted %d cases from %d states" % (module, res.emits, res.distinct))
        files.append(out)
        emitted += res.emits
        states[name] = res.distinct
    log("[%5.1fs] TLC: laws hold in %s states; %d cases emitted" % (time.time() - ctx.t0, states, emitted - len(gens)))
    out = ctx.path("replay.json")
    run_driver(ctx, [drv, "-mode", "replay", "-out", out] + files)
    log("[%5.1fs] cases replayed into the real package" % (time.time() - ctx.t0))
    with open(out) as fh:
        r = json.load(fh)
    counters = dict(r["counters"])
    violations = list(r["violations"])
    drift = list(r["drift"])
    samples = list(r["samples"])
    evals, nontriv = r["evaluations"], r["distinct_nontrivial"]
    # every emitted case except the headers was evaluated
    n_cases = counters.get("files", 0) + counters.get("names", 0)
    if n_cases != emitted - len(gens):
        raise NoVerdict("driver evaluated %d of %d emitted cases" % (n_cases, emitted - len(gens)))
    for f in files:
        os.remove(f)

    # (B1) seeded random inputs: real results recorded, TLC evaluates the specification on every record.
    trace = ctx.path("trace.ndjson")
    out = ctx.path("random.json")
    run_driver(ctx, [drv, "-mode", "random", "-n", str(nrand), "-trace", trace, "-out", out])
    with open(out) as fh:
        r2 = json.load(fh)
    for k, v in r2["counters"].items():
        counters[k] = counters.get(k, 0) + v
    violations.extend(r2["violations"])
    drift.extend(r2["drift"])
    samples.extend(r2["samples"][:4])
    evals += r2["evaluations"]
    nontriv += r2["distinct_nontrivial"]
    res = tlc(ctx, SPECDIR, "Trace_BuildTags.tla", "Trace_BuildTags.cfg", files=[trace], workers=NCPU, timeout=3000)
    # the Rec* invariants only print BAD lines and stay TRUE: anything else is a tool problem
    require_tlc_ok(res, "trace validation run")
    if res.distinct != nrand:
        raise NoVerdict("trace validation visited %d of %d records\n%s" % (res.distinct, nrand, res.violation))
    log("[%5.1fs] %d random records validated by TLC" % (time.time() - ctx.t0, nrand))
    bad, drifted = bad_records(res)
    recs = open(trace).read().splitlines() if (bad or drifted) else []

    def describe(idx):
        rec = json.loads(recs[idx - 1])
        text = bytes(rec["input"]).decode("latin-1")
        tags = sorted(bytes(t).decode("latin-1") for t in rec["tags"])
        fn = "ShouldBuild" if rec["kind"] == "sb" else "MatchFile"
        return rec, text, tags, "%s(%r, %s)" % (fn, text, tags)

    spec_vs_ref = counters.get("spec_vs_ref_disagreements", 0)
    if bad:
        for idx, invs in sorted(bad.items()):
            rec, text, tags, call = describe(idx)
            if invs & {"RecRefSB", "RecRefMF"}:
                spec_vs_ref += 1
                drift.append(dict(kind="spec-vs-go/build", what="specification and go/build disagree on %s (go/build %s)" % (call, rec["ref"])))
            mine = invs & {"RecNoPanic", "RecShouldBuild", "RecMatchFile", "RecMatchFileL1"}
            if not mine:
                continue
            cls = call
            if "android" in tags and "linux" not in tags and not rec["got"]:
                cls = "android-does-not-select-linux" if rec["kind"] == "mf" else "android-does-not-satisfy-linux"
            violations.append(dict(kind="trace-rejected:" + ",".join(sorted(mine)), **{"class": cls},
                                   what="TLC rejects the record of the real %s = %s (go/build: %s; %s)" % (
                                       call, rec["got"], rec["ref"], ",".join(sorted(mine))),
                                   input=dict(text=text, tags=tags, bytes=rec["input"]), detail=rec))
    for idx in sorted(drifted)[:10]:
        rec, text, tags, call = describe(idx)
        drift.append(dict(kind="star-with-malformed-or-empty-line", what="%s = %s (not judged)" % (call, rec["got"])))
    counters["drift_total"] = counters.get("drift_total", 0) + len(drifted)

    if spec_vs_ref:
        first = [d for d in drift if d.get("kind", "").startswith("spec-vs-")][:3]
        raise NoVerdict("the specification disagrees with go/build / go/build/constraint on %d inputs where the reference is defined: "
                        "specification problem, no verdict\n%s" % (spec_vs_ref, json.dumps(first)[:1500]))

    b = {name: consts for _, name, consts in gens}
    nseg = b["names"]["MaxSeg"]
    coverage = dict(
        evaluations=evals, distinct_nontrivial=nontriv,
        rule=("one evaluation = one call of the real function on (input, tag set) compared with the prediction TLC emitted. "
              "ShouldBuild: every token string of <= %d tokens over {SP , ! linux android windows foo ignore - TAB} after '// +build' "
              "(%d files) and every sequence of <= %d lines over a 14-line alphabet of blank / comment / code / +build / look-alike lines "
              "(both with and without final newline) plus <= %d lines over a reduced alphabet (%d + %d states), each under all 32 tag sets; "
              "MatchFile: every name of <= %d segments over {'', x, linux, android, windows, amd64, arm, test, plan9, foo} x 3 extensions "
              "(%d states) under all 64 subsets of {linux android windows amd64 arm *}, and every known OS / arch token and OS_arch pair "
              "(%d states) under all subsets of its tokens + android. %d seeded random contents / names are recorded from the real code and "
              "validated by TLC (Trace_BuildTags, 16 lanes). non-trivial = the leading block holds a +build line / the name has a significant suffix "
              "(random: contains '+build' / '_')"
              % (b["expr"]["N"], states["expr"], b["blockA"]["L"], b["blockB"]["L"], states["blockA"], states["blockB"],
                 nseg, states["names"], states["known"], nrand)),
        samples=samples[:10], exhaustive=True, cases_emitted=emitted - len(gens), generator_states=states,
        traces_validated_against_impl=nrand, counters=counters, drift=drift[:12], drift_total=counters.get("drift_total", 0),
        reference_comparisons=dict(go_build=counters.get("gobuild_compared", 0), go_build_constraint=counters.get("constraint_compared", 0),
                                   spec_vs_reference_disagreements=0))
    for v in violations:
        v.setdefault("class", "")

    # the replay files show the smallest failing input for which go/build is defined first
    def rank(v):
        d = v.get("detail") or {}
        undef = (d.get("go_build", d.get("ref", "undef")) == "undef")
        return (v.get("kind", ""), undef, len(json.dumps(v.get("input", ""))))
    violations.sort(key=rank)
    return conclude(ctx, violations, "model_checking", coverage, ASSUME)


REGISTRY = dict(
    category="model_checking", design_ref="DESIGN.md section 3 C19",
    text=("BuildTags.tla gives ShouldBuild and MatchFile as explicit reference semantics on bytes, each written statement-shaped and "
          "code-shaped. TLC enumerates, as the states of four generators, every +build expression up to a token bound, every placement of "
          "+build lines in short files, every file name up to four segments over known/unknown OS and architecture tokens and the full "
          "known-token lists, checks the laws of the statement in every state (the two formulations agree; android selects linux; '*'; "
          "negation; malformed terms; block must be followed by a blank line; monotonicity) and emits the predicted boolean for every tag set. "
          "Each prediction is replayed into imports.ShouldBuild / imports.MatchFile, three-way with go/build.Context.MatchFile and "
          "go/build/constraint where those are defined. Real results on seeded random inputs are validated by TLC against the same "
          "specification. Exhaustive inside the bounds, sampled beyond: the right level for two pure boolean functions whose interesting "
          "inputs are short."),
    note=("trusted: TLC, BuildTags.tla (cross-checked against go/build and go/build/constraint on every case where they are defined; a "
          "disagreement there is reported as no-verdict, not as a violation), the Go driver's comparison code; ASCII only; '*' has no "
          "reference other than the package documentation"),
    technique="TLA+ reference semantics model-checked by TLC; TLC-generated cases replayed into imports.ShouldBuild/MatchFile three-way with go/build; real traces validated by TLC")
