"""C20: goproxytest serves exactly the modules stored in its directory.

spec/goproxy/GoProxy.tla gives Response(store, request) twice, on bytes: statement-shaped
(RespL1 over a set of stored module versions) and code-shaped (Handler over the directory
listing: entry-name decoding, case (un)escaping, commit-hash resolution, .txtar/.txt/
directory lookup).  MC_GoProxy.tla enumerates every store of <= MaxItems [module version,
layout] items over a family of 10 module versions x 3 layouts, checks in every state that
the two formulations agree and that the laws of the statement hold, and emits the directory
and the predicted response to 66 requests.  harness/drivers/goproxy materialises each
directory, starts the REAL goproxytest.NewServer on it and compares every response
(sequentially; then 32 clients at once against fresh servers under -race, whose recorded
responses are also validated by TLC with Trace_GoProxy.tla; thorough: `go mod download`).
ProxyConc.tla is the interleaving model of the handler (par.Cache.Do around pure
functions): every response equals the sequential one in every interleaving of 3 first
requests.
"""
import glob
import json
import os
import random
import threading
import time
from vlib import *

SPECDIR = "goproxy"
GEN_INV = "InvL1L2 InvDecode InvEscape InvServed InvZip InvList InvNotStored"
GEN_BUGS = ["ZipDotFiles", "NoEscape", "ListPseudo", "FirstIndexV", "EmptyHashMatchesAll"]
CONC_BUGS = ["DoneBeforeResult", "NoLock", "NoSecondCheck"]

ASSUME = [
    "stores are well formed: every archive / directory holds a .info; entry names are produced by the documented rule (case-escaped path with '/' -> '_', "
    "'_', case-escaped version); module paths contain no '_' (the naming rule is not invertible for them) and are valid module paths",
    "the txtar syntax is not modelled (an archive is its list of files; archive data ends in a newline or is empty, the driver writes the archives by hand); C03 covers the parser",
    "semver parsing / ordering, pseudo-version recognition and module.Check are golang.org/x/mod's: the specification's judgements on the family are compared "
    "with x/mod by the driver on every run, a difference is reported as no verdict",
    "commit-hash requests: the statement does not describe them; judged is only that a 200 answer is the content of a stored version of that path whose known hash "
    "the revision abbreviates or extends - a 404 or another such version is drift",
    "when a version is stored in several layouts any of the stored copies may be served (the code prefers .txtar over .txt over directory: recorded as drift if it changes); "
    "a version listed twice and the order of list lines are drift",
    "HTTP over loopback with net/http; only GET; the interleavings of the real server under concurrency are sampled (32 clients on fresh servers, race detector on), "
    "the exhaustive interleaving argument is on ProxyConc.tla (3 clients, par.Cache.Do step structure of par/work.go)",
    "exhaustive inside the bounds given in 'rule' (every store of < MaxItems items; stores of exactly MaxItems items thinned by a seeded stride)",
]


def gen_cfg(max_items, stride, seed, emit=True, bug="none"):
    return ("SPECIFICATION Spec\nCONSTANTS\n  Fam <- MCFam\n  Bug = \"%s\"\n  MaxItems = %d\n  Stride = %d\n  Seed = %d\n  Emit = %s\n"
            "INVARIANTS %s\nCHECK_DEADLOCK FALSE\n" % (bug, max_items, stride, seed, "TRUE" if emit else "FALSE", GEN_INV))


def split_cases(path):
    hdr, stores = None, []
    with open(path) as fh:
        for line in fh:
            if line.startswith('{"kind":"hdr"'):
                hdr = line
            elif line.strip():
                stores.append(line)
    if hdr is None:
        raise NoVerdict("the generator emitted no header record")
    return hdr, stores


def n_items(line):
    # '"items":[{...},{...}]' precedes the entries; count the objects cheaply
    i = line.index('"items":[')
    j = line.index(']', i)
    return line.count('{', i, j)


def subset(ctx, hdr, stores, n, name, salt):
    """n stores chosen by seed (never the empty store), written with the header."""
    rng = random.Random(ctx.seed * 1000 + salt)
    cand = [l for l in stores if n_items(l) > 0]
    pick = cand if len(cand) <= n else rng.sample(cand, n)
    p = ctx.path(name)
    with open(p, "w") as fh:
        fh.write(hdr)
        fh.writelines(pick)
    return p, len(pick)


def race_reports(ctx, prefix):
    reps = []
    for f in sorted(glob.glob(prefix + ".*")):
        txt = open(f, errors="replace").read()
        reps += [b for b in txt.split("==================") if "DATA RACE" in b]
    return reps


def merge(acc, r):
    acc["evaluations"] += r["evaluations"]
    acc["violations"] += r["violations"]
    acc["drift"] += r["drift"]
    for k, v in r["counters"].items():
        acc["counters"][k] = acc["counters"].get(k, 0) + v


def selftest(ctx):
    ok = True
    for b in GEN_BUGS:
        r = tlc(ctx, SPECDIR, "MC_GoProxy.tla", "Bug_GoProxy_%s.cfg" % b, workers=4, timeout=600, expect_violation=True)
        found = r.violation is not None and "Invariant" in r.violation
        log("selftest MC_GoProxy Bug=%s: %s" % (b, "violation found" if found else "NOT FOUND"))
        ok = ok and found
    for b in CONC_BUGS:
        r = tlc(ctx, SPECDIR, "MC_ProxyConc.tla", "Bug_ProxyConc_%s.cfg" % b, workers=4, timeout=600, expect_violation=True)
        found = r.violation is not None and "Invariant" in r.violation
        log("selftest MC_ProxyConc Bug=%s: %s" % (b, "violation found" if found else "NOT FOUND"))
        ok = ok and found
    # a corrupted prediction must be reported by the driver, a corrupted record rejected by the trace specification
    drv = go_build(ctx, "drivers/goproxy")
    cases = ctx.path("cases.ndjson")
    r = tlc(ctx, SPECDIR, "MC_GoProxy.tla", "MC_GoProxy_self.cfg", cfg_text=gen_cfg(1, 1, 1), emit_to=cases, workers=4, timeout=600)
    require_tlc_ok(r, "generator")
    hdr, stores = split_cases(cases)
    victim = next(i for i, l in enumerate(stores) if '"mv":1,' in l)
    rec = json.loads(stores[victim])
    k = next(i for i, p in enumerate(rec["pred"]) if p["kind"] == "bytes")
    rec["pred"][k] = dict(status=404, kind="none", body=[], zip=[], list=[])      # "the stored .info is not there"
    stores[victim] = json.dumps(rec) + "\n"
    with open(cases, "w") as fh:
        fh.write(hdr)
        fh.writelines(stores)
    out = ctx.path("self.json")
    run_driver(ctx, [drv, "-mode", "replay", "-out", out, cases])
    kinds = {v["kind"] for v in load_result(out)["violations"]}
    found = "served-not-stored" in kinds
    log("selftest corrupted prediction: %s" % ("reported" if found else "NOT REPORTED (%s)" % sorted(kinds)))
    ok = ok and found
    trace = ctx.path("trace.ndjson")
    with open(cases, "w") as fh:
        fh.write(hdr)
        fh.writelines(l for l in stores if '"mv":10,' not in l)
    run_driver(ctx, [drv, "-mode", "conc", "-clients", "8", "-trace", trace, "-out", out, cases])
    recs = [json.loads(l) for l in open(trace)]
    t = next(i for i, r_ in enumerate(recs) if any(o and o[0]["kind"] == "bytes" for o in r_["obs"]))
    o = next(o for o in recs[t]["obs"] if o and o[0]["kind"] == "bytes")
    o[0]["body"][0] ^= 1
    with open(trace, "w") as fh:
        for r_ in recs:
            fh.write(json.dumps(r_) + "\n")
    r = tlc(ctx, SPECDIR, "Trace_GoProxy.tla", "Trace_GoProxy.cfg", files=[trace], workers=4, timeout=600)
    require_tlc_ok(r, "trace validation run")
    bad = bad_traces(r)
    found = set(bad) == {t + 1}
    log("selftest corrupted record %d: %s" % (t + 1, "rejected" if found else "NOT REJECTED / others rejected: %s" % sorted(bad)))
    ok = ok and found
    if not ok:
        raise NoVerdict("selftest failed")
    return 0


def check(ctx):
    if getattr(ctx, "selftest", False):
        return selftest(ctx)
    quick = ctx.tier == "quick"
    max_items, stride = (3, 4) if quick else (4, 5)
    n_conc, n_e2e, clients = (80, 0, 32) if quick else (1200, 500, 32)
    cases = ctx.path("cases.ndjson")
    box, errors = {}, []

    def guarded(fn):
        def run():
            try:
                fn()
            except Exception as e:      # re-raised in the main thread
                errors.append(e)
        return threading.Thread(target=run)

    def t_gen():
        box["gen"] = tlc(ctx, SPECDIR, "MC_GoProxy.tla", "MC_GoProxy_run.cfg", cfg_text=gen_cfg(max_items, stride, ctx.seed),
                         emit_to=cases, workers=max(4, NCPU - 4), timeout=900 if quick else 2400, name="gen")

    def t_conc():
        box["conc"] = tlc(ctx, SPECDIR, "MC_ProxyConc.tla", "MC_ProxyConc.cfg", workers=2, timeout=900, name="conc")
        if not quick:
            box["live"] = tlc(ctx, SPECDIR, "MC_ProxyConc.tla", "Live_ProxyConc.cfg", workers=2, timeout=1800, name="live")

    def t_build():
        box["drv"] = go_build(ctx, "drivers/goproxy")
        box["race"] = go_build(ctx, "drivers/goproxy", out_name="goproxy-race", race=True)

    ths = [guarded(f) for f in (t_gen, t_conc, t_build)]
    for t in ths:
        t.start()
    for t in ths:
        t.join()
    if errors:
        raise errors[0]
    # (vlib's counters are not thread safe: recompute them from the run list)
    ctx.tlc_states = sum(x["distinct"] for x in ctx.tlc_runs)
    ctx.tlc_transitions = sum(max(x["generated"] - 1, 0) for x in ctx.tlc_runs)
    gen = box["gen"]
    require_tlc_ok(gen, "Handler = RespL1 and the laws of the statement on every generated store")
    require_tlc_ok(box["conc"], "every interleaving of three first requests answers like the sequential server")
    if "live" in box:
        require_tlc_ok(box["live"], "every request is answered (weak fairness)")
    if gen.emits != gen.distinct + 1 or gen.distinct < 30:
        raise NoVerdict("generator: %d states, %d emitted records" % (gen.distinct, gen.emits))
    log("[%5.1fs] TLC: laws hold on %d stores (<= %d items); %d interleaving states; harness built"
        % (time.time() - ctx.t0, gen.distinct, max_items, box["conc"].distinct))
    hdr, stores = split_cases(cases)

    acc = dict(evaluations=0, violations=[], drift=[], counters={})
    # (1) sequential replay of every store
    out = ctx.path("replay.json")
    run_driver(ctx, [box["drv"], "-mode", "replay", "-out", out, cases], timeout=3000)
    r1 = load_result(out)
    merge(acc, r1)
    if r1["counters"].get("stores") != gen.distinct:
        raise NoVerdict("driver replayed %s of %d stores" % (r1["counters"].get("stores"), gen.distinct))
    nreq = r1["counters"]["requests_per_store"]
    log("[%5.1fs] %d stores x %d requests replayed into the real server" % (time.time() - ctx.t0, gen.distinct, nreq))

    # (2) concurrent first requests against fresh servers, race detector on; records validated by TLC
    sub, n_sub = subset(ctx, hdr, stores, n_conc, "conc-cases.ndjson", 1)
    trace = ctx.path("trace.ndjson")
    racelog = ctx.path("race", "log")
    out = ctx.path("conc.json")
    run_driver(ctx, [box["race"], "-mode", "conc", "-clients", str(clients), "-trace", trace, "-out", out, sub], timeout=3000,
               env=dict(GORACE="halt_on_error=0 exitcode=0 log_path=" + racelog))
    r2 = load_result(out)
    merge(acc, r2)
    for rep in race_reports(ctx, racelog):
        if REPO in rep or "go-internal" in rep:
            acc["violations"].append(dict(kind="data-race", **{"class": "race-detector"},
                                          what="the race detector reports a data race in the server while %d clients issue first requests" % clients,
                                          input=rep.strip()[:3000]))
        else:
            raise NoVerdict("data race outside the code under test:\n" + rep[:3000])
    tv = tlc(ctx, SPECDIR, "Trace_GoProxy.tla", "Trace_GoProxy.cfg", files=[trace], workers=NCPU, timeout=2400, name="trace")
    require_tlc_ok(tv, "trace validation run")
    if tv.distinct != n_sub:
        raise NoVerdict("trace validation visited %d of %d records" % (tv.distinct, n_sub))
    bad = bad_traces(tv)
    if bad:
        recs = open(trace).read().splitlines()
        fam = json.loads(hdr)["fam"]
        for idx, invs in sorted(bad.items()):
            rec = json.loads(recs[idx - 1])
            items = ["%s@%s (%s)" % (bytes(fam[i["mv"] - 1]["path"]).decode(), bytes(fam[i["mv"] - 1]["vers"]).decode(), i["layout"]) for i in rec["items"]]
            for inv in sorted(invs):
                cls = "hex-revision-answered-by-version-without-matching-hash" if inv == "RecRev" else "%s %s" % (inv, items)
                acc["violations"].append(dict(kind="concurrent-trace-rejected:" + inv, **{"class": cls},
                                              what="TLC (Trace_GoProxy, %s) rejects what %d concurrent clients were answered by a fresh server for %s" % (inv, clients, items),
                                              input=dict(store=items, record=idx)))
    log("[%5.1fs] %d fresh servers x %d concurrent clients (-race); %d records validated by TLC, %d rejected"
        % (time.time() - ctx.t0, n_sub, clients, n_sub, len(bad)))

    # (3) end to end with the go command
    r3 = None
    if n_e2e:
        sub3, n3 = subset(ctx, hdr, stores, n_e2e, "e2e-cases.ndjson", 2)
        out = ctx.path("e2e.json")
        run_driver(ctx, [box["drv"], "-mode", "e2e", "-go", "go", "-out", out, sub3], timeout=3000)
        r3 = load_result(out)
        merge(acc, r3)
        log("[%5.1fs] go mod download: %d downloads from %d servers, %d refused by the go command"
            % (time.time() - ctx.t0, r3["counters"].get("e2e_downloads", 0), n3, r3["counters"].get("e2e_refused_by_go", 0)))
        if r3["counters"].get("e2e_downloads", 0) and r3["counters"].get("e2e_refused_by_go", 0) == r3["counters"].get("e2e_downloads", 0):
            raise NoVerdict("the go command refused every download: end-to-end leg not working\n%s" % json.dumps(r3["drift"][:2])[:1500])

    c = acc["counters"]
    if c.get("spec_vs_ref_disagreements", 0):
        first = [d for d in acc["drift"] if d.get("kind") == "spec-vs-x/mod"][:3]
        raise NoVerdict("the specification disagrees with golang.org/x/mod on the family (%d): specification problem, no verdict\n%s"
                        % (c["spec_vs_ref_disagreements"], json.dumps(first)[:1500]))

    for v in acc["violations"]:
        v.setdefault("class", "")
    acc["violations"].sort(key=lambda v: (v.get("kind", ""), len(json.dumps(v.get("input", "")))))
    samples = r1["samples"][:4] + [dict(concurrent_servers=n_sub, clients=clients, records_validated_by_TLC=n_sub)]
    if r3:
        samples += r3["samples"][:2]
    coverage = dict(
        evaluations=acc["evaluations"], distinct_nontrivial=r1["distinct_nontrivial"],
        rule=("one evaluation = one HTTP request to the real goproxytest server compared with the response TLC predicted. Stores: every set of < %d and "
              "1/%d (seeded) of the sets of exactly %d items [module version, layout] over 10 module versions (paths example.com/m, example.com/M/v2 (case-escaped), "
              "example.com/m/sub; versions v1.0.0, v1.1.0-next, v2.0.0+incompatible, v2.0.0, v1.0.0-Alpha.1, two pseudo-versions, versions not valid for their path; "
              ".info with and without Short; full / tiny / .mod-less contents with nested, dot, empty and binary files) x {.txtar, .txt, directory}: %d stores, each "
              "with stray entries; %d requests per store (list x 4 paths, .info/.mod/.zip of all 10 versions, not stored versions / paths / extensions, 17 commit-hash "
              "requests, 10 malformed URLs). distinct_nontrivial = distinct (store, request) pairs whose predicted status is 200 (sequential replay only). "
              "Concurrency: %d fresh servers, %d clients each issuing every 200-request and 6 others at once (half in the same order), under -race, judged by the "
              "driver and once more by TLC on the recorded distinct responses. %s"
              % (max_items, stride, max_items, gen.distinct, nreq, n_sub, clients,
                 ("go mod download of every valid stored version from %d servers, offline." % n_e2e) if n_e2e else "")),
        samples=samples, exhaustive=True, stores=gen.distinct, requests_per_store=nreq,
        traces_validated_against_impl=n_sub, interleaving_states=box["conc"].distinct,
        counters=c, drift=acc["drift"][:12], drift_total=c.get("drift_total", 0),
        reference_comparisons=dict(x_mod=c.get("reference_comparisons", 0), spec_vs_reference_disagreements=0),
        e2e=dict(downloads=c.get("e2e_downloads", 0), refused_by_go=c.get("e2e_refused_by_go", 0)) if r3 else "thorough tier only")
    return conclude(ctx, acc["violations"], "model_checking", coverage, ASSUME)


REGISTRY = dict(
    category="model_checking", design_ref="DESIGN.md section 3 C20",
    text=("GoProxy.tla defines Response(store, request) on bytes twice: as the statement reads (stored .info/.mod verbatim, zip = stored non-dot files under "
          "path@version/, list = valid non-pseudo versions, 404 otherwise) and as the code works (entry-name decoding at the last \"_v\", case (un)escaping, "
          "commit-hash resolution over modList, .txtar/.txt/directory lookup). TLC enumerates every store of up to 3 (thorough: 4, thinned) [module version, layout] "
          "items over a family with case-escaped paths, semver / pseudo / +incompatible / invalid versions and nested, dot, empty and binary files, checks in every "
          "state that both formulations agree and that the laws of the statement hold, and emits the directory and the predicted response to 66 requests. The driver "
          "materialises each directory, starts the real goproxytest.NewServer and compares every HTTP response; then 32 clients issue the first requests at once "
          "against fresh servers under the race detector, and TLC validates the recorded responses against the statement-shaped specification. ProxyConc.tla "
          "model-checks the handler as a chain of par.Cache.Do calls around pure functions: in every interleaving of three first requests each response equals the "
          "sequential one, the directory is read and the zip built once per key, every request is answered. Thorough adds go mod download end to end, offline."),
    note=("trusted: TLC, GoProxy.tla (its semver / pseudo-version / module.Check judgements are compared with golang.org/x/mod on every run), the Go driver's "
          "materialisation and comparison code, net/http and archive/zip; the interleavings of the real server are sampled, not enumerated (exhaustive only on the model); "
          "txtar syntax and JSON decoding of .info are not modelled"),
    technique="TLA+ reference semantics (statement-shaped and code-shaped) model-checked by TLC; TLC-generated stores replayed into the real HTTP server; concurrent runs under -race validated by TLC; interleaving model of the cache-backed handler")
