"""C11 / C12 share spec/cache (Cache.tla at file-operation granularity, Trace_Cache.tla) and drivers/cache."""
from vlib import *
from par_common import validate_traces

# (sync / sync/atomic are not imported by the unchanged cache.go: the redirections take effect when a change adds them)
CACHE_FILES = {"cache/cache.go": {"imports": {"os": "vos", "sync": "vsync", "sync/atomic": "vatomic"}, "rewrite_go": True}}
CACHE_SHIMS = ["vsched", "vsync", "vatomic", "vrand", "vos"]

L1_NAMES = {"L1LookupsSound", "L1DirectPredicates", "L1Terminates", "L1OthersStayReadable", "L1StoredIsReadable",
            "L1NoMissDuringRestore"}


def build(ctx):
    ov = make_overlay(ctx, "cache", CACHE_FILES, shims=CACHE_SHIMS)
    return go_build(ctx, "drivers/cache", out_name="cachedrv", overlay=ov)


def cfg_text(family, bug="none", crash=False, faults=0, emit=True):
    return ("SPECIFICATION MCSpec\nCONSTANTS\n  Actors <- MCActors\n  Ids <- MCIds\n  Contents <- MCContents\n  Size <- MCSize\n"
            "  Progs <- MCProgs\n  StartStates <- MCStarts\n  Family = \"%s\"\n  Bug = \"%s\"\n  AllowCrash = %s\n  MaxFaults = %d\n"
            "  Record = TRUE\n  Emit = %s\nVIEW View\n"
            "INVARIANTS GetFileSound LookupsSound NoMissDuringRestore ReadableAtQuiescence OthersStayReadable\nCHECK_DEADLOCK FALSE\n"
            % (family, bug, "TRUE" if crash else "FALSE", faults, "TRUE" if emit else "FALSE"))


def bug_sanity(ctx):
    caught = []
    for bug, fam, crash in [("OTruncIndex", "C11", False), ("CommitFirst", "C12", True), ("NoRehash", "C12", False), ("NoSizeGate", "C12", True)]:
        r = tlc(ctx, "cache", "MC_Cache.tla", "Bug_%s.cfg" % bug, cfg_text=cfg_text(fam, bug, crash, 0, emit=False), workers=4,
                timeout=900, expect_violation=True)
        if r.ok:
            raise NoVerdict("sanity: TLC did not reject Bug=%s" % bug)
        caught.append(bug)
    return caught


def judge(ctx, prop, trace_files, family):
    """TLC validates the recorded runs; L1 rejections are violations, L2 ones drift."""
    with open(os.path.join(SPEC, "cache", "Trace_Cache.cfg")) as fh:
        base_cfg = fh.read()
    recs, bad, res = validate_traces(ctx, "cache", "Trace_Cache.tla", "Trace_Cache.cfg", trace_files, lanes=64)
    violations, drift = [], []
    for idx, invs in sorted(bad.items()):
        rec = json.loads(recs[idx - 1])
        l1 = sorted(invs & L1_NAMES)
        l2 = sorted(invs - L1_NAMES)
        evs = []
        for e in rec["events"][:80]:
            if e["ev"] == "op":
                evs.append("%s:%s(%s)%s" % (e["a"], e["op"], e["file"], "!" if e["fail"] else ""))
            elif e["ev"] == "call":
                evs.append("%s:CALL %s(%s,%s,%s)" % (e["a"], e["op"], e.get("id", ""), e.get("c", ""), e.get("rd", "")))
            elif e["ev"] == "ret":
                evs.append("%s:RET %s" % (e["a"], e.get("res", "")))
            else:
                evs.append("%s:%s" % (e["a"], e["ev"]))
        desc = dict(start=rec["start"], prog={a: o for a, o in rec["prog"].items() if o}, inject=rec["inject"], mode=rec["mode"],
                    events=" ".join(evs), fresh=rec["fresh"], base=rec["base"], end=rec["end"], l1=rec.get("l1"))
        if l1:
            cls = "%s|%s|%s|%s" % (",".join(l1), rec["start"], json.dumps(desc["prog"], sort_keys=True), json.dumps(rec["inject"], sort_keys=True))
            violations.append(dict(kind="l1-rejected:" + ",".join(l1),
                                   what="the cache contract rejects a run of the real cache package (%s, start=%s, inject=%s): %s; fresh lookups %s"
                                        % (rec["mode"], rec["start"], rec["inject"]["kind"], ",".join(l1), rec["fresh"]),
                                   **{"class": cls}, input=desc, detail=rec.get("detail", "")))
        elif l2:
            drift.append(dict(kind="l2:" + ",".join(l2), what="run does not follow Cache.tla", input=desc))
    return recs, violations, drift
