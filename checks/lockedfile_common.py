"""C06 / C07 share spec/lockedfile and drivers/lockedfile."""
import concurrent.futures
from vlib import *
from par_common import validate_traces

LF_FILES = {
    "lockedfile/lockedfile.go": {"imports": {"os": "vos"}, "rewrite_go": True},
    "lockedfile/lockedfile_filelock.go": {"imports": {"os": "vos"}, "rewrite_go": True},
    "lockedfile/mutex.go": {"imports": {"os": "vos", "sync": "vsync"}, "rewrite_go": True},
    "lockedfile/internal/filelock/filelock.go": {"imports": {"os": "vos"}, "rewrite_go": True},
    "lockedfile/internal/filelock/filelock_unix.go": {"imports": {"syscall": "vsyscall"}, "rewrite_go": True},
}
LF_SHIMS = ["vsched", "vsync", "vatomic", "vrand", "vos", "vsyscall"]


def build(ctx):
    ov = make_overlay(ctx, "lockedfile", LF_FILES, shims=LF_SHIMS)
    return go_build(ctx, "drivers/lockedfile", out_name="lfdrv", overlay=ov)


def cfg_text(family, bug="none", faults=0, emit=True):
    return ("SPECIFICATION MCSpec\nCONSTANTS\n  Actors <- MCActors\n  Progs <- MCProgs\n  InitContent <- MCInit\n  Family = \"%s\"\n"
            "  Bug = \"%s\"\n  MaxFaults = %d\n  Record = TRUE\n  Emit = %s\nVIEW View\n"
            "INVARIANTS Exclusion MutexExclusion ReadsWhole NoLostUpdate ErrKeepsOld\n"
            % (family, bug, faults, "TRUE" if emit else "FALSE"))


def model_check(ctx, family, faults=0):
    cfgs = ctx.path("configs-%s.ndjson" % family)
    res = tlc(ctx, "lockedfile", "MC_Lockedfile.tla", "MC_Lockedfile_%s.cfg" % family, cfg_text=cfg_text(family, "none", faults, True),
              emit_to=cfgs, workers=8, timeout=1200)
    require_tlc_ok(res, "Lockedfile.tla family %s (safety, and no actor stuck on a lock: TLC deadlock check)" % family)
    return cfgs, res


def bug_sanity(ctx):
    caught = []
    for bug, fam, faults in [("TruncBeforeLock", "C07", 0), ("WriteShared", "C07", 0), ("NoLock", "C06", 0), ("HeadFirst", "Fault", 1)]:
        r = tlc(ctx, "lockedfile", "MC_Lockedfile.tla", "Bug_%s.cfg" % bug, cfg_text=cfg_text(fam, bug, faults, False), workers=4,
                timeout=600, expect_violation=True)
        if r.ok:
            raise NoVerdict("sanity: TLC did not reject Bug=%s" % bug)
        caught.append(bug)
    return caught


def drive_all(ctx, drv, jobs):
    results, files = {}, []
    def one(job):
        tag, family, mode, cfgs, extra = job
        tf = ctx.path("traces-%s.ndjson" % tag)
        out = ctx.path("result-%s.json" % tag)
        tmp = ctx.mkdir("lftmp-" + tag)
        try:
            run_driver(ctx, [drv, "-mode", mode, "-family", family, "-configs", cfgs, "-traces", tf, "-out", out, "-tmp", tmp] + extra, timeout=3000)
        except NoVerdict as e:
            # a driver that dies (the code under test closed a descriptor of the driver, say) must not hide what the other
            # modes observe: its failure is kept and only becomes the outcome when nobody found a violation
            ctx.driver_failures = getattr(ctx, "driver_failures", []) + [e]
            return tag, dict(counters={}, samples=[], drift=[], violations=[], evaluations=0, distinct_nontrivial=0, extra={}), None
        return tag, load_result(out), tf
    with concurrent.futures.ThreadPoolExecutor(max_workers=8) as ex:
        for tag, r, tf in ex.map(one, jobs):
            results[tag] = r
            if tf:
                files.append(tf)
    return results, files


def settle(ctx, violations):
    """no violation found and some driver died: no verdict"""
    if not violations and getattr(ctx, "driver_failures", None):
        raise ctx.driver_failures[0]


def describe(rec):
    evs = []
    for e in rec["events"][:120]:
        if e["ev"] == "op":
            evs.append("%s:%s(%s)%s" % (e["a"], e["op"], e["file"], "!" if e.get("fail") else ""))
        elif e["ev"] == "call":
            evs.append("%s:CALL %s %s%s%s" % (e["a"], e["op"], e.get("mode", ""), e.get("kind", ""), "".join(e.get("v") or [])))
        elif e["ev"] == "ret":
            evs.append("%s:RET %s %s" % (e["a"], e.get("res", ""), "".join(e.get("v") or [])))
        else:
            evs.append("%s:%s" % (e["a"], e["ev"].upper()))
    return dict(family=rec["family"], mode=rec["mode"], prog={a: o for a, o in rec["prog"].items() if o}, init="".join(rec["init"]),
                inject=rec["inject"], events=" ".join(evs), final="".join(rec["final"]), end=rec["end"], l1=rec.get("l1"),
                schedule=rec.get("sched"))


def lock_l1(ctx, files):
    recs, bad, res = validate_traces(ctx, "lockedfile", "Trace_LockL1.tla", "Trace_LockL1.cfg", files, merged_name="traces.ndjson", lanes=64)
    violations = []
    for idx, invs in sorted(bad.items()):
        rec = json.loads(recs[idx - 1])
        d = describe(rec)
        violations.append(dict(kind="l1-rejected:" + ",".join(sorted(invs)),
                               what="the lockedfile contract rejects a run of the real package (%s, %s): %s %s" % (
                                   rec["family"], rec["mode"], ",".join(sorted(invs)), "; ".join(rec.get("l1", [])[:2])),
                               **{"class": "%s|%s|%s" % (",".join(sorted(invs)), json.dumps(d["prog"], sort_keys=True), json.dumps(rec["inject"], sort_keys=True))},
                               input=d, detail=rec.get("detail", "")))
    # "read locks may be shared among readers": some explored schedule must show two readers inside together
    shared = 0
    with open(res.out_path, errors="replace") as fh:
        for line in fh:
            if line.startswith('<<"SHARED"'):
                shared += 1
    two_readers = any(sum(1 for a, ops in json.loads(r)["prog"].items() for o in ops if o["op"] == "read" or (o["op"] == "hold" and o.get("mode") == "r")) >= 2
                      and json.loads(r)["mode"] == "dfs" for r in recs[:50000:7])
    if two_readers and shared == 0:
        violations.append(dict(kind="readers-never-share", **{"class": "readers-never-share"},
                               what="programs with two readers were explored exhaustively (bounded DFS) and in no schedule did two read-lock holders "
                                    "overlap: read locks exclude each other", input=dict(traces=len(recs))))
    return recs, violations


def register_l1(ctx, files, shard_histories=4000):
    """Linearizability decided by TLC: runs that never print OK are rejected.  Runs are reduced to their API history
    (call / ret events of Read, Write, Transform + initial and final contents); equal histories are decided once; the
    distinct histories go to TLC in shards (one initial state per history)."""
    recs, keys, uniq, order = [], [], {}, []
    for f in files:
        for line in open(f):
            if not line.strip():
                continue
            recs.append(line)
            r = json.loads(line)
            h = dict(init=r["init"], final=r["final"], init_absent=bool(r.get("init_absent")), final_absent=bool(r.get("final_absent")),
                     events=[e for e in r["events"] if e["ev"] in ("call", "ret") and e.get("op") in ("read", "write", "transform")])
            k = json.dumps(h, sort_keys=True)
            if k not in uniq:
                uniq[k] = len(order)
                order.append(k)
            keys.append(uniq[k])
    if not recs:
        raise NoVerdict("no histories recorded")
    shard_histories = int(os.environ.get("VERIF_SHARD_RECORDS", shard_histories))
    accepted = set()
    for n in range(0, len(order), shard_histories):
        part = order[n:n + shard_histories]
        merged = ctx.path("val", "register-%d" % n, "traces.ndjson")
        with open(merged, "w") as out:
            for k in part:
                out.write(k + "\n")
        res = tlc(ctx, "lockedfile", "Trace_Register.tla", "Trace_Register.cfg", files=[merged], workers=NCPU, timeout=3000,
                  expect_violation=True, name="register-%d" % n)
        ctx.tlc_states += res.distinct
        ctx.tlc_transitions += max(res.generated - 1, 0)
        if not res.ok:
            raise NoVerdict("linearizability search did not complete:\n%s" % (res.violation or "")[:3000])
        with open(res.out_path, errors="replace") as fh:
            for line in fh:
                m = re.match(r'<<"OK", (\d+)>>', line)
                if m:
                    accepted.add(n + int(m.group(1)) - 1)
        os.remove(merged)
    ctx.register_histories = len(order)
    violations = []
    for i, line in enumerate(recs):
        if keys[i] in accepted:
            continue
        rec = json.loads(line)
        d = describe(rec)
        violations.append(dict(kind="not-linearizable",
                               what="no placement of linearization points explains this history of Read/Write/Transform on the real lockedfile (%s, %s)"
                                    % (rec["family"], rec["mode"]),
                               **{"class": "not-linearizable|%s|%s" % (json.dumps(d["prog"], sort_keys=True), rec["mode"])},
                               input=d, detail=rec.get("detail", "")))
    return recs, violations
