"""Shared pieces of C09 / C10: overlay of par/work.go onto the scheduler shims."""
from vlib import *

PAR_FILES = {"par/work.go": {"imports": {"sync": "vsync", "sync/atomic": "vatomic", "math/rand": "vrand"},
                             "rewrite_go": True}}
PAR_SHIMS = ["vsched", "vsync", "vatomic", "vrand"]


def build_controlled(ctx, pkg, name):
    ov = make_overlay(ctx, "controlled", PAR_FILES, shims=PAR_SHIMS)
    return go_build(ctx, pkg, out_name=name, overlay=ov)


def build_free(ctx, pkg, name):
    # same driver, unsubstituted package (only the shim packages are added so the
    # driver's imports resolve), race detector on
    ov = make_overlay(ctx, "free", {}, shims=PAR_SHIMS)
    return go_build(ctx, pkg, out_name=name, overlay=ov, race=True)


def validate_traces(ctx, specdir, module, cfg, trace_files, merged_name="traces.ndjson", lanes=64, shard_records=20000,
                    shard_bytes=48 << 20):
    """Concatenate trace files, let TLC validate them against the L1 contract (in shards of at most shard_records
    records / shard_bytes bytes: one TLC run each, so that neither the JSON parse nor the heap grows with the tier).
    Returns (records, bad, last TLC result) where bad maps 1-based trace index -> set of invariant names."""
    shard_records = int(os.environ.get("VERIF_SHARD_RECORDS", shard_records))
    recs = []
    dropped = 0
    for f in trace_files:
        with open(f, errors="replace") as fh:
            for line in fh:
                if not line.strip():
                    continue
                try:
                    json.loads(line)
                except ValueError:
                    # a driver whose descriptors were closed or reused behind its back can leave a torn line: not a record
                    dropped += 1
                    continue
                recs.append(line if line.endswith("\n") else line + "\n")
    if dropped:
        log("%d unreadable trace line(s) dropped" % dropped)
        ctx.dropped_trace_lines = getattr(ctx, "dropped_trace_lines", 0) + dropped
    if not recs:
        raise NoVerdict("no traces recorded")
    shards, cur, size = [], [], 0
    for k, line in enumerate(recs):
        if cur and (len(cur) >= shard_records or size + len(line) > shard_bytes):
            shards.append(cur)
            cur, size = [], 0
        cur.append(line)
        size += len(line)
    shards.append(cur)
    with open(os.path.join(SPEC, specdir, cfg)) as fh:
        cfg_base = fh.read()
    bad, res, off = {}, None, 0
    for n, sh in enumerate(shards):
        merged = ctx.path("val", "s%d" % n, merged_name)
        with open(merged, "w") as out:
            out.writelines(sh)
        cfg_text = re.sub(r"K = \d+", "K = %d" % min(lanes, len(sh)), cfg_base)
        res = tlc(ctx, specdir, module, cfg, files=[merged], workers=NCPU, timeout=3000, expect_violation=True, cfg_text=cfg_text,
                  name="%s-s%d" % (cfg.replace(".cfg", ""), n))
        ctx.tlc_states += res.distinct
        ctx.tlc_transitions += max(res.generated - 1, 0)
        if not res.ok:
            raise NoVerdict("trace validation did not complete (shard %d of %d):\n%s" % (n + 1, len(shards), (res.violation or "")[:3000]))
        for idx, invs in bad_traces(res).items():
            bad[off + idx] = invs
        off += len(sh)
        os.remove(merged)
    return recs, bad, res


def race_env(ctx, tag):
    """Environment for a -race driver: reports go to files, the driver keeps running."""
    d = ctx.mkdir("race-" + tag)
    return {"GORACE": "exitcode=0 log_path=%s/race" % d}, d


def race_violations(d, what):
    out = []
    for f in sorted(os.listdir(d)):
        txt = open(os.path.join(d, f), errors="replace").read()
        n = txt.count("WARNING: DATA RACE")
        if n:
            frames = [l.strip() for l in txt.splitlines() if "go-internal/" in l or "/repo/" in l][:6]
            out.append(dict(kind="data-race", what="the race detector reports %d data race(s) in %s" % (n, what),
                            **{"class": "data-race|" + "|".join(sorted(set(re.sub(r"\(.*", "", fr) for fr in frames)))[:300]},
                            input=dict(frames=frames), detail=txt[:1500]))
            break
    return out
