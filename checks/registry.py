"""MANIFEST.json is rendered by bin/mkmanifest from the REGISTRY dict that every
check module checks/cNN.py defines (category, text, design_ref, note, technique).
Properties without a check module are listed under not_applicable."""
import importlib
import json
import os

HERE = os.path.dirname(os.path.abspath(__file__))
PENDING = "check not built yet in this round (design in DESIGN.md section 3); not claimed until its command exists"
NOT_APPLICABLE = {}
HOOK_COMMITS = []
# checks that are finished, reviewed and run clean on the unchanged tree (a builder's work in progress is not claimed)
READY = {"C01", "C02", "C03", "C04", "C05", "C20", "C06", "C07", "C08", "C09", "C10", "C11", "C12", "C13", "C14", "C15", "C16", "C17", "C18", "C19"}


def tracked():
    """Check modules known to git (a builder's work in progress is not claimed)."""
    import subprocess
    try:
        out = subprocess.run(["git", "-C", HERE, "ls-files", "--cached", "."], stdout=subprocess.PIPE, text=True).stdout
        return {os.path.basename(f) for f in out.split()}
    except OSError:
        return None


def load():
    checks = {}
    known = tracked()
    for l in open(os.path.join(os.path.dirname(HERE), "properties.jsonl")):
        if not l.strip():
            continue
        pid = json.loads(l)["id"]
        if os.path.exists(os.path.join(HERE, pid.lower() + ".py")) and pid in READY:
            mod = importlib.import_module(pid.lower())
            if getattr(mod, "REGISTRY", None):
                checks[pid] = mod.REGISTRY
    return checks
