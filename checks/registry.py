"""Single source for MANIFEST.json: one entry per claimed property.
bin/mkmanifest renders it; properties without an entry are listed under
not_applicable with the reason given in PENDING."""

TXTAR_LEVEL = ("TLC enumerates every byte string up to the length bound over the marker-relevant alphabet as the states of "
               "MC_Txtar, checks the statement's laws on the explicit reference semantics (Txtar.tla) in every state and emits "
               "the predicted result; each case is replayed into the real package (panic, re-parse stability, x/tools "
               "agreement, CRLF rule, quoting laws). Real results on seeded random inputs are validated by TLC against the "
               "same specification (Trace_Txtar).")

CHECKS = {
    "C03": dict(
        category="model_checking", design_ref="DESIGN.md section 3 C03",
        text=TXTAR_LEVEL + " Exhaustive inside the bound, sampled beyond it: the right level for a total, pure function whose "
             "interesting inputs are short marker look-alikes.",
        note="trusted: TLC, the Txtar.tla reference semantics (cross-checked against golang.org/x/tools/txtar on every CR-free input), "
             "the Go driver's comparison code; TrimSpace modelled on ASCII only",
        technique="TLA+ reference semantics model-checked by TLC; TLC-generated cases replayed into txtar.Parse/Format; real traces validated by TLC"),
    "C14": dict(
        category="model_checking", design_ref="DESIGN.md section 3 C14",
        text=TXTAR_LEVEL + " NeedsQuote is defined from the parser in the specification (TLC proves 'contains a marker line' = "
             "'changes the parse' on every state) and the real NeedsQuote/Quote/Unquote are judged against the real parser and the specification.",
        note="trusted: TLC, Txtar.tla, the Go driver; UTF-8 validity is outside the ASCII alphabets (only exercised by random inputs)",
        technique="TLA+ reference semantics model-checked by TLC; TLC-generated cases replayed into NeedsQuote/Quote/Unquote; real traces validated by TLC"),
}

PENDING = "check not built yet in this round (design in DESIGN.md section 3); not claimed until its command exists"
