"""MANIFEST.json is rendered by bin/mkmanifest from the REGISTRY dict that every
check module checks/cNN.py defines (category, text, design_ref, note, technique).
Properties without a check module are listed under not_applicable."""
import importlib
import json
import os

HERE = os.path.dirname(os.path.abspath(__file__))
PENDING = "check not built yet in this round (design in DESIGN.md section 3); not claimed until its command exists"
NOT_APPLICABLE = {}
HOOK_COMMITS = []


def load():
    checks = {}
    for l in open(os.path.join(os.path.dirname(HERE), "properties.jsonl")):
        if not l.strip():
            continue
        pid = json.loads(l)["id"]
        if os.path.exists(os.path.join(HERE, pid.lower() + ".py")):
            mod = importlib.import_module(pid.lower())
            if getattr(mod, "REGISTRY", None):
                checks[pid] = mod.REGISTRY
    return checks
