"""C03 / C14 share one specification (spec/txtar) and one driver."""
import json
import os
import re
from vlib import *

ALPHABET = "{45, 32, 120, 10, 13, 62}"   # - SP x LF CR >

ASSUME = [
    "strings.TrimSpace is modelled on the ASCII subset; drivers never feed multi-byte Unicode white space",
    "exhaustive enumeration is over the marker-relevant alphabet {-, SP, x, LF, CR, >}; beyond the bound inputs are seeded random, validated by TLC",
    "coverage-guided fuzzing named in the quantifier is not part of this technique",
    "golang.org/x/tools/txtar v0.26.0 (the module version /repo requires) is the reference on CR-free input",
]


def gen_cfg(n, emit=True):
    return ("SPECIFICATION Spec\nCONSTANTS\n  Alphabet = %s\n  N = %d\n  Emit = %s\n"
            "INVARIANTS InvReparseStable InvParseWellFormed InvNeedsQuoteExact InvQuoteLaws\n"
            "CHECK_DEADLOCK FALSE\n" % (ALPHABET, n, "TRUE" if emit else "FALSE"))


def bad_indexes(res):
    bad = {}
    with open(res.out_path, errors="replace") as fh:
        for line in fh:
            m = re.match(r'<<"BAD", "(\w+)", (\d+)>>', line)
            if m:
                bad.setdefault(int(m.group(2)), set()).add(m.group(1))
    return bad


def run(ctx, prop):
    # thorough: every string <= 8 for C03 (2.0M inputs, about 10 min), <= 7 for C14 (shares the enumeration)
    n = 6 if ctx.tier == "quick" else (8 if prop == "C03" else 7)
    nrand = 3000 if ctx.tier == "quick" else 40000
    drv = go_build(ctx, "drivers/txtar")
    violations, drift = [], []
    counters = {}
    evals = nontriv = 0
    samples = []

    def absorb(path):
        nonlocal evals, nontriv
        with open(path) as fh:
            r = json.load(fh)
        evals += r["evaluations"]
        nontriv += r["distinct_nontrivial"]
        violations.extend(r["violations"])
        drift.extend(r["drift"])
        samples.extend(r["samples"][:4])
        for k, v in r["counters"].items():
            counters[k] = counters.get(k, 0) + v
        return r

    # (A) TLC enumerates every input <= n, checks the laws on the reference semantics,
    #     emits one case per state; the driver replays them into the real package.
    cases = ctx.path("cases.ndjson")
    res = tlc(ctx, "txtar", "MC_Txtar.tla", "MC_Txtar_gen.cfg", cfg_text=gen_cfg(n), emit_to=cases,
              workers=NCPU, timeout=3000)
    require_tlc_ok(res, "laws on the reference semantics")
    if res.emits != res.distinct:
        raise NoVerdict("emitted %d cases for %d states" % (res.emits, res.distinct))
    out = ctx.path("replay.json")
    run_driver(ctx, [drv, "-mode", "replay", "-prop", prop, "-cases", cases, "-out", out])
    r = absorb(out)
    if r["evaluations"] != res.distinct:
        raise NoVerdict("driver evaluated %d of %d cases" % (r["evaluations"], res.distinct))
    exhaustive_inputs = res.distinct
    os.remove(cases)

    n_arch = 0
    if prop == "C03":
        # well-formed archives: Parse(Format(a)) = a
        cases = ctx.path("arch.ndjson")
        res = tlc(ctx, "txtar", "MC_TxtarArch.tla", "MC_TxtarArch.cfg", emit_to=cases, workers=NCPU, timeout=1200)
        require_tlc_ok(res, "round trip of well-formed archives on the reference semantics")
        out = ctx.path("arch.json")
        run_driver(ctx, [drv, "-mode", "archives", "-prop", prop, "-cases", cases, "-out", out])
        r = absorb(out)
        n_arch = r["evaluations"]
        if n_arch != res.distinct:
            raise NoVerdict("driver evaluated %d of %d archives" % (n_arch, res.distinct))

    # (B1) seeded random inputs beyond the bound: the real results are recorded and
    #      TLC evaluates the reference semantics on every record.
    trace = ctx.path("trace.ndjson")
    out = ctx.path("random.json")
    run_driver(ctx, [drv, "-mode", "random", "-prop", prop, "-n", str(nrand), "-maxlen", "160",
                     "-trace", trace, "-out", out])
    absorb(out)
    res = tlc(ctx, "txtar", "Trace_Txtar.tla", "Trace_Txtar.cfg", files=[trace], workers=NCPU,
              timeout=3000,  expect_violation=True)
    ctx.tlc_states += res.distinct
    ctx.tlc_transitions += max(res.generated - 1, 0)
    if res.distinct != nrand:
        raise NoVerdict("trace validation visited %d of %d records\n%s" % (res.distinct, nrand, res.violation))
    bad = bad_indexes(res)
    if bad:
        recs = open(trace).read().splitlines()
        mine = {"C03": {"RecNoPanic", "RecParse", "RecStable", "RecWellFormed"},
                "C14": {"RecNoPanic", "RecNeedsQ"}}[prop]
        for idx, invs in sorted(bad.items()):
            invs = invs & mine
            if not invs:
                continue
            rec = json.loads(recs[idx - 1])
            data = bytes(rec["input"])
            text = data.decode("latin-1")
            violations.append(dict(kind="trace-rejected:" + ",".join(sorted(invs)), **{"class": text},
                                   what="TLC rejects the record of the real %s on %r (%s)" % (
                                       "Parse" if prop == "C03" else "NeedsQuote", text, ",".join(sorted(invs))),
                                   input=dict(text=text, bytes=rec["input"]), detail=rec))
    if not res.ok:
        raise NoVerdict("trace validation did not complete:\n%s" % res.violation)

    if counters.get("spec_vs_xtools_disagreements"):
        raise NoVerdict("specification disagrees with x/tools on %d CR-free inputs: spec bug"
                        % counters["spec_vs_xtools_disagreements"])
    coverage = dict(
        evaluations=evals, distinct_nontrivial=nontriv,
        rule=("every byte string of length <= %d over {-,SP,x,LF,CR,>} is a state of MC_Txtar (TLC checks the laws on the "
              "reference semantics and emits the expected result, the driver replays each into the real package)%s; "
              "%d seeded random inputs <= 160 bytes assembled from marker fragments are recorded from the real code and "
              "validated by TLC (Trace_Txtar, %d lanes). non-trivial = input contains '--'%s"
              % (n, "; %d well-formed archives (<= 2 entries, look-alike names/bodies) from MC_TxtarArch" % n_arch if prop == "C03" else "",
                 nrand, 16, " or '>'" if prop == "C14" else "")),
        samples=samples[:8], exhaustive=True, exhaustive_inputs=exhaustive_inputs, length_bound=n,
        traces_validated_against_impl=nrand, counters=counters, drift=drift[:10], drift_total=counters.get("drift_total", 0),
        l2_conformant=(counters.get("drift_total", 0) == 0))
    for v in violations:
        v.setdefault("class", "")
    return conclude(ctx, violations, "model_checking", coverage, ASSUME)


TXTAR_LEVEL = ("TLC enumerates every byte string up to the length bound over the marker-relevant alphabet as the states of "
               "MC_Txtar, checks the statement's laws on the explicit reference semantics (Txtar.tla) in every state and emits "
               "the predicted result; each case is replayed into the real package (panic, re-parse stability, x/tools "
               "agreement, CRLF rule, quoting laws). Real results on seeded random inputs are validated by TLC against the "
               "same specification (Trace_Txtar).")
