"""X01 (growth beyond the listed properties): renameio.WriteFile replaces a file atomically.
Not a property of properties.jsonl, therefore not registered in MANIFEST.json; run with `bin/check X01`."""
from vlib import *
from par_common import validate_traces

FILES = {"renameio/renameio.go": {"imports": {"os": "vos"}, "rewrite_go": False}}
SHIMS = ["vsched", "vsync", "vatomic", "vrand", "vos", "vsyscall"]


def cfg_text(family, bug="none", crash=False, faults=0, emit=True, tempinv=True):
    return ("SPECIFICATION MCSpec\nCONSTANTS\n  Actors <- MCActors\n  Progs <- MCProgs\n  InitContent <- MCInit\n  Family = \"%s\"\n  Bug = \"%s\"\n"
            "  AllowCrash = %s\n  MaxFaults = %d\n  Record = TRUE\n  Emit = %s\nVIEW View\nINVARIANTS TargetWhole ReadsWhole NoTempLeft\n"
            % (family, bug, "TRUE" if crash else "FALSE", faults, "TRUE" if emit else "FALSE"))


def check(ctx):
    ov = make_overlay(ctx, "renameio", FILES, shims=SHIMS)
    drv = go_build(ctx, "drivers/renameio", out_name="rndrv", overlay=ov)
    conc = ctx.path("conc.ndjson")
    r1 = tlc(ctx, "renameio", "MC_Renameio.tla", "c.cfg", cfg_text=cfg_text("conc"), emit_to=conc, workers=4, timeout=600)
    require_tlc_ok(r1, "Renameio.tla concurrent family")
    fault = ctx.path("fault.ndjson")
    r2 = tlc(ctx, "renameio", "MC_Renameio.tla", "f.cfg", cfg_text=cfg_text("fault", "none", True, 1), emit_to=fault, workers=4, timeout=600)
    require_tlc_ok(r2, "Renameio.tla crash/fault family")
    for bug, fam, crash in [("InPlace", "fault", True), ("KeepTempOnError", "fault", False)]:
        r = tlc(ctx, "renameio", "MC_Renameio.tla", "b.cfg", cfg_text=cfg_text(fam, bug, crash, 1, False), workers=4, timeout=600, expect_violation=True)
        if r.ok:
            raise NoVerdict("sanity: TLC did not reject Bug=%s" % bug)
    files, results = [], {}
    for tag, mode, cfgs, extra in [("dfs", "dfs", conc, ["-bound", "2" if ctx.tier == "quick" else "3"]), ("random", "random", conc, []),
                                   ("fault", "fault", fault, [])]:
        tf, out = ctx.path("tr-%s.ndjson" % tag), ctx.path("res-%s.json" % tag)
        run_driver(ctx, [drv, "-mode", mode, "-configs", cfgs, "-traces", tf, "-out", out, "-tmp", ctx.mkdir("rn-" + tag)] + extra)
        results[tag] = load_result(out)
        files.append(tf)
    recs, bad, res = validate_traces(ctx, "renameio", "Trace_Renameio.tla", "Trace_Renameio.cfg", files, lanes=32)
    violations = []
    for idx, invs in sorted(bad.items()):
        rec = json.loads(recs[idx - 1])
        violations.append(dict(kind="l1-rejected:" + ",".join(sorted(invs)), what="renameio contract rejected: " + ",".join(sorted(invs)),
                               **{"class": ",".join(sorted(invs)) + "|" + json.dumps(rec["inject"], sort_keys=True)},
                               input=dict(prog=rec["prog"], inject=rec["inject"], final="".join(rec["final"]), temps=rec["temps"],
                                          events=" ".join("%s:%s%s" % (e["a"], e["op"] or e["ev"], "!" if e["fail"] else "") for e in rec["events"]))))
    coverage = dict(evaluations=sum(r["evaluations"] for r in results.values()), distinct_nontrivial=len(recs),
                    rule="runs of the real renameio.WriteFile: bounded DFS / random schedules of 2 writers + readers, and a stop / failure / short write "
                         "at every file operation; each trace validated by TLC against the contract",
                    samples=results["fault"]["samples"][:3], traces_validated_against_impl=len(recs), exhaustive=True)
    return conclude(ctx, violations, "model_checking", coverage, ["growth check, not a listed property"])


REGISTRY = None
