"""X02 (growth beyond the listed properties): fmtsort.Sort orders map keys as its documentation says.

spec/fmtsort/FmtSort.tla is the documented ordering as a three-way comparison Cmp over typed values (ints, uints,
strings, bools, floats with NaN, complex, pointers / channels by address rank, structs, arrays, interface values);
what the documentation leaves open (NaN against NaN, the order of two reflect.Types) is an equivalence resp. a
parameter of the specification.  MC_FmtSort.tla enumerates every map of 1..MaxKeys keys over a small universe per key
type, checks in every state that Cmp is a total preorder, that every sentence of the documentation holds, that the
predicted order is the only sorted permutation, and emits the map with the prediction.  harness/drivers/fmtsort
builds each map as real Go maps (every concrete Go type standing for the key type), calls the REAL fmtsort.Sort and
compares Key / Value with the prediction; seeded random maps of up to 200 keys are recorded and validated by TLC
(Trace_FmtSort.tla: permutation, Value[i] belongs to Key[i], sorted w.r.t. Cmp).
Not a property of properties.jsonl, therefore not registered in MANIFEST.json; run with `bin/check X02`."""
import json
import math
import re
import threading
import time
from vlib import *

SPECDIR = "fmtsort"
INVS = "InvRange InvReflexive InvAntisymmetric InvTransitive InvEqual InvDoc InvPrediction InvOrder"
BUGS = ["NaNUnordered", "LastFieldFirst", "NilHigh"]

ASSUME = [
    "growth check, not a listed property: the statement judged is the doc comment of fmtsort.Sort in /repo/fmtsort/sort.go",
    "abstract numbers are embedded into the Go integer / float types by strictly monotone functions (shift plus low bits; the extreme floats "
    "are the infinities), so 'order by <' on the Go values is the order of the abstract numbers; -0.0 and +0.0 are one key and not told apart",
    "pointers and channels: the harness measures the machine addresses (reflect.Value.Pointer) of the objects it allocated and hands their ranks "
    "to the specification; which object gets the lower address is never predicted",
    "interface keys: the documentation does not fix an order of two reflect.Types; the order of dynamic types is read off the real output and the "
    "specification judges 'nil first, keys grouped by type, ordered by value inside a type' for that order; a type order that changes within a run is drift",
    "NaN: judged are key sets with at most one NaN-bearing key (there NaN sorts below the numbers and the result is unique); with several NaN-bearing keys "
    "the documentation promises nothing definite ('modulo issues raised by unorderable key values'): only permutation and Value/Key alignment are judged, "
    "the preorder 'a comparison that meets NaN on both sides ends undecided' is evaluated and a failure is recorded as drift",
    "'otherwise identical arrays compare by length' cannot be reached through Sort (all keys of a map have one array type) and is not modelled; "
    "maps / funcs / slices cannot be keys; struct fields of the harness types are exported",
    "exhaustive inside the bounds given in 'rule'; beyond them seeded random maps validated by TLC",
]


def mc_cfg(maxkeys, bug="none", emit=True):
    return ("SPECIFICATION Spec\nCONSTANTS\n  Emit = %s\n  MaxKeys = %d\n  Bug = \"%s\"\nINVARIANTS %s\nCHECK_DEADLOCK FALSE\n"
            % ("TRUE" if emit else "FALSE", maxkeys, bug, INVS))


def trace_lines(res):
    bad, where, drift = {}, {}, set()
    with open(res.out_path, errors="replace") as fh:
        for line in fh:
            m = re.match(r'<<"BAD", "(\w+)", (\d+)>>', line)
            if m:
                bad.setdefault(int(m.group(2)), set()).add(m.group(1))
            m = re.match(r'<<"WHERE", (\d+), (\d+)>>', line)
            if m:
                where[int(m.group(1))] = int(m.group(2))
            m = re.match(r'<<"DRIFT", "(\w+)", (\d+)>>', line)
            if m:
                drift.add(int(m.group(2)))
    return bad, where, drift


def validate(ctx, trace, nrec, name="trace"):
    lanes = 16
    res = tlc(ctx, SPECDIR, "Trace_FmtSort.tla", "Trace_FmtSort.cfg", files=[trace], workers=min(NCPU, lanes), timeout=900, name=name)
    # the Rec* invariants only print BAD lines and stay TRUE: anything else is a tool problem
    require_tlc_ok(res, "trace validation run")
    if res.distinct != nrec:
        raise NoVerdict("trace validation visited %d of %d records\n%s" % (res.distinct, nrec, res.violation))
    return trace_lines(res)


def bug_runs(ctx, errors, found):
    def one(bug):
        try:
            r = tlc(ctx, SPECDIR, "MC_FmtSort.tla", "Bug_%s.cfg" % bug, workers=2, timeout=600, expect_violation=True, name="bug_" + bug)
            found[bug] = (r.violation is not None and "Invariant" in r.violation, (r.violation or "").splitlines()[:1])
        except Exception as e:   # re-raised in the main thread
            errors.append(e)
    ths = [threading.Thread(target=one, args=(b,)) for b in BUGS]
    for t in ths:
        t.start()
    return ths


def selftest(ctx):
    """Sanity of the oracle: every broken comparator must be rejected by the laws; a corrupted record of the
    real code must be rejected by the trace specification."""
    errors, found = [], {}
    for t in bug_runs(ctx, errors, found):
        t.join()
    if errors:
        raise errors[0]
    ok = True
    for b in BUGS:
        log("selftest Bug=%s: %s %s" % (b, "violation found" if found[b][0] else "NOT FOUND", found[b][1]))
        ok = ok and found[b][0]
    drv = go_build(ctx, "drivers/fmtsort", out_name="fsdrv")
    trace = ctx.path("trace.ndjson")
    run_driver(ctx, [drv, "-random", "2", "-maxkeys", "30", "-trace", trace, "-out", ctx.path("r.json")])
    recs = [json.loads(l) for l in open(trace)]
    k1 = next(i for i, r in enumerate(recs) if r["ty"] == "int" and len(r["out"]) > 3)
    recs[k1]["out"][0], recs[k1]["out"][1] = recs[k1]["out"][1], recs[k1]["out"][0]      # two keys swapped
    k2 = next(i for i, r in enumerate(recs) if r["ty"] == "string" and len(r["out"]) > 3)
    recs[k2]["out"][2] = recs[k2]["out"][1]                                              # one key lost, one twice
    with open(trace, "w") as fh:
        for r in recs:
            fh.write(json.dumps(r) + "\n")
    bad, where, _ = validate(ctx, trace, len(recs))
    for k, inv in [(k1, "RecSorted"), (k2, "RecPermutation")]:
        hit = inv in bad.get(k + 1, set())
        log("selftest corrupted record %d (%s): %s" % (k + 1, inv, "rejected" if hit else "NOT REJECTED"))
        ok = ok and hit
    ok = ok and set(bad) == {k1 + 1, k2 + 1} and where.get(k1 + 1) == 1
    if not ok:
        raise NoVerdict("selftest failed")
    return 0


def check(ctx):
    if getattr(ctx, "selftest", False):
        return selftest(ctx)
    quick = ctx.tier == "quick"
    maxkeys = 4 if quick else 5
    per_type = 12 if quick else 80
    errors, box, found = [], {}, {}

    def build():
        try:
            box["drv"] = go_build(ctx, "drivers/fmtsort", out_name="fsdrv")
        except Exception as e:
            errors.append(e)

    th = threading.Thread(target=build)
    th.start()
    # sanity of the laws (broken comparators must be rejected) runs beside the generator
    bths = bug_runs(ctx, errors, found)
    cases = ctx.path("cases.ndjson")
    gen = tlc(ctx, SPECDIR, "MC_FmtSort.tla", "MC_FmtSort_run.cfg", cfg_text=mc_cfg(maxkeys), emit_to=cases, workers=max(4, NCPU - 4),
              timeout=1500, name="mc")
    for t in [th] + bths:
        t.join()
    if errors:
        raise errors[0]
    require_tlc_ok(gen, "laws of the documented ordering on FmtSort.tla")
    for b in BUGS:
        if not found[b][0]:
            raise NoVerdict("sanity: TLC did not reject Bug=%s: the laws are vacuous" % b)
    # every key set of every universe must have been emitted exactly once
    hdr = None
    with open(cases) as fh:
        for line in fh:
            if '"kind":"hdr"' in line:
                hdr = json.loads(line)
    if hdr is None:
        raise NoVerdict("no header among the emitted cases")
    expected = sum(math.comb(u, k) for u in hdr["universe"] for k in range(1, maxkeys + 1))
    if gen.emits - 1 != expected or gen.distinct - 1 != expected:
        raise NoVerdict("MC_FmtSort emitted %d cases from %d states, expected %d" % (gen.emits - 1, gen.distinct, expected))
    log("[%5.1fs] TLC: laws hold in %d states; %d maps emitted; broken comparators rejected: %s" % (time.time() - ctx.t0, gen.distinct, expected, ", ".join(BUGS)))

    trace, out = ctx.path("trace.ndjson"), ctx.path("result.json")
    run_driver(ctx, [box["drv"], "-cases", cases, "-random", str(per_type), "-maxkeys", "200", "-trace", trace, "-out", out])
    r = load_result(out)
    counters = dict(r["counters"])
    if counters.get("cases", 0) != expected:
        raise NoVerdict("driver replayed %d of %d emitted cases" % (counters.get("cases", 0), expected))
    violations, drift = list(r["violations"]), list(r["drift"])
    nrec = r["extra"]["trace_records"]
    nrandom = sum(v for k, v in counters.items() if k.startswith("random:"))
    log("[%5.1fs] %d maps sorted by the real package (%d emitted maps x concrete types x 3 insertion orders, %d random with %d keys)"
        % (time.time() - ctx.t0, r["evaluations"], expected, nrandom, counters.get("random_keys", 0)))

    bad, where, drifted = validate(ctx, trace, nrec)
    log("[%5.1fs] %d records validated by TLC" % (time.time() - ctx.t0, nrec))
    recs = open(trace).read().splitlines() if (bad or drifted) else []
    for idx, invs in sorted(bad.items()):
        rec = json.loads(recs[idx - 1])
        got = [rec["keys"][j - 1] if 1 <= j <= len(rec["keys"]) else "?" for j in rec["out"]]
        call = "fmtsort.Sort(map[%s]string) with the %d keys {%s}" % (rec["gotype"], len(rec["keys"]), ", ".join(rec["keys"][:12]) + (", ..." if len(rec["keys"]) > 12 else ""))
        if "RecSorted" in invs and idx in where:
            j = where[idx]
            what = "%s returns Key[%d] = %s before Key[%d] = %s: contradicts the documented ordering" % (call, j - 1, got[j - 1], j, got[j])
        elif "RecNoPanic" in invs:
            what = call + " panics or returns nil"
        elif "RecPermutation" in invs:
            what = call + " does not return exactly the keys of the map"
        else:
            what = call + ": TLC rejects the record (%s)" % ",".join(sorted(invs))
        violations.append(dict(kind="trace-rejected:" + ",".join(sorted(invs)), what=what,
                               **{"class": "%s %s" % (rec["gotype"], ",".join(rec["keys"]))[:400]},
                               input=dict(gotype=rec["gotype"], map_keys=rec["keys"], sorted_keys=got, mode=rec["mode"]), detail=rec))
    for idx in sorted(drifted)[:10]:
        rec = json.loads(recs[idx - 1])
        got = [rec["keys"][j - 1] for j in rec["out"]]
        drift.append(dict(kind="several-NaN-keys", what="map[%s]string with several NaN-bearing keys is returned as [%s] (not judged)" % (rec["gotype"], ", ".join(got[:20]))))
    counters["drift_total"] = counters.get("drift_total", 0) + len(drifted)

    types_n = dict(zip(hdr["types"], hdr["universe"]))
    coverage = dict(
        evaluations=r["evaluations"], distinct_nontrivial=r["distinct_nontrivial"],
        rule=("one evaluation = one call of the real fmtsort.Sort on a map[K]string. Replayed: every set of 1..%d distinct keys over the universes %s "
              "(%d maps, states of MC_FmtSort, laws checked by TLC in each), each built with every concrete Go type of its key type "
              "(int: int int8 int16 int32 int64; uint: uint uint8 uint16 uint32 uint64 uintptr; float: float64 float32; complex: complex128 complex64; "
              "*int; chan int; struct{A int; B string}; struct{F float64; B bool}; [2]int; [3]bool; struct{A [2]int8; B bool}; interface{} holding nil / int / int8 / "
              "string / bool) and filled in three orders (descending, ascending, shuffled), Key order and Value alignment compared with the prediction. "
              "Random: %d maps per concrete type, 2..200 keys (one third NaN-free, one third with exactly one NaN, one third with NaNs at random). TLC "
              "(Trace_FmtSort, 16 lanes) validates the records of all random maps, of one call per emitted map and of every call on a map with several NaN keys. "
              "non-trivial = more than one key" % (maxkeys, json.dumps(types_n), expected, per_type)),
        samples=r["samples"][:24], exhaustive=True, cases_emitted=expected, traces_validated_against_impl=nrec, counters=counters,
        drift=drift[:12], drift_total=counters.get("drift_total", 0), not_judged=dict(r["extra"]),
        sanity=dict(("Bug=" + b, found[b][1]) for b in BUGS))
    for v in violations:
        v.setdefault("class", "")
    violations.sort(key=lambda v: (v.get("kind", ""), len(json.dumps(v.get("input", "")))))
    return conclude(ctx, violations, "model_checking", coverage, ASSUME)


REGISTRY = dict(
    category="model_checking", design_ref="growth check (no DESIGN.md section); statement: doc comment of fmtsort.Sort",
    text=("FmtSort.tla states the ordering documented for fmtsort.Sort as a three-way comparison over typed values, code-shaped (recursive compare) and "
          "statement-shaped (one law per sentence of the documentation). TLC enumerates, as the states of MC_FmtSort, every map of up to four keys over a small "
          "universe per key type, checks in every state that the comparison is a total preorder (reflexive, antisymmetric, transitive), that every documented "
          "sentence holds (nil low, < on numbers and strings, NaN low, false before true, real then imaginary, address order, fields / elements in turn, type then "
          "value) and that the predicted order is the only sorted permutation, and emits the prediction. Each map is built as real Go maps of every concrete key "
          "type and sorted by the real package; seeded random maps of up to 200 keys are recorded and TLC validates permutation, alignment and sortedness. "
          "Exhaustive inside the bounds, sampled beyond: the right level for a pure function whose interesting inputs are small."),
    note=("trusted: TLC, FmtSort.tla (its laws are shown not to be vacuous by three broken comparators TLC must reject), the monotone embedding of abstract "
          "numbers and the bit-wise identification of output keys in the Go driver; not judged (drift only): order of NaN keys among themselves and anything about "
          "maps with several NaN-bearing keys beyond permutation / alignment, the order of two different dynamic types, which object has the lower address"),
    technique="TLA+ reference ordering model-checked by TLC; TLC-generated maps replayed into the real fmtsort.Sort; real results on random maps validated by TLC")
