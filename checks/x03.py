"""X03 (growth beyond the listed properties): internal/misspell.AlmostEqual decides "Damerau-Levenshtein
distance at most 1" on runes (testscript uses it to suggest a command name for a misspelt one).
Not a property of properties.jsonl, therefore not registered in MANIFEST.json; run with `bin/check X03`.

spec/misspell/Misspell.tla states the documented relation twice (the sentence of the doc comment: one
existential per kind of edit; the distance recursion) plus the constructive set of neighbours.
  MC_Misspell     every ordered pair of strings of <= N runes over a small alphabet is a state; TLC checks the
                  laws (reflexive, symmetric, neighbours = one edit, L1 = L2, length, congruence, two steps)
                  and emits the pair with the predicted answer
  drivers/misspell replays every pair into the REAL function, both ways round, rendered through five rune
                  tables (ASCII, 2/3/4-byte runes, runes sharing bytes, invalid bytes)
  Trace_Misspell  seeded random pairs of up to 40 runes (0, 1, 2 random edits, or independent) and
                  misspellings of testscript's command names: the real answers are judged by TLC

The package is internal: the driver (module verifharness) reaches it through a bridge package that is added
to the go-internal module by build overlay (harness/drivers/misspell/_bridge/bridge.go ->
<REPO>/verifshim/vmisspell/bridge.go); nothing is written into the repository.
"""
import json
import os
import time
from vlib import *

SPECDIR = "misspell"
INVS = "InvReflexive InvSymmetric InvNeighbours InvDistance InvLength InvCongruence InvTwoSteps InvSwapCost"
BRIDGE = os.path.join(HARNESS, "drivers", "misspell", "_bridge", "bridge.go")
NTABLES = 5

ASSUME = [
    "growth check, not a listed property; the statement is the doc comment of misspell.AlmostEqual",
    "a rune is a natural; equal strings (distance 0) are almost equal; a transposition of two adjacent runes is one edit",
    "every invalid byte is the same rune ('invalid runes are considered equal'); whether a well-formed U+FFFD is one of them is not "
    "said: observed and reported as drift only",
    "exhaustive for all pairs of strings inside the bound given in 'rule', each under five renderings; beyond it seeded random pairs "
    "of up to 40 runes judged by TLC",
    "the O(len(a)+len(b)) running time of the doc comment is not checked",
]


def mc_cfg(n, alphabet, emit=True, bug="none"):
    return ("SPECIFICATION Spec\nCONSTANTS\n  N = %d\n  Alphabet = {%s}\n  Emit = %s\n  Bug = \"%s\"\nINVARIANTS %s\nCHECK_DEADLOCK FALSE\n"
            % (n, ", ".join(map(str, alphabet)), "TRUE" if emit else "FALSE", bug, INVS))


def npairs(n, k):
    s = sum(k ** i for i in range(n + 1))
    return s * s


def bug_runs(ctx):
    """The laws are not vacuous: TLC must reject the two seeded faults of the specification."""
    for bug, invs in [("NoSwap", ("InvNeighbours", "InvDistance")), ("NoEqual", ("InvReflexive", "InvDistance"))]:
        r = tlc(ctx, SPECDIR, "MC_Misspell.tla", "Bug_%s.cfg" % bug, workers=2, timeout=300, expect_violation=True)
        found = r.violation is not None and any("Invariant %s is violated" % i in r.violation for i in invs)
        log("sanity Bug=%s: %s" % (bug, "rejected by TLC" if found else "NOT REJECTED"))
        if not found:
            raise NoVerdict("sanity: TLC did not reject Bug=%s\n%s" % (bug, (r.violation or "")[:1500]))


def build(ctx):
    ov = make_overlay(ctx, "misspell", {}, shims=["vsched"], add={"verifshim/vmisspell/bridge.go": BRIDGE})
    return go_build(ctx, "drivers/misspell", out_name="misspelldrv", tags="verif,x03", overlay=ov)


def selftest(ctx):
    """Sanity of the oracle: the Bug_* configs, and a corrupted real record must be rejected by the trace spec."""
    bug_runs(ctx)
    drv = build(ctx)
    trace = ctx.path("trace.ndjson")
    run_driver(ctx, [drv, "-mode", "random", "-n", "300", "-trace", trace, "-out", ctx.path("r.json")])
    recs = [json.loads(l) for l in open(trace)]
    k = next(i for i, r in enumerate(recs) if r["src"] == "random" and len(r["a"]) > 10)
    recs[k]["got"] = not recs[k]["got"]
    with open(trace, "w") as fh:
        for r in recs:
            fh.write(json.dumps(r) + "\n")
    res = tlc(ctx, SPECDIR, "Trace_Misspell.tla", "Trace_Misspell.cfg", files=[trace], workers=4, timeout=600)
    require_tlc_ok(res, "trace validation run")
    bad = bad_traces(res)
    ok = set(bad) == {k + 1} and bad[k + 1] == {"RecAnswer"}
    log("selftest corrupted record %d: %s" % (k + 1, "rejected" if ok else "NOT REJECTED / others rejected: %s" % bad))
    if not ok:
        raise NoVerdict("selftest failed")
    return 0


def check(ctx):
    if getattr(ctx, "selftest", False):
        return selftest(ctx)
    quick = ctx.tier == "quick"
    nrand = 12000 if quick else 60000
    gens = [("p3", 4, [1, 2, 3])] if quick else [("p3", 5, [1, 2, 3]), ("p4", 4, [1, 2, 3, 4])]
    drv = build(ctx)
    log("[%5.1fs] driver built (bridge package added by overlay)" % (time.time() - ctx.t0))

    # (A) laws on the specification + predictions for every pair inside the bound
    files, states, emitted = [], {}, 0
    for name, n, alpha in gens:
        out = ctx.path("cases-%s.ndjson" % name)
        r = tlc(ctx, SPECDIR, "MC_Misspell.tla", "mc_%s.cfg" % name, cfg_text=mc_cfg(n, alpha), emit_to=out, workers=NCPU, timeout=1500)
        require_tlc_ok(r, "laws of the documented relation (N=%d, %d runes)" % (n, len(alpha)))
        want = npairs(n, len(alpha))
        if r.distinct != want or r.emits != want:
            raise NoVerdict("MC_Misspell N=%d: %d states, %d cases emitted, expected %d" % (n, r.distinct, r.emits, want))
        files.append(out)
        states[name] = r.distinct
        emitted += r.emits
    log("[%5.1fs] TLC: laws hold in %s states; %d pairs emitted" % (time.time() - ctx.t0, states, emitted))
    bug_runs(ctx)

    # (B) replay into the real function
    out = ctx.path("replay.json")
    run_driver(ctx, [drv, "-mode", "replay", "-out", out] + files)
    r1 = load_result(out)
    if r1["counters"].get("cases", 0) != emitted or r1["evaluations"] != emitted * NTABLES:
        raise NoVerdict("driver evaluated %d of %d emitted pairs" % (r1["counters"].get("cases", 0), emitted))
    log("[%5.1fs] %d pairs x %d renderings x 2 directions replayed into misspell.AlmostEqual: %d mismatches"
        % (time.time() - ctx.t0, emitted, NTABLES, r1["counters"].get("violations_total", 0)))
    violations = list(r1["violations"])
    drift = list(r1["drift"])
    for f in files:
        os.remove(f)

    # (C) seeded random pairs of longer strings: recorded from the real function, judged by TLC
    trace, out = ctx.path("trace.ndjson"), ctx.path("random.json")
    run_driver(ctx, [drv, "-mode", "random", "-n", str(nrand), "-trace", trace, "-out", out])
    r2 = load_result(out)
    nrec = r2["counters"]["records"]
    res = tlc(ctx, SPECDIR, "Trace_Misspell.tla", "Trace_Misspell.cfg", files=[trace], workers=NCPU, timeout=3000)
    require_tlc_ok(res, "trace validation run")   # the Rec* invariants only print BAD lines
    if res.distinct != nrec:
        raise NoVerdict("trace validation visited %d of %d records\n%s" % (res.distinct, nrec, res.violation))
    bad = bad_traces(res)
    log("[%5.1fs] %d records of the real function validated by TLC: %d rejected" % (time.time() - ctx.t0, nrec, len(bad)))
    if bad:
        recs = open(trace).read().splitlines()
        for idx, invs in sorted(bad.items()):
            rec = json.loads(recs[idx - 1])
            if invs & {"RecL1L2", "RecGen"}:
                raise NoVerdict("specification / generator inconsistency on record %d (%s): %s" % (idx, ",".join(sorted(invs)), recs[idx - 1][:600]))
            what = ("panic in" if rec["panic"] else "TLC rejects the record of the real") + \
                " misspell.AlmostEqual(%s, %s) = %s, reversed = %s (%s; %s edits)" % (
                    rec["sa"], rec["sb"], rec["got"], rec["rev"], ",".join(sorted(invs)), rec["k"] if rec["k"] <= 2 else "independent strings, no")
            violations.append(dict(kind="trace-rejected:" + ",".join(sorted(invs)), what=what, **{"class": "%s|%s" % (rec["sa"], rec["sb"])},
                                   input=dict(a=rec["sa"], b=rec["sb"], rune_ids_a=rec["a"], rune_ids_b=rec["b"], edits=rec["k"], source=rec["src"],
                                              call="misspell.AlmostEqual(%s, %s)" % (rec["sa"], rec["sb"])), detail=rec))
    violations.sort(key=lambda v: (v.get("kind", ""), len(json.dumps(v.get("input", "")))))

    counters = dict(r1["counters"])
    counters.update(r2["counters"])
    coverage = dict(
        evaluations=r1["evaluations"] + r2["evaluations"], distinct_nontrivial=r1["distinct_nontrivial"] + r2["distinct_nontrivial"],
        rule=("one evaluation = the real misspell.AlmostEqual called both ways round on one rendered pair and compared with the specification. "
              "Replay: every ordered pair of strings of <= %s runes over %s (%s states) under 5 rune tables (a/é/世/😀, ASCII, é/世/😀/ß, "
              "é/è/ĩ/Ĩ sharing every byte, a/<invalid byte ff|c0|80>/世/é). Random: %d seeded pairs of <= 40 runes over sub-alphabets of "
              "a b é 世 😀 <invalid> e è, b made from a by 0/1/2 edits biased to the ends and to neighbouring positions, or independent; "
              "plus every one-edit misspelling (x, é) and every pair of 24 testscript command names; all %d records validated by TLC "
              "(Trace_Misspell, 16 lanes). non-trivial = the strings differ and their lengths differ by at most one"
              % (" / ".join(str(n) for _, n, _ in gens), " / ".join("%d runes" % len(a) for _, _, a in gens), states, nrand, nrec)),
        samples=(r1["samples"][:5] + r2["samples"][:5]), exhaustive=True, cases_emitted=emitted, generator_states=states,
        traces_validated_against_impl=nrec, counters=counters, drift=drift, observations=r1.get("extra", {}))
    for v in violations:
        v.setdefault("class", "")
    return conclude(ctx, violations, "model_checking", coverage, ASSUME)


# not a listed property: never rendered into MANIFEST.json (checks/registry.py only loads the ids of properties.jsonl in READY)
REGISTRY = dict(
    category="model_checking", design_ref="growth check (no DESIGN.md section); statement: doc comment of internal/misspell.AlmostEqual",
    text=("Misspell.tla defines 'Damerau-Levenshtein distance at most 1' on sequences of runes twice (the sentence of the doc comment; the "
          "distance recursion) and the set of strings one edit away. TLC enumerates every ordered pair of strings up to 4 (quick) / 5 "
          "(thorough) runes over a 3-rune alphabet as states, checks reflexivity, symmetry, neighbours = one edit, agreement of the two "
          "formulations, the length bound, congruence under a common first / last rune and a two-step bound, and emits the predicted "
          "answer of every pair. The driver renders each pair through five rune tables mixing 1..4-byte runes and invalid bytes and calls "
          "the real function both ways round. Real answers on seeded random pairs of up to 40 runes (0/1/2 random edits) and on "
          "misspellings of testscript's command names are validated by TLC against the same specification."),
    note=("trusted: TLC, Misspell.tla (two formulations and the constructive neighbour set cross-checked by TLC), the driver's rendering "
          "tables (each rendering is checked to have one rune per id) and comparison code; running time not checked"),
    technique="TLA+ reference relation model-checked by TLC; TLC-generated cases replayed into the real function; real traces validated by TLC")
