"""X04 (growth beyond the listed properties): internal/os/execpath.Look, the search testscript's `exec` makes
for a program named without a slash through the PATH of the script's environment, and the direct test of a
name with a slash.  Not a property of properties.jsonl, therefore not registered in MANIFEST.json; run with
`bin/check X04`.

spec/execpath/ExecPath.tla states the documented search (elements in order, empty element = ".", the first
directory holding an executable non-directory wins, links are followed, ErrNotFound otherwise; a name with a
slash is tried directly and the environment is not read).
  MC_ExecPath      every (world, PATH list) is a state: worlds = what stands under the program's name in the
                   current directory, a directory below it, and two absolute directories; TLC checks the laws
                   (first match, completeness, "" = ".", a barren element in front only shifts the answer,
                   directories / files without execute bit never win, nothing behind the winner matters, search
                   and direct test agree) and emits the state with the predicted answer; three seeded faults of
                   the specification are rejected
  drivers/execpath builds each world on disk (regular files, directories, symbolic links to executables, to
                   plain files, to directories, dangling), calls the real Look with an environment function that
                   counts what it is asked, every fifth search through the process environment (getenv = nil)
  Trace_ExecPath   seeded random worlds over all eight kinds and PATH lists of up to 12 elements (among them a
                   directory that does not exist and an element that names a file): the recorded answers of the
                   real function are judged by TLC

The package is internal: the driver reaches it through a bridge package added to the go-internal module by build
overlay (harness/drivers/execpath/_bridge/bridge.go -> <REPO>/verifshim/vexecpath/bridge.go); nothing is
written into the repository.
"""
import json
import os
import time
from vlib import *

SPECDIR = "execpath"
INVS = "InvEmit InvFirst InvComplete InvEmptyIsDot InvPrefix InvKinds InvRepeat InvDirect"
BRIDGE = os.path.join(HARNESS, "drivers", "execpath", "_bridge", "bridge.go")
K6 = ["absent", "exec", "noexec", "dir", "lnexec", "lndangle"]
K8 = K6 + ["lnnoexec", "lndir"]

ASSUME = [
    "growth check, not a listed property; the statement is the doc comment of execpath.Look plus the comments in its body (Unix)",
    "a PATH list that holds just the empty element is written like the empty list (filepath.SplitList(\"\") is empty): not an input of its own",
    "run as whoever runs the check: 'executable' is decided from the mode bits (any execute bit), as the code documents, not from access(2)",
    "exhaustive for the worlds and lists inside the bound given in 'rule'; beyond it seeded random worlds and lists judged by TLC",
]


def tla_set(xs):
    return "{" + ", ".join('"%s"' % x for x in xs) + "}"


def mc_cfg(tier, emit=True, bug="none"):
    if tier == "quick":
        elems, kc, kb, ka, kbb, mp = ["", ".", "bin", "A", "B", "NX"], K6, K6, K6, ["absent", "exec"], 3
    else:
        elems, kc, kb, ka, kbb, mp = ["", ".", "bin", "A", "B", "NX", "F"], K8, K6, K8, ["absent", "exec", "dir"], 3
    text = ("SPECIFICATION Spec\nCONSTANTS\n  Bug = \"%s\"\n  MaxPath = %d\n  PathElems = %s\n  KindsCwd = %s\n  KindsBin = %s\n"
            "  KindsA = %s\n  KindsB = %s\n  Emit = %s\nINVARIANTS %s\nCHECK_DEADLOCK FALSE\n"
            % (bug, mp, tla_set(elems), tla_set(kc), tla_set(kb), tla_set(ka), tla_set(kbb), "TRUE" if emit else "FALSE", INVS))
    worlds = len(kc) * len(kb) * len(ka) * len(kbb)
    lists = sum(len(elems) ** i for i in range(mp + 1))
    return text, worlds, lists, elems


def bug_runs(ctx):
    for bug, inv in [("LastWins", "InvRepeat"), ("DirOk", "InvKinds"), ("EmptySkipped", "InvEmptyIsDot")]:
        r = tlc(ctx, SPECDIR, "MC_ExecPath.tla", "Bug_%s.cfg" % bug, workers=2, timeout=300, expect_violation=True)
        found = r.violation is not None and ("Invariant %s is violated" % inv) in r.violation
        log("sanity Bug=%s: %s" % (bug, "rejected by TLC (%s)" % inv if found else "NOT REJECTED"))
        if not found:
            raise NoVerdict("sanity: TLC did not reject Bug=%s\n%s" % (bug, (r.violation or "")[:1500]))
    return ["LastWins", "DirOk", "EmptySkipped"]


def build(ctx):
    ov = make_overlay(ctx, "execpath", {}, shims=["vsched"], add={"verifshim/vexecpath/bridge.go": BRIDGE})
    return go_build(ctx, "drivers/execpath", out_name="execpathdrv", tags="verif,x04", overlay=ov)


def selftest(ctx):
    """a corrupted real record must be rejected by the trace spec"""
    bug_runs(ctx)
    drv = build(ctx)
    trace = ctx.path("trace.ndjson")
    run_driver(ctx, [drv, "-mode", "random", "-n", "300", "-trace", trace, "-out", ctx.path("r.json"), "-tmp", ctx.fastdir("fs")])
    recs = [json.loads(l) for l in open(trace)]
    k = next(i for i, r in enumerate(recs) if r["got"] > 1)
    recs[k]["got"] -= 1
    with open(trace, "w") as fh:
        for r in recs:
            fh.write(json.dumps(r) + "\n")
    res = tlc(ctx, SPECDIR, "Trace_ExecPath.tla", "Trace_ExecPath.cfg", files=[trace], workers=4, timeout=600)
    require_tlc_ok(res, "trace validation run")
    bad = bad_traces(res)
    ok = set(bad) == {k + 1} and bad[k + 1] == {"RecAnswer"}
    log("selftest corrupted record %d: %s" % (k + 1, "rejected" if ok else "NOT REJECTED / others rejected: %s" % bad))
    if not ok:
        raise NoVerdict("selftest failed")
    return 0


def check(ctx):
    if getattr(ctx, "selftest", False):
        return selftest(ctx)
    quick = ctx.tier == "quick"
    nrand = 6000 if quick else 40000
    drv = build(ctx)
    log("[%5.1fs] driver built (bridge package added by overlay)" % (time.time() - ctx.t0))

    # (A) laws on the specification + predictions for every state inside the bound
    text, worlds, lists, elems = mc_cfg(ctx.tier)
    cases = ctx.path("cases.ndjson")
    r = tlc(ctx, SPECDIR, "MC_ExecPath.tla", "mc.cfg", cfg_text=text, emit_to=cases, workers=NCPU, timeout=3000)
    require_tlc_ok(r, "laws of the documented search")
    want_states = worlds * lists
    want_emits = worlds * (lists - 1)         # the list holding just "" is not an input of its own
    if r.distinct != want_states or r.emits != want_emits:
        raise NoVerdict("MC_ExecPath: %d states, %d cases emitted, expected %d / %d" % (r.distinct, r.emits, want_states, want_emits))
    log("[%5.1fs] TLC: laws hold in %d states (%d worlds x %d lists); %d cases emitted" % (time.time() - ctx.t0, r.distinct, worlds, lists, r.emits))
    bugs = bug_runs(ctx)

    # (B) replay into the real function
    out = ctx.path("replay.json")
    run_driver(ctx, [drv, "-mode", "replay", "-out", out, "-tmp", ctx.fastdir("fs"), cases], timeout=3000)
    r1 = load_result(out)
    if r1["counters"].get("cases", 0) != want_emits or r1["counters"].get("worlds", 0) != worlds:
        raise NoVerdict("driver ran %d of %d emitted cases in %d of %d worlds"
                        % (r1["counters"].get("cases", 0), want_emits, r1["counters"].get("worlds", 0), worlds))
    log("[%5.1fs] %d searches and %d direct tests replayed into execpath.Look: %d mismatches"
        % (time.time() - ctx.t0, want_emits, r1["counters"].get("direct_tests", 0), r1["counters"].get("violations_total", 0)))
    violations = list(r1["violations"])
    os.remove(cases)

    # (C) seeded random worlds and long lists: recorded from the real function, judged by TLC
    trace, out = ctx.path("trace.ndjson"), ctx.path("random.json")
    run_driver(ctx, [drv, "-mode", "random", "-n", str(nrand), "-trace", trace, "-out", out, "-tmp", ctx.fastdir("fs2")], timeout=3000)
    r2 = load_result(out)
    nrec = r2["counters"]["records"]
    res = tlc(ctx, SPECDIR, "Trace_ExecPath.tla", "Trace_ExecPath.cfg", files=[trace], workers=NCPU, timeout=3000)
    require_tlc_ok(res, "trace validation run")   # the Rec* invariants only print BAD lines
    if res.distinct != nrec:
        raise NoVerdict("trace validation visited %d of %d records\n%s" % (res.distinct, nrec, res.violation))
    bad = bad_traces(res)
    log("[%5.1fs] %d records of the real function validated by TLC: %d rejected" % (time.time() - ctx.t0, nrec, len(bad)))
    if bad:
        recs = open(trace).read().splitlines()
        for idx, invs in sorted(bad.items()):
            rec = json.loads(recs[idx - 1])
            if "RecShape" in invs:
                raise NoVerdict("malformed record %d: %s" % (idx, recs[idx - 1][:600]))
            violations.append(dict(
                kind="trace-rejected:" + ",".join(sorted(invs)),
                what="TLC rejects the record of the real execpath.Look: PATH elements %s in world %s -> %s (element %d); direct test of %s/prog -> %s (%s)"
                     % (rec["path"], json.dumps(rec["w"], sort_keys=True), rec["text"], rec["got"], rec["slash"], rec["dgot"], ",".join(sorted(invs))),
                input=dict(world=rec["w"], path=rec["path"], program="prog", slash=rec["slash"]), detail=rec,
                **{"class": "%s|%s" % (json.dumps(rec["w"], sort_keys=True), ":".join(rec["path"]))}))
    violations.sort(key=lambda v: (v.get("kind", ""), len(json.dumps(v.get("input", "")))))
    counters = dict(r1["counters"])
    counters.update({"random_" + k: v for k, v in r2["counters"].items()})
    coverage = dict(
        evaluations=r1["evaluations"] + r2["evaluations"], distinct_nontrivial=r1["distinct_nontrivial"] + r2["distinct_nontrivial"],
        rule=("one evaluation = one call of the real execpath.Look compared with the specification.  Replay: every PATH list of <= 3 elements over %s "
              "in every one of %d worlds (kind of the entry named like the program in the current directory, in bin/ below it, in two absolute "
              "directories), plus the direct test of <element>/prog per world and element; every fifth search reads the process environment "
              "(getenv = nil).  Random: %d seeded records, worlds over 8 kinds (regular with / without execute bit, directory, links to each of "
              "them, dangling link, absent), lists of <= 12 elements incl. a missing directory and an element naming a file, all validated by TLC "
              "(Trace_ExecPath, 16 lanes).  non-trivial = a search that has to pass over at least one element / a direct test that succeeds"
              % (elems, worlds, nrand)),
        samples=(r1["samples"][:4] + r2["samples"][:4]), exhaustive=True, cases_emitted=want_emits, generator_states=r.distinct,
        traces_validated_against_impl=nrec, counters=counters, bug_configs_rejected_by_tlc=bugs)
    for v in violations:
        v.setdefault("class", "")
    return conclude(ctx, violations, "model_checking", coverage, ASSUME)


# not a listed property: never rendered into MANIFEST.json
REGISTRY = dict(
    category="model_checking", design_ref="growth check (DESIGN.md section 9.1); statement: doc comment of internal/os/execpath.Look",
    text=("ExecPath.tla defines the PATH search of execpath.Look over worlds (what stands under the program's name in four places) and "
          "lists of PATH elements; TLC checks first-match, completeness, the empty element, barren prefixes, kinds, agreement with the "
          "direct test in every state and emits the predicted answer; the driver builds each world on disk and calls the real function; "
          "real answers on random worlds and long lists are validated by TLC against the same specification."),
    note="trusted: TLC, ExecPath.tla, the driver's fixture builder and its mapping of the returned path to an element index",
    technique="TLA+ reference function model-checked by TLC; TLC-generated cases replayed into the real function; real traces validated by TLC")
