//go:build verif

// Package vatomic replaces sync/atomic in overlaid files: every operation is a
// scheduling point (sequentially consistent, as the Go memory model promises
// for atomics); the operation itself is the real one.
package vatomic

import (
	"sync/atomic"

	"github.com/rogpeppe/go-internal/verifshim/vsched"
)

func pt(op string) {
	if s := vsched.Cur(); s != nil && s.OnActor() != nil {
		s.Point(op, "", nil)
	}
}

func LoadUint32(p *uint32) uint32          { pt("atomic.load"); return atomic.LoadUint32(p) }
func StoreUint32(p *uint32, v uint32)      { pt("atomic.store"); atomic.StoreUint32(p, v) }
func AddUint32(p *uint32, d uint32) uint32 { pt("atomic.add"); return atomic.AddUint32(p, d) }
func CompareAndSwapUint32(p *uint32, o, n uint32) bool {
	pt("atomic.cas")
	return atomic.CompareAndSwapUint32(p, o, n)
}
func SwapUint32(p *uint32, n uint32) uint32 { pt("atomic.swap"); return atomic.SwapUint32(p, n) }
func LoadInt32(p *int32) int32              { pt("atomic.load"); return atomic.LoadInt32(p) }
func StoreInt32(p *int32, v int32)          { pt("atomic.store"); atomic.StoreInt32(p, v) }
func AddInt32(p *int32, d int32) int32      { pt("atomic.add"); return atomic.AddInt32(p, d) }
func CompareAndSwapInt32(p *int32, o, n int32) bool {
	pt("atomic.cas")
	return atomic.CompareAndSwapInt32(p, o, n)
}
func LoadInt64(p *int64) int64         { pt("atomic.load"); return atomic.LoadInt64(p) }
func StoreInt64(p *int64, v int64)     { pt("atomic.store"); atomic.StoreInt64(p, v) }
func AddInt64(p *int64, d int64) int64 { pt("atomic.add"); return atomic.AddInt64(p, d) }
func CompareAndSwapInt64(p *int64, o, n int64) bool {
	pt("atomic.cas")
	return atomic.CompareAndSwapInt64(p, o, n)
}
func LoadUint64(p *uint64) uint64          { pt("atomic.load"); return atomic.LoadUint64(p) }
func StoreUint64(p *uint64, v uint64)      { pt("atomic.store"); atomic.StoreUint64(p, v) }
func AddUint64(p *uint64, d uint64) uint64 { pt("atomic.add"); return atomic.AddUint64(p, d) }

type Bool struct{ v atomic.Bool }

func (b *Bool) Load() bool                    { pt("atomic.load"); return b.v.Load() }
func (b *Bool) Store(x bool)                  { pt("atomic.store"); b.v.Store(x) }
func (b *Bool) Swap(x bool) bool              { pt("atomic.swap"); return b.v.Swap(x) }
func (b *Bool) CompareAndSwap(o, n bool) bool { pt("atomic.cas"); return b.v.CompareAndSwap(o, n) }

type Int32 struct{ v atomic.Int32 }

func (b *Int32) Load() int32                    { pt("atomic.load"); return b.v.Load() }
func (b *Int32) Store(x int32)                  { pt("atomic.store"); b.v.Store(x) }
func (b *Int32) Add(d int32) int32              { pt("atomic.add"); return b.v.Add(d) }
func (b *Int32) CompareAndSwap(o, n int32) bool { pt("atomic.cas"); return b.v.CompareAndSwap(o, n) }

type Int64 struct{ v atomic.Int64 }

func (b *Int64) Load() int64                    { pt("atomic.load"); return b.v.Load() }
func (b *Int64) Store(x int64)                  { pt("atomic.store"); b.v.Store(x) }
func (b *Int64) Add(d int64) int64              { pt("atomic.add"); return b.v.Add(d) }
func (b *Int64) CompareAndSwap(o, n int64) bool { pt("atomic.cas"); return b.v.CompareAndSwap(o, n) }

type Uint32 struct{ v atomic.Uint32 }

func (b *Uint32) Load() uint32                    { pt("atomic.load"); return b.v.Load() }
func (b *Uint32) Store(x uint32)                  { pt("atomic.store"); b.v.Store(x) }
func (b *Uint32) Add(d uint32) uint32             { pt("atomic.add"); return b.v.Add(d) }
func (b *Uint32) CompareAndSwap(o, n uint32) bool { pt("atomic.cas"); return b.v.CompareAndSwap(o, n) }

type Value struct{ v atomic.Value }

func (b *Value) Load() any   { pt("atomic.load"); return b.v.Load() }
func (b *Value) Store(x any) { pt("atomic.store"); b.v.Store(x) }

type Pointer[T any] struct{ v atomic.Pointer[T] }

func (b *Pointer[T]) Load() *T                    { pt("atomic.load"); return b.v.Load() }
func (b *Pointer[T]) Store(x *T)                  { pt("atomic.store"); b.v.Store(x) }
func (b *Pointer[T]) CompareAndSwap(o, n *T) bool { pt("atomic.cas"); return b.v.CompareAndSwap(o, n) }
