//go:build verif

// Package vos replaces package os in overlaid go-internal files.  Every file
// system operation is reported to an Interceptor before it is performed (a
// scheduling point, a crash point, a fault point) and after it completed.
// Without an interceptor everything is forwarded verbatim.
//
// File embeds *os.File (the code under test uses Fd, Name, Stat, Readdirnames
// ...) and overrides every I/O method including ReadFrom / WriteTo, so that
// io.Copy cannot bypass the hooks through the promoted methods.
package vos

import (
	"io"
	"io/fs"
	"os"
	"sync/atomic"
	"time"
)

// Op describes one file system operation.
type Op struct {
	Kind  string // open stat lstat read readat write writeat truncate close remove rename chtimes mkdir readdir sync chmod readfile writefile link symlink readlink
	Path  string
	Path2 string
	N     int   // bytes requested
	Off   int64 // offset for *at operations, size for truncate
	Flag  int   // open flags
	Fd    uintptr
}

// Action is the interceptor's decision for an operation about to run.
type Action struct {
	Err   error // non-nil: do not perform the operation, return Err (for writes: after writing Short bytes)
	Short int   // with Err on a write: number of bytes really written first
}

type Interceptor interface {
	Before(op *Op) Action
	After(op *Op, n int, err error)
}

type holder struct{ i Interceptor }

var icpt atomic.Value

// SetInterceptor installs (or, with nil, removes) the interceptor.
func SetInterceptor(i Interceptor) { icpt.Store(holder{i}) }

func cur() Interceptor {
	h, _ := icpt.Load().(holder)
	return h.i
}

func before(op *Op) (Interceptor, Action) {
	i := cur()
	if i == nil {
		return nil, Action{}
	}
	return i, i.Before(op)
}

type File struct {
	*os.File
}

func wrap(f *os.File, err error) (*File, error) {
	if f == nil {
		return nil, err
	}
	return &File{f}, err
}

var (
	Stdin  = &File{os.Stdin}
	Stdout = &File{os.Stdout}
	Stderr = &File{os.Stderr}
)

func NewFile(fd uintptr, name string) *File {
	f := os.NewFile(fd, name)
	if f == nil {
		return nil
	}
	return &File{f}
}

func Pipe() (r *File, w *File, err error) {
	a, b, err := os.Pipe()
	if err != nil {
		return nil, nil, err
	}
	return &File{a}, &File{b}, nil
}

func OpenFile(name string, flag int, perm FileMode) (*File, error) {
	op := &Op{Kind: "open", Path: name, Flag: flag}
	i, a := before(op)
	if a.Err != nil {
		return nil, &fs.PathError{Op: "open", Path: name, Err: a.Err}
	}
	f, err := os.OpenFile(name, flag, perm)
	if i != nil {
		if f != nil {
			op.Fd = f.Fd()
		}
		i.After(op, 0, err)
	}
	return wrap(f, err)
}

func Open(name string) (*File, error)   { return OpenFile(name, O_RDONLY, 0) }
func Create(name string) (*File, error) { return OpenFile(name, O_RDWR|O_CREATE|O_TRUNC, 0666) }

func CreateTemp(dir, pattern string) (*File, error) {
	op := &Op{Kind: "open", Path: dir + "/" + pattern, Flag: O_RDWR | O_CREATE | O_EXCL}
	i, a := before(op)
	if a.Err != nil {
		return nil, &fs.PathError{Op: "open", Path: op.Path, Err: a.Err}
	}
	f, err := os.CreateTemp(dir, pattern)
	if i != nil {
		if f != nil {
			op.Path = f.Name()
		}
		i.After(op, 0, err)
	}
	return wrap(f, err)
}

func simple(op *Op, errOp string, do func() error) error {
	i, a := before(op)
	if a.Err != nil {
		return &fs.PathError{Op: errOp, Path: op.Path, Err: a.Err}
	}
	err := do()
	if i != nil {
		i.After(op, 0, err)
	}
	return err
}

func Stat(name string) (fi FileInfo, err error) {
	err = simple(&Op{Kind: "stat", Path: name}, "stat", func() error { fi, err = os.Stat(name); return err })
	return
}
func Lstat(name string) (fi FileInfo, err error) {
	err = simple(&Op{Kind: "lstat", Path: name}, "lstat", func() error { fi, err = os.Lstat(name); return err })
	return
}
func Remove(name string) error {
	return simple(&Op{Kind: "remove", Path: name}, "remove", func() error { return os.Remove(name) })
}
func RemoveAll(name string) error {
	return simple(&Op{Kind: "removeall", Path: name}, "removeall", func() error { return os.RemoveAll(name) })
}
func Rename(o, n string) error {
	return simple(&Op{Kind: "rename", Path: o, Path2: n}, "rename", func() error { return os.Rename(o, n) })
}
func Link(o, n string) error {
	return simple(&Op{Kind: "link", Path: o, Path2: n}, "link", func() error { return os.Link(o, n) })
}
func Symlink(o, n string) error {
	return simple(&Op{Kind: "symlink", Path: o, Path2: n}, "symlink", func() error { return os.Symlink(o, n) })
}
func Readlink(name string) (s string, err error) {
	err = simple(&Op{Kind: "readlink", Path: name}, "readlink", func() error { s, err = os.Readlink(name); return err })
	return
}
func Chtimes(name string, at, mt time.Time) error {
	return simple(&Op{Kind: "chtimes", Path: name}, "chtimes", func() error { return os.Chtimes(name, at, mt) })
}
func Chmod(name string, m FileMode) error {
	return simple(&Op{Kind: "chmod", Path: name}, "chmod", func() error { return os.Chmod(name, m) })
}
func Truncate(name string, size int64) error {
	return simple(&Op{Kind: "truncate", Path: name, Off: size}, "truncate", func() error { return os.Truncate(name, size) })
}
func Mkdir(name string, m FileMode) error {
	return simple(&Op{Kind: "mkdir", Path: name}, "mkdir", func() error { return os.Mkdir(name, m) })
}
func MkdirAll(name string, m FileMode) error {
	return simple(&Op{Kind: "mkdirall", Path: name}, "mkdir", func() error { return os.MkdirAll(name, m) })
}
func MkdirTemp(dir, pattern string) (s string, err error) {
	err = simple(&Op{Kind: "mkdirtemp", Path: dir + "/" + pattern}, "mkdir", func() error { s, err = os.MkdirTemp(dir, pattern); return err })
	return
}
func ReadDir(name string) (d []DirEntry, err error) {
	err = simple(&Op{Kind: "readdir", Path: name}, "readdir", func() error { d, err = os.ReadDir(name); return err })
	return
}

// ReadFile and WriteFile are decomposed so that every underlying operation is seen.
func ReadFile(name string) ([]byte, error) {
	f, err := Open(name)
	if err != nil {
		return nil, err
	}
	defer f.Close()
	return io.ReadAll(f)
}

func WriteFile(name string, data []byte, perm FileMode) error {
	f, err := OpenFile(name, O_WRONLY|O_CREATE|O_TRUNC, perm)
	if err != nil {
		return err
	}
	_, err = f.Write(data)
	if err1 := f.Close(); err1 != nil && err == nil {
		err = err1
	}
	return err
}

// ---- File methods ----

func (f *File) op(kind string, n int, off int64) *Op {
	return &Op{Kind: kind, Path: f.File.Name(), N: n, Off: off, Fd: fdOf(f.File)}
}

func fdOf(f *os.File) (fd uintptr) {
	defer func() { recover() }()
	return f.Fd()
}

func (f *File) Read(b []byte) (int, error) {
	op := f.op("read", len(b), -1)
	i, a := before(op)
	if a.Err != nil {
		return 0, &fs.PathError{Op: "read", Path: op.Path, Err: a.Err}
	}
	n, err := f.File.Read(b)
	if i != nil {
		i.After(op, n, err)
	}
	return n, err
}

func (f *File) ReadAt(b []byte, off int64) (int, error) {
	op := f.op("readat", len(b), off)
	i, a := before(op)
	if a.Err != nil {
		return 0, &fs.PathError{Op: "read", Path: op.Path, Err: a.Err}
	}
	n, err := f.File.ReadAt(b, off)
	if i != nil {
		i.After(op, n, err)
	}
	return n, err
}

func (f *File) Write(b []byte) (int, error) {
	op := f.op("write", len(b), -1)
	i, a := before(op)
	if a.Err != nil {
		n := 0
		if a.Short > 0 && a.Short < len(b) {
			n, _ = f.File.Write(b[:a.Short])
		}
		if i != nil {
			i.After(op, n, a.Err)
		}
		return n, &fs.PathError{Op: "write", Path: op.Path, Err: a.Err}
	}
	n, err := f.File.Write(b)
	if i != nil {
		i.After(op, n, err)
	}
	return n, err
}

func (f *File) WriteAt(b []byte, off int64) (int, error) {
	op := f.op("writeat", len(b), off)
	i, a := before(op)
	if a.Err != nil {
		n := 0
		if a.Short > 0 && a.Short < len(b) {
			n, _ = f.File.WriteAt(b[:a.Short], off)
		}
		if i != nil {
			i.After(op, n, a.Err)
		}
		return n, &fs.PathError{Op: "write", Path: op.Path, Err: a.Err}
	}
	n, err := f.File.WriteAt(b, off)
	if i != nil {
		i.After(op, n, err)
	}
	return n, err
}

func (f *File) WriteString(s string) (int, error) { return f.Write([]byte(s)) }

// ReadFrom / WriteTo: plain copy loops over the hooked Read / Write.
type onlyWriter struct{ io.Writer }
type onlyReader struct{ io.Reader }

func (f *File) ReadFrom(r io.Reader) (int64, error) { return io.Copy(onlyWriter{f}, r) }
func (f *File) WriteTo(w io.Writer) (int64, error)  { return io.Copy(w, onlyReader{f}) }

func (f *File) Truncate(size int64) error {
	op := f.op("truncate", 0, size)
	i, a := before(op)
	if a.Err != nil {
		return &fs.PathError{Op: "truncate", Path: op.Path, Err: a.Err}
	}
	err := f.File.Truncate(size)
	if i != nil {
		i.After(op, 0, err)
	}
	return err
}

func (f *File) Sync() error {
	op := f.op("sync", 0, -1)
	i, a := before(op)
	if a.Err != nil {
		return &fs.PathError{Op: "sync", Path: op.Path, Err: a.Err}
	}
	err := f.File.Sync()
	if i != nil {
		i.After(op, 0, err)
	}
	return err
}

func (f *File) Close() error {
	if f == nil {
		return ErrInvalid
	}
	op := f.op("close", 0, -1)
	i, a := before(op)
	if a.Err != nil {
		// the descriptor is released anyway, like a failing close(2)
		f.File.Close()
		if i != nil {
			i.After(op, 0, a.Err)
		}
		return &fs.PathError{Op: "close", Path: op.Path, Err: a.Err}
	}
	err := f.File.Close()
	if i != nil {
		i.After(op, 0, err)
	}
	return err
}

func (f *File) Stat() (FileInfo, error) {
	op := f.op("fstat", 0, -1)
	i, a := before(op)
	if a.Err != nil {
		return nil, &fs.PathError{Op: "stat", Path: op.Path, Err: a.Err}
	}
	fi, err := f.File.Stat()
	if i != nil {
		i.After(op, 0, err)
	}
	return fi, err
}

func (f *File) Readdirnames(n int) ([]string, error) {
	op := f.op("readdir", n, -1)
	i, a := before(op)
	if a.Err != nil {
		return nil, &fs.PathError{Op: "readdir", Path: op.Path, Err: a.Err}
	}
	names, err := f.File.Readdirnames(n)
	if i != nil {
		i.After(op, len(names), err)
	}
	return names, err
}

func (f *File) Chmod(m FileMode) error {
	op := f.op("fchmod", 0, -1)
	i, a := before(op)
	if a.Err != nil {
		return &fs.PathError{Op: "chmod", Path: op.Path, Err: a.Err}
	}
	err := f.File.Chmod(m)
	if i != nil {
		i.After(op, 0, err)
	}
	return err
}
