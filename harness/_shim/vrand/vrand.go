//go:build verif

// Package vrand replaces math/rand in overlaid files: Intn is a schedule-chosen value.
package vrand

import (
	"math/rand"

	"github.com/rogpeppe/go-internal/verifshim/vsched"
)

func Intn(n int) int {
	if s := vsched.Cur(); s != nil {
		return s.PickInt(n, "rand")
	}
	return rand.Intn(n)
}
func Int() int                        { return rand.Int() }
func Int63() int64                    { return rand.Int63() }
func Int31n(n int32) int32            { return int32(Intn(int(n))) }
func Int63n(n int64) int64            { return int64(Intn(int(n))) }
func Uint32() uint32                  { return rand.Uint32() }
func Float64() float64                { return rand.Float64() }
func Perm(n int) []int                { return rand.Perm(n) }
func Shuffle(n int, f func(i, j int)) { rand.Shuffle(n, f) }
func Seed(s int64)                    {}

type Rand = rand.Rand
type Source = rand.Source

func New(s Source) *Rand       { return rand.New(s) }
func NewSource(s int64) Source { return rand.NewSource(s) }
