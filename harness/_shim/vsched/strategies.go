//go:build verif

package vsched

import "math/rand"

// ---- replay of a TLC-generated schedule ----

type Step struct {
	Actor string `json:"a"`
	Ints  []int  `json:"ints,omitempty"`
}

// Replay follows steps; when the named actor is not enabled (or the schedule
// is exhausted) it records drift and falls back to round-robin, never failing.
type Replay struct {
	Steps []Step
	pos   int
	ipos  int
	Drift []string
}

func (r *Replay) PickActor(en []*Actor, cur *Actor) *Actor {
	r.ipos = 0
	if r.pos < len(r.Steps) {
		want := r.Steps[r.pos].Actor
		r.pos++
		for _, a := range en {
			if a.Name == want {
				return a
			}
		}
		if len(r.Drift) < 5 {
			r.Drift = append(r.Drift, "step "+itoa(r.pos)+": actor "+want+" not enabled")
		}
		return en[0]
	}
	// beyond the schedule: run to completion deterministically, current actor first
	if cur != nil {
		return cur
	}
	return en[0]
}

func (r *Replay) PickInt(n int, what string) int {
	if r.pos >= 1 && r.pos <= len(r.Steps) {
		st := r.Steps[r.pos-1]
		if r.ipos < len(st.Ints) {
			v := st.Ints[r.ipos]
			r.ipos++
			return v
		}
	}
	return 0
}

// Consumed reports whether the whole schedule was applied.
func (r *Replay) Consumed() bool { return r.pos >= len(r.Steps) }

func itoa(n int) string {
	if n == 0 {
		return "0"
	}
	s := ""
	for n > 0 {
		s = string(rune('0'+n%10)) + s
		n /= 10
	}
	return s
}

// ---- seeded random ----

type Random struct {
	R *rand.Rand
	// Stay is the probability (percent) of continuing the current actor when it is enabled.
	Stay int
}

func (r *Random) PickActor(en []*Actor, cur *Actor) *Actor {
	if cur != nil && r.Stay > 0 && r.R.Intn(100) < r.Stay {
		return cur
	}
	return en[r.R.Intn(len(en))]
}
func (r *Random) PickInt(n int, what string) int { return r.R.Intn(n) }

// ---- PCT-style priorities: highest priority enabled actor runs; at d-1 random
// change points the running actor's priority drops below all others ----

type PCT struct {
	R       *rand.Rand
	Depth   int // number of priority change points
	MaxStep int // expected run length
	prio    map[int]int
	change  map[int]bool
	step    int
	low     int
}

func (p *PCT) PickActor(en []*Actor, cur *Actor) *Actor {
	if p.prio == nil {
		p.prio = map[int]int{}
		p.change = map[int]bool{}
		for i := 0; i < p.Depth; i++ {
			p.change[1+p.R.Intn(p.MaxStep)] = true
		}
	}
	p.step++
	for _, a := range en {
		if _, ok := p.prio[a.ID]; !ok {
			p.prio[a.ID] = 1000 + p.R.Intn(1000)
		}
	}
	if p.change[p.step] && cur != nil {
		p.low--
		p.prio[cur.ID] = p.low
	}
	best := en[0]
	for _, a := range en[1:] {
		if p.prio[a.ID] > p.prio[best.ID] {
			best = a
		}
	}
	return best
}
func (p *PCT) PickInt(n int, what string) int { return p.R.Intn(n) }

// ---- bounded exhaustive depth-first exploration of the real code ----
//
// Every decision (actor choice and integer choice) is one position of a choice
// vector.  A run replays Prefix and takes option 0 beyond it, recording how
// many options each position had; Next() advances to the next vector.  With a
// preemption bound, switching away from an enabled current actor consumes one
// preemption and is not offered once the bound is reached.

type DFS struct {
	Prefix      []int
	Bound       int // max preemptions; < 0 means unbounded
	choices     []int
	counts      []int
	preemptions int
}

func (d *DFS) Reset() { d.choices, d.counts, d.preemptions = nil, nil, 0 }

func (d *DFS) choose(n int) int {
	pos := len(d.choices)
	c := 0
	if pos < len(d.Prefix) {
		c = d.Prefix[pos]
		if c >= n {
			c = n - 1
		}
	}
	d.choices = append(d.choices, c)
	d.counts = append(d.counts, n)
	return c
}

func (d *DFS) PickActor(en []*Actor, cur *Actor) *Actor {
	// order: current actor first, then the others by id
	order := make([]*Actor, 0, len(en))
	if cur != nil {
		order = append(order, cur)
	}
	for _, a := range en {
		if a != cur {
			order = append(order, a)
		}
	}
	n := len(order)
	if cur != nil && d.Bound >= 0 && d.preemptions >= d.Bound {
		n = 1
	}
	c := d.choose(n)
	if cur != nil && c != 0 {
		d.preemptions++
	}
	return order[c]
}

func (d *DFS) PickInt(n int, what string) int { return d.choose(n) }

// Next computes the next choice vector; false when the space is exhausted.
func (d *DFS) Next() bool {
	for i := len(d.choices) - 1; i >= 0; i-- {
		if d.choices[i]+1 < d.counts[i] {
			d.Prefix = append(append([]int(nil), d.choices[:i]...), d.choices[i]+1)
			return true
		}
	}
	return false
}
