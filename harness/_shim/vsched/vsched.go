//go:build verif

// Package vsched is a cooperative scheduler for controlled execution of the
// real go-internal code: exactly one registered actor runs at a time, and the
// shim packages (vsync, vatomic, vrand, vos, vsyscall) call Point at every
// synchronisation / file operation.  Which actor continues at a Point, which
// waiter a Signal wakes and what rand.Intn returns are decided by a Strategy
// (replay of a TLC-generated schedule, bounded exhaustive DFS, seeded random).
//
// The scheduler knows which actors are blocked (each parked actor carries an
// `enabled` predicate), so a deadlock is detected as a fact - no actor enabled
// while some actor has not finished - never by a timeout.
package vsched

import (
	"fmt"
	"os"
	"runtime"
	"runtime/debug"
	"strconv"
	"strings"
	"sync"
	"sync/atomic"
	"time"
)

// Strategy decides every nondeterministic choice of a run.
type Strategy interface {
	// PickActor chooses the actor that runs next. en is never empty and is
	// ordered by actor id; cur is the actor that just reached a Point (nil when
	// it finished or is not enabled).
	PickActor(en []*Actor, cur *Actor) *Actor
	// PickInt chooses a value in [0,n) (rand.Intn, Signal's waiter, ...).
	PickInt(n int, what string) int
}

type Actor struct {
	ID       int
	Name     string
	Op       string // operation the actor is parked at
	Arg      string
	wake     chan struct{}
	enabled  func() bool // nil while running or when finished
	done     bool
	returnTo *Actor // parent to resume at the first Point after a spawn
	Frozen   bool   // crashed / stopped forever by the driver
	goid     int64  // goroutine running the actor
	Blocked  int    // number of scheduling decisions at which the actor was parked and not enabled
}

type Decision struct {
	Actor string `json:"a"`
	Op    string `json:"op"`
	Arg   string `json:"arg,omitempty"`
	Ints  []int  `json:"ints,omitempty"`
	NOpt  int    `json:"nopt"`
}

type Outcome struct {
	Status string     `json:"status"` // done | deadlock | budget | panic | stalled (harness limit, see Stalled)
	Detail string     `json:"detail,omitempty"`
	Steps  int        `json:"steps"`
	Trace  []Decision `json:"trace,omitempty"`
}

type Sched struct {
	mu      sync.Mutex
	actors  []*Actor
	cur     *Actor
	strat   Strategy
	steps   int
	ticks   int64 // scheduler calls (progress, read by the watchdog)
	budget  int
	outcome chan Outcome
	over    bool
	trace   []Decision
	// OnPoint, if set, is called (scheduler lock not held, baton held by a) when
	// actor a is about to be resumed at its Point; used by drivers for crash
	// injection and conformance bookkeeping.
	OnResume func(a *Actor)
}

var (
	gmu sync.Mutex
	cur *Sched
)

// Cur returns the scheduler of the run in progress, nil in free mode.
func Cur() *Sched {
	gmu.Lock()
	defer gmu.Unlock()
	return cur
}

// Stalled reports whether controlled execution was given up in this process: an actor blocked in a
// primitive the shims do not model (a channel operation, a lock of a package that was not redirected).
// Exactly one actor runs at a time, so nobody could ever wake it: the run - and every later one, the
// code being the same - ends with status "stalled".  That is a limit of the harness, not a fact
// about the code; drivers do not record such runs and the checks fall back to free runs.
func Stalled() bool { return stalledLatch.Load() }

var stalledLatch atomic.Bool

// blockedKinds are the goroutine states (runtime.Stack) of an actor that waits for another goroutine.
var blockedKinds = []string{"chan receive", "chan send", "select", "sync.Mutex.Lock", "sync.RWMutex", "sync.Cond.Wait", "semacquire", "sync.WaitGroup.Wait"}

func stallAfter() time.Duration {
	if v, err := strconv.Atoi(os.Getenv("VERIF_STALL_MS")); err == nil && v > 0 {
		return time.Duration(v) * time.Millisecond
	}
	return 8 * time.Second
}

// watch ends the run as "stalled" when no scheduler call was made for stallAfter() and the running
// actor's goroutine sits in one of blockedKinds.
func (s *Sched) watch(stop chan struct{}) {
	limit := stallAfter()
	last, since := int64(-1), time.Now()
	for {
		select {
		case <-stop:
			return
		case <-time.After(limit / 16):
		}
		t := atomic.LoadInt64(&s.ticks)
		if t != last {
			last, since = t, time.Now()
			continue
		}
		if time.Since(since) < limit {
			continue
		}
		s.mu.Lock()
		a := s.cur
		s.mu.Unlock()
		if a == nil {
			continue
		}
		buf := make([]byte, 1<<20)
		buf = buf[:runtime.Stack(buf, true)]
		head := fmt.Sprintf("goroutine %d [", a.goid)
		i := strings.Index(string(buf), head)
		if i < 0 {
			continue
		}
		rest := string(buf[i+len(head):])
		state := rest
		if j := strings.IndexAny(rest, "],"); j >= 0 {
			state = rest[:j]
		}
		blocked := false
		for _, k := range blockedKinds {
			if strings.HasPrefix(state, k) {
				blocked = true
			}
		}
		if !blocked {
			since = time.Now() // busy (system call, computation): keep waiting
			continue
		}
		frames := rest
		if j := strings.Index(rest, "\n\n"); j >= 0 {
			frames = rest[:j]
		}
		if len(frames) > 1200 {
			frames = frames[:1200]
		}
		stalledLatch.Store(true)
		s.mu.Lock()
		s.finish("stalled", fmt.Sprintf("actor %s blocked outside the scheduler's primitives [%s", a.Name, frames))
		s.mu.Unlock()
		return
	}
}

// Run executes main as actor "main" under strat and returns how the run ended.
// budget bounds the number of scheduling decisions (0 = 100000).
func Run(strat Strategy, budget int, main func()) Outcome {
	if budget <= 0 {
		budget = 100000
	}
	if stalledLatch.Load() {
		return Outcome{Status: "stalled", Detail: "controlled execution was given up after an earlier stalled run"}
	}
	s := &Sched{strat: strat, budget: budget, outcome: make(chan Outcome, 1)}
	gmu.Lock()
	cur = s
	gmu.Unlock()
	stop := make(chan struct{})
	go s.watch(stop)
	m := s.spawn("main", main, nil)
	s.resume(m) // starting the run is not a scheduling decision
	o := <-s.outcome
	close(stop)
	gmu.Lock()
	if cur == s {
		cur = nil
	}
	gmu.Unlock()
	return o
}

func (s *Sched) finish(status, detail string) {
	// s.mu held
	if s.over {
		return
	}
	s.over = true
	s.outcome <- Outcome{Status: status, Detail: detail, Steps: s.steps, Trace: s.trace}
}

// Actors returns a snapshot (for drivers: who is parked where).
func (s *Sched) Actors() []*Actor {
	s.mu.Lock()
	defer s.mu.Unlock()
	return append([]*Actor(nil), s.actors...)
}

func goid() int64 {
	var buf [64]byte
	b := buf[:runtime.Stack(buf[:], false)]
	// "goroutine 123 [running]:..."
	var n int64
	for _, c := range b[len("goroutine "):] {
		if c < '0' || c > '9' {
			break
		}
		n = n*10 + int64(c-'0')
	}
	return n
}

// OnActor returns the running actor if the calling goroutine is that actor,
// nil for goroutines the scheduler does not control (they must not call Point).
func (s *Sched) OnActor() *Actor {
	g := goid()
	s.mu.Lock()
	defer s.mu.Unlock()
	if s.cur != nil && s.cur.goid == g {
		return s.cur
	}
	return nil
}

// Current returns the running actor.
func (s *Sched) Current() *Actor {
	s.mu.Lock()
	defer s.mu.Unlock()
	return s.cur
}

func (s *Sched) spawn(name string, fn func(), parent *Actor) *Actor {
	atomic.AddInt64(&s.ticks, 1)
	s.mu.Lock()
	a := &Actor{ID: len(s.actors), Name: name, wake: make(chan struct{}, 1), Op: "start", returnTo: parent}
	if name == "" {
		a.Name = fmt.Sprintf("g%d", a.ID)
	}
	if parent == nil {
		a.enabled = func() bool { return true }
	}
	s.actors = append(s.actors, a)
	s.mu.Unlock()
	go func() {
		a.goid = goid()
		<-a.wake
		defer func() {
			if r := recover(); r != nil {
				if r == errFrozen {
					select {}
				}
				s.mu.Lock()
				s.finish("panic", fmt.Sprintf("actor %s: %v\n%s", a.Name, r, debug.Stack()))
				s.mu.Unlock()
				select {}
			}
		}()
		fn()
		s.mu.Lock()
		a.done = true
		a.enabled = nil
		a.Op = "done"
		p := a.returnTo
		a.returnTo = nil
		s.mu.Unlock()
		if p != nil {
			s.resume(p)
			return
		}
		s.schedule(nil)
	}()
	return a
}

var errFrozen = fmt.Errorf("vsched: actor frozen")

// Go starts fn as a new actor.  The child runs at once up to its first Point
// (a spawn is not a scheduling decision), then the caller continues.
func (s *Sched) Go(name string, fn func()) {
	s.mu.Lock()
	parent := s.cur
	s.mu.Unlock()
	child := s.spawn(name, fn, parent)
	s.resume(child)
	<-parent.wake
	s.mu.Lock()
	s.cur = parent
	s.mu.Unlock()
}

func (s *Sched) resume(a *Actor) {
	atomic.AddInt64(&s.ticks, 1)
	s.mu.Lock()
	s.cur = a
	a.enabled = nil
	s.mu.Unlock()
	a.wake <- struct{}{}
}

// Point parks the calling actor until the strategy picks it and enabled() holds.
func (s *Sched) Point(op, arg string, enabled func() bool) {
	atomic.AddInt64(&s.ticks, 1)
	s.mu.Lock()
	a := s.cur
	if a == nil {
		s.mu.Unlock()
		panic("vsched: Point(" + op + ") outside any actor")
	}
	a.Op, a.Arg, a.enabled = op, arg, enabled
	if enabled == nil {
		a.enabled = func() bool { return true }
	}
	p := a.returnTo
	a.returnTo = nil
	s.mu.Unlock()
	if p != nil {
		// first Point after the spawn: hand the baton back to the parent
		s.resume(p)
		<-a.wake
	} else {
		s.schedule(a)
	}
	if a.Frozen {
		panic(errFrozen)
	}
	if s.OnResume != nil {
		s.OnResume(a)
	}
}

// Freeze stops the calling actor forever at this point (a crashed process:
// nothing after it runs, not even deferred calls) and schedules the others.
func (s *Sched) Freeze() {
	s.mu.Lock()
	a := s.cur
	a.Frozen = true
	a.done = true
	a.enabled = nil
	a.Op = "frozen"
	s.mu.Unlock()
	s.schedule(nil)
	select {}
}

func (s *Sched) schedule(self *Actor) {
	atomic.AddInt64(&s.ticks, 1)
	s.mu.Lock()
	if s.over {
		s.mu.Unlock()
		select {}
	}
	s.steps++
	if s.steps > s.budget {
		s.finish("budget", s.describe())
		s.mu.Unlock()
		select {}
	}
	var en []*Actor
	alldone := true
	for _, a := range s.actors {
		if !a.done {
			alldone = false
		}
		if a.enabled != nil && !a.done {
			if a.enabled() {
				en = append(en, a)
			} else {
				a.Blocked++
			}
		}
	}
	if len(en) == 0 {
		if alldone {
			s.finish("done", "")
		} else {
			s.finish("deadlock", s.describe())
		}
		s.mu.Unlock()
		if self != nil {
			select {}
		}
		return
	}
	var c *Actor
	if self != nil && self.enabled != nil && !self.done {
		for _, a := range en {
			if a == self {
				c = self
			}
		}
	}
	pick := s.strat.PickActor(en, c)
	s.trace = append(s.trace, Decision{Actor: pick.Name, Op: pick.Op, Arg: pick.Arg, NOpt: len(en)})
	pick.enabled = nil
	s.cur = pick
	s.mu.Unlock()
	if pick == self {
		return
	}
	pick.wake <- struct{}{}
	if self != nil {
		<-self.wake
	}
}

func (s *Sched) describe() string {
	d := ""
	for _, a := range s.actors {
		if !a.done {
			d += fmt.Sprintf("%s:%s(%s) ", a.Name, a.Op, a.Arg)
		}
	}
	return d
}

// PickInt asks the strategy for a value in [0,n) and records it in the trace.
func (s *Sched) PickInt(n int, what string) int {
	if n <= 1 {
		return 0
	}
	s.mu.Lock()
	defer s.mu.Unlock()
	v := s.strat.PickInt(n, what)
	if v < 0 || v >= n {
		v = ((v % n) + n) % n
	}
	if len(s.trace) > 0 {
		t := &s.trace[len(s.trace)-1]
		t.Ints = append(t.Ints, v)
	}
	return v
}

// Yield is an explicit scheduling point for driver code (e.g. inside a user callback).
func Yield(op string) {
	if s := Cur(); s != nil {
		s.Point(op, "", nil)
	}
}
