//go:build verif

// Package vsync replaces package sync in overlaid go-internal files.  Under a
// vsched run every blocking operation is a scheduling point whose enabledness
// the scheduler can see; outside a run (free mode) the real primitives are used.
package vsync

import (
	"sync"

	"github.com/rogpeppe/go-internal/verifshim/vsched"
)

type Locker = sync.Locker
type Pool = sync.Pool

// Go is what `go f(x)` statements of overlaid files are rewritten to.
func Go(fn func()) {
	if s := vsched.Cur(); s != nil {
		s.Go("", fn)
		return
	}
	go fn()
}

type Mutex struct {
	held bool
	real sync.Mutex
}

func (m *Mutex) Lock() {
	if s := vsched.Cur(); s != nil {
		s.Point("lock", "", func() bool { return !m.held })
		m.held = true
		return
	}
	m.real.Lock()
}

func (m *Mutex) TryLock() bool {
	if s := vsched.Cur(); s != nil {
		s.Point("trylock", "", nil)
		if m.held {
			return false
		}
		m.held = true
		return true
	}
	return m.real.TryLock()
}

func (m *Mutex) Unlock() {
	if s := vsched.Cur(); s != nil {
		if !m.held {
			panic("sync: unlock of unlocked mutex")
		}
		m.held = false
		return
	}
	m.real.Unlock()
}

type RWMutex struct {
	writer  bool
	readers int
	real    sync.RWMutex
}

func (m *RWMutex) Lock() {
	if s := vsched.Cur(); s != nil {
		s.Point("wlock", "", func() bool { return !m.writer && m.readers == 0 })
		m.writer = true
		return
	}
	m.real.Lock()
}
func (m *RWMutex) Unlock() {
	if s := vsched.Cur(); s != nil {
		if !m.writer {
			panic("sync: Unlock of unlocked RWMutex")
		}
		m.writer = false
		return
	}
	m.real.Unlock()
}
func (m *RWMutex) RLock() {
	if s := vsched.Cur(); s != nil {
		s.Point("rlock", "", func() bool { return !m.writer })
		m.readers++
		return
	}
	m.real.RLock()
}
func (m *RWMutex) RUnlock() {
	if s := vsched.Cur(); s != nil {
		if m.readers <= 0 {
			panic("sync: RUnlock of unlocked RWMutex")
		}
		m.readers--
		return
	}
	m.real.RUnlock()
}
func (m *RWMutex) RLocker() Locker { return (*rlocker)(m) }

type rlocker RWMutex

func (r *rlocker) Lock()   { (*RWMutex)(r).RLock() }
func (r *rlocker) Unlock() { (*RWMutex)(r).RUnlock() }

type waiter struct{ signalled bool }

type Cond struct {
	L       Locker
	waiters []*waiter
	real    *sync.Cond
}

func NewCond(l Locker) *Cond { return &Cond{L: l} }

func (c *Cond) realCond() *sync.Cond {
	if c.real == nil {
		c.real = sync.NewCond(c.L)
	}
	return c.real
}

func (c *Cond) Wait() {
	s := vsched.Cur()
	if s == nil {
		c.realCond().Wait()
		return
	}
	w := &waiter{}
	c.waiters = append(c.waiters, w)
	if m, ok := c.L.(*Mutex); ok {
		// waking up and re-acquiring the mutex is one step
		if !m.held {
			panic("sync: Cond.Wait with unlocked mutex")
		}
		m.held = false
		s.Point("condwait", "", func() bool { return w.signalled && !m.held })
		m.held = true
		return
	}
	c.L.Unlock()
	s.Point("condwait", "", func() bool { return w.signalled })
	c.L.Lock()
}

func (c *Cond) Signal() {
	s := vsched.Cur()
	if s == nil {
		c.realCond().Signal()
		return
	}
	if len(c.waiters) == 0 {
		return
	}
	i := s.PickInt(len(c.waiters), "signal")
	c.waiters[i].signalled = true
	c.waiters = append(c.waiters[:i:i], c.waiters[i+1:]...)
}

func (c *Cond) Broadcast() {
	if vsched.Cur() == nil {
		c.realCond().Broadcast()
		return
	}
	for _, w := range c.waiters {
		w.signalled = true
	}
	c.waiters = nil
}

type WaitGroup struct {
	n    int
	real sync.WaitGroup
}

func (wg *WaitGroup) Add(d int) {
	if vsched.Cur() != nil {
		wg.n += d
		if wg.n < 0 {
			panic("sync: negative WaitGroup counter")
		}
		return
	}
	wg.real.Add(d)
}
func (wg *WaitGroup) Done() { wg.Add(-1) }
func (wg *WaitGroup) Wait() {
	if s := vsched.Cur(); s != nil {
		s.Point("wgwait", "", func() bool { return wg.n == 0 })
		return
	}
	wg.real.Wait()
}

type Once struct {
	done, running bool
	real          sync.Once
}

func (o *Once) Do(f func()) {
	s := vsched.Cur()
	if s == nil {
		o.real.Do(f)
		return
	}
	s.Point("once", "", func() bool { return !o.running })
	if o.done {
		return
	}
	o.running = true
	defer func() { o.done, o.running = true, false }()
	f()
}

// Map: every operation is a scheduling point; the operations themselves are atomic.
type Map struct {
	m    map[any]any
	real sync.Map
}

func (m *Map) point(op string) bool {
	if s := vsched.Cur(); s != nil {
		s.Point(op, "", nil)
		if m.m == nil {
			m.m = map[any]any{}
		}
		return true
	}
	return false
}

func (m *Map) Load(key any) (any, bool) {
	if m.point("map.load") {
		v, ok := m.m[key]
		return v, ok
	}
	return m.real.Load(key)
}
func (m *Map) Store(key, value any) {
	if m.point("map.store") {
		m.m[key] = value
		return
	}
	m.real.Store(key, value)
}
func (m *Map) LoadOrStore(key, value any) (any, bool) {
	if m.point("map.loadorstore") {
		if v, ok := m.m[key]; ok {
			return v, true
		}
		m.m[key] = value
		return value, false
	}
	return m.real.LoadOrStore(key, value)
}
func (m *Map) LoadAndDelete(key any) (any, bool) {
	if m.point("map.loadanddelete") {
		v, ok := m.m[key]
		delete(m.m, key)
		return v, ok
	}
	return m.real.LoadAndDelete(key)
}
func (m *Map) Delete(key any) {
	if m.point("map.delete") {
		delete(m.m, key)
		return
	}
	m.real.Delete(key)
}
func (m *Map) Swap(key, value any) (any, bool) {
	if m.point("map.swap") {
		v, ok := m.m[key]
		m.m[key] = value
		return v, ok
	}
	return m.real.Swap(key, value)
}
func (m *Map) CompareAndSwap(key, old, new any) bool {
	if m.point("map.cas") {
		if v, ok := m.m[key]; ok && v == old {
			m.m[key] = new
			return true
		}
		return false
	}
	return m.real.CompareAndSwap(key, old, new)
}
func (m *Map) CompareAndDelete(key, old any) bool {
	if m.point("map.cad") {
		if v, ok := m.m[key]; ok && v == old {
			delete(m.m, key)
			return true
		}
		return false
	}
	return m.real.CompareAndDelete(key, old)
}
func (m *Map) Range(f func(key, value any) bool) {
	if m.point("map.range") {
		for k, v := range m.m {
			if !f(k, v) {
				return
			}
		}
		return
	}
	m.real.Range(f)
}
func (m *Map) Clear() {
	if m.point("map.clear") {
		m.m = map[any]any{}
		return
	}
	m.real.Clear()
}

func OnceFunc(f func()) func() { var o Once; return func() { o.Do(f) } }
