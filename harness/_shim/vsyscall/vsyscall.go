//go:build verif

// Package vsyscall replaces package syscall in lockedfile/internal/filelock:
// Flock becomes visible to the scheduler.  Admission is always decided by the
// kernel: the shim issues the real flock(2) with LOCK_NB when the scheduler
// lets the actor try; an actor that would block is parked until some unlock or
// close of a lock-holding descriptor has happened, then tries again.
package vsyscall

import (
	"sync/atomic"
	"syscall"

	"github.com/rogpeppe/go-internal/verifshim/vsched"
)

// gen counts completed unlocks / closes of descriptors (bumped by this package
// and by vos.File.Close through NoteRelease).
var gen int64

// NoteRelease tells blocked lockers that a lock may have been released.
func NoteRelease() { atomic.AddInt64(&gen, 1) }

// EINTRBudget, while positive, makes a blocking flock that would have to wait return EINTR instead (once per unit):
// what a signal without SA_RESTART arriving on the waiting thread does.  The caller holds nothing and has to ask again.
var EINTRBudget int64

// FlockHook, if set, observes every flock call: phase is "try", "acquired", "wouldblock", "unlock".
var FlockHook func(fd int, how int, phase string)

func Flock(fd int, how int) error {
	s := vsched.Cur()
	if s == nil {
		return syscall.Flock(fd, how)
	}
	if how&^syscall.LOCK_NB == syscall.LOCK_UN {
		s.Point("funlock", "", nil)
		err := syscall.Flock(fd, how)
		NoteRelease()
		if FlockHook != nil {
			FlockHook(fd, how, "unlock")
		}
		return err
	}
	op := "flock-ex"
	if how&^syscall.LOCK_NB == syscall.LOCK_SH {
		op = "flock-sh"
	}
	s.Point(op, "", nil)
	for {
		err := syscall.Flock(fd, how|syscall.LOCK_NB)
		if err != syscall.EWOULDBLOCK {
			if FlockHook != nil && err == nil {
				FlockHook(fd, how, "acquired")
			}
			return err
		}
		if how&syscall.LOCK_NB != 0 {
			return err
		}
		if FlockHook != nil {
			FlockHook(fd, how, "wouldblock")
		}
		if atomic.LoadInt64(&EINTRBudget) > 0 {
			atomic.AddInt64(&EINTRBudget, -1)
			return syscall.EINTR
		}
		seen := atomic.LoadInt64(&gen)
		s.Point(op+"-blocked", "", func() bool { return atomic.LoadInt64(&gen) != seen })
	}
}
