// Driver for C19: replays the cases TLC generated from spec/buildtags into the
// real imports.ShouldBuild / imports.MatchFile, three-way with the references
// the statement names (go/build.Context.MatchFile, go/build/constraint), and
// records real behaviour on seeded random inputs for validation by TLC.
package main

import (
	"bytes"
	"encoding/json"
	"flag"
	"fmt"
	"go/build"
	"go/build/constraint"
	"io"
	"sort"
	"strings"
	"sync"
	"sync/atomic"

	"verifharness/vutil"

	"github.com/rogpeppe/go-internal/imports"
)

// caseJ is one line emitted by an MC_Build* generator.
type caseJ struct {
	Kind string `json:"kind"` // hdr | known | sb | mf | mfx
	// hdr
	Universe [][]int `json:"universe"`
	NSets    int     `json:"nsets"`
	// known
	OS   [][]int `json:"os"`
	Arch [][]int `json:"arch"`
	// sb
	Content []int   `json:"content"`
	Blines  [][]int `json:"blines"`
	Nlines  int     `json:"nlines"`
	Wf      bool    `json:"wf"`
	Amb     bool    `json:"amb"`
	// mf, mfx
	Name []int   `json:"name"`
	Req  [][]int `json:"req"`
	Toks [][]int `json:"toks"`
	// sb, mf: prediction per tag set (index k-1 <-> bits of the universe)
	Expect []bool `json:"expect"`
	// mfx: explicit tag sets
	Cases []struct {
		Tags   [][]int `json:"tags"`
		Expect bool    `json:"expect"`
	} `json:"cases"`
}

func str(a []int) string { return string(vutil.Bytes(a)) }

func strs(a [][]int) []string {
	r := make([]string, len(a))
	for i := range a {
		r[i] = str(a[i])
	}
	return r
}

func tagList(tags map[string]bool) []string {
	l := []string{}
	for t, v := range tags {
		if v {
			l = append(l, t)
		}
	}
	sort.Strings(l)
	return l
}

// dense returns the same tag set with an explicit false entry for every other
// name in also: "tags does not select" must not depend on how false is spelled.
func dense(tags map[string]bool, also []string) map[string]bool {
	m := map[string]bool{}
	for _, t := range also {
		m[t] = false
	}
	m["foo"] = false
	m["linux"] = false
	m["android"] = false
	m["ignore"] = false
	m["*"] = false
	for t, v := range tags {
		if v {
			m[t] = true
		}
	}
	return m
}

func safeShouldBuild(content []byte, tags map[string]bool) (v bool, panicked interface{}) {
	defer func() {
		if r := recover(); r != nil {
			panicked = fmt.Sprint(r)
		}
	}()
	return imports.ShouldBuild(content, tags), nil
}

func safeMatchFile(name string, tags map[string]bool) (v bool, panicked interface{}) {
	defer func() {
		if r := recover(); r != nil {
			panicked = fmt.Sprint(r)
		}
	}()
	return imports.MatchFile(name, tags), nil
}

// ---- the references the statement names ----

// refContext maps a tag set to a go/build context.  android becomes GOOS (that
// is where go/build's "android selects linux" lives), every other tag is a
// plain build tag, so none of go/build's other implications (ios->darwin,
// illumos->solaris, unix, cgo, release tags) is in play.  "*" has no
// counterpart in go/build.
func refContext(tags map[string]bool, content []byte) (*build.Context, bool) {
	ctx := &build.Context{}
	for t, v := range tags {
		if !v {
			continue
		}
		switch t {
		case "*":
			return nil, false
		case "android":
			ctx.GOOS = "android"
		case "unix", "cgo", "boringcrypto", "":
			return nil, false
		default:
			ctx.BuildTags = append(ctx.BuildTags, t)
		}
	}
	ctx.OpenFile = func(string) (io.ReadCloser, error) { return io.NopCloser(bytes.NewReader(content)), nil }
	return ctx, true
}

func safeRefMatch(ctx *build.Context, name string) (v bool, ok bool) {
	defer func() {
		if r := recover(); r != nil {
			ok = false
		}
	}()
	m, err := ctx.MatchFile("/verif-virtual", name)
	if err != nil {
		return false, false
	}
	return m, true
}

// refShouldBuild asks go/build about a file f.go with the given content.
func refShouldBuild(content []byte, tags map[string]bool) (v bool, ok bool) {
	if bytes.IndexByte(content, 0) >= 0 || bytes.Contains(content, []byte("go:build")) || !isASCII(content) {
		return false, false
	}
	ctx, ok := refContext(tags, content)
	if !ok {
		return false, false
	}
	return safeRefMatch(ctx, "f.go")
}

// refMatchFile asks go/build about the file name alone (content: a bare package clause).
func refMatchFile(name string, tags map[string]bool) (v bool, ok bool) {
	if name == "" || name[0] == '_' || name[0] == '.' || !strings.HasSuffix(name, ".go") ||
		strings.ContainsAny(name, "/\\\x00") || !isASCII([]byte(name)) {
		return false, false // go/build ignores these files for other reasons
	}
	ctx, ok := refContext(tags, []byte("package p\n"))
	if !ok {
		return false, false
	}
	return safeRefMatch(ctx, name)
}

// refLines evaluates the +build lines the specification found in the leading
// block with go/build/constraint (tag function as go/build's matchTag).
func refLines(blines [][]int, tags map[string]bool) (v bool, ok bool) {
	if tags["*"] {
		return false, false
	}
	v = true
	for _, bl := range blines {
		text := strings.TrimSpace(str(bl))
		if !constraint.IsPlusBuild(text) {
			return false, false
		}
		x, err := constraint.Parse(text)
		if err != nil {
			return false, false
		}
		if !x.Eval(func(tag string) bool { return tags[tag] || tag == "linux" && tags["android"] }) {
			v = false
		}
	}
	return v, true
}

func isASCII(b []byte) bool {
	for _, c := range b {
		if c >= 0x80 {
			return false
		}
	}
	return true
}

// ---- bookkeeping ----

type checker struct {
	res     *vutil.Result
	mu      sync.Mutex
	perKind map[string]int
	// hot-path counters (flushed into res at the end)
	nGoBuild, nConstraint, nEval, nNontrivial atomic.Int64
}

func boolStr(b bool) string {
	if b {
		return "true"
	}
	return "false"
}

func (c *checker) count(name string) {
	if name == "gobuild_compared" {
		c.nGoBuild.Add(1)
	} else {
		c.nConstraint.Add(1)
	}
}

func (c *checker) eval(nontrivial bool) {
	c.nEval.Add(1)
	if nontrivial {
		c.nNontrivial.Add(1)
	}
}

func (c *checker) flush() {
	c.res.Count("gobuild_compared", c.nGoBuild.Load())
	c.res.Count("constraint_compared", c.nConstraint.Load())
	c.res.Evaluations += c.nEval.Load()
	c.res.Nontrivial += c.nNontrivial.Load()
}

// denseOf returns the tag set with explicit false entries: the precomputed one
// for a generator's tag sets, a fresh one otherwise.
func denseOf(tags, pre map[string]bool, also []string) map[string]bool {
	if pre != nil {
		return pre
	}
	return dense(tags, also)
}

const maxKept = 40

// violate keeps at most maxKept findings per kind (all are counted).
func (c *checker) violate(f vutil.Finding) {
	c.mu.Lock()
	c.perKind[f.Kind]++
	n := c.perKind[f.Kind]
	c.mu.Unlock()
	if n > maxKept {
		c.res.Count("violations_total", 1)
		c.res.Count("violation:"+f.Kind, 1)
		return
	}
	c.res.Violate(f)
}

func withTag(tags map[string]bool, t string) map[string]bool {
	m := map[string]bool{t: true}
	for k, v := range tags {
		if v {
			m[k] = true
		}
	}
	return m
}

// checkSB judges one ShouldBuild evaluation.  exp == nil: no prediction (random mode).
func (c *checker) checkSB(content []byte, tags, pre map[string]bool, also []string, exp *bool, judged bool, refDefined bool, blines [][]int) (got bool, panicked bool, ref string) {
	ref = "undef"
	// descriptions are built only when something is reported
	input := func() interface{} {
		return map[string]interface{}{"content": string(content), "bytes": vutil.Ints(content), "tags": tagList(tags)}
	}
	cls := func() string { return fmt.Sprintf("ShouldBuild(%q, %v)", content, tagList(tags)) }
	got, p := safeShouldBuild(content, tags)
	if p != nil {
		c.violate(vutil.Finding{Kind: "shouldbuild-panic", Class: cls(), What: cls() + " panics: " + fmt.Sprint(p), Input: input()})
		return false, true, ref
	}
	if g2, p2 := safeShouldBuild(content, denseOf(tags, pre, also)); p2 != nil || g2 != got {
		c.violate(vutil.Finding{Kind: "shouldbuild-false-entry-differs", Class: cls(),
			What:  fmt.Sprintf("%s = %v but %v when the unselected tags are present with value false (panic %v)", cls(), got, g2, p2),
			Input: input()})
	}
	var refv, refok bool
	if refDefined {
		refv, refok = refShouldBuild(content, tags)
		if refok {
			ref = boolStr(refv)
			c.count("gobuild_compared")
		}
		if blines != nil {
			if lv, lok := refLines(blines, tags); lok {
				c.count("constraint_compared")
				if exp != nil && lv != *exp {
					c.res.Count("spec_vs_ref_disagreements", 1)
					c.res.DriftAdd(vutil.Finding{Kind: "spec-vs-go/build/constraint", What: fmt.Sprintf("spec %v, constraint.Eval %v on %s", *exp, lv, cls()), Input: input()})
				}
			} else {
				c.res.Count("spec_vs_ref_disagreements", 1)
				c.res.DriftAdd(vutil.Finding{Kind: "spec-vs-go/build/constraint", What: "a line the specification takes as a +build line is not one for go/build/constraint: " + cls(), Input: input()})
			}
		}
	}
	if exp == nil {
		return got, false, ref
	}
	if refok && refv != *exp {
		// the reference named by the statement disagrees with the specification: a
		// specification problem, never a code verdict
		c.res.Count("spec_vs_ref_disagreements", 1)
		c.res.DriftAdd(vutil.Finding{Kind: "spec-vs-go/build", What: fmt.Sprintf("spec %v, go/build %v on %s", *exp, refv, cls()), Input: input()})
	}
	if got != *exp {
		f := vutil.Finding{Kind: "shouldbuild-differs", Class: cls(),
			What:   fmt.Sprintf("%s = %v, Go's build-constraint rules give %v", cls(), got, *exp),
			Input:  input(),
			Detail: map[string]interface{}{"got": got, "spec": *exp, "go_build": ref}}
		if !judged {
			f.Kind = "star-with-malformed-or-empty-line"
			c.res.DriftAdd(f)
		} else {
			if !got && tags["android"] && !tags["linux"] {
				if g3, _ := safeShouldBuild(content, withTag(tags, "linux")); g3 == *exp {
					f.Class = "android-does-not-satisfy-linux"
				}
			}
			c.violate(f)
		}
	}
	return got, false, ref
}

// checkMF judges one MatchFile evaluation.
func (c *checker) checkMF(name string, tags, pre map[string]bool, also []string, exp *bool) (got bool, panicked bool, ref string) {
	ref = "undef"
	input := func() interface{} { return map[string]interface{}{"name": name, "tags": tagList(tags)} }
	cls := func() string { return fmt.Sprintf("MatchFile(%q, %v)", name, tagList(tags)) }
	got, p := safeMatchFile(name, tags)
	if p != nil {
		c.violate(vutil.Finding{Kind: "matchfile-panic", Class: cls(), What: cls() + " panics: " + fmt.Sprint(p), Input: input()})
		return false, true, ref
	}
	if g2, p2 := safeMatchFile(name, denseOf(tags, pre, also)); p2 != nil || g2 != got {
		c.violate(vutil.Finding{Kind: "matchfile-false-entry-differs", Class: cls(),
			What:  fmt.Sprintf("%s = %v but %v when the unselected tags are present with value false (panic %v)", cls(), got, g2, p2),
			Input: input()})
	}
	refv, refok := refMatchFile(name, tags)
	if refok {
		ref = boolStr(refv)
		c.count("gobuild_compared")
	}
	if exp == nil {
		return got, false, ref
	}
	if refok && refv != *exp {
		c.res.Count("spec_vs_ref_disagreements", 1)
		c.res.DriftAdd(vutil.Finding{Kind: "spec-vs-go/build", What: fmt.Sprintf("spec %v, go/build %v on %s", *exp, refv, cls()), Input: input()})
	}
	if got != *exp {
		f := vutil.Finding{Kind: "matchfile-differs", Class: cls(),
			What:   fmt.Sprintf("%s = %v, the file-name rule gives %v", cls(), got, *exp),
			Input:  input(),
			Detail: map[string]interface{}{"got": got, "spec": *exp, "go_build": ref}}
		if !got && tags["android"] && !tags["linux"] {
			if g3, _ := safeMatchFile(name, withTag(tags, "linux")); g3 == *exp {
				f.Class = "android-does-not-select-linux"
			}
		}
		c.violate(f)
	}
	return got, false, ref
}

// tagSet rebuilds the k-th subset (k = 0..nsets-1) of the universe like SubsetByIndex.
func tagSet(universe []string, k int) map[string]bool {
	m := map[string]bool{}
	for j, t := range universe {
		if k>>uint(j)&1 == 1 {
			m[t] = true
		}
	}
	return m
}

func (c *checker) replayFile(path string) {
	// the header carries the tag universe of this generator
	var universe []string
	nsets := 0
	vutil.ReadNDJSON(path, func(line []byte) {
		if universe != nil || !bytes.Contains(line, []byte(`"kind":"hdr"`)) {
			return
		}
		var h caseJ
		if err := json.Unmarshal(line, &h); err != nil {
			vutil.Fatalf("bad header %s: %v", line, err)
		}
		universe, nsets = strs(h.Universe), h.NSets
	})
	sets := make([]map[string]bool, nsets)
	denseSets := make([]map[string]bool, nsets)
	for k := range sets {
		sets[k] = tagSet(universe, k)
		denseSets[k] = dense(sets[k], universe)
	}
	vutil.ParallelLines(path, func(line []byte) {
		var cs caseJ
		if err := json.Unmarshal(line, &cs); err != nil {
			vutil.Fatalf("bad case %s: %v", line, err)
		}
		switch cs.Kind {
		case "hdr":
		case "known":
			c.knownLists(strs(cs.OS), strs(cs.Arch))
		case "sb":
			if len(cs.Expect) != nsets || nsets == 0 {
				vutil.Fatalf("case with %d predictions for %d tag sets", len(cs.Expect), nsets)
			}
			content := vutil.Bytes(cs.Content)
			for k, tags := range sets {
				exp := cs.Expect[k]
				c.eval(cs.Nlines > 0)
				// go/build is a reference where every term is well formed and there is no "*";
				// it encodes "never satisfied" (a +build line without options) as the tag
				// "ignore", so such a line is outside the reference when ignore is set.
				refDefined := cs.Wf && !tags["*"] && !(cs.Amb && tags["ignore"])
				c.checkSB(content, tags, denseSets[k], universe, &exp, !(tags["*"] && cs.Amb), refDefined, cs.Blines)
			}
			c.res.Count("files", 1)
			if cs.Nlines > 0 && len(content)%7 == 3 {
				c.res.Sample(map[string]interface{}{"content": string(content), "build_lines_in_block": strs(cs.Blines),
					"tag_universe": universe, "accepted_by_tag_sets": countTrue(cs.Expect), "of": nsets}, 6)
			}
		case "mf":
			if len(cs.Expect) != nsets || nsets == 0 {
				vutil.Fatalf("case with %d predictions for %d tag sets", len(cs.Expect), nsets)
			}
			name := str(cs.Name)
			for k, tags := range sets {
				exp := cs.Expect[k]
				c.eval(len(cs.Req) > 0)
				c.checkMF(name, tags, denseSets[k], universe, &exp)
			}
			c.res.Count("names", 1)
			if len(cs.Req) > 1 && len(name)%5 == 2 {
				c.res.Sample(map[string]interface{}{"name": name, "significant_tokens": strs(cs.Req),
					"tag_universe": universe, "accepted_by_tag_sets": countTrue(cs.Expect), "of": nsets}, 10)
			}
		case "mfx":
			name := str(cs.Name)
			for _, x := range cs.Cases {
				tags := map[string]bool{}
				for _, t := range strs(x.Tags) {
					tags[t] = true
				}
				exp := x.Expect
				c.eval(len(cs.Toks) > 0)
				c.checkMF(name, tags, nil, strs(cs.Toks), &exp)
			}
			c.res.Count("names", 1)
		default:
			vutil.Fatalf("unknown case kind %q", cs.Kind)
		}
	})
}

func countTrue(b []bool) int {
	n := 0
	for _, v := range b {
		if v {
			n++
		}
	}
	return n
}

// knownLists compares the token lists of the specification with the exported
// lists of the package and with what go/build treats as known.  Differences are
// drift: the statement says "known OS or architecture" without fixing the list;
// the sweep over the specification's lists (MC_BuildKnown) is what is judged.
func (c *checker) knownLists(specOS, specArch []string) {
	inSpec := map[string]bool{}
	for _, t := range append(append([]string{}, specOS...), specArch...) {
		inSpec[t] = true
	}
	cand := map[string]bool{}
	for t := range inSpec {
		cand[t] = true
	}
	for t := range imports.KnownOS {
		cand[t] = true
	}
	for t := range imports.KnownArch {
		cand[t] = true
	}
	for _, t := range []string{"wasip1", "wasip2", "fuchsia", "haiku", "openharmony", "qnx", "riscv32", "loong32", "ppc64be", "unix", "test", "foo"} {
		cand[t] = true
	}
	var names []string
	for t := range cand {
		names = append(names, t)
	}
	sort.Strings(names)
	for _, t := range names {
		real := imports.KnownOS[t] || imports.KnownArch[t]
		gb, ok := refMatchFile("x_"+t+".go", map[string]bool{})
		gbKnown := ok && !gb
		if real != inSpec[t] {
			c.res.DriftAdd(vutil.Finding{Kind: "known-list-differs-from-spec", What: fmt.Sprintf("token %q: known to the package %v, in the specification's copy of the lists %v", t, real, inSpec[t])})
		}
		if real != gbKnown {
			c.res.Count("known_list_vs_gobuild", 1)
			c.res.DriftAdd(vutil.Finding{Kind: "known-list-differs-from-go/build", What: fmt.Sprintf("token %q: known to the package %v, known to go/build of this toolchain %v", t, real, gbKnown)})
		}
	}
}

func main() {
	mode := flag.String("mode", "replay", "replay | random")
	out := flag.String("out", "result.json", "result file")
	trace := flag.String("trace", "", "ndjson trace to write (random mode)")
	n := flag.Int("n", 2000, "number of random records")
	flag.Parse()
	c := &checker{res: vutil.NewResult(), perKind: map[string]int{}}
	switch *mode {
	case "replay":
		for _, f := range flag.Args() {
			c.replayFile(f)
		}
	case "random":
		c.random(*n, *trace)
	default:
		vutil.Fatalf("unknown mode %s", *mode)
	}
	c.flush()
	c.res.Write(*out)
}
