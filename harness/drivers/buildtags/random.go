package main

import (
	"math/rand"
	"strings"

	"verifharness/vutil"
)

// Seeded random inputs beyond the exhaustive bounds.  Everything is ASCII and
// free of NUL bytes and of "//go:build" lines: the specification models
// bytes.TrimSpace / strings.Fields / unicode.IsLetter on the ASCII subset, and
// the statement is about "// +build" lines only.

var tagVocab = []string{"linux", "android", "windows", "amd64", "arm", "foo", "ignore", "386", "go1.9", "a_b", "darwin", "ios"}

var termShapes = []string{"linux", "!linux", "android", "!android", "windows", "!windows", "amd64", "foo", "!foo", "ignore", "!ignore",
	"386", "go1.9", "!a_b", "darwin", "ios", "!!linux", "!", "", "lin-ux", "!lin-ux", "linux!", "a*b", "*", "!*", "LINUX", "linux2"}

func pick(r *rand.Rand, l []string) string { return l[r.Intn(len(l))] }

func randomExpr(r *rand.Rand) string {
	var opts []string
	for i, n := 0, r.Intn(4); i < n; i++ {
		var terms []string
		for j, m := 0, 1+r.Intn(3); j < m; j++ {
			terms = append(terms, pick(r, termShapes))
		}
		opts = append(opts, strings.Join(terms, ","))
	}
	return strings.Join(opts, pick(r, []string{" ", " ", "  ", "\t", " \t "}))
}

func randomLine(r *rand.Rand) string {
	switch r.Intn(12) {
	case 0, 1:
		return ""
	case 2:
		return pick(r, []string{" ", "\t", " \t\r", "\r", "\v\f"})
	case 3:
		return pick(r, []string{"// c", "//", "// Package p does x.", "//+", "// +", "//+build", "// +build"})
	case 4:
		return pick(r, []string{"package p", "package p // +build foo", "import \"x\"", "/* c */", "/*", "*/", "x", "/ / +build foo", "/+build foo"})
	case 5:
		return pick(r, []string{"// +builder ", "// + build ", "/// +build ", "// x +build ", "// +BUILD ", "//+build\v", "// +build,"}) + randomExpr(r)
	default:
		l := pick(r, []string{"// +build ", "// +build ", "// +build ", "//+build ", "//\t+build\t", "  // +build ", "\t//  +build  ", "// +build\f"}) + randomExpr(r)
		if r.Intn(6) == 0 {
			l += pick(r, []string{" ", "\r", "\t\r", " // c"})
		}
		return l
	}
}

var soup = []string{"//", "// ", " ", "\t", "+build", "+build ", "\n", "\n\n", "\r\n", "linux", "android", "windows", "foo", "ignore",
	"!", ",", "-", "+", "package p\n", "/*", "*/", "x", "// +build ", "//+build ", "\r", "\v", ".", "_", "9", "A"}

func randomContent(r *rand.Rand) []byte {
	var b []byte
	if r.Intn(10) < 7 {
		n := r.Intn(7)
		for i := 0; i < n; i++ {
			b = append(b, randomLine(r)...)
			if i < n-1 || r.Intn(4) != 0 {
				b = append(b, '\n')
			}
		}
	} else {
		for i, n := 0, r.Intn(14); i < n; i++ {
			b = append(b, pick(r, soup)...)
		}
	}
	return b
}

func randomTags(r *rand.Rand, vocab []string) map[string]bool {
	m := map[string]bool{}
	for _, t := range vocab {
		if r.Intn(3) == 0 {
			m[t] = true
		}
	}
	if r.Intn(8) == 0 {
		m["*"] = true
	}
	return m
}

// the specification's copy of the known lists (the sweep MC_BuildKnown judges them)
var knownOS = strings.Fields("aix android darwin dragonfly freebsd hurd illumos ios js linux nacl netbsd openbsd plan9 solaris windows zos")
var knownArch = strings.Fields("386 amd64 amd64p32 arm armbe arm64 arm64be loong64 mips mipsle mips64 mips64le mips64p32 mips64p32le ppc ppc64 ppc64le riscv riscv64 s390 s390x sparc sparc64 wasm")
var otherSeg = []string{"x", "foo", "test", "", "Linux", "linux2", "xlinux", "amd", "64", "go", "unix", "main"}

func randomName(r *rand.Rand) (string, []string) {
	var used []string
	var b strings.Builder
	n := r.Intn(6)
	for i := 0; i < n; i++ {
		var seg string
		switch r.Intn(4) {
		case 0:
			seg = pick(r, knownOS)
		case 1:
			seg = pick(r, knownArch)
		case 2:
			seg = pick(r, []string{"linux", "android", "amd64", "test", "test"})
		default:
			seg = pick(r, otherSeg)
		}
		used = append(used, seg)
		if i > 0 {
			b.WriteString(pick(r, []string{"_", "_", "_", "_", "_", ".", "-", "__"}))
		}
		b.WriteString(seg)
	}
	b.WriteString(pick(r, []string{".go", ".go", ".go", "_test.go", "", ".s", ".x.go", ".go.txt", "_linux.go", ".linux_amd64.go"}))
	return b.String(), used
}

func (c *checker) random(n int, tracePath string) {
	w := vutil.NewNDJSONWriter(tracePath)
	rng := vutil.Rand(19)
	type in struct {
		kind  string
		input []byte
		tags  map[string]bool
		also  []string
	}
	ins := make([]in, n)
	for i := range ins {
		if i%2 == 0 {
			ins[i] = in{"sb", randomContent(rng), randomTags(rng, tagVocab), tagVocab}
		} else {
			name, used := randomName(rng)
			vocab := append([]string{"linux", "android", "amd64"}, used...)
			ins[i] = in{"mf", []byte(name), randomTags(rng, vocab), vocab}
		}
	}
	// records are written in input order so that a record index identifies the input
	recs := make([]map[string]interface{}, n)
	vutil.ParallelN(n, func(i int) {
		x := ins[i]
		var got, panicked bool
		var ref string
		if x.kind == "sb" {
			got, panicked, ref = c.checkSB(x.input, x.tags, nil, x.also, nil, true, !x.tags["*"], nil)
			c.eval(strings.Contains(string(x.input), "+build"))
		} else {
			got, panicked, ref = c.checkMF(string(x.input), x.tags, nil, x.also, nil)
			c.eval(strings.Contains(string(x.input), "_"))
		}
		tl := [][]int{}
		for _, t := range tagList(x.tags) {
			tl = append(tl, vutil.Ints([]byte(t)))
		}
		recs[i] = map[string]interface{}{"kind": x.kind, "input": vutil.Ints(x.input), "tags": tl, "got": got, "panic": panicked, "ref": ref}
		if i < 6 {
			c.res.Sample(map[string]interface{}{"random_" + x.kind: string(x.input), "tags": tagList(x.tags), "real": got, "go_build": ref}, 12)
		}
	})
	for _, r := range recs {
		w.Write(r)
	}
	w.Close()
}
