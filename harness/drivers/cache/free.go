//go:build verif

package main

import (
	"encoding/json"
	"fmt"
	"math/rand"
	"os"
	"os/exec"
	"path/filepath"
	"strings"
	"sync"
	"syscall"
	"time"

	"verifharness/vutil"

	"github.com/rogpeppe/go-internal/cache"
	"github.com/rogpeppe/go-internal/verifshim/vos"
)

// ---- free mode: several processes, each with several goroutines, one directory ----
//
// Every worker appends its events to one O_APPEND log with a single write per
// event: "ret" is logged after the call returned and "call" before it is made,
// so the order of the log can only under-approximate overlap - a Put whose ret
// precedes a lookup's call in the log really completed before that lookup began.

func appendEvent(f *os.File, e Event) {
	b, _ := json.Marshal(e)
	b = append(b, '\n')
	f.Write(b)
}

func freeWorker(dir, logPath string, gor, iters, id int) {
	vos.SetInterceptor(nil)
	c, err := cache.Open(dir)
	if err != nil {
		vutil.Fatalf("worker open: %v", err)
	}
	lf, err := os.OpenFile(logPath, os.O_WRONLY|os.O_APPEND, 0)
	if err != nil {
		vutil.Fatalf("worker log: %v", err)
	}
	defer lf.Close()
	var wg sync.WaitGroup
	for g := 0; g < gor; g++ {
		wg.Add(1)
		go func(g int) {
			defer wg.Done()
			name := fmt.Sprintf("p%dg%d", id, g)
			rng := rand.New(rand.NewSource(vutil.Seed()*7919 + int64(id*100+g)))
			r := &runner{dir: dir, nops: map[string]int{}}
			for i := 0; i < iters; i++ {
				var o Op
				switch k := rng.Intn(10); {
				case k < 3:
					o = Op{Op: "put", ID: "i1", C: "c2", Rd: "same"} // i1 always carries the same content
				case k < 5:
					o = Op{Op: "put", ID: "i2", C: []string{"c1", "c2", "c3", "c0"}[rng.Intn(4)], Rd: "same"}
				case k < 8:
					o = Op{Op: "getbytes", ID: idNames[rng.Intn(2)]}
				default:
					o = Op{Op: "getfile", ID: idNames[rng.Intn(2)]}
				}
				appendEvent(lf, Event{Ev: "call", A: name, Op: o.Op, ID: o.ID, C: o.C, Rd: o.Rd})
				var res string
				if o.Op == "put" {
					res = r.put(c, o)
				} else {
					var l1 []string
					res, l1 = r.lookup(c, o.Op, o.ID)
					for _, l := range l1 {
						appendEvent(lf, Event{Ev: "l1", A: name, Res: l})
					}
				}
				appendEvent(lf, Event{Ev: "ret", A: name, Op: o.Op, ID: o.ID, Res: res})
			}
		}(g)
	}
	wg.Wait()
}

func readLog(path string) (evs []Event, l1 []string) {
	vutil.ReadNDJSON(path, func(line []byte) {
		var e Event
		if err := json.Unmarshal(line, &e); err != nil {
			vutil.Fatalf("bad log line %q: %v", line, err)
		}
		if e.Ev == "l1" {
			l1 = append(l1, e.Res)
			return
		}
		evs = append(evs, e)
	})
	return
}

func freeRun(procs, gor, iters int, n int64) *RunRec {
	dir := filepath.Join(tmpRoot, fmt.Sprintf("free%d", n))
	if err := os.MkdirAll(dir, 0o777); err != nil {
		vutil.Fatalf("%v", err)
	}
	defer os.RemoveAll(dir)
	logPath := filepath.Join(tmpRoot, fmt.Sprintf("free%d.log", n))
	os.WriteFile(logPath, nil, 0o666)
	defer os.Remove(logPath)
	c, err := cache.Open(dir)
	if err != nil {
		vutil.Fatalf("%v", err)
	}
	theCache = c
	self, _ := os.Executable()
	var cmds []*exec.Cmd
	end := "done"
	for p := 0; p < procs; p++ {
		cmd := exec.Command(self, "-mode", "freeworker", "-dir", dir, "-log", logPath, "-gor", fmt.Sprint(gor), "-iters", fmt.Sprint(iters),
			"-worker", fmt.Sprint(p+int(n)*procs))
		cmd.Stderr = os.Stderr
		if err := cmd.Start(); err != nil {
			vutil.Fatalf("start worker: %v", err)
		}
		cmds = append(cmds, cmd)
	}
	for _, cmd := range cmds {
		if err := cmd.Wait(); err != nil {
			end = "panic"
		}
	}
	evs, l1 := readLog(logPath)
	fresh, l1b := freshLookups(dir)
	theCache = nil
	return &RunRec{Family: "free", Mode: "free", Start: "empty", Prog: Prog{"w1": {}, "w2": {}, "r1": {}}, Inject: Inject{Kind: "none"},
		Events: evs, End: end, Fresh: fresh, Base: map[string]string{"i1.getbytes": "miss", "i1.getfile": "miss", "i2.getbytes": "miss", "i2.getfile": "miss"},
		Count: 1, L1: append(append([]string{}, l1...), l1b...)}
}

// ---- real SIGKILL of a writing process ----

func killWorker(dir string, id int) {
	vos.SetInterceptor(nil)
	c, err := cache.Open(dir)
	if err != nil {
		vutil.Fatalf("worker open: %v", err)
	}
	r := &runner{dir: dir, nops: map[string]int{}}
	fmt.Println("ready")
	for i := 0; ; i++ {
		// alternate between the contents so that files are rewritten again and again
		r.put(c, Op{Op: "put", ID: "i1", C: []string{"c2", "c3"}[i%2], Rd: "same"})
		os.Remove(dataPath(dir, []string{"c2", "c3"}[i%2])) // as Trim would: forces a real rewrite next time
		r.put(c, Op{Op: "put", ID: "i2", C: "c1", Rd: "same"})
	}
}

func killRun(n int64) *RunRec {
	dir := filepath.Join(tmpRoot, fmt.Sprintf("kill%d", n))
	if err := os.MkdirAll(dir, 0o777); err != nil {
		vutil.Fatalf("%v", err)
	}
	defer os.RemoveAll(dir)
	c, err := cache.Open(dir)
	if err != nil {
		vutil.Fatalf("%v", err)
	}
	theCache = c
	self, _ := os.Executable()
	cmd := exec.Command(self, "-mode", "killworker", "-dir", dir, "-worker", fmt.Sprint(n))
	out, _ := cmd.StdoutPipe()
	if err := cmd.Start(); err != nil {
		vutil.Fatalf("start worker: %v", err)
	}
	buf := make([]byte, 16)
	out.Read(buf) // "ready"
	rng := vutil.Rand(1000 + n)
	time.Sleep(time.Duration(50+rng.Intn(3000)) * time.Microsecond)
	cmd.Process.Signal(syscall.SIGKILL)
	cmd.Wait()
	fresh, l1 := freshLookups(dir)
	theCache = nil
	evs := []Event{
		{Ev: "call", A: "w1", Op: "put", ID: "i1", C: "c2", Rd: "same"}, {Ev: "call", A: "w1", Op: "put", ID: "i1", C: "c3", Rd: "same"},
		{Ev: "call", A: "w1", Op: "put", ID: "i2", C: "c1", Rd: "same"}, {Ev: "crash", A: "w1"},
	}
	return &RunRec{Family: "free", Mode: "sigkill", Start: "empty", Prog: Prog{"w1": {}, "w2": {}, "r1": {}}, Inject: Inject{Actor: "w1", Kind: "crash"},
		Events: evs, End: "done", Fresh: fresh, Base: map[string]string{"i1.getbytes": "miss", "i1.getfile": "miss", "i2.getbytes": "miss", "i2.getfile": "miss"},
		Count: 1, L1: append([]string{}, l1...), Detail: strings.TrimSpace(string(buf))}
}
