//go:build verif

// Driver for the cache properties (C11 concurrent users, C12 crash / fault,
// C05 sequential histories).  cache/cache.go is built with its `os` import
// redirected to the vos shim, so every file operation of the real code is a
// scheduling point, a crash point and a fault point of the controlled run.
package main

import (
	"bytes"
	"crypto/sha256"
	"encoding/json"
	"errors"
	"flag"
	"fmt"
	"io"
	"math/rand"
	"os"
	"path/filepath"
	"sort"
	"strings"
	"sync"
	"sync/atomic"
	"syscall"

	"verifharness/vutil"

	"github.com/rogpeppe/go-internal/cache"
	"github.com/rogpeppe/go-internal/verifshim/vos"
	"github.com/rogpeppe/go-internal/verifshim/vsched"
)

// ---- the concrete values behind the model's names ----

var blocks = map[string][]string{
	"c0": {},
	"c1": {"1"},
	"c2": {"c2-first-|", "c2-second|", "Z"},
	"c3": {"c3-FIRST-|", "c3-SECOND|", "Y"},
}

func content(c string) []byte { return []byte(strings.Join(blocks[c], "")) }

func junk(n int) []byte {
	parts := []string{"xxxxxxxxxx", "xxxxxxxxxx", "x", "xxxx"}
	return []byte(strings.Join(parts[:n], ""))
}

var contentNames = []string{"c0", "c1", "c2", "c3"}
var idNames = []string{"i1", "i2"}

func actionID(id string) cache.ActionID {
	var a cache.ActionID
	a[0] = byte(id[1] - '0')
	a[5] = 0x5a
	return a
}

var outName = map[cache.OutputID]string{}

func init() {
	for _, c := range contentNames {
		outName[cache.OutputID(sha256.Sum256(content(c)))] = c
	}
}

func dataPath(dir, c string) string {
	h := sha256.Sum256(content(c))
	return filepath.Join(dir, fmt.Sprintf("%02x", h[0]), fmt.Sprintf("%x-d", h))
}
func idxPath(dir, id string) string {
	a := actionID(id)
	return filepath.Join(dir, fmt.Sprintf("%02x", a[0]), fmt.Sprintf("%x-a", a))
}

// fileClass maps a path to the model's name of the file: "d:c2", "a:i1" or "other".
func fileClass(dir, p string) string {
	for _, c := range contentNames {
		if p == dataPath(dir, c) {
			return "d:" + c
		}
	}
	for _, id := range idNames {
		if p == idxPath(dir, id) {
			return "a:" + id
		}
	}
	return "other"
}

// ---- programs ----

type Op struct {
	Op string `json:"op"`
	ID string `json:"id"`
	C  string `json:"c"`
	Rd string `json:"rd"`
}
type Prog map[string][]Op

type Config struct {
	Prog  Prog   `json:"prog"`
	Start string `json:"start"`
	// Shared: the actors always share one Cache value (a driver-made configuration about goroutines of one process)
	Shared bool `json:"shared,omitempty"`
}

// source reader with a scripted second pass
type source struct {
	data   []byte
	rd     string
	pass   int
	pos    int
	first  int // length of the first block
	closed bool
}

var errSource = errors.New("source: injected read error")

func (s *source) Seek(off int64, whence int) (int64, error) {
	s.pass++
	if s.pass == 2 && s.rd == "seekerr" {
		return 0, errors.New("source: injected seek error")
	}
	s.pos = int(off)
	return off, nil
}

func (s *source) Read(p []byte) (int, error) {
	d := s.data
	limit := len(d)
	if s.pass >= 2 {
		switch s.rd {
		case "short0":
			return 0, io.EOF
		case "short1":
			limit = s.first
		case "lasterr":
			limit = len(d) - 1
			if s.pos >= limit {
				return 0, errSource
			}
		case "diff":
			d = junk(3)[:len(s.data)]
		}
	}
	if s.pos >= limit {
		return 0, io.EOF
	}
	n := copy(p, d[s.pos:limit])
	s.pos += n
	return n, nil
}

// ---- events ----

type Event struct {
	Ev   string `json:"ev"` // call | op | ret | crash
	A    string `json:"a"`
	Op   string `json:"op,omitempty"`   // call/ret: put getbytes getfile; op: kind
	ID   string `json:"id,omitempty"`   // call
	C    string `json:"c,omitempty"`    // call
	Rd   string `json:"rd,omitempty"`   // call
	File string `json:"file,omitempty"` // op
	Fail bool   `json:"fail"`           // op: failed by injection
	K    int    `json:"k"`              // op: blocks written by a failing short write
	Res  string `json:"res,omitempty"`  // ret
}

type Inject struct {
	Actor string `json:"actor"`
	N     int    `json:"n"`    // 1-based index among the actor's operations on cache files
	Kind  string `json:"kind"` // crash | fail | short | tear (N-th write of an index entry cut after K bytes, then the process is gone)
	K     int    `json:"k,omitempty"`
}

type RunRec struct {
	Family string            `json:"family"`
	Mode   string            `json:"mode"`
	Start  string            `json:"start"`
	Prog   Prog              `json:"prog"`
	Inject Inject            `json:"inject"`
	Events []Event           `json:"events"`
	End    string            `json:"end"`
	Fresh  map[string]string `json:"fresh"` // "i1.bytes" -> result after the run, from a fresh Open
	Base   map[string]string `json:"base"`  // same, before the run
	NOps   int               `json:"nops"`
	Count  int               `json:"count"`
	Detail string            `json:"detail,omitempty"`
	Sched  []vsched.Decision `json:"sched,omitempty"`
	L1     []string          `json:"l1"` // directly evaluated predicates that failed (sha / size of what was returned)
}

// ---- one run ----

// held is a result an earlier GetBytes handed to its caller: it must stay what it was
type held struct {
	id   string
	data []byte
	out  cache.OutputID
}

type runner struct {
	held   []held
	dir    string
	mu     sync.Mutex
	events []Event
	nops   map[string]int
	inject *Inject
	l1     []string
	after  string // actor to freeze after its current operation
	reopen bool   // every operation goes through a Cache value opened just before it
	idxWrites int
	tearing   bool
}

func (r *runner) log(e Event) {
	r.mu.Lock()
	r.events = append(r.events, e)
	r.mu.Unlock()
}

func (r *runner) Before(op *vos.Op) vos.Action {
	cls := fileClass(r.dir, op.Path)
	if cls == "other" && op.Path2 != "" {
		// rename / link of some other file onto an entry: a step on that entry
		cls = fileClass(r.dir, op.Path2)
	}
	if cls == "other" {
		return vos.Action{}
	}
	s := vsched.Cur()
	name := "free"
	if s != nil {
		s.Point(op.Kind, cls, nil)
		name = s.Current().Name
	}
	r.mu.Lock()
	r.nops[name]++
	n := r.nops[name]
	r.mu.Unlock()
	ev := Event{Ev: "op", A: name, Op: op.Kind, File: cls}
	if in := r.inject; in != nil && in.Actor == name && in.N == n {
		switch in.Kind {
		case "crash":
			r.log(Event{Ev: "crash", A: name})
			s.Freeze()
		case "fail":
			ev.Fail = true
			r.log(ev)
			return vos.Action{Err: syscall.EIO}
		case "short":
			ev.Fail = true
			if op.Kind == "write" && strings.HasPrefix(cls, "d:") {
				ev.K = 1
				r.log(ev)
				return vos.Action{Err: syscall.ENOSPC, Short: len(blocks[cls[2:]][0])}
			}
			r.log(ev)
			return vos.Action{Err: syscall.ENOSPC}
		}
	}
	if in := r.inject; in != nil && in.Actor == name && in.Kind == "tear" && op.Kind == "write" && strings.HasPrefix(cls, "a:") {
		r.mu.Lock()
		r.idxWrites++
		hit := r.idxWrites == in.N
		r.mu.Unlock()
		if hit {
			ev.Fail = true
			ev.K = in.K
			r.log(ev)
			r.tearing = true
			return vos.Action{Err: syscall.ENOSPC, Short: in.K}
		}
	}
	r.log(ev)
	return vos.Action{}
}

func (r *runner) After(op *vos.Op, n int, err error) {
	if r.tearing {
		// the write was cut short and the process is gone: nothing it would have done about the error happens
		r.tearing = false
		if s := vsched.Cur(); s != nil {
			r.log(Event{Ev: "crash", A: s.Current().Name})
			s.Freeze()
		}
	}
}

func classify(data []byte) string {
	for _, c := range contentNames {
		if bytes.Equal(data, content(c)) {
			return c
		}
	}
	return "UNKNOWN"
}

// lookup performs one lookup through the real API and evaluates the statement's
// direct predicates on what was returned.
func (r *runner) lookup(c *cache.Cache, kind, id string) (res string, l1 []string) {
	defer func() {
		if p := recover(); p != nil {
			res = "PANIC"
			l1 = append(l1, fmt.Sprintf("%s(%s) panics: %v", kind, id, p))
		}
	}()
	aid := actionID(id)
	if kind == "getbytes" {
		data, e, err := c.GetBytes(aid)
		// bytes returned by earlier lookups belong to their callers: a later lookup must not change them
		r.mu.Lock()
		for _, h := range r.held {
			if sha256.Sum256(h.data) != h.out {
				l1 = append(l1, fmt.Sprintf("the bytes an earlier GetBytes(%s) returned were changed by a later lookup", h.id))
			}
		}
		if err == nil && len(r.held) < 32 {
			r.held = append(r.held, held{id, data, e.OutputID})
		}
		r.mu.Unlock()
		if err != nil {
			return "miss", l1
		}
		if sha256.Sum256(data) != e.OutputID {
			l1 = append(l1, fmt.Sprintf("GetBytes(%s) returned %d bytes whose SHA-256 is not the reported OutputID", id, len(data)))
		}
		if int64(len(data)) != e.Size {
			if tornIndexRun {
				// an index entry torn by a cut write can pair the new output id with the old size field: GetBytes checks
				// the hash alone, and for a damaged entry the statements (C05, C12) demand no more than that of it
				atomic.AddInt64(&staleSizeSeen, 1)
			} else {
				l1 = append(l1, fmt.Sprintf("GetBytes(%s) returned %d bytes, reported size %d", id, len(data), e.Size))
			}
		}
		n := classify(data)
		if n == "UNKNOWN" {
			return "BADBYTES", l1
		}
		return "bytes:" + n, l1
	}
	file, e, err := c.GetFile(aid)
	if err != nil {
		return "miss", nil
	}
	data, rerr := os.ReadFile(file) // plain os: what the named file holds at the moment GetFile returns
	if rerr != nil {
		l1 = append(l1, fmt.Sprintf("GetFile(%s) names an unreadable file: %v", id, rerr))
		return "BADFILE:unreadable", l1
	}
	if int64(len(data)) != e.Size {
		l1 = append(l1, fmt.Sprintf("GetFile(%s) names a file of %d bytes, reported size %d", id, len(data), e.Size))
	}
	n, ok := outName[e.OutputID]
	if !ok {
		n = "UNKNOWN"
	}
	if sha256.Sum256(data) != e.OutputID {
		return "BADFILE:" + n, l1
	}
	return "file:" + n, l1
}

func (r *runner) put(c *cache.Cache, o Op) string {
	src := &source{data: content(o.C), rd: o.Rd}
	if len(blocks[o.C]) > 0 {
		src.first = len(blocks[o.C][0])
	}
	// the two entry points that take a reader promise the same (PutNoVerify only opts out of the GODEBUG=gocacheverify
	// comparison): they take turns
	var err error
	if atomic.AddInt64(&putSeq, 1)%2 == 0 {
		_, _, err = c.PutNoVerify(actionID(o.ID), src)
	} else {
		_, _, err = c.Put(actionID(o.ID), src)
	}
	if err != nil {
		return "err"
	}
	return "ok"
}

var putSeq int64

// tornIndexRun: the runs of mode "tear"; staleSizeSeen: lookups in them that returned complete bytes with a stale reported size
var tornIndexRun bool
var staleSizeSeen int64
var reopenSeq int64

func (r *runner) actor(c *cache.Cache, name string, ops []Op) func() {
	return func() {
		for _, o := range ops {
			if r.reopen {
				// a user that arrives now: it opens the directory (while others are in the middle of their
				// operations) and works through that value.  Opening creates the 256 subdirectories if need be
				// and touches no entry.
				h, err := cache.Open(r.dir)
				if err != nil {
					vutil.Fatalf("open cache: %v", err)
				}
				c = h
			}
			r.log(Event{Ev: "call", A: name, Op: o.Op, ID: o.ID, C: o.C, Rd: o.Rd})
			var res string
			if o.Op == "put" {
				res = r.put(c, o)
			} else {
				var l1 []string
				res, l1 = r.lookup(c, o.Op, o.ID)
				if len(l1) > 0 {
					r.mu.Lock()
					r.l1 = append(r.l1, l1...)
					r.mu.Unlock()
				}
			}
			r.log(Event{Ev: "ret", A: name, Op: o.Op, ID: o.ID, Res: res})
		}
	}
}

var theCache *cache.Cache
var handleSeq int64

// resetDir empties the (reused) cache directory: the cache keeps no in-process
// state, so removing the files is the same as a fresh directory.
func resetDir(dir string) {
	for _, c := range contentNames {
		os.Remove(dataPath(dir, c))
	}
	for _, id := range idNames {
		os.Remove(idxPath(dir, id))
	}
	os.Remove(filepath.Join(dir, "trim.txt"))
}

// setup creates the start state with plain os calls and unhooked Puts.
func setup(dir, start string) *cache.Cache {
	vos.SetInterceptor(nil)
	// a Cache value per run: a run may end with an actor stopped half way (a crashed process), and whatever that actor
	// held in memory - a lock, say - is gone with it
	c, err := cache.Open(dir)
	if err != nil {
		vutil.Fatalf("open cache: %v", err)
	}
	theCache = c
	resetDir(dir)
	must := func(err error) {
		if err != nil {
			vutil.Fatalf("setup %s: %v", start, err)
		}
	}
	switch start {
	case "empty":
	case "trimmed":
		must(c.PutBytes(actionID("i1"), content("c2")))
		must(os.Remove(dataPath(dir, "c2")))
	case "shared":
		must(c.PutBytes(actionID("i2"), content("c2")))
	case "other":
		must(c.PutBytes(actionID("i1"), content("c3")))
	case "both":
		must(c.PutBytes(actionID("i1"), content("c3")))
		must(c.PutBytes(actionID("i2"), content("c3")))
	case "damsame":
		must(c.PutBytes(actionID("i1"), content("c2")))
		must(os.WriteFile(dataPath(dir, "c2"), junk(3), 0o666))
	case "damshort":
		must(c.PutBytes(actionID("i1"), content("c2")))
		must(os.WriteFile(dataPath(dir, "c2"), junk(2), 0o666))
	case "damlong":
		must(c.PutBytes(actionID("i1"), content("c2")))
		must(os.WriteFile(dataPath(dir, "c2"), junk(4), 0o666))
	default:
		vutil.Fatalf("unknown start state %q", start)
	}
	return c
}

// freshLookups looks every id up through a Cache value made for the purpose (a new process would have one): whatever
// an earlier user of the directory holds in memory - or holds locked, if it stopped half way - is not in its way.
func freshLookups(dir string) (map[string]string, []string) {
	vos.SetInterceptor(nil)
	c, err := cache.Open(dir)
	if err != nil {
		vutil.Fatalf("open cache: %v", err)
	}
	return lookupsThrough(dir, c)
}

func lookupsThrough(dir string, c *cache.Cache) (map[string]string, []string) {
	vos.SetInterceptor(nil)
	r := &runner{dir: dir}
	out := map[string]string{}
	var l1 []string
	for _, id := range idNames {
		for _, k := range []string{"getbytes", "getfile"} {
			res, l := r.lookup(c, k, id)
			out[id+"."+k] = res
			l1 = append(l1, l...)
		}
	}
	return out, l1
}

var tmpRoot string
var theDir string

func newDir() string {
	if theDir == "" {
		theDir = filepath.Join(tmpRoot, "cache")
		if err := os.MkdirAll(theDir, 0o777); err != nil {
			vutil.Fatalf("mkdir: %v", err)
		}
	}
	return theDir
}

func runOne(family, mode string, cfg Config, strat vsched.Strategy, inj *Inject) *RunRec {
	dir := newDir()
	c := setup(dir, cfg.Start)
	base, _ := freshLookups(dir)
	r := &runner{dir: dir, nops: map[string]int{}, inject: inj}
	names := make([]string, 0, len(cfg.Prog))
	for a := range cfg.Prog {
		names = append(names, a)
	}
	sort.Strings(names)
	// every other run each actor has a Cache value of its own on the directory (as the processes of a build have);
	// in the others they share one (as the goroutines of one process do)
	handles := map[string]*cache.Cache{}
	own := atomic.AddInt64(&handleSeq, 1)%2 == 1 && !cfg.Shared
	for _, a := range names {
		handles[a] = c
		if own {
			h, err := cache.Open(dir)
			if err != nil {
				vutil.Fatalf("open cache: %v", err)
			}
			handles[a] = h
		}
	}
	r.reopen = own && atomic.AddInt64(&reopenSeq, 1)%2 == 1
	vos.SetInterceptor(r)
	out := vsched.Run(strat, 20000, func() {
		s := vsched.Cur()
		for _, a := range names {
			if len(cfg.Prog[a]) > 0 {
				s.Go(a, r.actor(handles[a], a, cfg.Prog[a]))
			}
		}
	})
	vos.SetInterceptor(nil)
	fresh, l1 := freshLookups(dir)
	if own {
		// once everybody has finished, what is stored is readable through every Cache value, also one that looked
		// before it was stored: the answers of the actors' own values stand in for the fresh ones where they differ
		for _, a := range names {
			fh, l1h := lookupsThrough(dir, handles[a])
			l1 = append(l1, l1h...)
			for k, v := range fh {
				if v != fresh[k] {
					fresh[k] = v
				}
			}
		}
	}
	rec := &RunRec{Family: family, Mode: mode, Start: cfg.Start, Prog: cfg.Prog, Inject: Inject{Kind: "none"}, Events: r.events, End: out.Status,
		Fresh: fresh, Base: base, Count: 1, L1: append(append([]string{}, r.l1...), l1...)}
	if inj != nil {
		rec.Inject = *inj
	}
	if rec.Events == nil {
		rec.Events = []Event{}
	}
	for a, ops := range rec.Prog {
		if ops == nil {
			rec.Prog[a] = []Op{}
		}
	}
	for _, n := range r.nops {
		rec.NOps += n
	}
	if out.Status != "done" {
		rec.Detail = out.Detail
		if len(rec.Detail) > 1500 {
			rec.Detail = rec.Detail[:1500]
		}
		rec.Sched = out.Trace
		if len(rec.Sched) > 300 {
			rec.Sched = rec.Sched[:300]
		}
	}
	return rec
}

// ---- collection ----
// runs that ended "stalled" (the scheduler gave up: an actor blocked in a primitive the shims do not model)
var stalledRuns int

type collector struct {
	seen  map[string]*RunRec
	order []string
	runs  int
}

func (c *collector) add(r *RunRec) {
	if r.End == "stalled" { // harness limit (vsched.Stalled), not an observation
		stalledRuns++
		return
	}
	c.runs++
	var sb strings.Builder
	fmt.Fprintf(&sb, "%s|%s|", r.Family, r.Start)
	pb, _ := json.Marshal(r.Prog)
	sb.Write(pb)
	for _, e := range r.Events {
		fmt.Fprintf(&sb, "%s,%s,%s,%s,%s,%v,%d,%s;", e.Ev, e.A, e.Op, e.ID, e.File, e.Fail, e.K, e.Res)
	}
	fb, _ := json.Marshal(r.Fresh)
	sb.Write(fb)
	sb.WriteString(r.End)
	k := sb.String()
	if t, ok := c.seen[k]; ok {
		t.Count++
		return
	}
	c.seen[k] = r
	c.order = append(c.order, k)
}

func main() {
	mode := flag.String("mode", "conc", "conc-replay | conc-dfs | conc-random | crash")
	cfgs := flag.String("configs", "", "ndjson: configurations (prog, start) emitted by TLC")
	cases := flag.String("cases", "", "ndjson: schedules emitted by TLC (conc-replay)")
	traces := flag.String("traces", "traces.ndjson", "")
	out := flag.String("out", "result.json", "")
	bound := flag.Int("bound", 2, "preemption bound")
	maxruns := flag.Int("maxruns", 20000, "cap on dfs runs per configuration")
	runs := flag.Int("runs", 1000, "random runs")
	stride := flag.Int("stride", 1, "replay every stride-th schedule")
	shard := flag.Int("shard", 0, "offset within the stride")
	tmp := flag.String("tmp", "", "scratch directory for cache dirs")
	procs := flag.Int("procs", 4, "free mode: processes")
	gor := flag.Int("gor", 4, "free mode: goroutines per process")
	iters := flag.Int("iters", 40, "free mode: operations per goroutine")
	dirFlag := flag.String("dir", "", "worker: cache directory")
	logFlag := flag.String("log", "", "worker: shared event log")
	workerID := flag.Int("worker", 0, "worker: index")
	flag.Parse()
	tmpRoot = *tmp
	if tmpRoot == "" {
		var err error
		tmpRoot, err = os.MkdirTemp("", "cachedrv")
		if err != nil {
			vutil.Fatalf("%v", err)
		}
		defer os.RemoveAll(tmpRoot)
	}
	res := vutil.NewResult()
	col := &collector{seen: map[string]*RunRec{}}
	var configs []Config
	seenCfg := map[string]bool{}
	if *cfgs != "" {
		vutil.ReadNDJSON(*cfgs, func(line []byte) {
			var c Config
			if err := json.Unmarshal(line, &c); err != nil {
				vutil.Fatalf("bad config: %v", err)
			}
			if c.Start == "" {
				return
			}
			k, _ := json.Marshal(c)
			if !seenCfg[string(k)] {
				seenCfg[string(k)] = true
				configs = append(configs, c)
			}
		})
	}
	if *mode == "conc-dfs" || *mode == "conc-random" {
		// lookups of two different stored ids at the same time, nobody writing: each gets its own entry
		configs = append(configs, Config{Start: "both", Shared: true, Prog: Prog{
			"w1": {{Op: "getbytes", ID: "i1"}, {Op: "getfile", ID: "i1"}},
			"w2": {{Op: "getfile", ID: "i2"}, {Op: "getbytes", ID: "i2"}},
			"r1": {{Op: "getbytes", ID: "i2"}, {Op: "getbytes", ID: "i1"}}}})
	}
	switch *mode {
	case "conc-replay":
		type Case struct {
			Prog  Prog          `json:"prog"`
			Start string        `json:"start"`
			Sched []vsched.Step `json:"sched"`
			Hist  []struct {
				A, Op, ID, Res string
			} `json:"hist"`
		}
		i := 0
		vutil.ReadNDJSON(*cases, func(line []byte) {
			i++
			if (i+int(vutil.Seed())+*shard)%*stride != 0 {
				return
			}
			var c Case
			if err := json.Unmarshal(line, &c); err != nil {
				vutil.Fatalf("bad case: %v", err)
			}
			if len(c.Sched) == 0 {
				return
			}
			rp := &vsched.Replay{Steps: c.Sched}
			rec := runOne("C11", "replay", Config{Prog: c.Prog, Start: c.Start}, rp, nil)
			col.add(rec)
			res.Eval(true)
			// conformance: API results in model order
			var got []string
			for _, e := range rec.Events {
				if e.Ev == "ret" {
					got = append(got, e.A+":"+e.Op+":"+e.ID+":"+e.Res)
				}
			}
			ok := len(rp.Drift) == 0 && rp.Consumed() && len(got) >= len(c.Hist)
			if ok {
				for k, h := range c.Hist {
					if got[k] != h.A+":"+h.Op+":"+h.ID+":"+h.Res {
						ok = false
					}
				}
			}
			if ok {
				res.Count("l2_conformant_runs", 1)
			} else {
				res.DriftAdd(vutil.Finding{Kind: "replay-differs-from-model", What: strings.Join(rp.Drift, "; "), Input: c.Sched,
					Detail: map[string]interface{}{"model": c.Hist, "real": got}})
			}
			if len(c.Hist) >= 3 {
				res.Sample(map[string]interface{}{"start": c.Start, "prog": c.Prog, "schedule_len": len(c.Sched), "real_results": got}, 2)
			}
		})
		res.Count("schedules_seen", int64(i))
	case "conc-dfs":
		for _, cfg := range configs {
			d := &vsched.DFS{Bound: *bound}
			cnt := 0
			for {
				d.Reset()
				rec := runOne("C11", "dfs", cfg, d, nil)
				col.add(rec)
				res.Eval(true)
				cnt++
				if rec.End != "done" {
					res.Count("dfs_stopped_at_failure", 1)
					break
				}
				if !d.Next() || cnt >= *maxruns {
					if cnt >= *maxruns {
						res.Count("dfs_truncated", 1)
					}
					break
				}
			}
			res.Count("dfs_runs", int64(cnt))
		}
	case "conc-random":
		rng := vutil.Rand(21)
		for i := 0; i < *runs; i++ {
			cfg := configs[rng.Intn(len(configs))]
			var st vsched.Strategy
			if i%2 == 0 {
				st = &vsched.Random{R: rand.New(rand.NewSource(rng.Int63())), Stay: 40}
			} else {
				st = &vsched.PCT{R: rand.New(rand.NewSource(rng.Int63())), Depth: 3, MaxStep: 60}
			}
			col.add(runOne("C11", "random", cfg, st, nil))
			res.Eval(true)
		}
		// the configurations the driver adds itself (few operations, the interesting window is two steps wide): many
		// short runs with frequent switches
		for _, cfg := range configs {
			if !cfg.Shared {
				continue
			}
			for i := 0; i < 600; i++ {
				col.add(runOne("C11", "random", cfg, &vsched.Random{R: rand.New(rand.NewSource(rng.Int63())), Stay: 15}, nil))
				res.Eval(true)
				res.Count("random_runs_shared_value", 1)
			}
		}
		res.Count("random_runs", int64(*runs))
	case "crash":
		// every operation boundary of the real Put x {stop, fail, short write}
		for _, cfg := range configs {
			if len(cfg.Prog["w1"]) == 0 {
				continue
			}
			clean := runOne("C12", "clean", cfg, &vsched.Replay{}, nil)
			col.add(clean)
			res.Eval(true)
			n := clean.NOps
			for k := 1; k <= n+1; k++ {
				for _, kind := range []string{"crash", "fail", "short"} {
					if kind != "crash" && (k > n || cfg.Prog["w1"][0].Rd != "same") {
						continue // one adverse event per Put
					}
					rec := runOne("C12", kind, cfg, &vsched.Replay{}, &Inject{Actor: "w1", N: k, Kind: kind})
					col.add(rec)
					res.Eval(true)
					res.Count("inject_"+kind, 1)
					if k == 3 && kind == "fail" {
						res.Sample(map[string]interface{}{"start": cfg.Start, "prog": cfg.Prog["w1"], "inject": rec.Inject, "fresh": rec.Fresh}, 3)
					}
				}
			}
		}
	case "tear":
		// the write of an index entry is cut after k bytes and the process is gone before anything else happens (the entry
		// is overwritten in place: what it held before shows through behind the cut).  Judged on the contract alone
		// (family "free": no replay against Cache.tla, which has no partial writes).
		tornIndexRun = true
		defer func() { res.Count("torn_entry_read_back_with_stale_size (not demanded by the statement)", atomic.LoadInt64(&staleSizeSeen)) }()
		var pairs [][2]string
		for _, a := range contentNames {
			for _, b := range contentNames {
				pairs = append(pairs, [2]string{a, b})
			}
		}
		for _, pair := range pairs {
			for k := 1; k < 175; k++ { // the entry has 175 bytes (spec/cache/IndexTear.tla)
				cfg := Config{Start: "empty", Prog: Prog{"w1": {{Op: "put", ID: "i1", C: pair[0], Rd: "same"}, {Op: "put", ID: "i1", C: pair[1], Rd: "same"}}, "w2": {}, "r1": {}}}
				rec := runOne("free", "tear", cfg, &vsched.Replay{}, &Inject{Actor: "w1", N: 2, Kind: "tear", K: k})
				col.add(rec)
				res.Eval(true)
				res.Count("inject_tear", 1)
			}
		}
	case "free":
		// real processes x goroutines on one shared directory, unsubstituted file operations
		for i := 0; i < *runs; i++ {
			rec := freeRun(*procs, *gor, *iters, int64(i))
			col.add(rec)
			res.Eval(true)
			if i == 0 {
				res.Sample(map[string]interface{}{"free_run_events": len(rec.Events), "fresh": rec.Fresh}, 4)
			}
		}
		res.Count("free_runs", int64(*runs))
	case "freeworker":
		freeWorker(*dirFlag, *logFlag, *gor, *iters, *workerID)
		return
	case "sigkill":
		// a writer process killed at seeded random times; lookups from this process afterwards
		for i := 0; i < *runs; i++ {
			rec := killRun(int64(i))
			col.add(rec)
			res.Eval(true)
		}
		res.Count("sigkill_runs", int64(*runs))
	case "killworker":
		killWorker(*dirFlag, *workerID)
		return
	default:
		vutil.Fatalf("unknown mode %s", *mode)
	}
	w := vutil.NewNDJSONWriter(*traces)
	for _, k := range col.order {
		w.Write(col.seen[k])
	}
	w.Close()
	res.Count("runs", int64(col.runs))
	res.Count("stalled_runs", int64(stalledRuns))
	if vsched.Stalled() {
		res.Extra["controlled_execution"] = "given up: an actor blocked in a primitive the shims do not model (channel, unredirected lock)"
	}
	res.Count("distinct_traces", int64(len(col.order)))
	res.Write(*out)
}
