// Driver for C05 (the cache returns exactly what was stored, or not-found).
//
//	-mode hist     replays the test cases TLC emits from spec/cacheseq/MC_CacheSeq (one per
//	               state-changing transition of the state graph of CacheSeq.tla): a history of
//	               Put / PutBytes calls of the REAL, unmodified cache package interleaved with
//	               damage done with plain os calls; the last action is the judged one, followed
//	               by every lookup (Get / GetBytes / GetFile of every id, OutputFile of every
//	               output id: the self-loops of the reached state); seeded lookups in between.
//	-mode entries  replays the near-valid index entries TLC emits from MC_IndexEntry: the bytes
//	               are written as the index file of the action id and Get / GetBytes / GetFile
//	               are called.
//	-mode fuzz     seeded random byte strings as index files; what the real Get returns is
//	               recorded as ndjson for TLC to validate (Trace_IndexEntry).
//
// Verdict scope (DESIGN section 3, C05).  A violation is only what the statement fixes:
//   - a panic of any call;
//   - GetBytes ok with SHA-256(bytes) != reported OutputID; GetFile ok naming a file whose
//     length != reported size (evaluated directly on everything every call returns);
//   - an id under promise (Put(id, data) returned nil, nothing overwrote or damaged the entry
//     since) whose GetBytes / GetFile do not give exactly data;
//   - an id never stored, in a history without damage, that does not miss;
//   - a Put that does not leave the output file holding exactly the content (repair).
//
// Everything else the model predicts (which class of miss, what Get reports for a forged
// entry, the directory afterwards, error texts, OutputFile's path) is compared for
// conformance only and recorded as drift.
package main

import (
	"bytes"
	"crypto/sha256"
	"encoding/hex"
	"encoding/json"
	"flag"
	"fmt"
	"io"
	"math/rand"
	"os"
	"path/filepath"
	"regexp"
	"runtime"
	"runtime/debug"
	"strconv"
	"strings"
	"sync"
	"sync/atomic"
	"time"

	"verifharness/vutil"

	"github.com/rogpeppe/go-internal/cache"
)

var res = vutil.NewResult()

// ---- naming (independent of the code under test) -----------------------------------------

func actionID(name string) cache.ActionID {
	return cache.ActionID(sha256.Sum256([]byte("verif action " + name)))
}

var ghostOut = cache.OutputID(sha256.Sum256([]byte("verif ghost output id: the hash of nothing that is ever stored")))

func idxPath(dir string, id cache.ActionID) string {
	h := hex.EncodeToString(id[:])
	return filepath.Join(dir, h[:2], h+"-a")
}

func dataPath(dir string, out cache.OutputID) string {
	h := hex.EncodeToString(out[:])
	return filepath.Join(dir, h[:2], h+"-d")
}

// ---- calling the real code under recover ---------------------------------------------------

type callRes struct {
	panicked string // non-empty: the call panicked
	err      error
	entry    cache.Entry
	data     []byte // GetBytes
	file     string // GetFile / OutputFile
	out      cache.OutputID
	size     int64
}

func guard(r *callRes, fn func()) {
	defer func() {
		if p := recover(); p != nil {
			r.panicked = fmt.Sprintf("%v\n%s", p, firstLines(string(debug.Stack()), 14))
		}
	}()
	fn()
}

func firstLines(s string, n int) string {
	l := strings.SplitN(s, "\n", n+1)
	if len(l) > n {
		l = l[:n]
	}
	return strings.Join(l, "\n")
}

func doGet(c *cache.Cache, id cache.ActionID) (r callRes) {
	guard(&r, func() { r.entry, r.err = c.Get(id) })
	return
}
func doGetBytes(c *cache.Cache, id cache.ActionID) (r callRes) {
	guard(&r, func() { r.data, r.entry, r.err = c.GetBytes(id) })
	return
}
func doGetFile(c *cache.Cache, id cache.ActionID) (r callRes) {
	guard(&r, func() { r.file, r.entry, r.err = c.GetFile(id) })
	return
}
func doOutputFile(c *cache.Cache, out cache.OutputID) (r callRes) {
	guard(&r, func() { r.file = c.OutputFile(out) })
	return
}

var putSeq int64

func doPut(c *cache.Cache, id cache.ActionID, data []byte, via string) (r callRes) {
	guard(&r, func() {
		if via == "putbytes" {
			r.err = c.PutBytes(id, data)
			r.out, r.size = sha256.Sum256(data), int64(len(data))
		} else {
			// the entry points that take a reader promise the same and take turns; every third reader has been read
			// before (to its end, or half way): what is stored is the content of the file, not what is left of it
			rd := bytes.NewReader(data)
			switch k := atomic.AddInt64(&putSeq, 1); k % 6 {
			case 2:
				rd.Seek(0, io.SeekEnd)
			case 5:
				rd.Seek(int64(len(data)/2), io.SeekStart)
			}
			if atomic.LoadInt64(&putSeq)%2 == 0 {
				r.out, r.size, r.err = c.PutNoVerify(id, rd)
			} else {
				r.out, r.size, r.err = c.Put(id, rd)
			}
		}
	})
	return
}

// ---- the predicates of the statement, evaluated on whatever a lookup returned ---------------

type ctxInfo struct {
	mode  string
	input interface{} // the history / entry bytes so far
	class string
}

func violate(kind, what string, ci ctxInfo, detail interface{}) {
	res.Violate(vutil.Finding{Kind: kind, What: what, Input: ci.input, Detail: detail, Class: ci.class})
}

func drift(kind, what string, ci ctxInfo, detail interface{}) {
	res.Count("drift:"+kind, 1)
	res.DriftAdd(vutil.Finding{Kind: kind, What: what, Input: ci.input, Detail: detail, Class: ci.class})
}

const notFoundText = "cache entry not found"

// soundBytes: no panic; ok => SHA-256(bytes) = reported OutputID.  Returns hit.
func soundBytes(r callRes, ci ctxInfo) bool {
	if r.panicked != "" {
		violate("panic", "GetBytes panicked", ci, r.panicked)
		return false
	}
	if r.err != nil {
		if !strings.Contains(r.err.Error(), notFoundText) {
			drift("error-text", "GetBytes failed with an error that does not say not-found: "+r.err.Error(), ci, nil)
		}
		return false
	}
	res.Count("getbytes_hits_checked", 1)
	if sum := sha256.Sum256(r.data); sum != [32]byte(r.entry.OutputID) {
		violate("getbytes-wrong-hash", fmt.Sprintf("GetBytes returned %q (SHA-256 %x) but reports OutputID %x", clip(r.data), sum[:6], r.entry.OutputID[:6]),
			ci, map[string]interface{}{"bytes": string(clip(r.data)), "sha256": hex.EncodeToString(sum[:]), "reported": hex.EncodeToString(r.entry.OutputID[:])})
	}
	return true
}

// soundFile: no panic; ok => the named file exists and its length is the reported size.
func soundFile(r callRes, ci ctxInfo) bool {
	if r.panicked != "" {
		violate("panic", "GetFile panicked", ci, r.panicked)
		return false
	}
	if r.err != nil {
		if !strings.Contains(r.err.Error(), notFoundText) {
			drift("error-text", "GetFile failed with an error that does not say not-found: "+r.err.Error(), ci, nil)
		}
		return false
	}
	res.Count("getfile_hits_checked", 1)
	info, err := os.Stat(r.file)
	if err != nil {
		violate("getfile-wrong-size", fmt.Sprintf("GetFile returned %s which cannot be read: %v", filepath.Base(r.file), err), ci, nil)
	} else if info.Size() != r.entry.Size {
		violate("getfile-wrong-size", fmt.Sprintf("GetFile names a file of %d bytes but reports size %d", info.Size(), r.entry.Size), ci,
			map[string]interface{}{"file_size": info.Size(), "reported": r.entry.Size})
	}
	return true
}

func soundGet(r callRes, ci ctxInfo) bool {
	if r.panicked != "" {
		violate("panic", "Get panicked", ci, r.panicked)
		return false
	}
	return r.err == nil
}

func clip(b []byte) []byte {
	if len(b) > 64 {
		return b[:64]
	}
	return b
}

// ---- workers: one cache directory each, reset by removing the known files -------------------

type worker struct {
	n     int
	dir   string
	c     *cache.Cache
	known map[string]bool // files this worker may have created
}

func newWorker(work string, n int) *worker {
	dir := filepath.Join(work, fmt.Sprintf("w%02d", n))
	if err := os.MkdirAll(dir, 0o777); err != nil {
		vutil.Fatalf("mkdir: %v", err)
	}
	c, err := cache.Open(dir)
	if err != nil {
		vutil.Fatalf("cache.Open: %v", err)
	}
	return &worker{n: n, dir: dir, c: c, known: map[string]bool{}}
}

func (w *worker) reset() {
	for p := range w.known {
		if err := os.Remove(p); err != nil && !os.IsNotExist(err) {
			vutil.Fatalf("reset: %v", err)
		}
	}
}

func (w *worker) idx(id cache.ActionID) string {
	p := idxPath(w.dir, id)
	w.known[p] = true
	return p
}

func (w *worker) data(out cache.OutputID) string {
	p := dataPath(w.dir, out)
	w.known[p] = true
	return p
}

type caseLine struct {
	n    int
	line []byte
}

// forEachCase runs fn on every case with a pool of workers (one cache directory each); the cases
// are streamed from feed, which numbers them in file order.
func forEachCase(work string, feed func(emit func(line []byte)), fn func(w *worker, n int, line []byte)) {
	nw := runtime.NumCPU()
	if nw > 16 {
		nw = 16
	}
	ch := make(chan caseLine, 8*nw)
	var wg sync.WaitGroup
	for k := 0; k < nw; k++ {
		wg.Add(1)
		go func(k int) {
			defer wg.Done()
			var w *worker
			for cl := range ch {
				if w == nil {
					w = newWorker(work, k)
				}
				fn(w, cl.n, cl.line)
			}
		}(k)
	}
	n := 0
	feed(func(line []byte) {
		ch <- caseLine{n, line}
		n++
	})
	close(ch)
	wg.Wait()
}

// =========================================================================================
// mode hist

type histConfig struct {
	Str    map[string]string `json:"str"`
	Ghost  string            `json:"ghost"`
	Ids    []string          `json:"ids"`
	MaxPut int               `json:"maxput"`
	MaxDam int               `json:"maxdam"`
}

type histCase struct {
	Config *histConfig `json:"config"`
	P      []string    `json:"p"`
	E      struct {
		Res    string `json:"res"`
		Law    string `json:"law"`
		Repair bool   `json:"repair"`
	} `json:"e"`
	ND   int                 `json:"nd"`
	Idx  map[string]string   `json:"idx"`
	Data map[string]string   `json:"data"`
	Look map[string][]string `json:"look"`
}

type step struct {
	op, id, c string
	n         int
	s         string
}

func parseStep(s string) step {
	f := strings.Split(s, " ")
	if len(f) != 5 {
		vutil.Fatalf("bad step %q", s)
	}
	n, err := strconv.Atoi(f[3])
	if err != nil {
		vutil.Fatalf("bad step %q", s)
	}
	return step{f[0], f[1], f[2], n, f[4]}
}

// expected result "miss" | "hit <out> <size> <bytes>"
type expRes struct {
	hit   bool
	out   string
	size  int64
	bytes string
}

func parseRes(s string) expRes {
	if s == "miss" || s == "-" {
		return expRes{}
	}
	f := strings.SplitN(s, " ", 4)
	if len(f) != 4 || f[0] != "hit" {
		vutil.Fatalf("bad result %q", s)
	}
	n, _ := strconv.ParseInt(f[2], 10, 64)
	return expRes{true, f[1], n, f[3]}
}

type histRun struct {
	cfg *histConfig
	w   *worker
	cs  *histCase
	ci  ctxInfo
}

func (h *histRun) outID(name string) cache.OutputID {
	if name == h.cfg.Ghost {
		return ghostOut
	}
	s, ok := h.cfg.Str[name]
	if !ok {
		vutil.Fatalf("unknown content %q", name)
	}
	return sha256.Sum256([]byte(s))
}

var flipAt = map[string]int64{"hdr": 0, "id": 3 + 5, "out": 68 + 9, "size": 152, "time": 173, "nl": 174}

var entryRe = regexp.MustCompile(`^v1 ([0-9a-f]{64}) ([0-9a-f]{64}) ([ 0-9]{20}) ([ 0-9]{20})\n$`)
var numRe = regexp.MustCompile(`^ *[0-9]+$`)

// projection of an index file, by plain os: none | junk <len> | wf <len> <eid> <out> <size>
func (h *histRun) projIdx(id cache.ActionID) string {
	b, err := os.ReadFile(idxPath(h.w.dir, id))
	if err != nil {
		return "none"
	}
	if len(b) >= 175 {
		if m := entryRe.FindSubmatch(b[:175]); m != nil && numRe.Match(m[3]) && numRe.Match(m[4]) {
			eid, out := "?", "?"
			for _, n := range h.cfg.Ids {
				a := actionID(n)
				if hex.EncodeToString(a[:]) == string(m[1]) {
					eid = n
				}
			}
			for n := range h.cfg.Str {
				o := h.outID(n)
				if hex.EncodeToString(o[:]) == string(m[2]) {
					out = n
				}
			}
			if hex.EncodeToString(ghostOut[:]) == string(m[2]) {
				out = h.cfg.Ghost
			}
			size := strings.TrimLeft(string(m[3]), " ")
			if sz, err := strconv.ParseInt(size, 10, 64); err == nil {
				return fmt.Sprintf("wf %d %s %s %d", len(b), eid, out, sz)
			}
		}
	}
	return fmt.Sprintf("junk %d", len(b))
}

func (h *histRun) projData(name string) string {
	b, err := os.ReadFile(dataPath(h.w.dir, h.outID(name)))
	if err != nil {
		return "-"
	}
	return "=" + string(b)
}

// lookups of one id with the predicates of the statement; exp (may be nil) = [get, bytes, file, law]
func (h *histRun) lookups(idName string, exp []string, which string) {
	id := actionID(idName)
	law := "none"
	if exp != nil {
		law = exp[3]
	}
	ci := h.ci
	check := func(op string, hit bool, got func(e expRes) string, e expRes, strictOp bool) {
		// got returns "" when the real result equals the expectation e
		d := ""
		if hit != e.hit {
			d = fmt.Sprintf("%s(%s): real %s, model %s", op, idName, hitMiss(hit), hitMiss(e.hit))
		} else if hit {
			d = got(e)
		}
		if d == "" {
			return
		}
		if strictOp && law == "stored-comes-back" {
			violate("stored-not-returned", "after Put returned nil and nothing touched the entry since, "+d, ci, nil)
		} else if strictOp && law == "never-stored-misses" {
			violate("never-stored-returned", "history without damage, id never stored, "+d, ci, nil)
		} else {
			drift("lookup-class", d, ci, nil)
		}
	}
	if which == "" || which == "get" {
		r := doGet(h.w.c, id)
		hit := soundGet(r, ci)
		if exp != nil {
			check("Get", hit, func(e expRes) string {
				if r.entry.OutputID != h.outID(e.out) || r.entry.Size != e.size {
					return fmt.Sprintf("Get(%s) reports (%x, %d), model (%s, %d)", idName, r.entry.OutputID[:4], r.entry.Size, e.out, e.size)
				}
				return ""
			}, parseRes(exp[0]), false)
		}
	}
	if which == "" || which == "getbytes" {
		r := doGetBytes(h.w.c, id)
		hit := soundBytes(r, ci)
		if exp != nil {
			check("GetBytes", hit, func(e expRes) string {
				if string(r.data) != e.bytes {
					return fmt.Sprintf("GetBytes(%s) returned %q, stored/model %q", idName, clip(r.data), e.bytes)
				}
				return ""
			}, parseRes(exp[1]), true)
		}
	}
	if which == "" || which == "getfile" {
		r := doGetFile(h.w.c, id)
		hit := soundFile(r, ci)
		if exp != nil {
			check("GetFile", hit, func(e expRes) string {
				b, err := os.ReadFile(r.file)
				if err != nil || string(b) != e.bytes {
					return fmt.Sprintf("GetFile(%s) names a file holding %q (%v), stored/model %q", idName, clip(b), err, e.bytes)
				}
				if r.file != dataPath(h.w.dir, h.outID(e.out)) {
					drift("file-name", "GetFile names "+r.file, ci, nil)
				}
				return ""
			}, parseRes(exp[2]), true)
		}
	}
}

func hitMiss(b bool) string {
	if b {
		return "hit"
	}
	return "miss"
}

// returns false when the case cannot be continued
func (h *histRun) exec(st step, last bool) bool {
	ci := h.ci
	w := h.w
	switch st.op {
	case "put", "putbytes":
		id := actionID(st.id)
		content := []byte(h.cfg.Str[st.c])
		out := h.outID(st.c)
		w.idx(id)
		w.data(out)
		r := doPut(w.c, id, content, st.op)
		if r.panicked != "" {
			violate("panic", "Put panicked", ci, r.panicked)
			return false
		}
		if r.err != nil {
			if last && h.cs.E.Repair {
				violate("put-does-not-repair", fmt.Sprintf("Put of content %q over its damaged output failed: %v", content, r.err), ci, nil)
			} else {
				drift("put-error", "Put failed: "+r.err.Error(), ci, nil)
			}
			return false
		}
		if r.out != out || r.size != int64(len(content)) {
			drift("put-result", fmt.Sprintf("Put reports (%x, %d) for %q", r.out[:4], r.size, content), ci, nil)
		}
		if last {
			// Put returned nil: the output file holds exactly the content (repair), and
			// sentence one applies to this id from now on (checked by the lookups that follow)
			b, err := os.ReadFile(dataPath(w.dir, out))
			if err != nil || !bytes.Equal(b, content) {
				kind, what := "stored-not-returned", "after Put returned nil the output file does not hold the content"
				if h.cs.E.Repair {
					kind, what = "put-does-not-repair", "Put of the same content over a damaged output returned nil but did not repair it"
				}
				violate(kind, fmt.Sprintf("%s: file holds %q (%v), content %q", what, clip(b), err, content), ci, nil)
			}
			if h.cs.E.Repair {
				res.Count("repairs_checked", 1)
			}
		}
	case "get", "getbytes", "getfile":
		if last {
			var exp []string
			e := h.cs.E.Res
			exp = []string{e, e, e, h.cs.E.Law}
			h.lookups(st.id, exp, st.op)
		} else {
			h.lookups(st.id, nil, st.op)
		}
	case "outputfile":
		out := h.outID(st.c)
		r := doOutputFile(w.c, out)
		if r.panicked != "" {
			violate("panic", "OutputFile panicked", ci, r.panicked)
			return false
		}
		if r.file != dataPath(w.dir, out) {
			drift("file-name", "OutputFile returns "+r.file, ci, nil)
		}
	case "itrunc":
		return h.damage(os.Truncate(w.idx(actionID(st.id)), int64(st.n)))
	case "iextend":
		return h.damage(appendBytes(w.idx(actionID(st.id)), bytes.Repeat([]byte("X"), st.n)))
	case "iflip":
		return h.damage(writeAt(w.idx(actionID(st.id)), flipAt[st.s], 175))
	case "idelete":
		return h.damage(os.Remove(w.idx(actionID(st.id))))
	case "icopy":
		b, err := os.ReadFile(idxPath(w.dir, actionID(st.s)))
		if err != nil {
			return h.damage(err)
		}
		return h.damage(os.WriteFile(w.idx(actionID(st.id)), b, 0o666))
	case "iforge":
		id := actionID(st.id)
		e := fmt.Sprintf("v1 %x %x %20d %20d\n", id, h.outID(st.c), st.n, time.Now().UnixNano())
		return h.damage(os.WriteFile(w.idx(id), []byte(e), 0o666))
	case "dtrunc":
		return h.damage(os.Truncate(w.data(h.outID(st.c)), int64(st.n)))
	case "dextend":
		return h.damage(appendBytes(w.data(h.outID(st.c)), []byte("X")))
	case "dflip":
		return h.damage(writeAt(w.data(h.outID(st.c)), int64(st.n-1), int64(st.n)))
	case "ddelete":
		return h.damage(os.Remove(w.data(h.outID(st.c))))
	case "dreplace":
		return h.damage(os.WriteFile(w.data(h.outID(st.c)), []byte(h.cfg.Str[st.s]), 0o666))
	default:
		vutil.Fatalf("unknown op %q", st.op)
	}
	return true
}

func (h *histRun) damage(err error) bool {
	if err != nil {
		// the file the model damages is not there / not as long: the real directory left the model earlier
		drift("damage-not-applicable", err.Error(), h.ci, nil)
		return false
	}
	return true
}

func appendBytes(path string, b []byte) error {
	f, err := os.OpenFile(path, os.O_WRONLY|os.O_APPEND, 0)
	if err != nil {
		return err
	}
	defer f.Close()
	_, err = f.Write(b)
	return err
}

// overwrite the byte at off with 'Z'; the file must have at least minLen bytes
func writeAt(path string, off, minLen int64) error {
	f, err := os.OpenFile(path, os.O_WRONLY, 0)
	if err != nil {
		return err
	}
	defer f.Close()
	info, err := f.Stat()
	if err != nil {
		return err
	}
	if info.Size() < minLen {
		return fmt.Errorf("%s has %d bytes, the model has at least %d", filepath.Base(path), info.Size(), minLen)
	}
	_, err = f.WriteAt([]byte("Z"), off)
	return err
}

func runHist(casesPath, work, outPath string) {
	var cfg *histConfig
	seed := vutil.Seed()
	feed := func(emit func([]byte)) {
		// the configuration is the first line TLC prints (it is emitted by Init)
		vutil.ReadNDJSON(casesPath, func(l []byte) {
			if bytes.HasPrefix(l, []byte(`{"config"`)) {
				var c histCase
				if err := json.Unmarshal(l, &c); err != nil || c.Config == nil {
					vutil.Fatalf("bad config line: %v", err)
				}
				seen := map[string]bool{}
				for n, s := range c.Config.Str {
					if seen[s] || strings.ContainsAny(s, "XZ ") {
						vutil.Fatalf("content %s=%q is not usable", n, s)
					}
					seen[s] = true
				}
				cfg = c.Config
				return
			}
			if cfg == nil {
				vutil.Fatalf("%s does not start with the config line", casesPath)
			}
			emit(l)
		})
	}
	forEachCase(work, feed, func(w *worker, n int, line []byte) {
		var cs histCase
		if err := json.Unmarshal(line, &cs); err != nil {
			vutil.Fatalf("bad case %d: %v", n, err)
		}
		res.Count("cases", 1)
		rng := rand.New(rand.NewSource(seed*1000003 + int64(n)))
		h := &histRun{cfg: cfg, w: w, cs: &cs}
		w.reset()
		steps := make([]step, len(cs.P))
		for k, s := range cs.P {
			steps[k] = parseStep(s)
		}
		if len(steps) > 0 {
			res.Count("last:"+steps[len(steps)-1].op, 1)
		} else {
			res.Count("last:(initial state)", 1)
		}
		nontrivial := cs.ND > 0 || len(steps) > 1
		complete := true
		var probes []string
		for k, st := range steps {
			last := k == len(steps)-1
			h.ci = ctxInfo{mode: "hist", class: strings.Join(append(append([]string{}, cs.P[:k+1]...), probes...), "; "),
				input: map[string]interface{}{"history": cs.P[:k+1], "probes_before": probes, "contents": cfg.Str}}
			if !h.exec(st, last) {
				complete = false
				break
			}
			if !last && rng.Intn(2) == 0 {
				// seeded probe between two steps of the representative path: lookups interleave with
				// stores and damage; only the predicates of the statement are evaluated
				idn := cfg.Ids[rng.Intn(len(cfg.Ids))]
				probes = append(probes, fmt.Sprintf("probe %s after step %d", idn, k+1))
				h.ci.class += "; " + probes[len(probes)-1]
				h.lookups(idn, nil, "")
				res.Count("probes", 1)
			}
		}
		if complete {
			// every lookup of every id in the reached state, then the directory itself
			for _, idn := range cfg.Ids {
				exp := cs.Look[idn]
				if len(exp) != 4 {
					vutil.Fatalf("case %d: bad look table", n)
				}
				h.ci.class = strings.Join(cs.P, "; ") + "; then lookups of " + idn
				h.ci.input = map[string]interface{}{"history": cs.P, "probes_before": probes, "then": "Get/GetBytes/GetFile " + idn, "contents": cfg.Str,
					"model": map[string]string{"get": exp[0], "getbytes": exp[1], "getfile": exp[2], "law": exp[3]}}
				h.lookups(idn, exp, "")
				res.Count("law:"+exp[3], 1)
			}
			// OutputFile of every output id the model knows: total, and names the content-addressed file
			h.ci.class = strings.Join(cs.P, "; ") + "; then OutputFile"
			h.ci.input = map[string]interface{}{"history": cs.P, "probes_before": probes, "then": "OutputFile of every output id", "contents": cfg.Str}
			for cn := range cfg.Str {
				h.exec(step{op: "outputfile", c: cn}, false)
			}
			h.exec(step{op: "outputfile", c: cfg.Ghost}, false)
			for idn, want := range cs.Idx {
				if got := h.projIdx(actionID(idn)); got != want {
					drift("dir-differs", fmt.Sprintf("index file of %s: real %q, model %q", idn, got, want), h.ci, nil)
				}
			}
			for cn, want := range cs.Data {
				if got := h.projData(cn); got != want {
					drift("dir-differs", fmt.Sprintf("output file of %s: real %q, model %q", cn, got, want), h.ci, nil)
				}
			}
			res.Count("completed", 1)
		}
		res.Eval(nontrivial)
		if n%9973 == 0 {
			res.Sample(map[string]interface{}{"history": cs.P, "model_after": map[string]interface{}{"idx": cs.Idx, "data": cs.Data, "look": cs.Look}}, 8)
		}
	})
	res.Write(outPath)
}

// =========================================================================================
// mode entries

type entryCase struct {
	Config *struct {
		ID      []int `json:"id"`
		Out     []int `json:"out"`
		Content []int `json:"content"`
		Canon   []int `json:"canon"`
		Total   int   `json:"total"`
	} `json:"config"`
	M       int    `json:"m"`
	Kind    string `json:"kind"`
	E       []int  `json:"e"`
	Acc     bool   `json:"acc"`
	Why     string `json:"why"`
	Out     []int  `json:"out"`
	Size    []int  `json:"size"`
	Bytes   bool   `json:"bytes"`
	File    bool   `json:"file"`
	Changed bool   `json:"changed"`
}

func nibbles(b []byte) []int {
	r := make([]int, 0, 2*len(b))
	for _, x := range b {
		r = append(r, int(x>>4), int(x&15))
	}
	return r
}

func digits(n int64) []int {
	s := strconv.FormatInt(n, 10)
	r := make([]int, len(s))
	for i := range s {
		r[i] = int(s[i] - '0')
	}
	return r
}

func eqInts(a, b []int) bool {
	if len(a) != len(b) {
		return false
	}
	for i := range a {
		if a[i] != b[i] {
			return false
		}
	}
	return true
}

var fixtureContent = []byte("abc")

// the directory of the entry cases: the output file of "abc" in place, written by the real Put
// under id i2 (whose index file is then removed), nothing else
func (w *worker) entryFixture() {
	w.reset()
	r := doPut(w.c, actionID("i2"), fixtureContent, "put")
	if r.panicked != "" || r.err != nil {
		vutil.Fatalf("fixture Put failed: %v %s", r.err, r.panicked)
	}
	w.data(sha256.Sum256(fixtureContent))
	os.Remove(w.idx(actionID("i2")))
}

func runEntries(casesPath, work, outPath string) {
	var lines [][]byte
	haveCfg := false
	var canon []byte
	vutil.ReadNDJSON(casesPath, func(l []byte) {
		if bytes.HasPrefix(l, []byte(`{"config"`)) {
			var c entryCase
			if err := json.Unmarshal(l, &c); err != nil || c.Config == nil {
				vutil.Fatalf("bad config line: %v", err)
			}
			id := actionID("i1")
			out := sha256.Sum256(fixtureContent)
			if !eqInts(c.Config.ID, nibbles(id[:])) || !eqInts(c.Config.Out, nibbles(out[:])) || !bytes.Equal(vutil.Bytes(c.Config.Content), fixtureContent) {
				vutil.Fatalf("fixtures of MC_IndexEntry and of the driver differ")
			}
			canon = vutil.Bytes(c.Config.Canon)
			haveCfg = true
			return
		}
		lines = append(lines, l)
	})
	if !haveCfg {
		vutil.Fatalf("no config line in %s", casesPath)
	}
	// what the real Put writes must be the canonical entry of the specification (up to the time stamp);
	// otherwise the enumerated neighbourhood is the neighbourhood of nothing: reported as drift
	{
		w := newWorker(work, 99)
		id := actionID("i1")
		ci := ctxInfo{mode: "entries", class: "Put(i1, abc)", input: "Put(i1, \"abc\") on an empty cache"}
		r := doPut(w.c, id, fixtureContent, "put")
		w.idx(id)
		w.data(sha256.Sum256(fixtureContent))
		if r.panicked != "" {
			violate("panic", "Put panicked", ci, r.panicked)
		} else if r.err != nil {
			drift("put-error", r.err.Error(), ci, nil)
		} else {
			b, _ := os.ReadFile(idxPath(w.dir, id))
			if len(b) != len(canon) || !bytes.Equal(b[:154], canon[:154]) || b[174] != canon[174] || !numRe.Match(b[154:174]) {
				drift("entry-format", fmt.Sprintf("Put writes the index entry %q, the specification's canonical entry is %q", b, canon), ci, nil)
			}
			// undamaged: sentence one
			rb := doGetBytes(w.c, id)
			if !soundBytes(rb, ci) || !bytes.Equal(rb.data, fixtureContent) {
				violate("stored-not-returned", fmt.Sprintf("Put(i1, abc) then GetBytes(i1) = %q, %v", rb.data, rb.err), ci, nil)
			}
			rf := doGetFile(w.c, id)
			if fb, _ := os.ReadFile(rf.file); !soundFile(rf, ci) || !bytes.Equal(fb, fixtureContent) {
				violate("stored-not-returned", fmt.Sprintf("Put(i1, abc) then GetFile(i1) = %q, %v", rf.file, rf.err), ci, nil)
			}
		}
		w.reset()
	}
	var fixed sync.Map
	feed := func(emit func([]byte)) {
		for _, l := range lines {
			emit(l)
		}
	}
	forEachCase(work, feed, func(w *worker, n int, line []byte) {
		var cs entryCase
		if err := json.Unmarshal(line, &cs); err != nil {
			vutil.Fatalf("bad case %d: %v", n, err)
		}
		if _, ok := fixed.LoadOrStore(w.n, true); !ok {
			w.entryFixture()
		}
		res.Count("cases", 1)
		res.Count("kind:"+cs.Kind, 1)
		id := actionID("i1")
		e := vutil.Bytes(cs.E)
		ci := ctxInfo{mode: "entries", class: fmt.Sprintf("%q", e),
			input: map[string]interface{}{"index_file_of_i1": string(e), "bytes": cs.E, "case": cs.M, "kind": cs.Kind,
				"directory": "output file of \"abc\" intact, nothing else"}}
		if err := os.WriteFile(w.idx(id), e, 0o666); err != nil {
			vutil.Fatalf("write entry: %v", err)
		}
		rg := doGet(w.c, id)
		acc := soundGet(rg, ci)
		rb := doGetBytes(w.c, id)
		bhit := soundBytes(rb, ci)
		rf := doGetFile(w.c, id)
		fhit := soundFile(rf, ci)
		// conformance with the grammar of IndexEntry.tla: drift only (the statement fixes none of it)
		if acc != cs.Acc {
			drift("entry-accept", fmt.Sprintf("Get: real %s (%v), grammar %s (%s)", hitMiss(acc), rg.err, hitMiss(cs.Acc), cs.Why), ci, nil)
		} else if acc {
			if !eqInts(nibbles(rg.entry.OutputID[:]), cs.Out) || !eqInts(digits(rg.entry.Size), cs.Size) {
				drift("entry-value", fmt.Sprintf("Get reports (%x, %d), grammar (%v, %v)", rg.entry.OutputID, rg.entry.Size, cs.Out, cs.Size), ci, nil)
			}
		} else if rg.err != nil && !strings.Contains(rg.err.Error(), cs.Why) {
			drift("entry-reason", fmt.Sprintf("Get: %v, grammar: %s", rg.err, cs.Why), ci, nil)
		}
		if bhit != cs.Bytes {
			drift("entry-getbytes", fmt.Sprintf("GetBytes: real %s, model %s", hitMiss(bhit), hitMiss(cs.Bytes)), ci, nil)
		}
		if fhit != cs.File {
			drift("entry-getfile", fmt.Sprintf("GetFile: real %s, model %s", hitMiss(fhit), hitMiss(cs.File)), ci, nil)
		}
		if acc {
			res.Count("accepted", 1)
		}
		res.Eval(cs.Changed)
		if n%997 == 0 {
			res.Sample(map[string]interface{}{"index_file": string(e), "kind": cs.Kind, "real_accepts": acc, "grammar": cs.Why}, 8)
		}
	})
	res.Write(outPath)
}

// =========================================================================================
// mode fuzz

type fuzzRec struct {
	ID    int   `json:"id"`
	E     []int `json:"e"`
	Acc   bool  `json:"acc"`
	Out   []int `json:"out"`
	Size  []int `json:"size"`
	Panic bool  `json:"panic"`
}

func runFuzz(n int, work, tracePath, outPath string) {
	recs := make([]fuzzRec, n)
	seed := vutil.Seed()
	var fixed sync.Map
	feed := func(emit func([]byte)) {
		for k := 0; k < n; k++ {
			emit(nil)
		}
	}
	forEachCase(work, feed, func(w *worker, k int, _ []byte) {
		if _, ok := fixed.LoadOrStore(w.n, true); !ok {
			w.entryFixture()
		}
		rng := rand.New(rand.NewSource(seed*7919 + int64(k)*104729 + 17))
		idn := 1 + rng.Intn(2)
		id := actionID(fmt.Sprintf("i%d", idn))
		e := randomEntry(rng, idn)
		ci := ctxInfo{mode: "fuzz", class: fmt.Sprintf("i%d %q", idn, e),
			input: map[string]interface{}{"index_file": string(e), "bytes": vutil.Ints(e), "id": fmt.Sprintf("i%d", idn)}}
		if err := os.WriteFile(w.idx(id), e, 0o666); err != nil {
			vutil.Fatalf("write entry: %v", err)
		}
		// a lookup that brings the whole process down (an allocation sized by the entry, say) cannot be caught by
		// recover: the entry under test is left behind as a breadcrumb for the check to pick up and re-run alone
		crumb := ""
		if crumbDir != "" {
			crumb = filepath.Join(crumbDir, fmt.Sprintf("w%02d.json", w.n))
			cb, _ := json.Marshal(map[string]interface{}{"id": idn, "e": vutil.Ints(e)})
			os.WriteFile(crumb, cb, 0o666)
		}
		rg := doGet(w.c, id)
		acc := soundGet(rg, ci)
		soundBytes(doGetBytes(w.c, id), ci)
		soundFile(doGetFile(w.c, id), ci)
		os.Remove(w.idx(id))
		if crumb != "" {
			os.Remove(crumb)
		}
		rec := fuzzRec{ID: idn, E: vutil.Ints(e), Acc: acc, Out: []int{}, Size: []int{}, Panic: rg.panicked != ""}
		if acc {
			rec.Out = nibbles(rg.entry.OutputID[:])
			if rg.entry.Size >= 0 {
				rec.Size = digits(rg.entry.Size)
			}
			res.Count("accepted", 1)
		}
		recs[k] = rec
		res.Eval(!bytes.Equal(e, canonical(idn, 3, 1790000000000000001)))
		if k%997 == 0 {
			res.Sample(map[string]interface{}{"index_file": string(e), "id": idn, "real_accepts": acc}, 6)
		}
	})
	tw := vutil.NewNDJSONWriter(tracePath)
	for _, r := range recs {
		tw.Write(r)
	}
	tw.Close()
	res.Count("records", int64(n))
	res.Write(outPath)
}

var crumbDir string

// runEnvDamage: states of the directory that plain reads and writes of file contents cannot produce - a cache file replaced
// by a symbolic link to itself, by a directory, its directory replaced by a plain file.  "Whatever state the files on
// disk are in": the lookups answer not-found or something sound, and do not panic.  (What a later Put makes of such a
// state is not judged.)
func runEnvDamage(work, outPath string) {
	type scen struct {
		name string
		do   func(idx, data string) error
	}
	selfLink := func(p string) error {
		if err := os.Remove(p); err != nil {
			return err
		}
		return os.Symlink(filepath.Base(p), p)
	}
	asDir := func(p string) error {
		if err := os.Remove(p); err != nil {
			return err
		}
		return os.Mkdir(p, 0o777)
	}
	dirAsFile := func(p string) error {
		d := filepath.Dir(p)
		if err := os.RemoveAll(d); err != nil {
			return err
		}
		return os.WriteFile(d, []byte("not a directory\n"), 0o666)
	}
	scens := []scen{
		{"data-file-is-a-link-to-itself", func(i, d string) error { return selfLink(d) }},
		{"data-file-is-a-directory", func(i, d string) error { return asDir(d) }},
		{"data-directory-is-a-file", func(i, d string) error { return dirAsFile(d) }},
		{"index-file-is-a-link-to-itself", func(i, d string) error { return selfLink(i) }},
		{"index-file-is-a-directory", func(i, d string) error { return asDir(i) }},
		{"index-directory-is-a-file", func(i, d string) error { return dirAsFile(i) }},
		{"data-file-is-a-dangling-link", func(i, d string) error {
			if err := os.Remove(d); err != nil {
				return err
			}
			return os.Symlink("no-such-file", d)
		}},
	}
	n := 0
	for _, content := range [][]byte{[]byte("abc"), {}, bytes.Repeat([]byte("x"), 5000)} {
		for _, sc := range scens {
			w := newWorker(work, n)
			n++
			id := actionID("i1")
			r := doPut(w.c, id, content, "putbytes")
			if r.panicked != "" || r.err != nil {
				vutil.Fatalf("envdamage: Put failed: %v %v", r.err, r.panicked)
			}
			out := sha256.Sum256(content)
			ci := ctxInfo{mode: "envdamage", class: fmt.Sprintf("%s (content of %d bytes)", sc.name, len(content)),
				input: map[string]interface{}{"state": sc.name, "content_len": len(content)}}
			if err := sc.do(idxPath(w.dir, id), dataPath(w.dir, out)); err != nil {
				drift("envdamage-not-applicable", err.Error(), ci, nil)
				continue
			}
			soundGet(doGet(w.c, id), ci)
			soundBytes(doGetBytes(w.c, id), ci)
			soundFile(doGetFile(w.c, id), ci)
			if r := doPut(w.c, id, content, "put"); r.panicked != "" {
				violate("panic", "Put panicked", ci, r.panicked)
			}
			soundBytes(doGetBytes(w.c, id), ci)
			soundFile(doGetFile(w.c, id), ci)
			res.Eval(true)
			res.Count("envdamage_states", 1)
			os.RemoveAll(w.dir)
		}
	}
	res.Write(outPath)
}

// runOne performs the three lookups for one index entry (a breadcrumb of an earlier fuzz run) in a process of its own.
func runOne(crumb, work, outPath string) {
	b, err := os.ReadFile(crumb)
	if err != nil {
		vutil.Fatalf("%v", err)
	}
	var c struct {
		ID int   `json:"id"`
		E  []int `json:"e"`
	}
	if err := json.Unmarshal(b, &c); err != nil {
		vutil.Fatalf("bad breadcrumb: %v", err)
	}
	w := newWorker(work, 0)
	w.entryFixture()
	id := actionID(fmt.Sprintf("i%d", c.ID))
	e := vutil.Bytes(c.E)
	if err := os.WriteFile(w.idx(id), e, 0o666); err != nil {
		vutil.Fatalf("write entry: %v", err)
	}
	ci := ctxInfo{mode: "one", class: fmt.Sprintf("i%d %q", c.ID, e), input: map[string]interface{}{"index_file": string(e), "bytes": c.E, "id": fmt.Sprintf("i%d", c.ID)}}
	soundGet(doGet(w.c, id), ci)
	soundBytes(doGetBytes(w.c, id), ci)
	soundFile(doGetFile(w.c, id), ci)
	res.Extra["survived"] = true
	res.Write(outPath)
}

func canonical(idn int, size int64, tm int64) []byte {
	id := actionID(fmt.Sprintf("i%d", idn))
	out := sha256.Sum256(fixtureContent)
	return []byte(fmt.Sprintf("v1 %x %x %20d %20d\n", id, out, size, tm))
}

var fuzzAlphabet = []byte("v1  aAfF09+-\n\tZxg_.\x00\xff")

func randomNumberField(rng *rand.Rand) []byte {
	var s string
	switch rng.Intn(12) {
	case 0:
		s = "9223372036854775807"
	case 1:
		s = "9223372036854775808"
	case 2:
		s = "-9223372036854775808"
	case 3:
		s = "-0"
	case 4:
		s = "+" + strconv.Itoa(rng.Intn(1000))
	case 5:
		s = "-" + strconv.Itoa(rng.Intn(1000))
	case 6:
		s = strings.Repeat("0", rng.Intn(21))
	case 7:
		s = strings.Repeat("0", rng.Intn(18)) + strconv.Itoa(rng.Intn(1000))
	case 8:
		d := make([]byte, 18+rng.Intn(3))
		for i := range d {
			d[i] = byte('0' + rng.Intn(10))
		}
		s = string(d)
	case 9:
		s = strconv.Itoa(rng.Intn(100)) + strings.Repeat(" ", 1+rng.Intn(3))
	case 10:
		s = "1_000"
	default:
		s = strconv.FormatInt(rng.Int63n(1<<40), 10)
	}
	if len(s) > 20 {
		s = s[:20]
	}
	return []byte(strings.Repeat(" ", 20-len(s)) + s)
}

func randomEntry(rng *rand.Rand, idn int) []byte {
	e := canonical(idn, 3, 1790000000000000001)
	switch rng.Intn(8) {
	case 0: // a few bytes replaced
		for k := 1 + rng.Intn(6); k > 0; k-- {
			e[rng.Intn(len(e))] = fuzzAlphabet[rng.Intn(len(fuzzAlphabet))]
		}
	case 1: // number fields regenerated
		if rng.Intn(2) == 0 {
			copy(e[133:153], randomNumberField(rng))
		}
		if rng.Intn(2) == 0 {
			copy(e[154:174], randomNumberField(rng))
		}
	case 2: // the entry of the other id
		e = canonical(3-idn, int64(rng.Intn(5)), rng.Int63())
	case 3: // case of hex digits, other output ids
		for i := 3; i < 132; i++ {
			if rng.Intn(4) == 0 && e[i] >= 'a' && e[i] <= 'f' {
				e[i] -= 32
			}
		}
		if rng.Intn(2) == 0 {
			e[68+rng.Intn(64)] = "0123456789abcdefABCDEF"[rng.Intn(22)]
		}
	case 4: // random length, bytes of the alphabet
		e = make([]byte, []int{0, 1, 2, 3, 174, 175, 175, 176, 177, 300}[rng.Intn(10)])
		for i := range e {
			e[i] = fuzzAlphabet[rng.Intn(len(fuzzAlphabet))]
		}
	case 5: // cut, extended, doubled
		switch rng.Intn(3) {
		case 0:
			e = e[:rng.Intn(len(e))]
		case 1:
			e = append(e, fuzzAlphabet[rng.Intn(len(fuzzAlphabet))])
		default:
			e = append(e, e...)
		}
	case 6: // arbitrary bytes at a few positions
		for k := 1 + rng.Intn(3); k > 0; k-- {
			e[rng.Intn(len(e))] = byte(rng.Intn(256))
		}
	default: // a field shifted by one byte
		p := []int{2, 3, 67, 68, 132, 133, 153, 154, 174}[rng.Intn(9)]
		if rng.Intn(2) == 0 {
			e = append(e[:p:p], append([]byte{' '}, e[p:len(e)-1]...)...)
		} else {
			e = append(e[:p:p], append(e[p+1:], '\n')...)
		}
	}
	return e
}

func main() {
	mode := flag.String("mode", "hist", "hist | entries | fuzz")
	cases := flag.String("cases", "", "ndjson emitted by TLC")
	work := flag.String("work", "", "scratch directory for the cache directories")
	out := flag.String("out", "", "result JSON")
	trace := flag.String("trace", "", "fuzz: ndjson of records for TLC")
	n := flag.Int("n", 1000, "fuzz: number of records")
	flag.StringVar(&crumbDir, "crumbs", "", "fuzz: directory for the breadcrumbs of lookups in flight")
	flag.Parse()
	if *work == "" || *out == "" {
		vutil.Fatalf("-work and -out are required")
	}
	if strings.Contains(os.Getenv("GODEBUG"), "gocacheverify=1") {
		vutil.Fatalf("GODEBUG=gocacheverify=1 is set: Get would always miss")
	}
	res.Extra["mode"] = *mode
	switch *mode {
	case "hist":
		runHist(*cases, *work, *out)
	case "entries":
		runEntries(*cases, *work, *out)
	case "fuzz":
		runFuzz(*n, *work, *trace, *out)
	case "one":
		runOne(*cases, *work, *out)
	case "envdamage":
		runEnvDamage(*work, *out)
	default:
		vutil.Fatalf("unknown mode %q", *mode)
	}
}
