// Driver for C13: replays TLC-generated cases (spec/cachetrim, MC_CacheTrim) into the
// real cache package.  A case is a directory population (entry files written through the
// real Put and aged with os.Chtimes, non-entry files, a trim.txt class), a history of
// lookups / stores / "time passes" steps, and a final Trim whose outcome is judged against
// what the specification says the property statement fixes:
//
//	regime skip  -> the directory must be bit-for-bit what it was (incl. trim.txt)
//	regime run   -> the trim must happen: class "keep" files survive untouched, class
//	                "remove" files are gone, trim.txt holds the time of the call
//	regime free  -> either of the two, but nothing in between
//
// Everything else the model predicts (mtime refreshes, outcome of "free" files, hit/miss of
// a lookup) is compared for conformance only and reported as drift.
//
// There is no clock hook: ages are realised with Chtimes relative to the real clock and
// every generated case keeps >= 10 minutes distance from every boundary of the code
// (1h refresh, 5d+1h cutoff, 24h interval, -1h future tolerance), so run time is irrelevant.
package main

import (
	"bytes"
	"crypto/sha256"
	"encoding/hex"
	"encoding/json"
	"flag"
	"fmt"
	"io/fs"
	"os"
	"path/filepath"
	"runtime"
	"sort"
	"strconv"
	"strings"
	"sync"
	"sync/atomic"
	"syscall"
	"time"
	"unsafe"

	"verifharness/vutil"

	"github.com/rogpeppe/go-internal/cache"
)

const absent = 999999999

type ttJ struct {
	K string `json:"k"`
	V int64  `json:"v"`
}

type stepJ struct {
	Act string `json:"act"`
	Arg int64  `json:"arg"`
	Hit bool   `json:"hit"`
}

type caseJ struct {
	Init struct {
		TT ttJ              `json:"tt"`
		E  map[string]int64 `json:"e"`
		N  map[string]int64 `json:"n"`
	} `json:"init"`
	Steps []stepJ `json:"steps"`
	Pre   struct {
		Present []string         `json:"present"`
		TT      ttJ              `json:"tt"`
		MT      map[string]int64 `json:"mt"`
	} `json:"pre"`
	Expect struct {
		Regime string            `json:"regime"`
		Ran    bool              `json:"ran"`
		Cls    map[string]string `json:"cls"`
		Model  map[string]string `json:"model"`
		Lk     map[string]string `json:"lk"`
		Lo     map[string]int64  `json:"lo"`
		Hi     map[string]int64  `json:"hi"`
	} `json:"expect"`
}

// ---- fixed naming of the model's files -------------------------------------------------

// OutOf mirrors CacheTrim.tla: ids 1 and 2 share output 1, id i >= 3 has output i-1.
func outOf(i int) int {
	if i <= 2 {
		return 1
	}
	return i - 1
}

// first byte of the ids / wanted first byte of the output hashes: both ends of the 256
// subdirectories are populated.
var idFirst = map[int]byte{1: 0x00, 2: 0xff, 3: 0x7f, 4: 0x80, 5: 0x01, 6: 0xfe}
var outFirst = map[int]byte{1: 0xff, 2: 0x00, 3: 0x80, 4: 0x7f, 5: 0xfe}

func actionID(i int) cache.ActionID {
	var id cache.ActionID
	for k := range id {
		id[k] = byte(16*i + k)
	}
	id[0] = idFirst[i]
	return id
}

var (
	contentMu sync.Mutex
	contents  = map[int][]byte{}
)

// content of output o: searched once so that its SHA-256 starts with the wanted byte.
func outContent(o int) []byte {
	contentMu.Lock()
	defer contentMu.Unlock()
	if c, ok := contents[o]; ok {
		return c
	}
	if o == 2 {
		// the empty output: its file is zero bytes long and an entry like any other
		contents[o] = []byte{}
		return contents[o]
	}
	for n := 0; ; n++ {
		c := []byte(fmt.Sprintf("output %d variant %d\n", o, n))
		if sha256.Sum256(c)[0] == outFirst[o] {
			contents[o] = c
			return c
		}
	}
}

const hex64 = "0123456789abcdef0123456789abcdef0123456789abcdef0123456789abcdef"

// non-entry files, relative to the cache root
var nonEntryPath = map[string]string{
	"readme":   "README",
	"rootent":  hex64 + "-a",                                 // entry-like name, but directly in the root
	"fuzzent":  "fuzz/example.com/pkg/FuzzX/" + hex64 + "-d", // fuzz data (FuzzDir), entry-like name
	"subplain": "00/notes.txt",                               // foreign file inside a cache subdirectory
	"subtmp":   "ff/" + hex64 + "-d.tmp",                     // entry name plus another suffix
	"subdash":  "00/foreign-a",                               // ambiguous: foreign file with the entry suffix
	"otherdir": "tmp/" + hex64 + "-a",                        // entry-like name in a directory that is no cache subdirectory (every second world: nested inside one, 3c/backup/deeper/)
}

// lutimes sets both times of the link itself (utimensat with AT_SYMLINK_NOFOLLOW).
func lutimes(path string, t syscall.Timespec) error {
	bp, err := syscall.BytePtrFromString(path)
	if err != nil {
		return err
	}
	ts := [2]syscall.Timespec{t, t}
	const atFdcwd, atSymlinkNofollow = -100, 0x100
	fd := atFdcwd
	if _, _, e := syscall.Syscall6(syscall.SYS_UTIMENSAT, uintptr(fd), uintptr(unsafe.Pointer(bp)), uintptr(unsafe.Pointer(&ts[0])), atSymlinkNofollow, 0, 0); e != 0 {
		return e
	}
	return nil
}

var corruptSeq int64
var otherdirSeq int64
var bulkSeq int64
var recordSeq int64
var linkWorldSeq int64

const dirVariant = 7 // trim.txt is a directory

var corruptVariant = map[int64][]byte{
	1: []byte("garbage"),
	2: {},
	3: []byte("1700000000x"),
	4: []byte("99999999999999999999999999"),
	5: []byte("1.7e9"),
	6: {0x00, 0xff, 0x31, 0x0a},
	7: nil, // dirVariant
}

// ---- snapshots --------------------------------------------------------------------------

type fileInfo struct {
	Size  int64
	Sum   string
	Mtime int64 // unix nano
}

type snapshot struct {
	Files map[string]fileInfo
	Dirs  map[string]bool
}

func snap(root string) snapshot {
	s := snapshot{Files: map[string]fileInfo{}, Dirs: map[string]bool{}}
	filepath.WalkDir(root, func(p string, d fs.DirEntry, err error) error {
		if err != nil || p == root {
			return nil
		}
		rel, _ := filepath.Rel(root, p)
		rel = filepath.ToSlash(rel)
		if d.IsDir() {
			s.Dirs[rel] = true
			return nil
		}
		info, err := os.Stat(p) // (an entry that is a link counts as what it leads to: that is what a lookup refreshes)
		if err != nil {
			if info, err = os.Lstat(p); err != nil {
				return nil
			}
		}
		data, _ := os.ReadFile(p)
		sum := sha256.Sum256(data)
		s.Files[rel] = fileInfo{Size: info.Size(), Sum: hex.EncodeToString(sum[:8]), Mtime: info.ModTime().UnixNano()}
		return nil
	})
	return s
}

func (a snapshot) diff(b snapshot) []string {
	var d []string
	for p, fa := range a.Files {
		fb, ok := b.Files[p]
		switch {
		case !ok:
			d = append(d, "removed "+p)
		case fa.Sum != fb.Sum || fa.Size != fb.Size:
			d = append(d, "content-changed "+p)
		case fa.Mtime != fb.Mtime:
			d = append(d, "mtime-changed "+p)
		}
	}
	for p := range b.Files {
		if _, ok := a.Files[p]; !ok {
			d = append(d, "created "+p)
		}
	}
	for p := range a.Dirs {
		if !b.Dirs[p] {
			d = append(d, "dir-removed "+p)
		}
	}
	for p := range b.Dirs {
		if !a.Dirs[p] {
			d = append(d, "dir-created "+p)
		}
	}
	sort.Strings(d)
	return d
}

// ---- one case ---------------------------------------------------------------------------

type world struct {
	// bulk: entry-named files the model does not list one by one (2100 of them in one subdirectory, all unused for a
	// month): a trim that runs removes every one of them
	bulk  map[string]bool
	root  string
	c     *cache.Cache
	paths map[string]string // model file -> path relative to root
	outID map[int]cache.OutputID
}

func mins(n int64) time.Duration { return time.Duration(n) * time.Minute }

func safely(what string, f func()) (panicked string) {
	defer func() {
		if r := recover(); r != nil {
			panicked = fmt.Sprintf("%s panicked: %v", what, r)
		}
	}()
	f()
	return ""
}

func parseTrimTxt(data []byte) (int64, bool) {
	t, err := strconv.ParseInt(strings.TrimSpace(string(data)), 10, 64)
	return t, err == nil
}

func modelFileKind(f string) string {
	switch {
	case strings.HasPrefix(f, "a") && len(f) == 2:
		return "index"
	case strings.HasPrefix(f, "d") && len(f) == 2:
		return "output"
	}
	return "non-entry"
}

var (
	pathMu    sync.Mutex
	pathCache = map[string]string{} // model entry file -> relative path (the same in every cache directory)
)

// build realises the initial population.  Entry files are produced by the real Put; their
// paths are discovered from the directory (index entry = the file Put created that is not
// OutputFile(out)), so the driver does not depend on the naming scheme.
func build(cs *caseJ, root string) (*world, error) {
	c, err := cache.Open(root)
	if err != nil {
		return nil, err
	}
	w := &world{root: root, c: c, paths: map[string]string{}, outID: map[int]cache.OutputID{}}
	var ids []int
	for f := range cs.Init.E {
		if f[0] == 'a' {
			i, _ := strconv.Atoi(f[1:])
			ids = append(ids, i)
		}
	}
	sort.Ints(ids)
	for _, i := range ids {
		o := outOf(i)
		af, df := fmt.Sprintf("a%d", i), fmt.Sprintf("d%d", o)
		pathMu.Lock()
		arel, known := pathCache[af]
		pathMu.Unlock()
		var before snapshot
		if !known {
			before = snap(root)
		}
		out, _, err := c.Put(actionID(i), bytes.NewReader(outContent(o)))
		if err != nil {
			return nil, fmt.Errorf("Put while building the population: %v", err)
		}
		w.outID[o] = out
		drel, _ := filepath.Rel(root, c.OutputFile(out))
		drel = filepath.ToSlash(drel)
		w.paths[df] = drel
		if !known {
			after := snap(root)
			var created []string
			for p := range after.Files {
				if _, ok := before.Files[p]; !ok && p != drel {
					created = append(created, p)
				}
			}
			if len(created) != 1 {
				return nil, fmt.Errorf("Put(id %d) created %v besides the output file: cannot identify the index entry", i, created)
			}
			arel = created[0]
			pathMu.Lock()
			pathCache[af] = arel
			pathMu.Unlock()
		}
		if _, err := os.Stat(filepath.Join(root, arel)); err != nil {
			return nil, fmt.Errorf("Put(id %d) did not produce the index entry %s seen before", i, arel)
		}
		w.paths[af] = arel
	}
	now := time.Now()
	for f, age := range cs.Init.E {
		p := filepath.Join(root, w.paths[f])
		if age == absent {
			if err := os.Remove(p); err != nil {
				return nil, err
			}
			continue
		}
		t := now.Add(-mins(age))
		if err := os.Chtimes(p, t, t); err != nil {
			return nil, err
		}
	}
	for f, age := range cs.Init.N {
		rel, ok := nonEntryPath[f]
		if !ok {
			return nil, fmt.Errorf("unknown non-entry %q", f)
		}
		if f == "otherdir" && atomic.AddInt64(&otherdirSeq, 1)%2 == 0 {
			// the other realisation of "a directory that is no cache subdirectory": one nested inside a cache subdirectory
			rel = "3c/backup/deeper/" + hex64 + "-a"
		}
		w.paths[f] = rel
		if age == absent {
			continue
		}
		p := filepath.Join(root, rel)
		if err := os.MkdirAll(filepath.Dir(p), 0o777); err != nil {
			return nil, err
		}
		if err := os.WriteFile(p, []byte("not a cache entry: "+f+"\n"), 0o666); err != nil {
			return nil, err
		}
		t := now.Add(-mins(age))
		if err := os.Chtimes(p, t, t); err != nil {
			return nil, err
		}
	}
	// every third world keeps its entry files in a store beside the cache directory and links them in (a cache shared
	// through links): the links themselves are as old as the store, using or storing an entry refreshes the file
	if atomic.AddInt64(&linkWorldSeq, 1)%3 == 0 {
		store := root + ".store"
		os.RemoveAll(store)
		if err := os.MkdirAll(store, 0o777); err != nil {
			return nil, err
		}
		k := 0
		for f, age := range cs.Init.E {
			if age == absent {
				continue
			}
			p := filepath.Join(root, w.paths[f])
			k++
			target := filepath.Join(store, fmt.Sprintf("e%d", k))
			if err := os.Rename(p, target); err != nil {
				return nil, err
			}
			if err := os.Symlink(target, p); err != nil {
				return nil, err
			}
			old := syscall.NsecToTimespec(now.Add(-mins(90 * 24 * 60)).UnixNano())
			if err := lutimes(p, old); err != nil {
				return nil, err
			}
		}
	}
	// the subdirectories themselves are old: their times change when an entry comes or goes, not when one is used or
	// stored again - in a cache that has been in use for months they say nothing about the entries
	for i := 0; i < 256; i++ {
		t := now.Add(-mins(60 * 24 * 60))
		os.Chtimes(filepath.Join(root, fmt.Sprintf("%02x", i)), t, t)
	}
	// one world in forty is crowded: 2100 more entries, all a month old, in the subdirectory of its first index entry
	if atomic.AddInt64(&bulkSeq, 1)%40 == 7 && len(ids) > 0 {
		sub := filepath.Dir(filepath.Join(root, w.paths[fmt.Sprintf("a%d", ids[0])]))
		w.bulk = map[string]bool{}
		t := now.Add(-mins(30 * 24 * 60))
		for k := 0; k < 2100; k++ {
			name := fmt.Sprintf("%s%060x-a", filepath.Base(sub), k+1)
			p := filepath.Join(sub, name)
			if err := os.WriteFile(p, []byte("v1 bulk\n"), 0o666); err != nil {
				return nil, err
			}
			os.Chtimes(p, t, t)
			rel, _ := filepath.Rel(root, p)
			w.bulk[filepath.ToSlash(rel)] = true
		}
		t60 := now.Add(-mins(60 * 24 * 60))
		os.Chtimes(sub, t60, t60)
	}
	tp := filepath.Join(root, "trim.txt")
	switch cs.Init.TT.K {
	case "missing":
	case "corrupt":
		b, ok := corruptVariant[cs.Init.TT.V]
		if !ok {
			return nil, fmt.Errorf("unknown corrupt variant %d", cs.Init.TT.V)
		}
		if cs.Init.TT.V == dirVariant {
			// a record that can be neither read nor written: trim.txt is a directory.  No trim is known to have
			// completed, so one is due; that its time cannot be recorded is the caller's problem, not the entries'
			if err := os.Mkdir(tp, 0o777); err != nil {
				return nil, err
			}
			break
		}
		if err := os.WriteFile(tp, b, 0o666); err != nil {
			return nil, err
		}
		// an unreadable record says nothing, whenever it was written: every other one is two days old, the others fresh
		if atomic.AddInt64(&corruptSeq, 1)%2 == 0 {
			t := now.Add(-mins(3000))
			os.Chtimes(tp, t, t)
		}
	case "time":
		t := now.Add(-mins(cs.Init.TT.V))
		// the number as Trim writes it, or as an editor, a shell redirect or another platform leaves it: white space around
		// a number does not make it another number
		tail := []string{"", "\n", " \n", "\r\n", "\t"}[atomic.AddInt64(&recordSeq, 1)%5]
		if err := os.WriteFile(tp, []byte(strconv.FormatInt(t.Unix(), 10)+tail), 0o666); err != nil {
			return nil, err
		}
		os.Chtimes(tp, t, t)
	default:
		return nil, fmt.Errorf("unknown trim.txt class %q", cs.Init.TT.K)
	}
	return w, nil
}

// advance lets dt minutes pass: every mtime and the recorded trim time move dt into the past.
func (w *world) advance(dt int64) error {
	tp := filepath.Join(w.root, "trim.txt")
	if data, err := os.ReadFile(tp); err == nil {
		if t, ok := parseTrimTxt(data); ok {
			if err := os.WriteFile(tp, []byte(strconv.FormatInt(t-dt*60, 10)), 0o666); err != nil {
				return err
			}
		}
	}
	return filepath.WalkDir(w.root, func(p string, d fs.DirEntry, err error) error {
		if err != nil || d.IsDir() {
			return nil
		}
		info, err := os.Stat(p)
		if err != nil {
			return nil
		}
		t := info.ModTime().Add(-mins(dt))
		return os.Chtimes(p, t, t)
	})
}

type verdict struct {
	res  *vutil.Result
	cs   *caseJ
	line []byte
}

func (v *verdict) input() interface{} {
	var raw map[string]interface{}
	json.Unmarshal(v.line, &raw)
	return map[string]interface{}{"init": raw["init"], "steps": raw["steps"]}
}

func (v *verdict) violate(kind, class, what string, detail interface{}) {
	v.res.Violate(vutil.Finding{Kind: kind, Class: class, What: what, Input: v.input(), Detail: detail})
}

func (v *verdict) drift(kind, what string, detail interface{}) {
	v.res.Count("drift:"+kind, 1)
	v.res.DriftAdd(vutil.Finding{Kind: kind, What: what, Input: v.input(), Detail: detail})
}

func histString(cs *caseJ) string {
	var b []string
	for _, s := range cs.Steps {
		switch s.Act {
		case "trim":
			b = append(b, "trim")
		case "advance":
			b = append(b, fmt.Sprintf("advance(%dm)", s.Arg))
		default:
			b = append(b, fmt.Sprintf("%s(%d)", s.Act, s.Arg))
		}
	}
	return strings.Join(b, "; ")
}

func ageMin(now time.Time, unixNano int64) int64 {
	return int64(now.Sub(time.Unix(0, unixNano)).Round(time.Minute) / time.Minute)
}

func abs(x int64) int64 {
	if x < 0 {
		return -x
	}
	return x
}

// cache directories are reused (one per worker): creating and removing 256 subdirectories per
// case costs more than the case itself.  wipe removes everything but the 256 empty
// subdirectories; it is checked to leave no regular file behind.
var roots chan string

func wipe(root string, have *snapshot) {
	var s snapshot
	if have != nil {
		s = *have
	} else {
		s = snap(root)
	}
	for p := range s.Files {
		os.Remove(filepath.Join(root, p))
	}
	var extra []string
	for d := range s.Dirs {
		if len(d) != 2 {
			extra = append(extra, d)
		}
	}
	sort.Sort(sort.Reverse(sort.StringSlice(extra)))
	for _, d := range extra {
		os.Remove(filepath.Join(root, d))
	}
	if es, err := os.ReadDir(root); err != nil {
		vutil.Fatalf("wipe: %v", err)
	} else {
		for _, e := range es {
			if !e.IsDir() || len(e.Name()) != 2 {
				vutil.Fatalf("wipe left %s behind in %s", e.Name(), root)
			}
		}
	}
}

func runCase(res *vutil.Result, line []byte, n int) {
	var cs caseJ
	if err := json.Unmarshal(line, &cs); err != nil {
		vutil.Fatalf("bad case: %v\n%s", err, line)
	}
	v := &verdict{res: res, cs: &cs, line: line}
	root := <-roots
	var final *snapshot // the last snapshot taken, if nothing can have been created since
	defer func() {
		wipe(root, final)
		roots <- root
	}()
	t0 := time.Now()
	w, err := build(&cs, root)
	if err != nil {
		vutil.Fatalf("cannot build population: %v", err)
	}
	last := len(cs.Steps) - 1
	if last < 0 || cs.Steps[last].Act != "trim" {
		vutil.Fatalf("case does not end with a trim: %s", line)
	}

	for k, s := range cs.Steps[:last] {
		var hit bool
		var p string
		switch s.Act {
		case "get":
			p = safely("Get", func() { _, err := w.c.Get(actionID(int(s.Arg))); hit = err == nil })
		case "getfile":
			p = safely("GetFile", func() { _, _, err := w.c.GetFile(actionID(int(s.Arg))); hit = err == nil })
		case "getbytes":
			p = safely("GetBytes", func() {
				data, _, err := w.c.GetBytes(actionID(int(s.Arg)))
				hit = err == nil && bytes.Equal(data, outContent(outOf(int(s.Arg))))
			})
		case "outputfile":
			hit = s.Hit
			p = safely("OutputFile", func() { w.c.OutputFile(w.outID[int(s.Arg)]) })
		case "put":
			hit = s.Hit
			p = safely("Put", func() {
				if _, _, err := w.c.Put(actionID(int(s.Arg)), bytes.NewReader(outContent(outOf(int(s.Arg))))); err != nil {
					panic(err)
				}
			})
		case "advance":
			hit = s.Hit
			if err := w.advance(s.Arg); err != nil {
				vutil.Fatalf("advance: %v", err)
			}
		case "trim":
			hit = s.Hit
			p = safely("Trim", func() { w.c.Trim() })
		default:
			vutil.Fatalf("unknown step %q", s.Act)
		}
		if p != "" {
			// a panic is never acceptable, but which property it breaks is C05's business
			v.drift("panic-in-history", p, map[string]interface{}{"step": k})
			res.Eval(false)
			return
		}
		if hit != s.Hit {
			v.drift("lookup-result", fmt.Sprintf("step %d %s(%d): model says hit=%v, real hit=%v; the history is not the modelled one, case not judged",
				k, s.Act, s.Arg, s.Hit, hit), nil)
			res.Eval(false)
			return
		}
	}

	// ---- conformance of the state just before the judged Trim
	before := snap(root)
	now := time.Now()
	preSet := map[string]bool{}
	for _, f := range cs.Pre.Present {
		preSet[f] = true
	}
	for f, rel := range w.paths {
		_, real := before.Files[rel]
		if real != preSet[f] {
			v.drift("presence-divergence", fmt.Sprintf("before the judged trim the model has %s present=%v, the directory present=%v (an earlier step already deviated; that step is judged by its own case)", f, preSet[f], real), nil)
			res.Eval(false)
			return
		}
		if real {
			if a := ageMin(now, before.Files[rel].Mtime); abs(a-cs.Pre.MT[f]) > 5 {
				v.drift("mtime-divergence", fmt.Sprintf("%s: model mtime age %dm, real %dm (after %s)", f, cs.Pre.MT[f], a, histString(&cs)), nil)
			}
		}
	}
	relKnown := map[string]bool{"trim.txt": true}
	for _, rel := range w.paths {
		relKnown[rel] = true
	}
	for p := range before.Files {
		if !relKnown[p] && !w.bulk[p] {
			v.drift("unexpected-file-before-trim", "a file neither the driver nor the model knows exists before the judged trim: "+p, nil)
		}
	}
	ttData, ttErr := os.ReadFile(filepath.Join(root, "trim.txt"))
	ttOK := false
	switch cs.Pre.TT.K {
	case "missing":
		ttOK = ttErr != nil
	case "corrupt":
		_, ok := parseTrimTxt(ttData)
		ttOK = ttErr == nil && !ok
		if st, err := os.Stat(filepath.Join(root, "trim.txt")); cs.Pre.TT.V == dirVariant && err == nil && st.IsDir() {
			ttOK = true
		}
	case "time":
		t, ok := parseTrimTxt(ttData)
		ttOK = ttErr == nil && ok && abs(int64(now.Sub(time.Unix(t, 0))/time.Minute)-cs.Pre.TT.V) <= 5
	}
	if !ttOK {
		v.drift("trimtxt-divergence", fmt.Sprintf("before the judged trim the model has trim.txt %+v, the file holds %q (an earlier trim already deviated; judged by its own case)", cs.Pre.TT, ttData), nil)
		res.Eval(false)
		return
	}

	// ---- the judged Trim
	var trimErr error
	callStart := time.Now()
	if p := safely("Trim", func() { trimErr = w.c.Trim() }); p != "" {
		v.violate("trim-panic", "panic", p, nil)
		res.Eval(true)
		return
	}
	callEnd := time.Now()
	after := snap(root)
	final = &after // only lookups follow
	if time.Since(t0) > 4*time.Minute {
		// the 10 minute margins no longer guarantee anything: no verdict for this case
		res.Count("slow_cases", 1)
		return
	}
	diff := before.diff(after)
	changed := len(diff) > 0
	regime := cs.Expect.Regime
	hist := histString(&cs)

	staleBefore, entriesBefore := 0, 0
	for f, rel := range w.paths {
		if _, ok := before.Files[rel]; ok && modelFileKind(f) != "non-entry" {
			entriesBefore++
			if cs.Expect.Cls[f] == "remove" || cs.Expect.Model[f] == "remove" {
				staleBefore++
			}
		}
	}
	res.Eval(entriesBefore > 0 && (regime != "skip" || staleBefore > 0))
	res.Count("regime:"+regime, 1)
	if trimErr != nil {
		v.drift("trim-error", fmt.Sprintf("Trim returned %v", trimErr), nil)
	}
	detail := map[string]interface{}{"regime": regime, "changes": diff, "history": hist, "trim_txt_before": string(ttData)}

	if regime == "skip" {
		if changed {
			v.violate("skip-regime-changed", "trim completed "+strconv.FormatInt(cs.Pre.TT.V, 10)+"m ago",
				fmt.Sprintf("a trim completed %d minutes ago, yet Trim changed the directory: %v", cs.Pre.TT.V, diff), detail)
		}
		res.Count("skipped_ok", 1)
		sample(res, &cs, hist, diff, n)
		return
	}
	if !changed && cs.Pre.TT.K == "corrupt" && cs.Pre.TT.V == dirVariant && !anyToRemove(&cs, before) {
		// (a record that cannot be written and nothing stale to remove: a trim that ran leaves no trace)
		res.Count("ran_without_trace", 1)
		sample(res, &cs, hist, diff, n)
		return
	}
	if !changed {
		if regime == "run" {
			v.violate("due-trim-not-run", fmt.Sprintf("trim.txt %s", ttClass(cs.Pre.TT)),
				fmt.Sprintf("trim is due (trim.txt %s) but Trim changed nothing, not even the recorded trim time", ttClass(cs.Pre.TT)), detail)
		} else if cs.Expect.Ran {
			v.drift("free-regime", fmt.Sprintf("trim.txt %s: model runs the trim, the code skipped it (not fixed by the statement)", ttClass(cs.Pre.TT)), nil)
		}
		sample(res, &cs, hist, diff, n)
		return
	}
	if regime == "free" && !cs.Expect.Ran {
		v.drift("free-regime", fmt.Sprintf("trim.txt %s: model skips, the code ran the trim (not fixed by the statement)", ttClass(cs.Pre.TT)), nil)
	}
	res.Count("ran", 1)

	// the trim ran: per file
	known := map[string]string{"trim.txt": "trim.txt"}
	for f, rel := range w.paths {
		known[rel] = f
		fb, was := before.Files[rel]
		if !was {
			continue
		}
		fa, is := after.Files[rel]
		kind := modelFileKind(f)
		cls := cs.Expect.Cls[f]
		fd := map[string]interface{}{"file": f, "path": rel, "kind": kind, "last_use": cs.Expect.Lk[f],
			"last_use_age_min": []int64{cs.Expect.Lo[f], cs.Expect.Hi[f]}, "mtime_age_min_before": ageMin(now, fb.Mtime),
			"model_mtime_age_min": cs.Pre.MT[f], "history": hist, "changes": diff}
		switch cls {
		case "keep":
			if !is {
				switch {
				case kind == "non-entry":
					v.violate("non-entry-removed", f, fmt.Sprintf("Trim removed %s (%s), which is not a cache entry", rel, f), fd)
				case cs.Expect.Lk[f] == "put-existing" && ageMin(now, fb.Mtime)-cs.Pre.MT[f] > 5 && cs.Expect.Model[f] == "keep":
					// the Put did not refresh the mtime of the output it stored again (the model, following the
					// statement, has it refreshed), and the trim then took the file for stale.
					// behaviour seen by a user of the API: the entry stored a moment ago is gone
					probe := w.probe(&cs, f)
					fd["lookups_after_trim"] = probe
					v.violate("restored-output-trimmed", "put(content whose output file exists with an mtime older than 5d+1h); trim(due)",
						fmt.Sprintf("history [%s]: Put stored content whose output file %s already existed (mtime %d min old); the due Trim then removed it although it was stored within the last five days (last use %d..%d min ago); lookups afterwards: %v",
							hist, rel, ageMin(now, fb.Mtime), cs.Expect.Lo[f], cs.Expect.Hi[f], probe), fd)
				default:
					v.violate("recent-entry-removed", kind+" last-use="+cs.Expect.Lk[f],
						fmt.Sprintf("history [%s]: Trim removed the %s file %s although it was last used %d..%d minutes ago (< 5 days) by %s; mtime was %d min old",
							hist, kind, rel, cs.Expect.Lo[f], cs.Expect.Hi[f], cs.Expect.Lk[f], ageMin(now, fb.Mtime)), fd)
				}
			} else if fa.Sum != fb.Sum || fa.Size != fb.Size || fa.Mtime != fb.Mtime {
				if kind == "non-entry" {
					v.violate("non-entry-touched", f, fmt.Sprintf("Trim modified %s (%s), which is not a cache entry", rel, f), fd)
				} else {
					v.drift("kept-entry-modified", fmt.Sprintf("Trim kept %s but changed its contents or mtime", rel), fd)
				}
			}
		case "remove":
			if is {
				v.violate("stale-entry-kept", kind,
					fmt.Sprintf("history [%s]: Trim ran but kept the %s file %s, unused for %d..%d minutes (> 5 days + 1 hour); mtime %d min old",
						hist, kind, rel, cs.Expect.Lo[f], cs.Expect.Hi[f], ageMin(now, fb.Mtime)), fd)
			}
		case "free":
			if (cs.Expect.Model[f] == "remove") == is {
				v.drift("free-file", fmt.Sprintf("%s (%s, mtime %dm): model %s, real present=%v; the statement does not fix this file's fate", f, kind, ageMin(now, fb.Mtime), cs.Expect.Model[f], is), fd)
			}
			res.Count("free_files", 1)
		}
	}
	leftBulk, wasBulk := 0, 0
	for p := range w.bulk {
		if _, was := before.Files[p]; was {
			wasBulk++
			if _, is := after.Files[p]; is {
				leftBulk++
			}
		}
	}
	if leftBulk > 0 {
		v.violate("stale-entry-kept", "crowded subdirectory",
			fmt.Sprintf("history [%s]: Trim ran but kept %d of %d entries of one subdirectory that were all unused for a month", hist, leftBulk, wasBulk), detail)
	}
	if wasBulk > 0 {
		res.Count("crowded_subdirectory_trims", 1)
	}
	for p := range after.Files {
		if w.bulk[p] {
			continue
		}
		if _, ok := known[p]; !ok {
			v.drift("unexpected-file", "Trim left a file the model does not know: "+p, nil)
		}
	}
	for _, d := range diff {
		if strings.HasPrefix(d, "dir-") {
			v.drift("directory-changed", d, nil)
		}
	}
	// records the trim time
	data, err := os.ReadFile(filepath.Join(root, "trim.txt"))
	t, ok := parseTrimTxt(data)
	if cs.Pre.TT.K == "corrupt" && cs.Pre.TT.V == dirVariant {
		// (nothing can be recorded in a directory)
	} else if err != nil || !ok || t < callStart.Unix()-2 || t > callEnd.Unix()+2 {
		v.violate("trim-time-not-recorded", "trim.txt "+ttClass(cs.Pre.TT),
			fmt.Sprintf("Trim ran (changes %v) but trim.txt holds %q afterwards, not the time of the trim (%d)", diff, data, callStart.Unix()), detail)
	}
	// behavioural confirmation: a pair of files that both had to survive is still readable
	for f := range w.paths {
		if modelFileKind(f) == "index" && cs.Expect.Cls[f] == "keep" {
			i, _ := strconv.Atoi(f[1:])
			d := fmt.Sprintf("d%d", outOf(i))
			_, dWas := before.Files[w.paths[d]]
			if dWas && cs.Expect.Cls[d] == "keep" {
				if _, is := after.Files[w.paths[d]]; is {
					if _, isA := after.Files[w.paths[f]]; isA {
						res.Count("readable_probes", 1)
						if pr := w.probe(&cs, f); !pr["getbytes_ok"].(bool) || !pr["getfile_ok"].(bool) {
							v.drift("kept-entry-unreadable", fmt.Sprintf("id %d: both files survived the trim but lookups say %v", i, pr), nil)
						}
					}
				}
			}
		}
	}
	sample(res, &cs, hist, diff, n)
}

// anyToRemove reports whether the model expects the judged trim to remove a file that exists.
func anyToRemove(cs *caseJ, before snapshot) bool {
	for f, cls := range cs.Expect.Cls {
		if cls == "remove" {
			return true
		}
		_ = f
	}
	return false
}

// probe looks the ids that map to model file f up through the public API (after the verdict
// snapshot was taken, so that it cannot disturb it).
func (w *world) probe(cs *caseJ, f string) map[string]interface{} {
	r := map[string]interface{}{"getbytes_ok": true, "getfile_ok": true}
	for g := range cs.Init.E {
		if g[0] != 'a' {
			continue
		}
		i, _ := strconv.Atoi(g[1:])
		if !(g == f || fmt.Sprintf("d%d", outOf(i)) == f) {
			continue
		}
		if _, err := os.Stat(filepath.Join(w.root, w.paths[g])); err != nil {
			continue // no index entry for this id
		}
		safely("probe", func() {
			data, _, err := w.c.GetBytes(actionID(i))
			ok := err == nil && bytes.Equal(data, outContent(outOf(i)))
			r[fmt.Sprintf("GetBytes(id%d)", i)] = fmt.Sprint(err)
			if !ok {
				r["getbytes_ok"] = false
			}
			_, _, err = w.c.GetFile(actionID(i))
			r[fmt.Sprintf("GetFile(id%d)", i)] = fmt.Sprint(err)
			if err != nil {
				r["getfile_ok"] = false
			}
		})
	}
	return r
}

func ttClass(t ttJ) string {
	switch t.K {
	case "time":
		if t.V < 0 {
			return fmt.Sprintf("%d min in the future", -t.V)
		}
		return fmt.Sprintf("%d min old", t.V)
	case "corrupt":
		return fmt.Sprintf("corrupt %q", corruptVariant[t.V])
	}
	return t.K
}

func sample(res *vutil.Result, cs *caseJ, hist string, diff []string, n int) {
	if n%997 != 0 {
		return
	}
	pop := map[string]interface{}{}
	for f, a := range cs.Init.E {
		if a != absent {
			pop[f] = a
		}
	}
	for f, a := range cs.Init.N {
		if a != absent {
			pop[f] = a
		}
	}
	if diff == nil {
		diff = []string{}
	}
	res.Sample(map[string]interface{}{"population_age_min": pop, "trim_txt": ttClass(cs.Init.TT), "history": hist,
		"regime": cs.Expect.Regime, "observed_changes": diff}, 12)
}

func main() {
	cases := flag.String("cases", "", "ndjson emitted by TLC (MC_CacheTrim)")
	out := flag.String("out", "", "result json")
	work := flag.String("work", "", "scratch directory for the cache directories")
	flag.Parse()
	if *cases == "" || *out == "" || *work == "" {
		vutil.Fatalf("usage: cachetrim -cases f -out f -work dir")
	}
	if err := os.MkdirAll(*work, 0o777); err != nil {
		vutil.Fatalf("%v", err)
	}
	nroots := runtime.NumCPU()
	roots = make(chan string, nroots)
	for k := 0; k < nroots; k++ {
		r, err := os.MkdirTemp(*work, "cache")
		if err != nil {
			vutil.Fatalf("%v", err)
		}
		roots <- r
	}
	res := vutil.NewResult()
	var mu sync.Mutex
	seen := map[[12]byte]bool{}
	n := 0
	vutil.ParallelLines(*cases, func(line []byte) {
		h := sha256.Sum256(line)
		var k [12]byte
		copy(k[:], h[:12])
		mu.Lock()
		dup := seen[k]
		seen[k] = true
		n++
		my := n
		mu.Unlock()
		if dup {
			res.Count("duplicate_cases", 1)
			return
		}
		runCase(res, line, my)
	})
	res.Count("cases", int64(n))
	res.Write(*out)
}
