package main

import (
	"flag"
	"fmt"
	"os"
	"os/signal"
	"strconv"
	"strings"
	"syscall"
	"time"
)

// childMain is the helper program the scripts run.  It appends "<event> <ms since t0> <arg>"
// lines to its log: start (arg = pid), sig (arg = signal name), beat (every 5 ms once an
// ignored signal has arrived), exit (just before leaving on its own at t0 + x).
func childMain(args []string) {
	fs := flag.NewFlagSet("child", flag.ExitOnError)
	logp := fs.String("log", "", "")
	t0file := fs.String("t0file", "", "")
	x := fs.Int64("x", -1, "leave at t0 + x ms (-1: never)")
	onint := fs.String("onint", "die", "die | ignore")
	status := fs.Int("status", 0, "own exit status")
	fs.Parse(args)

	ch := make(chan os.Signal, 8)
	signal.Notify(ch, syscall.SIGQUIT, syscall.SIGINT, syscall.SIGTERM, syscall.SIGHUP)

	var t0 int64
	if b, err := os.ReadFile(*t0file); err == nil {
		t0, _ = strconv.ParseInt(strings.TrimSpace(string(b)), 10, 64)
	}
	f, err := os.OpenFile(*logp, os.O_APPEND|os.O_CREATE|os.O_WRONLY, 0o644)
	if err != nil {
		fmt.Fprintln(os.Stderr, "child: cannot open log:", err)
		os.Exit(9)
	}
	stamp := func(ev, arg string) {
		fmt.Fprintf(f, "%s %d %s\n", ev, (monoUS()-t0)/1000, arg)
	}
	stamp("start", strconv.Itoa(os.Getpid()))

	var leave <-chan time.Time
	if *x >= 0 {
		d := t0 + *x*1000 - monoUS()
		if d < 0 {
			d = 0
		}
		leave = time.After(time.Duration(d) * time.Microsecond)
	}
	var beat <-chan time.Time
	for {
		select {
		case s := <-ch:
			stamp("sig", s.String())
			if *onint == "die" {
				os.Exit(2)
			}
			if beat == nil {
				beat = time.NewTicker(5 * time.Millisecond).C
			}
		case <-beat:
			stamp("beat", "-")
		case <-leave:
			stamp("exit", "-")
			os.Exit(*status)
		}
	}
}
