package main

import (
	"bufio"
	"flag"
	"fmt"
	"net"
	"os"
	"os/signal"
	"strconv"
	"strings"
	"syscall"
	"time"
)

// childMain is the helper program the scripts run.  It reports over a unix socket to the
// driver - not to a file: on a shared disk a small file write can stall for hundreds of
// milliseconds (journal commits of other users), and a stalled helper looks exactly like a
// helper that was never interrupted.  Protocol: "hello <id> <pid>" -> "t0 <us>", then lines
// "<event> <ms since t0> <arg>": start, beat (every 5 ms, the sign of life), sig (arg = signal
// name), exit (just before leaving on its own at t0 + x).
//
// Arrival of the interrupt is taken from os/signal AND from the kernel's pending-signal mask
// (/proc/self/status, looked at with every beat).  Measured on the build sandbox, outside
// testscript: about 1..15 of 6000 SIGQUITs sent with os.Process.Signal (returning nil) to a Go
// program that called signal.Notify stay in ShdPnd and never reach the handler.  The property
// is about testscript sending the interrupt, not about the helper's runtime receiving it.
func childMain(args []string) {
	fs := flag.NewFlagSet("child", flag.ExitOnError)
	sock := fs.String("sock", "", "")
	id := fs.Int("id", 0, "")
	x := fs.Int64("x", -1, "leave at t0 + x ms (-1: never)")
	onint := fs.String("onint", "die", "die | ignore | quitonly (ignores SIGQUIT, dies of any other interrupt)")
	status := fs.Int("status", 0, "own exit status")
	fs.Parse(args)

	ch := make(chan os.Signal, 8)
	signal.Notify(ch, syscall.SIGQUIT, syscall.SIGINT, syscall.SIGTERM, syscall.SIGHUP)

	conn, err := net.Dial("unix", *sock)
	if err != nil {
		fmt.Fprintln(os.Stderr, "child: cannot reach the driver:", err)
		os.Exit(9)
	}
	fmt.Fprintf(conn, "hello %d %d\n", *id, os.Getpid())
	line, err := bufio.NewReader(conn).ReadString('\n')
	f := strings.Fields(line)
	if err != nil || len(f) != 2 || f[0] != "t0" {
		fmt.Fprintln(os.Stderr, "child: bad greeting:", line, err)
		os.Exit(9)
	}
	t0, _ := strconv.ParseInt(f[1], 10, 64)
	stamp := func(ev, arg string) {
		fmt.Fprintf(conn, "%s %d %s\n", ev, (monoUS()-t0)/1000, arg)
	}
	stamp("start", "-")

	var leave <-chan time.Time
	if *x >= 0 {
		d := t0 + *x*1000 - monoUS()
		if d < 0 {
			d = 0
		}
		leave = time.After(time.Duration(d) * time.Microsecond)
	}
	beat := time.NewTicker(5 * time.Millisecond)
	stamped := false
	for {
		select {
		case s := <-ch:
			stamped = true
			stamp("sig", s.String())
			if *onint == "die" || (*onint == "quitonly" && s != syscall.SIGQUIT) {
				os.Exit(2)
			}
		case <-leave:
			stamp("exit", "-")
			os.Exit(*status)
		case <-beat.C:
			stamp("beat", "-")
			if stamped {
				continue
			}
			// an interrupt the kernel holds pending has arrived, whether or not the runtime ever hands it over
			if pendingInterrupt() {
				stamped = true
				stamp("sig", "pending")
				if *onint == "die" {
					os.Exit(2)
				}
			}
		}
	}
}

// pendingInterrupt reports whether SIGQUIT, SIGINT, SIGTERM or SIGHUP is pending for this process.
func pendingInterrupt() bool {
	b, err := os.ReadFile("/proc/self/status")
	if err != nil {
		return false
	}
	const want = 1<<(uint(syscall.SIGQUIT)-1) | 1<<(uint(syscall.SIGINT)-1) | 1<<(uint(syscall.SIGTERM)-1) | 1<<(uint(syscall.SIGHUP)-1)
	for _, l := range strings.Split(string(b), "\n") {
		if strings.HasPrefix(l, "ShdPnd:") || strings.HasPrefix(l, "SigPnd:") {
			f := strings.Fields(l)
			if len(f) == 2 {
				if m, err := strconv.ParseUint(f[1], 16, 64); err == nil && m&want != 0 {
					return true
				}
			}
		}
	}
	return false
}
