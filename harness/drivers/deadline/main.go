// Driver of property C17 (testscript honours Params.Deadline).
//
//	deadline run   -plan plan.ndjson -traces traces.ndjson -out result.json -work dir [-par n] [-group k]
//	deadline viarun ... same flags, every call made through testscript.Run with a real *testing.T (via.go)
//	deadline child -sock path -id n -x ms -onint die|ignore -status n
//
// "run" executes the cases TLC generated (spec/deadline/MC_DeadlinePlan.tla): every case
// is one script whose only line is a foreground `exec` (or `! exec`) of this binary in
// "child" mode; cases that share a deadline distance D are run k at a time by one call of the
// REAL testscript.RunT with Params.Deadline = now + D.  The driver judges nothing: it
// records what happened (one ndjson record per script, times in ms of CLOCK_MONOTONIC since
// RunT was called) and TLC validates the records against spec/deadline/DeadlineL1.tla.
//
// The child stamps its own events (start, a heart beat every 5 ms, signal received, voluntary
// exit) and sends them to the driver over a unix socket, so the moment the interrupt arrived
// and the last moment the process was alive are observed inside the child, not inferred.
package main

import (
	"flag"
	"fmt"
	"os"
	"os/signal"
	"path/filepath"
	"syscall"
	"unsafe"
)

// monoMS reads CLOCK_MONOTONIC in milliseconds: one clock for the driver and all children.
func monoMS() int64 { return monoUS() / 1000 }

func monoUS() int64 {
	var ts syscall.Timespec
	syscall.Syscall(syscall.SYS_CLOCK_GETTIME, 1 /* CLOCK_MONOTONIC */, uintptr(unsafe.Pointer(&ts)), 0)
	return int64(ts.Sec)*1e6 + int64(ts.Nsec)/1e3
}

func main() {
	if len(os.Args) < 2 {
		fmt.Fprintln(os.Stderr, "usage: deadline run|child ...")
		os.Exit(3)
	}
	switch os.Args[1] {
	case "child":
		childMain(os.Args[2:])
	case "noop": // start-up cost probe
		return
	case "run", "viarun":
		fs := flag.NewFlagSet("run", flag.ExitOnError)
		ignquit := fs.Bool("ignquit", false, "ignore SIGQUIT in this process: its children start out ignoring it")
		tt := fs.String("testtimeout", "10m", "viarun: the test binary's own -test.timeout")
		plan := fs.String("plan", "", "cases (ndjson) emitted by TLC")
		traces := fs.String("traces", "", "observations (ndjson) for TLC")
		out := fs.String("out", "", "result json")
		work := fs.String("work", "", "scratch directory")
		par := fs.Int("par", 8, "RunT calls in flight")
		group := fs.Int("group", 8, "scripts per RunT call")
		smin := fs.Int("smin", 150, "base slack in ms")
		stagger := fs.Int("stagger", 30, "ms between the starts of two RunT calls")
		fs.Parse(os.Args[2:])
		if *ignquit {
			// (SIGINT too: whatever is sent to a command in its first moments finds it deaf, and it lives to report)
			signal.Ignore(syscall.SIGQUIT, syscall.SIGINT)
		}
		if os.Args[1] == "viarun" {
			os.MkdirAll(*work, 0o755)
			viaOut = filepath.Join(*work, "testout.txt")
			viaMain(*tt, func() { runMain(*plan, *traces, *out, *work, *par, *group, *smin, *stagger) })
			return
		}
		runMain(*plan, *traces, *out, *work, *par, *group, *smin, *stagger)
	default:
		fmt.Fprintln(os.Stderr, "unknown mode", os.Args[1])
		os.Exit(3)
	}
}
