package main

import (
	"bufio"
	"encoding/json"
	"fmt"
	"net"
	"os"
	"path/filepath"
	"sort"
	"strconv"
	"strings"
	"sync"
	"syscall"
	"time"

	"github.com/rogpeppe/go-internal/testscript"

	"verifharness/vutil"
)

// Case is one line of the plan TLC emitted (MC_DeadlinePlan): times in ms.
type Case struct {
	ID     int    `json:"id"`
	Label  string `json:"label"` // blocked | early | boundary | grace  (intended class, informational)
	D      int64  `json:"D"`
	X      int64  `json:"x"`     // the child leaves on its own at t0 + x (-1: never)
	OnInt  string `json:"onint"` // die | ignore
	OK     bool   `json:"ok"`
	Neg    bool   `json:"neg"`
	After  int64  `json:"after"`  // > 0: second script of a sequential RunT call whose first script leaves at t0 + after
	Custom bool   `json:"custom"` // the program is run by a custom command through TestScript.Exec, not by the exec command
	Coe    bool   `json:"coe"`    // ContinueOnError: the script's first line is another blocked command, the case is its second line (it starts when the first was stopped, at `after`)
	Bg     bool   `json:"bg"`     // a background command that ignores SIGQUIT (but not SIGINT) runs beside the case's command
	Ign    bool   `json:"ign"`    // run by a driver that ignores SIGQUIT itself (children start out ignoring it); informational
	Via    string `json:"via"`    // "run": through testscript.Run with a real *testing.T (informational: the whole driver runs in that mode)
}

// Obs is one observation, the record DeadlineL1 judges (field names as in the spec).
type Obs struct {
	ID       int    `json:"id"`
	Label    string `json:"label"`
	D        int64  `json:"D"`
	X        int64  `json:"x"`
	OnInt    string `json:"onint"`
	OK       bool   `json:"ok"`
	Neg      bool   `json:"neg"`
	After    int64  `json:"after"`
	Via      string `json:"via"`
	Ign      bool   `json:"ign"`
	Custom   bool   `json:"custom"`
	Coe      bool   `json:"coe"`
	Bg       bool   `json:"bg"`
	PrevEnd  int64  `json:"prevend"` // last sign of life of what ran in front of a late starter (-1: nothing did)
	Start    int64  `json:"start"`
	Sig      int64  `json:"sig"`
	SelfExit int64  `json:"selfexit"`
	Last     int64  `json:"last"`
	Done     int64  `json:"done"`
	RunDone  int64  `json:"rundone"`
	Hung     bool   `json:"hung"`
	Verdict  string `json:"verdict"`
	Msg      string `json:"msg"`
	Alive    bool   `json:"alive"`
	S        int64  `json:"s"`
	SRun     int64  `json:"srun"`
	// informational (drift / replay), not judged
	Jit     int64  `json:"jit"`
	Gap     int64  `json:"gap"` // longest silence of the helper between two stamps (it beats every 5 ms)
	Beats   int    `json:"beats"`
	SigName string `json:"signame"`
	Pid     int    `json:"pid"`
	Group   int    `json:"group"`
	Flags   string `json:"flags"`
	CLog    string `json:"clog"` // the helper's own log, first lines
	Log     string `json:"log"`
}

// ---- testscript.T ----

type sentinel string

const (
	failNow sentinel = "verif: FailNow"
	skipNow sentinel = "verif: Skip"
)

type subT struct {
	mu      sync.Mutex
	log     strings.Builder
	failed  bool
	skipped bool
	doneAt  int64 // monoUS, 0 = not finished
	root    *rootT
}

func (t *subT) Skip(a ...any)  { t.Log(a...); panic(skipNow) }
func (t *subT) Fatal(a ...any) { t.Log(a...); panic(failNow) }
func (t *subT) Parallel()      {}
func (t *subT) FailNow()       { panic(failNow) }
func (t *subT) Verbose() bool  { return false }
func (t *subT) Log(a ...any) {
	t.mu.Lock()
	fmt.Fprintln(&t.log, a...)
	t.mu.Unlock()
}
func (t *subT) Run(name string, f func(testscript.T)) { t.root.Run(name, f) }

type rootT struct {
	subT
	mu   sync.Mutex
	subs map[string]*subT
	wg   sync.WaitGroup
	seq  bool // run subtests one after the other (Parallel is a no-op, as in cmd/testscript's runner)
}

// Run starts the subtest and returns at once: every subtest of RunT calls Parallel first.
// With seq set it runs the subtest to its end before it returns.
func (r *rootT) Run(name string, f func(testscript.T)) {
	st := &subT{root: r}
	r.mu.Lock()
	r.subs[name] = st
	r.mu.Unlock()
	r.wg.Add(1)
	run := func(g func()) { go g() }
	if r.seq {
		run = func(g func()) { g() }
	}
	run(func() {
		defer r.wg.Done()
		defer func() {
			e := recover()
			st.mu.Lock()
			switch e {
			case nil:
			case failNow:
				st.failed = true
			case skipNow:
				st.skipped = true
			default:
				st.failed = true
				fmt.Fprintf(&st.log, "PANIC: %v\n", e)
			}
			st.doneAt = monoUS()
			st.mu.Unlock()
		}()
		f(st)
	})
}

// ---- scheduling jitter monitor ----

type jitterMon struct {
	mu   sync.Mutex
	at   []int64 // monoUS
	over []int64 // us
	stop chan struct{}
}

func startJitter(dir string) *jitterMon {
	j := &jitterMon{stop: make(chan struct{})}
	add := func(at, over int64) {
		j.mu.Lock()
		// keep `at` sorted although two goroutines append
		k := len(j.at)
		j.at = append(j.at, at)
		j.over = append(j.over, over)
		for k > 0 && j.at[k-1] > at {
			j.at[k], j.at[k-1] = j.at[k-1], j.at[k]
			j.over[k], j.over[k-1] = j.over[k-1], j.over[k]
			k--
		}
		j.mu.Unlock()
	}
	stopped := func() bool {
		select {
		case <-j.stop:
			return true
		default:
			return false
		}
	}
	go func() { // CPU: how late does a 5 ms sleep wake up
		for !stopped() {
			a := monoUS()
			time.Sleep(5 * time.Millisecond)
			b := monoUS()
			add(b, b-a-5000)
		}
	}()
	go func() { // file system: how long do a small write and a remove take (scripts and helpers do both)
		p := filepath.Join(dir, ".iomon")
		for !stopped() {
			a := monoUS()
			os.WriteFile(p, []byte("0123456789abcdef0123456789abcdef"), 0o644)
			os.Remove(p)
			b := monoUS()
			add(b, b-a)
			time.Sleep(20 * time.Millisecond)
		}
	}()
	return j
}

// maxOver returns the largest scheduling / file system delay (ms, rounded up) seen in [from, to] (monoUS).
func (j *jitterMon) maxOver(from, to int64) int64 {
	j.mu.Lock()
	defer j.mu.Unlock()
	var m int64
	i := sort.Search(len(j.at), func(i int) bool { return j.at[i] >= from })
	for ; i < len(j.at) && j.at[i] <= to+10000; i++ {
		if j.over[i] > m {
			m = j.over[i]
		}
	}
	return (m + 999) / 1000
}

// spawnBaseline times n trivial runs of this binary (start to exit), in ms.
func spawnBaseline(self string, n int) (max int64, all []int64) {
	for i := 0; i < n; i++ {
		a := monoUS()
		p, err := os.StartProcess(self, []string{self, "noop"}, &os.ProcAttr{Files: []*os.File{nil, nil, os.Stderr}})
		if err != nil {
			vutil.Fatalf("cannot start helper: %v", err)
		}
		p.Wait()
		d := (monoUS() - a + 999) / 1000
		all = append(all, d)
		if d > max {
			max = d
		}
	}
	return
}

// ---- one RunT call ----

type group struct {
	id    int
	D     int64
	cases []Case
	after int64 // > 0: sequential T, one early script in front of the (single) case
}

// classify reads the failure message (the "FAIL:" line of the script log, script path removed)
// and sorts it into the classes DeadlineL1 knows; the exact wording is not judged.
func classify(log, script string) (msg, flags string) {
	var fail []string
	for _, l := range strings.Split(log, "\n") {
		if strings.HasPrefix(l, "FAIL:") {
			fail = append(fail, strings.ToLower(strings.ReplaceAll(l, script, "")))
		}
	}
	f := strings.Join(fail, "\n")
	has := func(s string) bool { return strings.Contains(f, s) }
	switch {
	case has("timed out") || has("time out") || has("timeout") || has("timed-out") || has("deadline"):
		msg = "timedout"
	case has("unexpected command failure"):
		msg = "cmdfail"
	case has("unexpected command success"):
		msg = "cmdsuccess"
	case len(fail) > 0:
		msg = "other"
	default:
		msg = "none"
	}
	var fl []string
	for _, s := range []string{"test timed out while running command", "context deadline exceeded", "signal: killed", "signal: quit",
		"exit status", "unexpected command failure", "unexpected command success", "PASS"} {
		if strings.Contains(log, s) {
			fl = append(fl, s)
		}
	}
	return msg, strings.Join(fl, "|")
}

type childLog struct {
	start, sig, selfexit, last int64
	gap                        int64 // longest silence between two stamps (ms)
	beats                      int
	pid                        int
	signame                    string
	raw                        string
	closed                     bool // the helper's connection reached EOF: nothing more will come
}

// collector receives the helpers' stamps over a unix socket.
type collector struct {
	mu   sync.Mutex
	t0   map[int]int64 // case id -> monoUS at which its RunT call was made
	logs map[int]*childLog
	ln   net.Listener
	path string
}

func newCollector(path string) *collector {
	ln, err := net.Listen("unix", path)
	if err != nil {
		vutil.Fatalf("listen %s: %v", path, err)
	}
	c := &collector{t0: map[int]int64{}, logs: map[int]*childLog{}, ln: ln, path: path}
	go func() {
		for {
			conn, err := ln.Accept()
			if err != nil {
				return
			}
			go c.serve(conn)
		}
	}()
	return c
}

func (c *collector) serve(conn net.Conn) {
	var mine *childLog
	defer func() {
		conn.Close()
		if mine != nil {
			c.mu.Lock()
			mine.closed = true
			c.mu.Unlock()
		}
	}()
	sc := bufio.NewScanner(conn)
	if !sc.Scan() {
		return
	}
	h := strings.Fields(sc.Text())
	if len(h) != 3 || h[0] != "hello" {
		return
	}
	id, _ := strconv.Atoi(h[1])
	pid, _ := strconv.Atoi(h[2])
	c.mu.Lock()
	t0, ok := c.t0[id]
	cl := &childLog{start: -1, sig: -1, selfexit: -1, last: -1, pid: pid}
	if ok {
		c.logs[id] = cl
		mine = cl
	}
	c.mu.Unlock()
	if !ok {
		return
	}
	fmt.Fprintf(conn, "t0 %d\n", t0)
	for sc.Scan() {
		p := strings.Fields(sc.Text())
		if len(p) < 3 {
			continue
		}
		t, err := strconv.ParseInt(p[1], 10, 64)
		if err != nil {
			continue
		}
		c.mu.Lock()
		if cl.last >= 0 && t-cl.last > cl.gap {
			cl.gap = t - cl.last
		}
		if t > cl.last {
			cl.last = t
		}
		switch p[0] {
		case "start":
			cl.start = t
		case "beat":
			cl.beats++
		case "sig":
			if cl.sig < 0 {
				cl.sig = t
				cl.signame = p[2]
			}
		case "exit":
			cl.selfexit = t
		}
		if p[0] != "beat" && len(cl.raw) < 300 {
			cl.raw += sc.Text() + ";"
		}
		c.mu.Unlock()
	}
}

func (c *collector) get(id int) childLog {
	c.mu.Lock()
	defer c.mu.Unlock()
	if cl, ok := c.logs[id]; ok {
		return *cl
	}
	return childLog{start: -1, sig: -1, selfexit: -1, last: -1}
}

func runGroup(g group, self, work string, col *collector, jm *jitterMon, spawnMax int64, smin int, tw *vutil.NDJSONWriter, res *vutil.Result) {
	dir := filepath.Join(work, fmt.Sprintf("g%d", g.id))
	if err := os.MkdirAll(dir, 0o755); err != nil {
		vutil.Fatalf("mkdir: %v", err)
	}
	var files []string
	names := make([]string, len(g.cases))
	for i, c := range g.cases {
		names[i] = fmt.Sprintf("c%d", c.ID)
		status := 0
		if !c.OK {
			status = 1
		}
		verb := "exec"
		if c.Custom {
			verb = "cexec"
		}
		line := fmt.Sprintf("%s %s child -sock %s -id %d -x %d -onint %s -status %d\n",
			verb, self, col.path, c.ID, c.X, c.OnInt, status)
		if c.Neg {
			line = "! " + line
		}
		if c.Coe {
			// (ContinueOnError) a blocked command in front, stopped when the interrupt is due: the case's command starts then
			line = fmt.Sprintf("exec %s child -sock %s -id %d -x -1 -onint die -status 0\n", self, col.path, 1000000+c.ID) + line
		}
		if c.Bg {
			line = fmt.Sprintf("exec %s child -sock %s -id %d -x -1 -onint quitonly -status 0 &\n", self, col.path, 2000000+c.ID) + line
		}
		p := filepath.Join(dir, names[i]+".txt")
		if err := os.WriteFile(p, []byte(line), 0o644); err != nil {
			vutil.Fatalf("write script: %v", err)
		}
		files = append(files, p)
	}
	root := &rootT{subs: map[string]*subT{}, seq: g.after > 0 && !g.cases[0].Coe}
	root.subT.root = root
	runFiles := files
	predID := 0
	if g.cases[0].Coe {
		predID = 1000000 + g.cases[0].ID
	} else if g.after > 0 {
		predID = 1000000 + g.cases[0].ID
		p := filepath.Join(dir, fmt.Sprintf("a%d.txt", g.cases[0].ID))
		// the script in front leaves on its own at `after`; when that is later than the interrupt it has to sit the
		// interrupt out
		predInt := "die"
		if gr := max(100, g.D/20); g.after >= g.D-2*gr {
			predInt = "ignore"
		}
		line := fmt.Sprintf("exec %s child -sock %s -id %d -x %d -onint %s -status 0\n", self, col.path, predID, g.after, predInt)
		if err := os.WriteFile(p, []byte(line), 0o644); err != nil {
			vutil.Fatalf("write script: %v", err)
		}
		runFiles = append([]string{p}, files...)
	}

	// ---- the call under observation ----
	t0 := monoUS()
	col.mu.Lock()
	for _, c := range g.cases {
		col.t0[c.ID] = t0
	}
	if predID != 0 {
		col.t0[predID] = t0
	}
	if g.cases[0].Bg {
		col.t0[2000000+g.cases[0].ID] = t0
	}
	col.mu.Unlock()
	deadline := time.Now().Add(time.Duration(g.D)*time.Millisecond - time.Duration(monoUS()-t0)*time.Microsecond)
	runTdone := make(chan struct{})
	go func() {
		defer close(runTdone)
		defer func() {
			if e := recover(); e != nil {
				root.Log(fmt.Sprint("PANIC in RunT: ", e))
				root.failed = true
			}
		}()
		if viaT != nil {
			viaRun(root, g, runFiles, deadline)
			return
		}
		testscript.RunT(root, testscript.Params{Files: runFiles, Deadline: deadline, ContinueOnError: g.cases[0].Coe, Cmds: customCmds})
	}()
	allDone := make(chan struct{})
	go func() {
		<-runTdone
		root.wg.Wait()
		close(allDone)
	}()
	var runDone int64
	select {
	case <-allDone:
		runDone = monoUS()
	case <-time.After(time.Duration(g.D)*time.Millisecond + 6*time.Second):
		runDone = monoUS() // hung: the unfinished subtests are marked below
	}
	rel := func(us int64) int64 { return (us - t0) / 1000 }

	// the slack of an observation covers the delays measured while it was being taken: up to the end of its own
	// subtest (srun: up to the end of the whole run), never beyond D + 1 s (a hung run is not "busy", it is hung)
	capUS := t0 + (g.D+1000)*1000
	window := func(end int64) (jit, slack int64) {
		if end <= 0 || end > capUS {
			end = capUS
		}
		jit = jm.maxOver(t0, end)
		return jit, int64(smin) + 3*jit + spawnMax
	}
	_, srun := window(runDone)
	// let the collector drain what the helpers sent before they died (their connections reach EOF),
	// and a straggling process table entry settle before looking for survivors
	for wait := 0; wait < 60; wait++ {
		time.Sleep(10 * time.Millisecond)
		open := 0
		col.mu.Lock()
		for _, c := range g.cases {
			if cl, ok := col.logs[c.ID]; ok && !cl.closed {
				open++
			}
		}
		col.mu.Unlock()
		if open == 0 {
			break
		}
	}
	prevEnd := int64(-1)
	if predID != 0 {
		if pl := col.get(predID); pl.selfexit >= 0 {
			prevEnd = pl.selfexit
		} else {
			prevEnd = pl.last
		}
	}
	bgAlive := false
	if g.cases[0].Bg {
		if bl := col.get(2000000 + g.cases[0].ID); bl.pid > 0 && stillOurs(bl.pid, col.path, 2000000+g.cases[0].ID) {
			bgAlive = true
			syscall.Kill(bl.pid, syscall.SIGKILL)
		}
	}
	for i, c := range g.cases {
		cl := col.get(c.ID)
		root.mu.Lock()
		st := root.subs[names[i]]
		root.mu.Unlock()
		o := Obs{ID: c.ID, Label: c.Label, D: g.D, X: c.X, OnInt: c.OnInt, OK: c.OK, Neg: c.Neg, After: c.After, Via: c.Via, Ign: c.Ign, Custom: c.Custom, Coe: c.Coe, Bg: c.Bg, PrevEnd: prevEnd,
			Start: cl.start, Sig: cl.sig, SelfExit: cl.selfexit, Last: cl.last, RunDone: rel(runDone),
			SRun: srun, Gap: cl.gap, Beats: cl.beats, CLog: cl.raw, SigName: cl.signame, Pid: cl.pid, Group: g.id, Verdict: "none", Msg: "none", Done: -1}
		if o.SigName == "" {
			o.SigName = "-"
		}
		if bgAlive {
			o.Alive = true
			res.Count("children_alive_after_run", 1)
		}
		if cl.pid > 0 && stillOurs(cl.pid, col.path, c.ID) {
			o.Alive = true
			res.Count("children_alive_after_run", 1)
		}
		var end int64
		if st != nil {
			st.mu.Lock()
			end = st.doneAt
			st.mu.Unlock()
		}
		o.Jit, o.S = window(end)
		if st == nil {
			o.Hung = true
			o.Log = "subtest never started"
		} else {
			st.mu.Lock()
			fin := st.doneAt != 0
			if fin {
				o.Done = rel(st.doneAt)
				switch {
				case st.failed:
					o.Verdict = "fail"
				case st.skipped:
					o.Verdict = "skip"
				default:
					o.Verdict = "pass"
				}
				o.Log = st.log.String()
				o.Msg, o.Flags = classify(o.Log, files[i])
				if len(o.Log) > 1500 {
					o.Log = o.Log[:700] + "\n...\n" + o.Log[len(o.Log)-700:]
				}
				if o.Verdict == "fail" && o.Msg == "none" {
					o.Msg = "other"
				}
			} else {
				o.Hung = true
				o.Done = rel(runDone)
				o.Log = "subtest did not finish within D + 6 s"
			}
			st.mu.Unlock()
		}
		if o.Flags == "" {
			o.Flags = "-"
		}
		// hygiene: nothing of ours may outlive the driver
		if o.Alive {
			syscall.Kill(cl.pid, syscall.SIGKILL)
		}
		res.Eval(o.Start >= 0)
		if o.Start < 0 {
			res.Count("child_never_started", 1)
		}
		if o.Hung {
			res.Count("hung", 1)
		}
		res.Count("label:"+c.Label, 1)
		res.Sample(o, 6)
		tw.Write(o)
	}
}

// stillOurs reports whether pid is still the helper of case id.  The pid alone is not enough:
// on a busy machine it is reused within seconds, so the command line is compared.
func stillOurs(pid int, sock string, id int) bool {
	b, err := os.ReadFile(fmt.Sprintf("/proc/%d/cmdline", pid))
	if err != nil {
		return false
	}
	a := strings.Split(string(b), "\x00")
	hasSock, hasID := false, false
	for i := range a {
		if a[i] == sock {
			hasSock = true
		}
		if a[i] == "-id" && i+1 < len(a) && a[i+1] == strconv.Itoa(id) {
			hasID = true
		}
	}
	return hasSock && hasID
}

func runMain(plan, traces, out, work string, par, groupSize, smin, stagger int) {
	self, err := os.Executable()
	if err != nil {
		vutil.Fatalf("executable: %v", err)
	}
	if err := os.MkdirAll(work, 0o755); err != nil {
		vutil.Fatalf("mkdir: %v", err)
	}
	res := vutil.NewResult()
	var cases []Case
	vutil.ReadNDJSON(plan, func(line []byte) {
		var c Case
		if err := json.Unmarshal(line, &c); err != nil {
			vutil.Fatalf("bad plan line: %v", err)
		}
		cases = append(cases, c)
	})
	// groups: cases of one D, shuffled by the seed, groupSize per RunT call
	rng := vutil.Rand(17)
	rng.Shuffle(len(cases), func(i, j int) { cases[i], cases[j] = cases[j], cases[i] })
	byD := map[int64][]Case{}
	var groups []group
	for _, c := range cases {
		if c.After > 0 || c.Coe || c.Bg {
			groups = append(groups, group{D: c.D, cases: []Case{c}, after: c.After})
			res.Count("late_starting_scripts", 1)
			continue
		}
		byD[c.D] = append(byD[c.D], c)
	}
	for d, cs := range byD {
		for i := 0; i < len(cs); i += groupSize {
			j := i + groupSize
			if j > len(cs) {
				j = len(cs)
			}
			groups = append(groups, group{D: d, cases: cs[i:j]})
		}
	}
	// longest first keeps the lanes busy; ties by first case id for determinism
	sort.Slice(groups, func(i, j int) bool {
		if groups[i].D != groups[j].D {
			return groups[i].D > groups[j].D
		}
		return groups[i].cases[0].ID < groups[j].cases[0].ID
	})
	for i := range groups {
		groups[i].id = i
	}

	spawnMax, spawnAll := spawnBaseline(self, 12)
	res.Extra["spawn_baseline_ms"] = spawnAll
	jm := startJitter(work)
	col := newCollector(filepath.Join(work, "sock"))
	tw := vutil.NewNDJSONWriter(traces)
	sem := make(chan struct{}, par)
	var wg sync.WaitGroup
	t0 := time.Now()
	for _, g := range groups {
		sem <- struct{}{}
		wg.Add(1)
		go func(g group) {
			defer wg.Done()
			defer func() { <-sem }()
			runGroup(g, self, work, col, jm, spawnMax, smin, tw, res)
		}(g)
		time.Sleep(time.Duration(stagger) * time.Millisecond) // do not fork everything at the same moment
	}
	wg.Wait()
	close(jm.stop)
	col.ln.Close()
	tw.Close()
	res.Count("runT_calls", int64(len(groups)))
	res.Count("scripts", int64(len(cases)))
	res.Extra["wall_ms"] = time.Since(t0).Milliseconds()
	res.Extra["max_sleep_overshoot_ms"] = jm.maxOver(0, monoUS())
	res.Extra["spawn_baseline_max_ms"] = spawnMax
	res.Write(out)
}

// customCmds: cexec runs a program the way custom commands do, through TestScript.Exec.
var customCmds = map[string]func(ts *testscript.TestScript, neg bool, args []string){
	"cexec": func(ts *testscript.TestScript, neg bool, args []string) {
		if len(args) < 1 {
			ts.Fatalf("usage: cexec program [args...]")
		}
		err := ts.Exec(args[0], args[1:]...)
		if err != nil && !neg {
			ts.Fatalf("cexec: %v", err)
		}
		if err == nil && neg {
			ts.Fatalf("cexec: unexpected command success")
		}
	},
}
