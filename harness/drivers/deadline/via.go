package main

// Mode viarun: the same plan, the same helpers and the same observations as
// mode run, but every call under observation is testscript.Run with a real
// *testing.T (the entry point users call) instead of RunT with the driver's
// own T.  Run hands Params.Deadline on to RunT; the test binary's own
// deadline (-test.timeout) is far later than every planned deadline, so a
// script must be stopped by Params.Deadline, not by the binary's.
//
// The driver runs as the only test of testing.Main.  The log of a
// script is read from the verbose test output (redirected into a file), the
// verdict (T.Failed / T.Skipped) and the moment it ended are taken by a function
// registered with Env.Defer.

import (
	"fmt"
	"os"
	"path/filepath"
	"regexp"
	"strings"
	"testing"
	"time"

	"github.com/rogpeppe/go-internal/testscript"
)

var (
	viaT   *testing.T
	viaOut string // the test binary's stdout
)

func viaMain(testTimeout string, body func()) {
	f, err := os.Create(viaOut)
	if err != nil {
		fmt.Fprintln(os.Stderr, "viarun:", err)
		os.Exit(3)
	}
	os.Stdout = f
	os.Args = []string{os.Args[0], "-test.timeout=" + testTimeout, "-test.v=true", "-test.parallel=1024"}
	ran := false
	testing.Main(func(pat, str string) (bool, error) { return true, nil },
		[]testing.InternalTest{{Name: "TestVia", F: func(t *testing.T) {
			viaT = t
			ran = true
			body()
			os.Stdout.Sync()
			os.Exit(0) // the scripts' verdicts are observations, not this program's result
		}}}, nil, nil)
	_ = ran
}

type failedT interface {
	Failed() bool
	Skipped() bool
}

// viaRun makes the call under observation and fills root.subs from what the real T reported.
func viaRun(root *rootT, g group, files []string, deadline time.Time) {
	gname := fmt.Sprintf("g%d", g.id)
	viaT.Run(gname, func(gt *testing.T) {
		testscript.Run(gt, testscript.Params{Files: files, Deadline: deadline, ContinueOnError: g.cases[0].Coe, Cmds: customCmds, Setup: func(e *testscript.Env) error {
			name := strings.TrimPrefix(filepath.Base(e.WorkDir), "script-")
			st := &subT{root: root}
			root.mu.Lock()
			root.subs[name] = st
			root.mu.Unlock()
			t := e.T()
			e.Defer(func() {
				st.mu.Lock()
				if ft, ok := t.(failedT); ok {
					st.failed, st.skipped = ft.Failed(), ft.Skipped()
				}
				st.doneAt = monoUS()
				st.mu.Unlock()
			})
			return nil
		}})
	})
	// verdicts and logs as the testing package printed them
	verdict, logs := parseTestOutput(viaOut, "TestVia/"+gname+"/")
	root.mu.Lock()
	defer root.mu.Unlock()
	for name, st := range root.subs {
		st.mu.Lock()
		if v, ok := verdict[name]; ok {
			st.failed, st.skipped = v == "FAIL", v == "SKIP"
		} // else: the testing package prints the verdict lines of subtests when the top-level test ends; Failed() at Defer time stands
		st.log.WriteString(logs[name])
		st.mu.Unlock()
	}
}

var (
	reState   = regexp.MustCompile(`^=== (RUN|PAUSE|CONT|NAME)\s+(\S+)`)
	reVerdict = regexp.MustCompile(`^\s*--- (FAIL|PASS|SKIP): (\S+) \(`)
)

// parseTestOutput returns verdict and log lines (indentation removed) of the tests whose name starts with prefix.
func parseTestOutput(path, prefix string) (map[string]string, map[string]string) {
	verdict, logs := map[string]string{}, map[string]string{}
	b, _ := os.ReadFile(path)
	cur := ""
	for _, l := range strings.Split(string(b), "\n") {
		if m := reState.FindStringSubmatch(l); m != nil {
			cur = m[2]
			continue
		}
		if m := reVerdict.FindStringSubmatch(l); m != nil {
			cur = m[2]
			if strings.HasPrefix(cur, prefix) {
				verdict[strings.TrimPrefix(cur, prefix)] = m[1]
			}
			continue
		}
		if strings.HasPrefix(cur, prefix) {
			logs[strings.TrimPrefix(cur, prefix)] += strings.TrimSpace(l) + "\n"
		}
	}
	return verdict, logs
}
