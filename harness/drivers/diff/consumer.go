package main

// Mode consumer: the diff a failing cmp / cmpenv writes to the script log
// (testscript/cmd.go, the consumer named by the property) must be a diff of
// the two texts that were compared: for cmpenv that is file2 after expansion.
// The driver runs real scripts through testscript.RunT, cuts the diff out of
// the failure log and records it exactly like a direct Diff call; TLC replays
// it through the patch machine.  A log without a recognisable diff is drift.

import (
	"fmt"
	"math/rand"
	"os"
	"path/filepath"
	"strings"
	"sync"

	"verifharness/vutil"

	"github.com/rogpeppe/go-internal/testscript"
)

type sentinel string

const (
	failSentinel sentinel = "verif: FailNow"
	skipSentinel sentinel = "verif: Skip"
)

type recT struct {
	mu      sync.Mutex
	log     strings.Builder
	verdict string
}

func (t *recT) Skip(a ...any)  { t.Log(a...); panic(skipSentinel) }
func (t *recT) Fatal(a ...any) { t.Log(a...); t.FailNow() }
func (t *recT) Parallel()      {}
func (t *recT) Log(a ...any) {
	t.mu.Lock()
	t.log.WriteString(fmt.Sprint(a...))
	t.log.WriteString("\n")
	t.mu.Unlock()
}
func (t *recT) FailNow()      { panic(failSentinel) }
func (t *recT) Verbose() bool { return false }
func (t *recT) Run(name string, f func(testscript.T)) {
	defer func() {
		switch e := recover(); e {
		case nil:
			if t.verdict == "" {
				t.verdict = "pass"
			}
		case failSentinel:
			t.verdict = "fail"
		case skipSentinel:
			t.verdict = "skip"
		default:
			t.verdict = "panic: " + fmt.Sprint(e)
		}
	}()
	f(t)
}

// lines whose expansion differs from their text (cmpenv); V and W are set by the script
var envLines = [][2]string{{"$V", "val"}, {"${V}", "val"}, {"x $W y", "x w w y"}, {"$V$W", "valw w"}, {"${W}%d", "w w%d"}, {"-$V", "-val"}, {"+${V}", "+val"}}

func expandLine(s string) string {
	for _, e := range envLines {
		if e[0] == s {
			return e[1]
		}
	}
	return s
}

func modeConsumer(count int, trace, tmp string) {
	recs := make([]*record, count)
	seeds := make([]int64, count)
	master := vutil.Rand(81)
	for i := range seeds {
		seeds[i] = master.Int63()
	}
	vutil.ParallelN(count, func(k int) {
		g := &gen{r: rand.New(rand.NewSource(seeds[k])), intern: map[string]int{}}
		r := g.r
		cmd := []string{"cmp", "cmpenv", "cmpenv", "stdout"}[k%4]
		// short texts over a small pool so that changed lines and context both occur
		p := g.pool(3+r.Intn(6), 0.6)
		if cmd == "cmpenv" {
			for i := 0; i < 3; i++ {
				p = append(p, g.id(envLines[r.Intn(len(envLines))][0]))
			}
		}
		var o []int
		for i, m := 0, r.Intn(14); i < m; i++ {
			o = append(o, p[r.Intn(len(p))])
		}
		fresh := 0
		n := g.edit(o, p, 1+r.Intn(4), &fresh)
		if k == 0 {
			// one very large comparison: a diff of about 2 MB has to be logged as completely as a small one
			o, n = nil, nil
			pad := strings.Repeat(".", 1500)
			for i := 0; i < 500; i++ {
				o = append(o, g.id(fmt.Sprintf("old line %06d %s", i, pad)))
				n = append(n, g.id(fmt.Sprintf("new line %06d %s", i, pad)))
			}
		}
		ot, nt := g.finish(o, r.Intn(3) == 0), g.finish(n, r.Intn(3) == 0)
		if cmd == "cmpenv" {
			// cmp reads the first file as it is: only the second one holds references
			for i := range ot {
				if s := g.tab[ot[i][0]-1]; expandLine(s) != s {
					ot[i][0] = g.id(expandLine(s))
				}
			}
		}
		recs[k] = consume(k, cmd, ot, nt, g, tmp)
	})
	var out []*record
	for _, r := range recs {
		if r != nil {
			out = append(out, r)
		}
	}
	writeRecords(trace, out)
	res.Extra["consumer_records"] = len(out)
}

func consume(k int, cmd string, o, n text, g *gen, tmp string) *record {
	dir := filepath.Join(tmp, fmt.Sprintf("c%d", k))
	if err := os.MkdirAll(filepath.Join(dir, "w"), 0o777); err != nil {
		vutil.Fatalf("%v", err)
	}
	defer os.RemoveAll(dir)
	ob, nb := render(o, g.tab), render(n, g.tab)
	name1, name2 := "have.txt", "want.txt"
	script := "env V=val\nenv 'W=w w'\n"
	switch cmd {
	case "stdout":
		script += "exec cat have.txt\ncmp stdout want.txt\n"
		name1 = "stdout"
	default:
		script += cmd + " have.txt want.txt\n"
	}
	file := filepath.Join(dir, "s.txtar")
	if err := os.WriteFile(file, []byte(script), 0o666); err != nil {
		vutil.Fatalf("%v", err)
	}
	t := &recT{}
	func() {
		defer func() {
			if e := recover(); e != nil {
				t.verdict = "panic: outside Run: " + fmt.Sprint(e)
			}
		}()
		testscript.RunT(t, testscript.Params{
			Files:       []string{file},
			WorkdirRoot: filepath.Join(dir, "w"),
			Setup: func(e *testscript.Env) error {
				if err := os.WriteFile(filepath.Join(e.WorkDir, "have.txt"), ob, 0o666); err != nil {
					return err
				}
				return os.WriteFile(filepath.Join(e.WorkDir, "want.txt"), nb, 0o666)
			},
		})
	}()
	// what cmp compares
	want := n
	if cmd == "cmpenv" {
		want = make(text, len(n))
		for i, l := range n {
			want[i] = [2]int{g.id(expandLine(g.tab[l[0]-1])), l[1]}
		}
	}
	wb := render(want, g.tab)
	differ := string(ob) != string(wb)
	res.Eval(differ && distinct(ob, wb))
	res.Count("consumer_"+cmd, 1)
	in := map[string]string{"cmd": cmd, "file1": string(ob), "file2": string(nb)}
	log := t.log.String()
	if !differ {
		if t.verdict != "pass" {
			res.DriftAdd(vutil.Finding{Kind: "consumer-verdict", What: "cmp of equal texts: " + t.verdict, Input: in, Detail: log})
		}
		return nil
	}
	if t.verdict != "fail" {
		res.DriftAdd(vutil.Finding{Kind: "consumer-verdict", What: "cmp of different texts: " + t.verdict + " (verdicts are C01's)", Input: in, Detail: log})
		return nil
	}
	// the diff is what the log holds between the echoed cmp line and the final FAIL line
	marker := "> " + script[strings.LastIndex(script[:len(script)-1], "\n")+1:]
	i := strings.LastIndex(log, marker)
	j := strings.LastIndex(log, "\nFAIL: ")
	if i < 0 || j < i {
		res.DriftAdd(vutil.Finding{Kind: "consumer-log-shape", What: "failure log has no echoed cmp line followed by FAIL:", Input: in, Detail: log})
		return nil
	}
	logged := log[i+len(marker) : j+1]
	if strings.HasSuffix(logged, "\n\n") {
		logged = logged[:len(logged)-1] // Logf ends what it is given with a newline of its own
	}
	hdr := strings.SplitN(logged, "\n", 4)
	var old, nw text
	var on, nn string
	switch {
	case len(hdr) >= 3 && hdr[1] == "--- "+name1 && hdr[2] == "+++ "+name2:
		old, nw, on, nn = o, want, name1, name2
	case len(hdr) >= 3 && hdr[1] == "--- "+name2 && hdr[2] == "+++ "+name1:
		old, nw, on, nn = want, o, name2, name1
		res.DriftAdd(vutil.Finding{Kind: "consumer-direction", What: "cmp logs the diff from file2 to file1", Input: in})
	default:
		res.DriftAdd(vutil.Finding{Kind: "consumer-log-shape", What: "failure log holds no unified diff naming the two files", Input: in, Detail: log})
		return nil
	}
	r := &record{On: on, Nn: nn, Old: old, New: nw, Tab: g.tab, H: []string{"", "", ""}, Ev: [][]int{}}
	if r.Old == nil {
		r.Old = text{}
	}
	if r.New == nil {
		r.New = text{}
	}
	intern := make(map[string]int, len(g.tab))
	for i, s := range g.tab {
		intern[s] = i + 1
	}
	tk := tokenize([]byte(logged), intern)
	r.H = tk.hdr
	r.Ev = tk.ev
	r.Tab = g.tab
	res.Count("hunks", int64(tk.hunks))
	res.Count("events", int64(len(tk.ev)))
	res.Count("consumer_diffs", 1)
	res.Sample(map[string]interface{}{"cmd": cmd, "file1": string(ob), "file2": string(nb), "logged": logged}, 2)
	return r
}
