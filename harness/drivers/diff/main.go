// Driver for C08: runs the REAL diff.Diff on pairs of texts and records, per
// call, what TLC needs to replay the returned diff as a behaviour of the
// patch-application machine (spec/diff/PatchApply.tla, Trace_PatchApply.tla):
// the two texts as <<id, nl>> lines, whether nothing was returned, the three
// header lines and the remaining output tokenised into machine events.
//
// The driver does NOT judge the diff: acceptance is decided by TLC.  The
// tokeniser is driven by the counts declared in the hunk headers, so content
// lines that look like diff syntax cannot confuse it; whatever it cannot read
// becomes a Junk event, which the machine rejects.
//
// Modes:
//
//	d1      enumerate D1(V,N) by index (order defined in DiffDomain.tla; TLC checks
//	        every record against PairAt) and write records lo..hi
//	cases   read TLC-emitted pairs (D2, MC_DiffDomain) and write one record each
//	random  D3: seeded random texts (duplicates, diff-syntax look-alikes, long files)
//	consumer  the diff a failing cmp / cmpenv logs (testscript/cmd.go), cut out of the real failure log
//	show    print the real diff and its events for one pair (replay of a finding)
package main

import (
	"encoding/hex"
	"encoding/json"
	"flag"
	"fmt"
	"hash/fnv"
	"os"
	"strings"
	"sync"
	"unicode/utf8"

	"verifharness/vutil"

	"github.com/rogpeppe/go-internal/diff"
)

// event kinds, as in PatchApply.tla
const (
	evHeader = 0
	evBegin  = 1
	evCtx    = 2
	evDel    = 3
	evAdd    = 4
	evEnd    = 5
	evFinish = 6
	evJunk   = 7
)

// A line is (id, nl); the content of id is given by a table.
type text [][2]int

type record struct {
	D1    int      `json:"d1"` // index in D1 (0: not a D1 record)
	On    string   `json:"on"`
	Nn    string   `json:"nn"`
	Old   text     `json:"old"`
	New   text     `json:"new"`
	Panic int      `json:"panic"`
	Nil   int      `json:"nil"`
	H     []string `json:"h"`
	Ev    [][]int  `json:"ev"`
	Tab   tabT     `json:"tab"` // content of id k is Tab[k-1] (not read by TLC; for replay)
}

// tabT is the content table of a record.  JSON cannot carry arbitrary bytes in a string (invalid UTF-8 would be
// replaced), so such entries travel as "\x00hex:" + hexadecimal digits.
type tabT []string

const hexMark = "\x00hex:"

func (t tabT) MarshalJSON() ([]byte, error) {
	out := make([]string, len(t))
	for i, s := range t {
		if utf8.ValidString(s) && !strings.HasPrefix(s, hexMark) {
			out[i] = s
		} else {
			out[i] = hexMark + hex.EncodeToString([]byte(s))
		}
	}
	return json.Marshal(out)
}

func (t *tabT) UnmarshalJSON(b []byte) error {
	var in []string
	if err := json.Unmarshal(b, &in); err != nil {
		return err
	}
	for i, s := range in {
		if strings.HasPrefix(s, hexMark) {
			d, err := hex.DecodeString(s[len(hexMark):])
			if err != nil {
				return err
			}
			in[i] = string(d)
		}
	}
	*t = in
	return nil
}

func render(t text, tab []string) []byte {
	var b []byte
	for _, l := range t {
		b = append(b, tab[l[0]-1]...)
		if l[1] == 1 {
			b = append(b, '\n')
		}
	}
	return b
}

func safeDiff(on string, o []byte, nn string, n []byte) (out []byte, panicked interface{}) {
	defer func() {
		if r := recover(); r != nil {
			panicked = fmt.Sprint(r)
		}
	}()
	out = diff.Diff(on, o, nn, n)
	// what was returned stays what it is: a later call on the same goroutine (pooled or package-level storage comes
	// round again) must not reach into an earlier result
	diff.Diff("decoy-old", decoyOld, "decoy-new", decoyNew)
	return out, nil
}

var decoyOld, decoyNew = []byte("decoy 1\ndecoy 2\ndecoy 3\ndecoy 4\n"), []byte("decoy 1\nDECOY 2\ndecoy 3\ndecoy 5\ndecoy 6\n")

var (
	selfbug  = flag.String("selfbug", "", "corrupt the real output before tokenising (self-test of the oracle)")
	res      = vutil.NewResult()
	seenMu   sync.Mutex
	seenPair = map[uint64]struct{}{}
)

func distinct(o, n []byte) bool {
	h := fnv.New64a()
	h.Write(o)
	h.Write([]byte{0xff, 0})
	h.Write(n)
	k := h.Sum64()
	seenMu.Lock()
	defer seenMu.Unlock()
	if _, ok := seenPair[k]; ok {
		return false
	}
	seenPair[k] = struct{}{}
	return true
}

// evaluate runs the real Diff on one pair and builds the record.
func evaluate(d1 int, on, nn string, o, n text, tab []string) *record {
	ob, nb := render(o, tab), render(n, tab)
	out, p := safeDiff(on, ob, nn, nb)
	r := &record{D1: d1, On: on, Nn: nn, Old: o, New: n, Tab: tab, H: []string{"", "", ""}, Ev: [][]int{}}
	if r.Old == nil {
		r.Old = text{}
	}
	if r.New == nil {
		r.New = text{}
	}
	differ := string(ob) != string(nb)
	res.Eval(differ && distinct(ob, nb))
	if p != nil {
		r.Panic = 1
		res.Count("panics", 1)
		return r
	}
	if *selfbug != "" {
		out = corrupt(*selfbug, out)
	}
	if len(out) == 0 {
		r.Nil = 1
		if out != nil {
			res.DriftAdd(vutil.Finding{Kind: "empty-not-nil", What: "Diff returned an empty non-nil slice for identical texts",
				Input: map[string]string{"old": string(ob), "new": string(nb)}})
		}
		res.Count("nil_results", 1)
		return r
	}
	intern := make(map[string]int, len(tab))
	for i, s := range tab {
		intern[s] = i + 1
	}
	tk := tokenize(out, intern)
	r.H = tk.hdr
	r.Ev = tk.ev
	res.Count("hunks", int64(tk.hunks))
	res.Count("events", int64(len(tk.ev)))
	if tk.hunks > 1 {
		res.Count("multi_hunk_diffs", 1)
	}
	if tk.markers > 0 {
		res.Count("diffs_with_no_newline_marker", 1)
	}
	if tk.oddMarker != "" {
		res.DriftAdd(vutil.Finding{Kind: "marker-wording", What: "no-newline marker is not the BSD/GNU wording", Detail: tk.oddMarker})
	}
	if want := "diff " + on + " " + nn; tk.hdr[0] != want && len(tk.ev) > 0 && tk.ev[0][0] == evHeader {
		res.DriftAdd(vutil.Finding{Kind: "header-wording", What: "first header line is not \"diff OLD NEW\"", Detail: tk.hdr[0]})
	}
	if differ {
		res.Sample(map[string]interface{}{"old": string(ob), "new": string(nb), "diff": string(out)}, 6)
	}
	return r
}

func writeRecords(path string, recs []*record) {
	w := vutil.NewNDJSONWriter(path)
	for _, r := range recs {
		w.Write(r)
	}
	w.Close()
}

// ---- D1 -------------------------------------------------------------------

// allTexts mirrors TextsUpTo(V, N) of DiffDomain.tla: the empty text, then for
// L = 1..N every id sequence of length L (first line most significant), each
// with and then without the final newline.
func allTexts(v, n int) []text {
	ts := []text{{}}
	for l := 1; l <= n; l++ {
		total := 1
		for i := 0; i < l; i++ {
			total *= v
		}
		for s := 0; s < total; s++ {
			ids := make([]int, l)
			x := s
			for k := l - 1; k >= 0; k-- {
				ids[k] = x%v + 1
				x /= v
			}
			for _, nl := range []int{1, 0} {
				t := make(text, l)
				for k := range ids {
					t[k] = [2]int{ids[k], 1}
				}
				t[l-1][1] = nl
				ts = append(ts, t)
			}
		}
	}
	return ts
}

func modeD1(v, n, lo, hi int, trace string) {
	ts := allTexts(v, n)
	size := len(ts) * len(ts)
	if hi == 0 || hi > size {
		hi = size
	}
	tab := []string{"a", "b", "c", "d", "e", "f"}[:v]
	recs := make([]*record, hi-lo+1)
	vutil.ParallelN(len(recs), func(k int) {
		i := lo + k // 1-based index of the pair
		o := ts[(i-1)/len(ts)]
		nw := ts[(i-1)%len(ts)]
		recs[k] = evaluate(i, "old", "new", o, nw, tab)
	})
	writeRecords(trace, recs)
	res.Extra["d1_texts"] = len(ts)
	res.Extra["d1_size"] = size
	res.Extra["d1_lo"] = lo
	res.Extra["d1_hi"] = hi
}

// ---- D2 -------------------------------------------------------------------

func modeCases(cases, trace string) {
	type caseJ struct {
		Old text `json:"old"`
		New text `json:"new"`
	}
	var cs []caseJ
	vutil.ReadNDJSON(cases, func(line []byte) {
		var c caseJ
		if err := json.Unmarshal(line, &c); err != nil {
			vutil.Fatalf("bad case %q: %v", line, err)
		}
		cs = append(cs, c)
	})
	recs := make([]*record, len(cs))
	vutil.ParallelN(len(cs), func(k int) {
		max := 0
		for _, t := range []text{cs[k].Old, cs[k].New} {
			for _, l := range t {
				if l[0] > max {
					max = l[0]
				}
			}
		}
		tab := make([]string, max)
		for i := range tab {
			tab[i] = fmt.Sprintf("line %02d", i+1)
		}
		recs[k] = evaluate(0, "a/file.txt", "b/file.txt", cs[k].Old, cs[k].New, tab)
	})
	writeRecords(trace, recs)
}

// ---- show -------------------------------------------------------------------

func modeShow(in string) {
	b, err := os.ReadFile(in)
	if err != nil {
		vutil.Fatalf("%v", err)
	}
	var r record
	if err := json.Unmarshal(b, &r); err != nil {
		vutil.Fatalf("bad record: %v", err)
	}
	ob, nb := render(r.Old, r.Tab), render(r.New, r.Tab)
	out, p := safeDiff(r.On, ob, r.Nn, nb)
	if *selfbug != "" && p == nil {
		out = corrupt(*selfbug, out)
	}
	rr := evaluate(r.D1, r.On, r.Nn, r.Old, r.New, r.Tab)
	res.Extra["show"] = map[string]interface{}{"old": string(ob), "new": string(nb), "diff": string(out),
		"diff_is_nil": out == nil, "panic": p, "events": rr.Ev, "header": rr.H}
}

func main() {
	mode := flag.String("mode", "", "d1 | cases | random | show")
	out := flag.String("out", "", "result JSON")
	trace := flag.String("trace", "", "ndjson records for TLC")
	cases := flag.String("cases", "", "TLC-emitted pairs (mode cases) / record (mode show)")
	v := flag.Int("v", 3, "D1: line values")
	n := flag.Int("n", 4, "D1: max lines")
	lo := flag.Int("lo", 1, "D1: first pair index")
	hi := flag.Int("hi", 0, "D1: last pair index (0 = all)")
	count := flag.Int("count", 1000, "random / consumer: number of pairs")
	tmp := flag.String("tmp", "", "consumer: scratch directory")
	flag.Parse()
	if *out == "" {
		vutil.Fatalf("-out required")
	}
	switch *mode {
	case "d1":
		modeD1(*v, *n, *lo, *hi, *trace)
	case "cases":
		modeCases(*cases, *trace)
	case "random":
		modeRandom(*count, *trace)
	case "consumer":
		modeConsumer(*count, *trace, *tmp)
	case "show":
		modeShow(*cases)
	default:
		vutil.Fatalf("unknown mode %q", *mode)
	}
	res.Write(*out)
}
