package main

import (
	"fmt"
	"math/rand"

	"verifharness/vutil"
)

// contents that look like diff syntax (D3)
var lookalikes = []string{
	"-a", "+a", " a", "+++ b", "--- a", "+++ new", "--- old", "diff old new",
	"@@ -1 +1 @@", "@@ -1,0 +1,0 @@", "@@ -0,0 +1,3 @@", "@@", `\ No newline at end of file`, `\`,
	"", " ", "-", "+", "--", "++", "a\r", "\t", "é", "\x00", "- ", "+ ",
	// text that means something to a formatter
	"100%", "%d", "%%", "%[1]d", "%s %s", "a%", "%!d(MISSING)", "%v%v%v", "%-5d|", `%q`,
	// bytes that are not valid UTF-8 (Latin-1 text, a truncated sequence, lone continuation bytes)
	"\xff", "\xfe", "caf\xe9", "a\xc3", "\x80\x80", "\xef\xbf", "\xed\xa0\x80",
}

type gen struct {
	r      *rand.Rand
	tab    []string
	intern map[string]int
}

func (g *gen) id(s string) int {
	if v, ok := g.intern[s]; ok {
		return v
	}
	g.tab = append(g.tab, s)
	g.intern[s] = len(g.tab)
	return len(g.tab)
}

// finish turns id sequences into texts; nl = 0 only on a last, non-empty line.
func (g *gen) finish(ids []int, nonl bool) text {
	t := make(text, len(ids))
	for i, id := range ids {
		t[i] = [2]int{id, 1}
	}
	if nonl && len(t) > 0 && g.tab[t[len(t)-1][0]-1] != "" {
		t[len(t)-1][1] = 0
	}
	return t
}

func (g *gen) pool(k int, lookProb float64) []int {
	p := make([]int, 0, k)
	for len(p) < k {
		if g.r.Float64() < lookProb {
			p = append(p, g.id(lookalikes[g.r.Intn(len(lookalikes))]))
		} else {
			p = append(p, g.id(fmt.Sprintf("w%d", g.r.Intn(3*k+1))))
		}
	}
	return p
}

func (g *gen) edit(ids []int, pool []int, nedits int, fresh *int) []int {
	out := append([]int(nil), ids...)
	for e := 0; e < nedits; e++ {
		pos := 0
		if len(out) > 0 {
			pos = g.r.Intn(len(out) + 1)
		}
		run := 1 + g.r.Intn(3)
		switch op := g.r.Intn(7); {
		case op == 0 && len(out) > 0: // delete a run
			end := pos + run
			if end > len(out) {
				end = len(out)
			}
			out = append(out[:pos:pos], out[end:]...)
		case op == 1: // insert pool lines (duplicates)
			ins := make([]int, run)
			for i := range ins {
				ins[i] = pool[g.r.Intn(len(pool))]
			}
			out = append(out[:pos:pos], append(ins, out[pos:]...)...)
		case op == 2: // insert fresh lines
			ins := make([]int, run)
			for i := range ins {
				*fresh++
				ins[i] = g.id(fmt.Sprintf("fresh %d", *fresh))
			}
			out = append(out[:pos:pos], append(ins, out[pos:]...)...)
		case op == 3 && pos < len(out): // replace one line
			*fresh++
			out[pos] = g.id(fmt.Sprintf("fresh %d", *fresh))
		case op == 4 && pos < len(out): // duplicate a block right after itself
			end := pos + run
			if end > len(out) {
				end = len(out)
			}
			blk := append([]int(nil), out[pos:end]...)
			out = append(out[:end:end], append(blk, out[end:]...)...)
		case op == 5 && len(out) > 1: // move a line elsewhere
			i, j := g.r.Intn(len(out)), g.r.Intn(len(out))
			out[i], out[j] = out[j], out[i]
		case op == 6 && pos < len(out): // replace by a look-alike
			out[pos] = g.id(lookalikes[g.r.Intn(len(lookalikes))])
		}
	}
	return out
}

func (g *gen) pair(k int) (text, text) {
	r := g.r
	fresh := 0
	var o, n []int
	switch k % 5 {
	case 0: // two independent short texts over a tiny pool: many duplicates
		p := g.pool(2+r.Intn(4), 0.5)
		for i, m := 0, r.Intn(12); i < m; i++ {
			o = append(o, p[r.Intn(len(p))])
		}
		for i, m := 0, r.Intn(12); i < m; i++ {
			n = append(n, p[r.Intn(len(p))])
		}
	case 1, 2: // medium text, edited
		p := g.pool(3+r.Intn(20), 0.3)
		for i, m := 0, r.Intn(40); i < m; i++ {
			o = append(o, p[r.Intn(len(p))])
		}
		n = g.edit(o, p, 1+r.Intn(5), &fresh)
	case 3: // mostly unique lines, scattered edits: several hunks, 2- and 3-digit line numbers
		m := 20 + r.Intn(200)
		p := g.pool(4, 0.5)
		for i := 0; i < m; i++ {
			if r.Intn(8) == 0 {
				o = append(o, p[r.Intn(len(p))])
			} else {
				o = append(o, g.id(fmt.Sprintf("u%d", i)))
			}
		}
		n = g.edit(o, p, 1+r.Intn(8), &fresh)
	case 4: // long file
		m := 300 + r.Intn(1500)
		p := g.pool(6, 0.5)
		for i := 0; i < m; i++ {
			if r.Intn(5) == 0 {
				o = append(o, p[r.Intn(len(p))])
			} else {
				o = append(o, g.id(fmt.Sprintf("u%d", i)))
			}
		}
		n = g.edit(o, p, 1+r.Intn(12), &fresh)
	}
	return g.finish(o, r.Intn(3) == 0), g.finish(n, r.Intn(3) == 0)
}

var names = [][2]string{{"old", "new"}, {"a/x.txt", "b/x.txt"}, {"want", "have"}, {"file one", "file two"}, {"-", "+"}}

func modeRandom(count int, trace string) {
	recs := make([]*record, count)
	seeds := make([]int64, count)
	master := vutil.Rand(8)
	for i := range seeds {
		seeds[i] = master.Int63()
	}
	vutil.ParallelN(count, func(k int) {
		g := &gen{r: rand.New(rand.NewSource(seeds[k])), intern: map[string]int{}}
		o, n := g.pair(k)
		nm := names[g.r.Intn(len(names))]
		tab := g.tab
		if tab == nil {
			tab = []string{}
		}
		recs[k] = evaluate(0, nm[0], nm[1], o, n, tab)
	})
	writeRecords(trace, recs)
}
