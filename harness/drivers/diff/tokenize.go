package main

import (
	"regexp"
	"strconv"
	"strings"
)

const stdMarker = `\ No newline at end of file`

var hunkRE = regexp.MustCompile(`^@@ -(\d{1,7})(?:,(\d{1,7}))? \+(\d{1,7})(?:,(\d{1,7}))? @@(?: .*)?$`)

type tokens struct {
	hdr       []string
	ev        [][]int
	hunks     int
	markers   int
	oddMarker string
}

// tokenize turns the bytes returned by Diff into the events of the
// patch-application machine.  It reads three header lines, then repeatedly a
// hunk header followed by body lines UNTIL THE DECLARED COUNTS ARE MET (a body
// line is classified by its first byte only; its content is looked up in the
// table of the two texts' lines, 0 if unknown).  A line starting with a
// backslash after a body line is the "no newline" attribute of that line.
// Anything else becomes a Junk event and tokenising stops; Finish marks the
// end of the output.  No judgement is made here.
func tokenize(out []byte, intern map[string]int) tokens {
	tk := tokens{hdr: []string{"", "", ""}, ev: [][]int{}}
	s := string(out)
	lines := strings.Split(s, "\n")
	complete := strings.HasSuffix(s, "\n")
	if complete {
		lines = lines[:len(lines)-1]
	}
	finish := func() tokens {
		tk.ev = append(tk.ev, []int{evFinish})
		return tk
	}
	junk := func() tokens {
		tk.ev = append(tk.ev, []int{evJunk})
		return finish()
	}
	if len(lines) < 3 {
		return junk()
	}
	copy(tk.hdr, lines[:3])
	tk.ev = append(tk.ev, []int{evHeader})
	i := 3
	for i < len(lines) {
		m := hunkRE.FindStringSubmatch(lines[i])
		if m == nil {
			return junk()
		}
		num := func(s string, def int) int {
			if s == "" {
				return def
			}
			v, _ := strconv.Atoi(s)
			return v
		}
		os, oc, ns, nc := num(m[1], 0), num(m[2], 1), num(m[3], 0), num(m[4], 1)
		tk.ev = append(tk.ev, []int{evBegin, os, oc, ns, nc})
		tk.hunks++
		i++
		co, cn := 0, 0
		for (co < oc || cn < nc) && i < len(lines) {
			l := lines[i]
			kind := 0
			switch {
			case l == "":
				kind = evCtx // some tools strip the blank of an empty context line
			case l[0] == ' ':
				kind = evCtx
			case l[0] == '-':
				kind = evDel
			case l[0] == '+':
				kind = evAdd
			default:
				return junk()
			}
			content := ""
			if l != "" {
				content = l[1:]
			}
			i++
			nl := 1
			if i < len(lines) && strings.HasPrefix(lines[i], `\`) {
				nl = 0
				tk.markers++
				if lines[i] != stdMarker {
					tk.oddMarker = lines[i]
				}
				i++
			}
			tk.ev = append(tk.ev, []int{kind, intern[content], nl})
			if kind != evAdd {
				co++
			}
			if kind != evDel {
				cn++
			}
		}
		if co == oc && cn == nc {
			tk.ev = append(tk.ev, []int{evEnd})
		}
		// otherwise: the output ended inside the hunk, or a body line overshot one
		// of the counts; the machine rejects (Finish inside a hunk / next event)
	}
	if !complete {
		return junk()
	}
	return finish()
}

// corrupt implements -selfbug: deliberately damaged outputs the oracle must reject.
func corrupt(kind string, out []byte) []byte {
	if len(out) == 0 {
		if kind == "nonnil" {
			return []byte("diff old new\n--- old\n+++ new\n")
		}
		return out
	}
	lines := strings.SplitAfter(string(out), "\n")
	firstHunk := -1
	for i, l := range lines {
		if i >= 3 && hunkRE.MatchString(strings.TrimSuffix(l, "\n")) {
			firstHunk = i
			break
		}
	}
	switch kind {
	case "nil":
		return nil
	case "offbyone": // declared old count one too large in the first hunk
		if firstHunk >= 0 {
			m := hunkRE.FindStringSubmatch(strings.TrimSuffix(lines[firstHunk], "\n"))
			oc, _ := strconv.Atoi(m[2])
			lines[firstHunk] = "@@ -" + m[1] + "," + strconv.Itoa(oc+1) + " +" + m[3] + "," + m[4] + " @@\n"
		}
	case "startshift": // new-side start shifted by one
		if firstHunk >= 0 {
			m := hunkRE.FindStringSubmatch(strings.TrimSuffix(lines[firstHunk], "\n"))
			ns, _ := strconv.Atoi(m[3])
			lines[firstHunk] = "@@ -" + m[1] + "," + m[2] + " +" + strconv.Itoa(ns+1) + "," + m[4] + " @@\n"
		}
	case "onezero": // "1,0" instead of "0,0" for an empty side
		for i := range lines {
			lines[i] = strings.Replace(strings.Replace(lines[i], "-0,0", "-1,0", 1), "+0,0", "+1,0", 1)
		}
	case "dropmarker":
		var k []string
		for _, l := range lines {
			if !strings.HasPrefix(l, `\`) {
				k = append(k, l)
			}
		}
		lines = k
	case "duphunk": // the last hunk twice: overlapping hunks
		last := -1
		for i, l := range lines {
			if i >= 3 && hunkRE.MatchString(strings.TrimSuffix(l, "\n")) {
				last = i
			}
		}
		if last >= 0 {
			lines = append(lines, lines[last:]...)
		}
	case "noheader":
		if len(lines) > 1 {
			lines = lines[1:]
		}
	}
	return []byte(strings.Join(lines, ""))
}
