// Package vexecpath makes internal/os/execpath callable from the harness module.
//
// This file is NOT part of the harness module (the directory name starts with
// an underscore): checks/x04.py adds it, through the build overlay, as the
// virtual package github.com/rogpeppe/go-internal/verifshim/vexecpath, i.e.
// inside the module whose internal packages it may import.  Nothing is
// written into the repository.
package vexecpath

import "github.com/rogpeppe/go-internal/internal/os/execpath"

// Look is the real execpath.Look.
func Look(file string, getenv func(string) string) (string, error) { return execpath.Look(file, getenv) }

// ErrNotFound is execpath.ErrNotFound.
var ErrNotFound = execpath.ErrNotFound
