//go:build verif && x04

// Driver for X04 (growth check): internal/os/execpath.Look against spec/execpath.
//
//	-mode replay FILE...  every (world, PATH) state TLC emitted from MC_ExecPath is built on disk
//	                      and searched with the real Look; the direct test (name with a slash)
//	                      is made once per world and element
//	-mode random -n N     seeded random worlds over all kinds and PATH lists of up to 12 elements;
//	                      what the real Look did is written to -trace and judged by TLC
//
// The package is internal: it is reached through the bridge package verifshim/vexecpath that
// checks/x04.py adds to the go-internal module by build overlay.
package main

import (
	"encoding/json"
	"errors"
	"flag"
	"fmt"
	"io/fs"
	"os"
	"os/exec"
	"path/filepath"
	"sort"
	"strings"
	"syscall"

	"verifharness/vutil"

	execpath "github.com/rogpeppe/go-internal/verifshim/vexecpath"
)

const prog = "prog"

var places = []string{"cwd", "bin", "A", "B"}

type world map[string]string // place -> kind

func (w world) key() string {
	var s []string
	for _, p := range places {
		s = append(s, w[p])
	}
	return strings.Join(s, ",")
}

type caseJ struct {
	W      world             `json:"w"`
	Path   []string          `json:"path"`
	Expect int               `json:"expect"`
	Direct map[string]string `json:"direct"`
}

type layout struct{ root string }

func (l layout) dir(place string) string {
	switch place {
	case "cwd":
		return filepath.Join(l.root, "cwd")
	case "bin":
		return filepath.Join(l.root, "cwd", "bin")
	}
	return filepath.Join(l.root, place)
}

// elem renders a PATH element of the specification.
func (l layout) elem(e string) string {
	switch e {
	case "", ".", "bin":
		return e
	}
	return filepath.Join(l.root, e) // A, B, NX (absent), F (a file)
}

func must(err error) {
	if err != nil {
		vutil.Fatalf("fixture: %v", err)
	}
}

// build makes the world: what stands under the program's name in each place.
func (l layout) build(w world) {
	must(os.Chdir("/"))
	must(os.RemoveAll(l.root))
	for _, p := range places {
		must(os.MkdirAll(l.dir(p), 0o755))
	}
	t := filepath.Join(l.root, "targets")
	must(os.MkdirAll(filepath.Join(t, "d"), 0o755))
	must(os.WriteFile(filepath.Join(t, "x"), []byte("#!/bin/sh\n"), 0o755))
	must(os.WriteFile(filepath.Join(t, "n"), []byte("data\n"), 0o644))
	must(os.WriteFile(filepath.Join(l.root, "F"), []byte("a file, not a directory\n"), 0o755))
	for _, p := range places {
		f := filepath.Join(l.dir(p), prog)
		switch w[p] {
		case "absent":
		case "exec":
			must(os.WriteFile(f, []byte("#!/bin/sh\n"), 0o755))
			must(os.Chmod(f, 0o755))
		case "noexec":
			must(os.WriteFile(f, []byte("data\n"), 0o644))
		case "dir":
			must(os.Mkdir(f, 0o755))
		case "lnexec":
			must(os.Symlink(filepath.Join(t, "x"), f))
		case "lnnoexec":
			must(os.Symlink(filepath.Join(t, "n"), f))
		case "lndangle":
			must(os.Symlink(filepath.Join(t, "none"), f))
		case "lndir":
			must(os.Symlink(filepath.Join(t, "d"), f))
		default:
			vutil.Fatalf("unknown kind %q", w[p])
		}
	}
	must(os.Chdir(l.dir("cwd")))
}

type outcome struct {
	Got   int      // index of the winning element, 0 = ErrNotFound, -1 = anything else
	Text  string   // what was returned, for the report
	Calls int      // getenv calls
	Keys  []string // names asked for
	Panic string
}

// search calls the real Look for the bare program name with the given PATH list.
func (l layout) search(path []string, nilenv bool) (o outcome) {
	var parts []string
	for _, e := range path {
		parts = append(parts, l.elem(e))
	}
	pathVar := strings.Join(parts, ":")
	o.Keys = []string{}
	getenv := func(k string) string {
		o.Calls++
		o.Keys = append(o.Keys, k)
		if k == "PATH" {
			return pathVar
		}
		return ""
	}
	defer func() {
		if r := recover(); r != nil {
			o.Got, o.Panic, o.Text = -1, fmt.Sprint(r), "panic: "+fmt.Sprint(r)
		}
	}()
	var got string
	var err error
	if nilenv {
		must(os.Setenv("PATH", pathVar))
		got, err = execpath.Look(prog, nil)
	} else {
		got, err = execpath.Look(prog, getenv)
	}
	o.Text = fmt.Sprintf("(%q, %v)", got, err)
	o.Got = -1
	if err != nil {
		var ee *exec.Error
		if got == "" && errors.As(err, &ee) && ee.Name == prog && ee.Err == execpath.ErrNotFound {
			o.Got = 0
		}
		return o
	}
	for i, e := range parts {
		if e == "" {
			e = "."
		}
		if filepath.Join(e, prog) == got {
			o.Got = i + 1
			break
		}
	}
	return o
}

// direct tests "<element>/prog": "ok", "notexist", "permission", "notdir" or a description of anything else.
func (l layout) direct(e string) (res string, calls int) {
	file := l.elem(e) + "/" + prog
	defer func() {
		if r := recover(); r != nil {
			res = "panic: " + fmt.Sprint(r)
		}
	}()
	got, err := execpath.Look(file, func(string) string { calls++; return "/nonexistent" })
	if err == nil {
		if got == file {
			return "ok", calls
		}
		return fmt.Sprintf("returned %q for %q", got, file), calls
	}
	var ee *exec.Error
	if got != "" || !errors.As(err, &ee) || ee.Name != file {
		return fmt.Sprintf("(%q, %#v)", got, err), calls
	}
	switch {
	case errors.Is(ee.Err, syscall.ENOTDIR):
		return "notdir", calls
	case errors.Is(ee.Err, fs.ErrNotExist):
		return "notexist", calls
	case errors.Is(ee.Err, fs.ErrPermission):
		return "permission", calls
	}
	return fmt.Sprintf("cause %v", ee.Err), calls
}

func replay(res *vutil.Result, files []string, tmp string) {
	byWorld := map[string][]caseJ{}
	for _, f := range files {
		vutil.ReadNDJSON(f, func(line []byte) {
			var c caseJ
			if err := json.Unmarshal(line, &c); err != nil {
				vutil.Fatalf("bad case: %v", err)
			}
			if c.Path == nil {
				c.Path = []string{}
			}
			byWorld[c.W.key()] = append(byWorld[c.W.key()], c)
		})
	}
	keys := make([]string, 0, len(byWorld))
	for k := range byWorld {
		keys = append(keys, k)
	}
	sort.Strings(keys)
	l := layout{root: filepath.Join(tmp, "w")}
	for _, k := range keys {
		cs := byWorld[k]
		l.build(cs[0].W)
		res.Count("worlds", 1)
		for e, want := range cs[0].Direct {
			if e == "" {
				continue // "" + "/prog" is a path in the root directory, not a PATH element
			}
			got, calls := l.direct(e)
			res.Eval(want == "ok")
			res.Count("direct_tests", 1)
			in := map[string]interface{}{"world": cs[0].W, "file": e + "/" + prog, "call": fmt.Sprintf("execpath.Look(%q, getenv)", l.elem(e)+"/"+prog)}
			if got != want {
				res.Violate(vutil.Finding{Kind: "direct-test-differs", Class: k + "|" + e,
					What:  fmt.Sprintf("Look of the name with a slash %q in world %v: %s, the statement says %s", e+"/"+prog, cs[0].W, got, want),
					Input: in})
			}
			if calls != 0 {
				res.Violate(vutil.Finding{Kind: "direct-test-reads-environment", Class: k + "|" + e,
					What: fmt.Sprintf("Look of a name with a slash called getenv %d time(s)", calls), Input: in})
			}
		}
		for n, c := range cs {
			o := l.search(c.Path, n%5 == 4)
			res.Eval(c.Expect != 0 && len(c.Path) > 1)
			res.Count("cases", 1)
			in := map[string]interface{}{"world": c.W, "path": c.Path, "program": prog}
			if o.Got != c.Expect {
				kind := "search-differs"
				if o.Panic != "" {
					kind = "panic"
				}
				res.Violate(vutil.Finding{Kind: kind, Class: k + "|" + strings.Join(c.Path, ":"),
					What: fmt.Sprintf("Look(%q) with PATH elements %q in world %v returned %s = element %d, the statement says element %d (0 = not found)",
						prog, c.Path, c.W, o.Text, o.Got, c.Expect),
					Input: in})
			}
			if n%5 != 4 && (o.Calls != 1 || len(o.Keys) != 1 || o.Keys[0] != "PATH") && o.Panic == "" {
				res.Violate(vutil.Finding{Kind: "environment-use", Class: strings.Join(o.Keys, ","),
					What: fmt.Sprintf("Look asked the environment function for %q (%d calls), expected PATH once", o.Keys, o.Calls), Input: in})
			}
			res.Sample(map[string]interface{}{"world": c.W, "path": c.Path, "got": o.Text, "expect": c.Expect}, 6)
		}
	}
	must(os.Chdir("/"))
}

var allKinds = []string{"absent", "exec", "noexec", "dir", "lnexec", "lnnoexec", "lndangle", "lndir"}
var allElems = []string{"", ".", "bin", "A", "B", "NX", "F"}

type rec struct {
	W      world    `json:"w"`
	Path   []string `json:"path"`
	Got    int      `json:"got"`
	Calls  int      `json:"calls"`
	Keys   []string `json:"keys"`
	NilEnv bool     `json:"nilenv"`
	Slash  string   `json:"slash"`
	DGot   string   `json:"dgot"`
	DCalls int      `json:"dcalls"`
	Text   string   `json:"text"`
}

func random(res *vutil.Result, n int, trace, tmp string) {
	r := vutil.Rand(404)
	tw := vutil.NewNDJSONWriter(trace)
	l := layout{root: filepath.Join(tmp, "r")}
	for k := 0; k < n; {
		w := world{}
		for _, p := range places {
			w[p] = allKinds[r.Intn(len(allKinds))]
			if r.Intn(3) == 0 {
				w[p] = "absent"
			}
		}
		l.build(w)
		res.Count("worlds", 1)
		for j := 0; j < 25 && k < n; j++ {
			m := r.Intn(13)
			path := make([]string, m)
			for i := range path {
				path[i] = allElems[r.Intn(len(allElems))]
			}
			if m == 1 && path[0] == "" {
				path[0] = "."
			}
			nilenv := r.Intn(4) == 0
			o := l.search(path, nilenv)
			rc := rec{W: w, Path: path, Got: o.Got, Calls: o.Calls, Keys: o.Keys, NilEnv: nilenv, Slash: "-", DGot: "-", Text: o.Text}
			if r.Intn(2) == 0 {
				rc.Slash = allElems[1+r.Intn(len(allElems)-1)]
				rc.DGot, rc.DCalls = l.direct(rc.Slash)
			}
			res.Eval(o.Got > 1)
			res.Count("records", 1)
			res.Sample(rc, 5)
			tw.Write(rc)
			k++
		}
	}
	tw.Close()
	must(os.Chdir("/"))
}

func main() {
	mode := flag.String("mode", "replay", "replay | random")
	out := flag.String("out", "", "result json")
	trace := flag.String("trace", "", "random: records for TLC")
	n := flag.Int("n", 1000, "random: number of records")
	tmp := flag.String("tmp", "", "scratch directory")
	flag.Parse()
	res := vutil.NewResult()
	if *tmp == "" {
		vutil.Fatalf("-tmp is required")
	}
	switch *mode {
	case "replay":
		replay(res, flag.Args(), *tmp)
	case "random":
		random(res, *n, *trace, *tmp)
	default:
		vutil.Fatalf("unknown mode %q", *mode)
	}
	res.Write(*out)
}
