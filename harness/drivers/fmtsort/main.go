// Driver for X02: fmtsort.Sort orders map keys as its documentation says.
//
// replay  the maps TLC generated from spec/fmtsort (MC_FmtSort: a key type, 1..MaxKeys keys, the predicted
// order for every order of dynamic types) are built as real Go maps of every concrete type that stands for
// the key type, filled in three different orders, handed to the REAL fmtsort.Sort and compared with the
// prediction (Key order, Value[i] belongs to Key[i]).
//
// random  seeded maps of up to -maxkeys keys per concrete type.
//
// Calls are also written as records (keys as values of FmtSort.tla, output as indices into the input) which
// Trace_FmtSort.tla validates: permutation, alignment, sorted w.r.t. the specification's Cmp.
//
// The driver holds no comparator of its own: abstract numbers are embedded into the Go types by strictly
// monotone functions, output keys are identified by their bits, pointers / channels get the rank of their
// measured address (the one place where Go's < is used: on uintptr, which is what "by machine address"
// refers to), and the only judgement made here is "equals the sequence TLC predicted".
package main

import (
	"encoding/json"
	"flag"
	"fmt"
	"hash/fnv"
	"math"
	"math/bits"
	"math/rand"
	"reflect"
	"sort"
	"strings"
	"sync"

	"verifharness/vutil"

	"github.com/rogpeppe/go-internal/fmtsort"
)

// ---- abstract values (FmtSort.tla) ----

type aval struct {
	K string          `json:"k"`
	T string          `json:"t,omitempty"` // iface only
	V json.RawMessage `json:"v"`
}

type fpay struct {
	Nan bool `json:"nan"`
	X   int  `json:"x"`
}

func raw(v interface{}) json.RawMessage {
	b, err := json.Marshal(v)
	if err != nil {
		vutil.Fatalf("marshal: %v", err)
	}
	return b
}

func aInt(n int) aval            { return aval{K: "int", V: raw(n)} }
func aUint(n int) aval           { return aval{K: "uint", V: raw(n)} }
func aStr(b []byte) aval         { return aval{K: "string", V: raw(vutil.Ints(b))} }
func aBool(b bool) aval          { return aval{K: "bool", V: raw(b)} }
func aFloat(p fpay) aval         { return aval{K: "float", V: raw(p)} }
func aCplx(r, i fpay) aval       { return aval{K: "complex", V: raw([]fpay{r, i})} }
func aPtr(r int) aval            { return aval{K: "ptr", V: raw(r)} }
func aChan(r int) aval           { return aval{K: "chan", V: raw(r)} }
func aStruct(f ...aval) aval     { return aval{K: "struct", V: raw(f)} }
func aArray(f ...aval) aval      { return aval{K: "array", V: raw(f)} }
func aNil() aval                 { return aval{K: "iface", T: "nil", V: raw(aval{K: "nil", V: raw(0)})} }
func aDyn(t string, v aval) aval { return aval{K: "iface", T: t, V: raw(v)} }

func (a aval) token() string { return a.K + "/" + a.T + "/" + string(a.V) }

// ---- the concrete key types ----

type structIS struct {
	A int
	B string
}
type structFB struct {
	F float64
	B bool
}
type nested struct {
	A [2]int8
	B bool
}

func typeOf[T any]() reflect.Type { return reflect.TypeOf((*T)(nil)).Elem() }

// goTypes lists, per key type of the specification, the Go types that stand for it.
var goTypes = map[string][]reflect.Type{
	"int":       {typeOf[int](), typeOf[int8](), typeOf[int16](), typeOf[int32](), typeOf[int64]()},
	"uint":      {typeOf[uint](), typeOf[uint8](), typeOf[uint16](), typeOf[uint32](), typeOf[uint64](), typeOf[uintptr]()},
	"string":    {typeOf[string]()},
	"bool":      {typeOf[bool]()},
	"float":     {typeOf[float64](), typeOf[float32]()},
	"complex":   {typeOf[complex128](), typeOf[complex64]()},
	"ptr":       {typeOf[*int]()},
	"chan":      {typeOf[chan int]()},
	"struct_is": {typeOf[structIS]()},
	"struct_fb": {typeOf[structFB]()},
	"array_2i":  {typeOf[[2]int]()},
	"array_3b":  {typeOf[[3]bool]()},
	"nested":    {typeOf[nested]()},
	"iface":     {typeOf[interface{}]()},
}

var dynTypes = map[string]reflect.Type{
	"int": typeOf[int](), "int8": typeOf[int8](), "string": typeOf[string](), "bool": typeOf[bool](),
}

// ---- address pools: rank r (1-based) is the r-th lowest measured address, rank 0 is nil ----

const poolSize = 256

var (
	cells        [poolSize / 2]int
	ptrPool      []*int
	chanPool     []chan int
	allocOrdered bool // drift probe: do separately allocated objects have ascending addresses?
)

func initPools() {
	for i := range cells {
		ptrPool = append(ptrPool, &cells[i])
	}
	var fresh []*int
	for i := 0; i < poolSize/2; i++ {
		p := new(int)
		*p = i
		fresh = append(fresh, p)
	}
	allocOrdered = sort.SliceIsSorted(fresh, func(i, j int) bool {
		return uintptr(reflect.ValueOf(fresh[i]).Pointer()) < uintptr(reflect.ValueOf(fresh[j]).Pointer())
	})
	ptrPool = append(ptrPool, fresh...)
	for i := 0; i < poolSize; i++ {
		chanPool = append(chanPool, make(chan int))
	}
	// the ranks ARE the measured machine addresses (the only thing the documentation refers to)
	sort.Slice(ptrPool, func(i, j int) bool {
		return reflect.ValueOf(ptrPool[i]).Pointer() < reflect.ValueOf(ptrPool[j]).Pointer()
	})
	sort.Slice(chanPool, func(i, j int) bool {
		return reflect.ValueOf(chanPool[i]).Pointer() < reflect.ValueOf(chanPool[j]).Pointer()
	})
}

// ---- embedding of abstract values into Go values (strictly monotone on numbers) ----

type embed struct{ M, U int } // abstract ints and floats lie in [-M, M] (floats: -M, M are the infinities), abstract uints in [0, U]

func mix(n int64) uint64 { return uint64(n) * 0x9E3779B97F4A7C15 }

func (e embed) intRange(bitsz int) (mt int64, shift int) {
	mt = int64(e.M)
	if lim := int64(1) << (bitsz - 2); mt > lim {
		mt = lim
	}
	shift = bitsz - 2 - bits.Len64(uint64(mt))
	if shift < 0 {
		shift = 0
	}
	return
}

func (e embed) uintRange(bitsz int) (mt int64, shift int) {
	mt = int64(e.U)
	if lim := int64(1) << min(bitsz-1, 62); mt > lim {
		mt = lim
	}
	shift = bitsz - bits.Len64(uint64(mt))
	return
}

// low bits below the shifted abstract number: any value in [0, 2^shift) keeps the embedding monotone
func lowBits(n int64, shift int) uint64 {
	if shift == 0 {
		return 0
	}
	return mix(n) >> (64 - shift)
}

func (e embed) float(p fpay, bitsz int) (f64 float64, f32 float32) {
	switch {
	case p.Nan:
		// every NaN key of a map has its own payload, so that it can be told apart in the output
		f64 = math.Float64frombits(0x7FF8000000000000 | uint64(p.X))
		f32 = math.Float32frombits(0x7FC00000 | uint32(p.X))
	case p.X == e.M:
		f64, f32 = math.Inf(1), float32(math.Inf(1))
	case p.X == -e.M:
		f64, f32 = math.Inf(-1), float32(math.Inf(-1))
	default:
		f64 = float64(p.X) * 0.25
		f32 = float32(f64)
	}
	return
}

func (e embed) build(t reflect.Type, a aval) (v reflect.Value, err error) {
	want := func(k string) error {
		if a.K != k {
			return fmt.Errorf("value of kind %q for Go type %s", a.K, t)
		}
		return nil
	}
	num := func() (int64, error) {
		var n int64
		return n, json.Unmarshal(a.V, &n)
	}
	v = reflect.New(t).Elem()
	switch t.Kind() {
	case reflect.Int, reflect.Int8, reflect.Int16, reflect.Int32, reflect.Int64:
		if err = want("int"); err != nil {
			return
		}
		n, err := num()
		mt, shift := e.intRange(t.Bits())
		if err != nil || n < -mt || n > mt {
			return v, fmt.Errorf("int %s outside [-%d, %d] for %s (%v)", a.V, mt, mt, t, err)
		}
		v.SetInt(n<<shift + int64(lowBits(n, shift)))
	case reflect.Uint, reflect.Uint8, reflect.Uint16, reflect.Uint32, reflect.Uint64, reflect.Uintptr:
		if err = want("uint"); err != nil {
			return
		}
		n, err := num()
		mt, shift := e.uintRange(t.Bits())
		if err != nil || n < 0 || n > mt {
			return v, fmt.Errorf("uint %s outside [0, %d] for %s (%v)", a.V, mt, t, err)
		}
		v.SetUint(uint64(n)<<shift | lowBits(n, shift))
	case reflect.String:
		if err = want("string"); err != nil {
			return
		}
		var b []int
		if err = json.Unmarshal(a.V, &b); err != nil {
			return
		}
		v.SetString(string(vutil.Bytes(b)))
	case reflect.Bool:
		if err = want("bool"); err != nil {
			return
		}
		var b bool
		if err = json.Unmarshal(a.V, &b); err != nil {
			return
		}
		v.SetBool(b)
	case reflect.Float32, reflect.Float64:
		if err = want("float"); err != nil {
			return
		}
		var p fpay
		if err = json.Unmarshal(a.V, &p); err != nil {
			return
		}
		f64, f32 := e.float(p, t.Bits())
		// no float conversion on the way into the key: NaN payloads stay as they are
		if t.Kind() == reflect.Float32 {
			v.Set(reflect.ValueOf(f32))
		} else {
			v.Set(reflect.ValueOf(f64))
		}
	case reflect.Complex64, reflect.Complex128:
		if err = want("complex"); err != nil {
			return
		}
		var p []fpay
		if err = json.Unmarshal(a.V, &p); err != nil || len(p) != 2 {
			return v, fmt.Errorf("complex payload %s (%v)", a.V, err)
		}
		r64, r32 := e.float(p[0], 64)
		i64, i32 := e.float(p[1], 64)
		if t.Kind() == reflect.Complex64 {
			v.Set(reflect.ValueOf(complex(r32, i32)))
		} else {
			v.Set(reflect.ValueOf(complex(r64, i64)))
		}
	case reflect.Ptr, reflect.Chan:
		if err = want(map[reflect.Kind]string{reflect.Ptr: "ptr", reflect.Chan: "chan"}[t.Kind()]); err != nil {
			return
		}
		n, err := num()
		if err != nil || n < 0 || n > poolSize {
			return v, fmt.Errorf("address rank %s (%v)", a.V, err)
		}
		if n > 0 && t.Kind() == reflect.Ptr {
			v.Set(reflect.ValueOf(ptrPool[n-1]))
		} else if n > 0 {
			v.Set(reflect.ValueOf(chanPool[n-1]))
		}
	case reflect.Struct, reflect.Array:
		if err = want(map[reflect.Kind]string{reflect.Struct: "struct", reflect.Array: "array"}[t.Kind()]); err != nil {
			return
		}
		var fs []aval
		if err = json.Unmarshal(a.V, &fs); err != nil {
			return
		}
		n := t.Len
		if t.Kind() == reflect.Struct {
			n = t.NumField
		}
		if len(fs) != n() {
			return v, fmt.Errorf("%d members for %s", len(fs), t)
		}
		for i, f := range fs {
			var m reflect.Value
			if t.Kind() == reflect.Struct {
				m, err = e.build(t.Field(i).Type, f)
				if err == nil {
					v.Field(i).Set(m)
				}
			} else {
				m, err = e.build(t.Elem(), f)
				if err == nil {
					v.Index(i).Set(m)
				}
			}
			if err != nil {
				return
			}
		}
	case reflect.Interface:
		if err = want("iface"); err != nil {
			return
		}
		if a.T == "nil" {
			return
		}
		dt, ok := dynTypes[a.T]
		if !ok {
			return v, fmt.Errorf("unknown dynamic type %q", a.T)
		}
		var inner aval
		if err = json.Unmarshal(a.V, &inner); err != nil {
			return
		}
		m, err := e.build(dt, inner)
		if err != nil {
			return v, err
		}
		v.Set(m)
	default:
		err = fmt.Errorf("no embedding for %s", t)
	}
	return
}

// ident writes the identity (the bits) of a concrete key: used only to find an output key among the input keys.
func ident(v reflect.Value, b *strings.Builder) {
	switch v.Kind() {
	case reflect.Int, reflect.Int8, reflect.Int16, reflect.Int32, reflect.Int64:
		fmt.Fprintf(b, "i%d", v.Int())
	case reflect.Uint, reflect.Uint8, reflect.Uint16, reflect.Uint32, reflect.Uint64, reflect.Uintptr:
		fmt.Fprintf(b, "u%d", v.Uint())
	case reflect.String:
		fmt.Fprintf(b, "%q", v.String())
	case reflect.Bool:
		fmt.Fprintf(b, "%v", v.Bool())
	case reflect.Float32:
		fmt.Fprintf(b, "f%08x", math.Float32bits(v.Interface().(float32)))
	case reflect.Float64:
		fmt.Fprintf(b, "F%016x", math.Float64bits(v.Interface().(float64)))
	case reflect.Complex64:
		c := v.Interface().(complex64)
		fmt.Fprintf(b, "c%08x,%08x", math.Float32bits(real(c)), math.Float32bits(imag(c)))
	case reflect.Complex128:
		c := v.Interface().(complex128)
		fmt.Fprintf(b, "C%016x,%016x", math.Float64bits(real(c)), math.Float64bits(imag(c)))
	case reflect.Ptr, reflect.Chan:
		fmt.Fprintf(b, "@%x", v.Pointer())
	case reflect.Struct:
		b.WriteByte('{')
		for i := 0; i < v.NumField(); i++ {
			ident(v.Field(i), b)
			b.WriteByte(';')
		}
		b.WriteByte('}')
	case reflect.Array:
		b.WriteByte('[')
		for i := 0; i < v.Len(); i++ {
			ident(v.Index(i), b)
			b.WriteByte(';')
		}
		b.WriteByte(']')
	case reflect.Interface:
		if v.IsNil() {
			b.WriteString("nil")
			return
		}
		b.WriteString(v.Elem().Type().String() + ":")
		ident(v.Elem(), b)
	default:
		fmt.Fprintf(b, "?%s", v.Kind())
	}
}

func identOf(v reflect.Value) string {
	var b strings.Builder
	ident(v, &b)
	return b.String()
}

// ---- one call of the real Sort ----

type recJ struct {
	Mode    string   `json:"mode"`
	Ty      string   `json:"ty"`
	GoType  string   `json:"gotype"`
	In      []aval   `json:"in"`
	Keys    []string `json:"keys"` // the concrete keys, for reports only
	Out     []int    `json:"out"`
	Tyorder []string `json:"tyorder"`
	Aligned bool     `json:"aligned"`
	Panic   bool     `json:"panic"`
}

type outcome struct {
	rec      recJ
	panicMsg string
	keys     []string // the concrete input keys, for reports
	got      []string // the concrete output keys
	alien    bool
	misalign string
}

func safeSort(m reflect.Value) (sm *fmtsort.SortedMap, panicked string) {
	defer func() {
		if r := recover(); r != nil {
			panicked = fmt.Sprint(r)
		}
	}()
	return fmtsort.Sort(m), ""
}

func show(v reflect.Value) string {
	switch v.Kind() {
	case reflect.Ptr, reflect.Chan:
		return fmt.Sprintf("%s@%#x", v.Type(), v.Pointer())
	case reflect.Uint, reflect.Uint8, reflect.Uint16, reflect.Uint32, reflect.Uint64, reflect.Uintptr:
		return fmt.Sprintf("%s(%d)", v.Type(), v.Uint())
	case reflect.Interface:
		if v.IsNil() {
			return "nil"
		}
		return fmt.Sprintf("%s(%#v)", v.Elem().Type(), v.Elem().Interface())
	}
	return fmt.Sprintf("%#v", v.Interface())
}

func valName(i int) string { return fmt.Sprintf("v%d", i) }

// run builds map[t]string{keys[i]: "v<i+1>"} and sorts it with the real package.  order (nil: as given) is the
// order in which the keys are inserted: it influences the order in which Sort finds them.
func run(mode, ty string, t reflect.Type, e embed, keys []aval, order []int) (*outcome, error) {
	o := &outcome{rec: recJ{Mode: mode, Ty: ty, GoType: t.String(), In: keys, Out: []int{}, Tyorder: []string{}, Aligned: true}}
	m := reflect.MakeMapWithSize(reflect.MapOf(t, typeOf[string]()), len(keys))
	index := map[string]int{}
	built := make([]reflect.Value, len(keys))
	for i, a := range keys {
		k, err := e.build(t, a)
		if err != nil {
			return nil, err
		}
		id := identOf(k)
		if _, dup := index[id]; dup {
			return nil, fmt.Errorf("two keys with the same bits: %s", id)
		}
		index[id] = i + 1
		o.keys = append(o.keys, show(k))
		o.rec.Keys = o.keys
		built[i] = k
	}
	for n := range keys {
		i := n
		if order != nil {
			i = order[n]
		}
		m.SetMapIndex(built[i], reflect.ValueOf(valName(i+1)))
	}
	if m.Len() != len(keys) {
		return nil, fmt.Errorf("map of %d keys has %d entries", len(keys), m.Len())
	}
	sm, p := safeSort(m)
	if p != "" || sm == nil {
		o.rec.Panic = true
		o.panicMsg = p
		if sm == nil && p == "" {
			o.panicMsg = "Sort returned nil for a map"
		}
		return o, nil
	}
	if len(sm.Key) != len(sm.Value) {
		o.rec.Aligned = false
		o.misalign = fmt.Sprintf("%d keys, %d values", len(sm.Key), len(sm.Value))
	}
	seenTy := map[string]bool{}
	for j, k := range sm.Key {
		o.got = append(o.got, show(k))
		idx := index[identOf(k)] // 0: not a key of the map
		if idx == 0 {
			o.alien = true
		}
		o.rec.Out = append(o.rec.Out, idx)
		if k.Kind() == reflect.Interface && !k.IsNil() {
			if tn := k.Elem().Type().String(); !seenTy[tn] {
				seenTy[tn] = true
				o.rec.Tyorder = append(o.rec.Tyorder, tn)
			}
		}
		if j < len(sm.Value) && o.rec.Aligned {
			val := sm.Value[j]
			if val.Kind() != reflect.String || val.String() != valName(idx) {
				o.rec.Aligned = false
				o.misalign = fmt.Sprintf("Value[%d] = %v, the map holds %s under Key[%d] = %s", j, val, valName(idx), j, show(k))
			} else if direct := m.MapIndex(k); direct.IsValid() && direct.String() != val.String() {
				o.rec.Aligned = false
				o.misalign = fmt.Sprintf("Value[%d] = %v, m[Key[%d]] = %v", j, val, j, direct)
			}
		}
	}
	return o, nil
}

// ---- bookkeeping ----

type checker struct {
	res     *vutil.Result
	trace   *vutil.NDJSONWriter
	mu      sync.Mutex
	tyPairs map[string]string // "int<string" -> first witness (drift: is the type order stable?)
	sampled map[string]bool
}

func (c *checker) input(o *outcome, extra map[string]interface{}) map[string]interface{} {
	m := map[string]interface{}{"ty": o.rec.Ty, "gotype": o.rec.GoType, "map_keys": o.keys, "sorted_keys": o.got,
		"abstract_keys": o.rec.In, "output_as_input_indices": o.rec.Out}
	for k, v := range extra {
		m[k] = v
	}
	return m
}

// common judges what needs no comparator: panic, permutation, alignment.
func (c *checker) common(o *outcome) (usable bool) {
	cls := o.rec.GoType + " " + strings.Join(o.keys, ",")
	if o.rec.Panic {
		c.res.Violate(vutil.Finding{Kind: "sort-panics", Class: cls, What: fmt.Sprintf("fmtsort.Sort(map[%s]string{%s}) fails: %s", o.rec.GoType, strings.Join(o.keys, ", "), o.panicMsg), Input: c.input(o, nil)})
		return false
	}
	usable = true
	seen := map[int]bool{}
	for _, idx := range o.rec.Out {
		if idx == 0 || seen[idx] {
			usable = false
		}
		seen[idx] = true
	}
	if len(o.rec.Out) != len(o.rec.In) {
		usable = false
	}
	if !usable {
		c.res.Violate(vutil.Finding{Kind: "not-the-same-keys", Class: cls,
			What:  fmt.Sprintf("fmtsort.Sort(map[%s]string{%s}) returns keys [%s]: not the keys of the map, each once", o.rec.GoType, strings.Join(o.keys, ", "), strings.Join(o.got, ", ")),
			Input: c.input(o, nil)})
	}
	if !o.rec.Aligned {
		c.res.Violate(vutil.Finding{Kind: "value-not-aligned", Class: cls,
			What:  fmt.Sprintf("fmtsort.Sort(map[%s]string{%s}): %s", o.rec.GoType, strings.Join(o.keys, ", "), o.misalign),
			Input: c.input(o, nil)})
	}
	return usable
}

// noteTypeOrder records the relative order of dynamic types seen in outputs; the documentation does not
// fix it, so a change or an inconsistency is drift.
func (c *checker) noteTypeOrder(o *outcome) {
	ord := o.rec.Tyorder
	if len(ord) < 2 {
		return
	}
	c.mu.Lock()
	defer c.mu.Unlock()
	for i := range ord {
		for j := i + 1; j < len(ord); j++ {
			if _, ok := c.tyPairs[ord[i]+"<"+ord[j]]; !ok {
				c.tyPairs[ord[i]+"<"+ord[j]] = strings.Join(o.got, ", ")
			}
		}
	}
}

func (c *checker) firstOf(name string) bool {
	c.mu.Lock()
	defer c.mu.Unlock()
	if c.sampled[name] {
		return false
	}
	c.sampled[name] = true
	return true
}

// ---- replay of the TLC-generated cases ----

type caseJ struct {
	Kind    string `json:"kind"`
	Ty      string `json:"ty"`
	Judged  bool   `json:"judged"`
	Entries []struct {
		Key aval `json:"key"`
		Val int  `json:"val"`
	} `json:"entries"`
	Expects []struct {
		Tyorder []string `json:"tyorder"`
		Order   []int    `json:"order"`
	} `json:"expects"`
	Types    []string `json:"types"`
	Universe []int    `json:"universe"`
	MaxKeys  int      `json:"maxkeys"`
}

func sameInts(a, b []int) bool {
	if len(a) != len(b) {
		return false
	}
	for i := range a {
		if a[i] != b[i] {
			return false
		}
	}
	return true
}

func sameStrs(a, b []string) bool {
	if len(a) != len(b) {
		return false
	}
	for i := range a {
		if a[i] != b[i] {
			return false
		}
	}
	return true
}

func pick(keys []string, order []int) []string {
	r := []string{}
	for _, i := range order {
		if i >= 1 && i <= len(keys) {
			r = append(r, keys[i-1])
		} else {
			r = append(r, "?")
		}
	}
	return r
}

func (c *checker) replay(path string) {
	e := embed{M: 2, U: 3}
	vutil.ParallelLines(path, func(line []byte) {
		var cs caseJ
		if err := json.Unmarshal(line, &cs); err != nil {
			vutil.Fatalf("bad case %s: %v", line, err)
		}
		if cs.Kind == "hdr" {
			for _, ty := range cs.Types {
				if len(goTypes[ty]) == 0 {
					vutil.Fatalf("no Go type for key type %q", ty)
				}
			}
			return
		}
		if cs.Kind != "case" || len(cs.Expects) == 0 {
			vutil.Fatalf("unknown case %s", line)
		}
		keys := make([]aval, len(cs.Entries))
		for i, en := range cs.Entries {
			if en.Val != i+1 {
				vutil.Fatalf("entry %d carries value %d", i+1, en.Val)
			}
			keys[i] = en.Key
		}
		c.res.Count("cases", 1)
		// every map is filled in three orders: as emitted (descending), ascending, and shuffled
		h := fnv.New64a()
		h.Write(line)
		rnd := rand.New(rand.NewSource(int64(h.Sum64()>>1) ^ vutil.Seed()))
		orders := [][]int{nil}
		if len(keys) > 1 {
			asc := make([]int, len(keys))
			for i := range asc {
				asc[i] = len(keys) - 1 - i
			}
			orders = append(orders, asc, rnd.Perm(len(keys)))
		}
		for n, t := range goTypes[cs.Ty] {
			for v, order := range orders {
				o, err := run("replay", cs.Ty, t, e, keys, order)
				if err != nil {
					vutil.Fatalf("case %s with %s: %v", line, t, err)
				}
				c.res.Eval(len(keys) > 1)
				c.res.Count("replay:"+cs.Ty, 1)
				// the records of all judged cases (first type, first order) and of all unjudged calls go to TLC as well
				if !cs.Judged || (n == 0 && v == 0) {
					c.trace.Write(o.rec)
				}
				if !c.common(o) {
					continue
				}
				c.noteTypeOrder(o)
				// the prediction for the order of dynamic types the real output shows
				exp := cs.Expects[0]
				matched := false
				for _, x := range cs.Expects {
					if sameStrs(x.Tyorder, o.rec.Tyorder) {
						exp, matched = x, true
					}
				}
				if sameInts(exp.Order, o.rec.Out) {
					if len(keys) == 4 && c.firstOf(t.String()) {
						c.res.Sample(map[string]interface{}{"map": fmt.Sprintf("map[%s]string", t), "keys": o.keys, "sorted": o.got}, 40)
					}
					continue
				}
				_ = matched
				f := vutil.Finding{Kind: "order-differs", Class: o.rec.GoType + " " + strings.Join(o.keys, ","),
					What: fmt.Sprintf("fmtsort.Sort(map[%s]string{%s}) gives [%s], the documented ordering gives [%s]", t, strings.Join(o.keys, ", "),
						strings.Join(o.got, ", "), strings.Join(pick(o.keys, exp.Order), ", ")),
					Input: c.input(o, map[string]interface{}{"predicted_indices": exp.Order, "type_order_seen": o.rec.Tyorder})}
				if cs.Judged {
					c.res.Violate(f)
				} else {
					// several NaN keys: the documentation promises nothing definite; TLC evaluates the preorder on the record
					c.res.Count("unjudged_differs_from_one_allowed_order", 1)
				}
			}
		}
	})
}

// ---- seeded random maps ----

type gen struct {
	rnd *randSrc
	t   reflect.Type
	e   embed
}

type randSrc struct{ next func(n int) int }

func (g gen) num(lim int64) int {
	return g.rnd.next(int(2*lim+1)) - int(lim)
}

func (g gen) fp(lim int, nanTag *int, pNaN int) fpay {
	if g.rnd.next(100) < pNaN {
		*nanTag++
		return fpay{Nan: true, X: *nanTag}
	}
	return fpay{X: g.num(int64(lim))}
}

var alphabet = []byte{0, 'a', 'b', 'z', 0x7f, 0x80, 0xc3, 0xff}

func (g gen) str(maxLen, nsym int) []byte {
	b := make([]byte, g.rnd.next(maxLen+1))
	for i := range b {
		b[i] = alphabet[g.rnd.next(nsym)]
	}
	return b
}

// key draws one abstract key for the key type ty / Go type g.t.  pNaN: per-float probability (percent) of a NaN.
func (g gen) key(ty string, nanTag *int, pNaN int) aval {
	switch ty {
	case "int":
		mt, _ := g.e.intRange(g.t.Bits())
		return aInt(g.num(mt))
	case "uint":
		mt, _ := g.e.uintRange(g.t.Bits())
		return aUint(g.rnd.next(int(mt) + 1))
	case "string":
		return aStr(g.str(5, len(alphabet)))
	case "bool":
		return aBool(g.rnd.next(2) == 1)
	case "float":
		lim := g.e.M
		if g.rnd.next(4) == 0 {
			lim = 8
		}
		return aFloat(g.fp(lim, nanTag, pNaN))
	case "complex":
		return aCplx(g.fp(6, nanTag, pNaN), g.fp(6, nanTag, pNaN))
	case "ptr":
		return aPtr(g.rnd.next(poolSize + 1))
	case "chan":
		return aChan(g.rnd.next(poolSize + 1))
	case "struct_is":
		return aStruct(aInt(g.num(6)), aStr(g.str(2, 3)))
	case "struct_fb":
		return aStruct(aFloat(g.fp(40, nanTag, pNaN)), aBool(g.rnd.next(2) == 1))
	case "array_2i":
		return aArray(aInt(g.num(7)), aInt(g.num(7)))
	case "array_3b":
		return aArray(aBool(g.rnd.next(2) == 1), aBool(g.rnd.next(2) == 1), aBool(g.rnd.next(2) == 1))
	case "nested":
		return aStruct(aArray(aInt(g.num(5)), aInt(g.num(5))), aBool(g.rnd.next(2) == 1))
	case "iface":
		switch g.rnd.next(9) {
		case 0:
			return aNil()
		case 1, 2, 3:
			return aDyn("int", aInt(g.num(40)))
		case 4, 5:
			return aDyn("int8", aInt(g.num(40)))
		case 6, 7:
			return aDyn("string", aStr(g.str(3, 4)))
		default:
			return aDyn("bool", aBool(g.rnd.next(2) == 1))
		}
	}
	vutil.Fatalf("no generator for %q", ty)
	return aval{}
}

func (c *checker) random(perType, maxKeys int) {
	rnd := vutil.Rand(202)
	src := &randSrc{next: rnd.Intn}
	e := embed{M: 1 << 20, U: 1<<20 - 1}
	var tys []string
	for ty := range goTypes {
		tys = append(tys, ty)
	}
	sort.Strings(tys)
	type job struct {
		ty   string
		t    reflect.Type
		keys []aval
	}
	var jobs []job
	for _, ty := range tys {
		for _, t := range goTypes[ty] {
			g := gen{rnd: src, t: t, e: e}
			for r := 0; r < perType; r++ {
				want := 2 + rnd.Intn(maxKeys-1)
				if r == 0 {
					want = maxKeys
				}
				// 0: no NaN at all, 1: exactly one NaN-bearing key (judged), 2: NaNs at random (mostly not judged)
				nanMode := r % 3
				pNaN := 0
				if nanMode == 2 {
					pNaN = 4
				}
				tag := 0
				seen := map[string]bool{}
				var keys []aval
				for tries := 0; len(keys) < want && tries < 20*want; tries++ {
					k := g.key(ty, &tag, pNaN)
					if nanMode == 1 && len(keys) == want/2 && tag == 0 {
						k = g.key(ty, &tag, 100)
					}
					if tok := k.token(); !seen[tok] {
						seen[tok] = true
						keys = append(keys, k)
					}
				}
				jobs = append(jobs, job{ty, t, keys})
			}
		}
	}
	vutil.ParallelN(len(jobs), func(i int) {
		j := jobs[i]
		o, err := run("random", j.ty, j.t, e, j.keys, nil)
		if err != nil {
			vutil.Fatalf("random map %s %v: %v", j.t, j.keys, err)
		}
		c.res.Eval(len(j.keys) > 1)
		c.res.Count("random:"+j.ty, 1)
		c.res.Count("random_keys", int64(len(j.keys)))
		c.trace.Write(o.rec)
		if c.common(o) {
			c.noteTypeOrder(o)
		}
	})
}

func main() {
	cases := flag.String("cases", "", "ndjson of MC_FmtSort (replay)")
	out := flag.String("out", "result.json", "result file")
	trace := flag.String("trace", "trace.ndjson", "ndjson trace to write")
	perType := flag.Int("random", 0, "random maps per concrete key type")
	maxKeys := flag.Int("maxkeys", 200, "largest random map")
	flag.Parse()
	initPools()
	c := &checker{res: vutil.NewResult(), trace: vutil.NewNDJSONWriter(*trace), tyPairs: map[string]string{}, sampled: map[string]bool{}}
	// NaN payloads must survive the trip through a map key, or NaN keys could not be identified
	{
		f := math.Float32frombits(0x7FC00000 | 5)
		m := reflect.ValueOf(map[float32]string{f: "x"})
		if id := identOf(m.MapKeys()[0]); id != identOf(reflect.ValueOf(f)) || id != "f7fc00005" {
			vutil.Fatalf("NaN payload not preserved on this platform: %s", id)
		}
	}
	if *cases != "" {
		c.replay(*cases)
	}
	if *perType > 0 {
		c.random(*perType, *maxKeys)
	}
	c.trace.Close()
	// drift: things the documentation leaves open
	var pairs []string
	for p := range c.tyPairs {
		pairs = append(pairs, p)
	}
	sort.Strings(pairs)
	c.res.Extra["iface_type_order_seen"] = pairs
	c.res.Extra["separately_allocated_pointers_ascend"] = allocOrdered
	for _, p := range pairs {
		ab := strings.SplitN(p, "<", 2)
		if w, both := c.tyPairs[ab[1]+"<"+ab[0]]; both && ab[0] < ab[1] {
			c.res.DriftAdd(vutil.Finding{Kind: "type-order-not-stable", What: fmt.Sprintf("dynamic types %s and %s were seen in both orders (the documentation fixes no order of reflect.Types)", ab[0], ab[1]),
				Detail: map[string]string{p: c.tyPairs[p], ab[1] + "<" + ab[0]: w}})
		}
	}
	c.res.Extra["trace_records"] = c.trace.N
	c.res.Write(*out)
}
