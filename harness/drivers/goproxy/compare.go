package main

// Running one store against the real server and judging the responses.
//
// Verdict policy (DESIGN 2.5, statement of C20):
//   violation  a stored .info/.mod not served byte-identically; a zip that is invalid, has a
//              name twice, or does not hold exactly the stored non-dot files under
//              path@version/ with identical data; a list whose set of versions is not the
//              valid non-pseudo stored ones; 200 for something not stored; 404 for something
//              stored; any other status; a panic; the server not starting on a well-formed
//              directory; (conc) any response that differs from the above under concurrency
//   drift      which of several stored layouts of the same version is served; order and
//              repetition of list lines; commit-hash requests answered 404 or with another
//              stored version whose hash the revision abbreviates / extends (the statement
//              does not describe hash resolution; the specification follows the code there)

import (
	"archive/zip"
	"bytes"
	"encoding/json"
	"fmt"
	"io"
	"math/rand"
	"net/http"
	"os"
	"path/filepath"
	"sort"
	"strings"
	"sync"
	"sync/atomic"
	"time"

	"golang.org/x/mod/module"

	"github.com/rogpeppe/go-internal/goproxytest"

	"verifharness/vutil"
)

type observed struct {
	status int
	body   []byte
	err    string
}

type nd struct{ Name, Data string }

func fetch(cl *http.Client, base, path string) observed {
	req, err := http.NewRequest("GET", base+path, nil)
	if err != nil {
		return observed{err: "bad request: " + err.Error()}
	}
	resp, err := cl.Do(req)
	if err != nil {
		return observed{err: err.Error()}
	}
	defer resp.Body.Close()
	b, err := io.ReadAll(resp.Body)
	if err != nil {
		return observed{status: resp.StatusCode, err: err.Error()}
	}
	return observed{status: resp.StatusCode, body: b}
}

func unzip(b []byte) ([]nd, error) {
	zr, err := zip.NewReader(bytes.NewReader(b), int64(len(b)))
	if err != nil {
		return nil, err
	}
	var out []nd
	for _, f := range zr.File {
		rc, err := f.Open()
		if err != nil {
			return nil, err
		}
		d, err := io.ReadAll(rc)
		rc.Close()
		if err != nil {
			return nil, err
		}
		out = append(out, nd{f.Name, string(d)})
	}
	return out, nil
}

func sortND(a []nd) []nd {
	c := append([]nd(nil), a...)
	sort.Slice(c, func(i, j int) bool { return c[i].Name < c[j].Name })
	return c
}

func equalND(a, b []nd) bool {
	if len(a) != len(b) {
		return false
	}
	for i := range a {
		if a[i] != b[i] {
			return false
		}
	}
	return true
}

// storeView is what the driver needs to know about a store to classify a difference.
type storeView struct {
	c       *caseRec
	entries map[string]*entryRec
}

func view(c *caseRec) *storeView {
	v := &storeView{c: c, entries: map[string]*entryRec{}}
	for i := range c.Entries {
		v.entries[s(c.Entries[i].Name)] = &c.Entries[i]
	}
	return v
}

// layoutsOf returns the entries (any layout) that store path@vers.
func (v *storeView) layoutsOf(path, vers string) []*entryRec {
	ep, err1 := module.EscapePath(path)
	ev, err2 := module.EscapeVersion(vers)
	if err1 != nil || err2 != nil {
		return nil
	}
	name := strings.ReplaceAll(ep, "/", "_") + "_" + ev
	var out []*entryRec
	for _, suf := range []string{".txtar", ".txt", ""} {
		if e := v.entries[name+suf]; e != nil && e.IsDir == (suf == "") {
			out = append(out, e)
		}
	}
	return out
}

// answerOf is the statement's answer for extension ext from the files of one entry.
func answerOf(e *entryRec, path, vers, ext string) (found bool, body string, z []nd) {
	switch ext {
	case "info", "mod":
		for _, f := range e.Files {
			if s(f.Name) == "."+ext {
				return true, s(f.Data), nil
			}
		}
		return false, "", nil
	case "zip":
		for _, f := range e.Files {
			if n := s(f.Name); !strings.HasPrefix(n, ".") {
				z = append(z, nd{path + "@" + vers + "/" + n, s(f.Data)})
			}
		}
		return true, "", sortND(z)
	}
	return false, "", nil
}

// normResp is an observed response in the shape of the specification's response records.
type normResp struct {
	Status int       `json:"status"`
	Kind   string    `json:"kind"`
	Body   []int     `json:"body"`
	Zip    []fileRec `json:"zip"`
	List   [][]int   `json:"list"`
}

func normalise(r reqDesc, o observed) normResp {
	n := normResp{Status: o.status, Kind: "none", Body: []int{}, Zip: []fileRec{}, List: [][]int{}}
	switch {
	case o.err != "":
		n.Kind = "error"
	case o.status != 200:
	case r.Kind == "list":
		n.Kind = "list"
		for _, l := range strings.Split(strings.TrimSuffix(string(o.body), "\n"), "\n") {
			n.List = append(n.List, vutil.Ints([]byte(l)))
		}
	case s(r.Ext) == "zip":
		z, err := unzip(o.body)
		if err != nil {
			n.Kind = "badzip"
			break
		}
		n.Kind = "zip"
		for _, f := range z {
			n.Zip = append(n.Zip, fileRec{vutil.Ints([]byte(f.Name)), vutil.Ints([]byte(f.Data))})
		}
	default:
		n.Kind = "bytes"
		n.Body = vutil.Ints(o.body)
	}
	return n
}

var traceW *vutil.NDJSONWriter

type verdict int

const (
	same verdict = iota
	drift
	bad
)

// judge compares an observed response with the prediction for request i.
func judge(h *header, v *storeView, i int, o observed) (verdict, string, string) {
	p := v.c.Pred[i]
	r := h.reqs[i]
	if o.err != "" {
		return bad, "request-failed", o.err
	}
	if o.status != 200 && o.status != 404 {
		return bad, "unexpected-status", fmt.Sprintf("status %d", o.status)
	}
	if r.Kind == "list" {
		want := map[string]bool{}
		var wantSeq []string
		for _, l := range p.List {
			want[s(l)] = true
			wantSeq = append(wantSeq, s(l))
		}
		if o.status != p.Status {
			return bad, "list-status", fmt.Sprintf("status %d, the valid non-pseudo stored versions are %q", o.status, wantSeq)
		}
		if o.status == 404 {
			return same, "", ""
		}
		lines := strings.Split(string(o.body), "\n")
		note := ""
		if lines[len(lines)-1] != "" {
			note = "last line without newline"
		} else {
			lines = lines[:len(lines)-1]
		}
		got := map[string]bool{}
		for _, l := range lines {
			if got[l] {
				note = "version listed twice"
			}
			got[l] = true
		}
		for l := range got {
			if !want[l] {
				return bad, "list-mismatch", fmt.Sprintf("lists %q, the valid non-pseudo stored versions are %q", lines, wantSeq)
			}
		}
		for l := range want {
			if !got[l] {
				return bad, "list-mismatch", fmt.Sprintf("lists %q, the valid non-pseudo stored versions are %q", lines, wantSeq)
			}
		}
		if note == "" && strings.Join(lines, "\n") != strings.Join(wantSeq, "\n") {
			note = "order differs from the directory order"
		}
		if note != "" {
			return drift, "list-form", note
		}
		return same, "", ""
	}

	path, ext := s(r.Path), s(r.Ext)
	// does the observed response equal the prediction?
	matches := func(wantStatus int, kind string, body string, z []nd) (bool, string) {
		if o.status != wantStatus {
			return false, fmt.Sprintf("status %d, want %d", o.status, wantStatus)
		}
		if wantStatus == 404 {
			return true, ""
		}
		if kind == "zip" {
			got, err := unzip(o.body)
			if err != nil {
				return false, "invalid zip: " + err.Error()
			}
			seen := map[string]bool{}
			for _, f := range got {
				if seen[f.Name] {
					return false, "zip holds " + f.Name + " twice"
				}
				seen[f.Name] = true
			}
			if !equalND(sortND(got), z) {
				return false, fmt.Sprintf("zip holds %q, stored (non-dot, prefixed) %q", sortND(got), z)
			}
			return true, ""
		}
		if string(o.body) != body {
			return false, fmt.Sprintf("body %q, stored %q", o.body, body)
		}
		return true, ""
	}
	var pz []nd
	for _, f := range p.Zip {
		pz = append(pz, nd{s(f.Name), s(f.Data)})
	}
	ok, why := matches(p.Status, p.Kind, s(p.Body), sortND(pz))
	if ok {
		return same, "", ""
	}
	switch r.Kind {
	case "raw":
		return bad, "served-not-stored", why
	case "file":
		if p.Status == 200 && o.status == 200 {
			// another stored layout of the same version?
			for _, e := range v.layoutsOf(path, s(r.Vers)) {
				if found, body, z := answerOf(e, path, s(r.Vers), ext); found {
					if ok, _ := matches(200, p.Kind, body, z); ok {
						return drift, "layout-preference", "served from entry " + s(e.Name)
					}
				}
			}
			if p.Kind == "zip" {
				return bad, "zip-mismatch", why
			}
			return bad, "content-mismatch", why
		}
		if p.Status == 200 {
			return bad, "stored-not-served", why
		}
		return bad, "served-not-stored", why
	case "rev":
		if o.status == 404 {
			return drift, "rev-not-resolved", why
		}
		rev := s(r.Vers)
		candidates := 0
		for _, it := range v.c.Items {
			k := it.MV - 1
			if h.path[k] != path {
				continue
			}
			hash := h.short[k]
			if h.fam[k].Pseudo {
				hash = h.vers[k][strings.LastIndex(h.vers[k], "-")+1:]
				hash = strings.TrimSuffix(hash, "+incompatible")
			}
			if hash == "" || !(strings.HasPrefix(hash, rev) || strings.HasPrefix(rev, hash)) {
				continue
			}
			candidates++
			for _, e := range v.layoutsOf(path, h.vers[k]) {
				if found, body, z := answerOf(e, path, h.vers[k], ext); found {
					kind := "bytes"
					if ext == "zip" {
						kind = "zip"
					}
					if ok, _ := matches(200, kind, body, z); ok {
						return drift, "rev-resolution", "answered with " + h.vers[k] + ": " + why
					}
				}
			}
		}
		if candidates > 0 {
			return bad, "rev-content-mismatch", "revision " + rev + " is answered with something that is not the stored content of a version it stands for: " + why
		}
		return bad, "rev-served-without-matching-hash", "revision " + rev + " is not stored and abbreviates / extends the hash of no stored version of " + path + ", but: " + why
	}
	return bad, "mismatch", why
}

func describe(h *header, v *storeView, i int, o observed) map[string]interface{} {
	var dir []map[string]interface{}
	for _, e := range v.c.Entries {
		files := map[string]string{}
		for _, f := range e.Files {
			files[s(f.Name)] = s(f.Data)
		}
		dir = append(dir, map[string]interface{}{"name": s(e.Name), "isdir": e.IsDir, "files": files})
	}
	p := v.c.Pred[i]
	exp := map[string]interface{}{"status": p.Status, "kind": p.Kind}
	switch p.Kind {
	case "bytes":
		exp["body"] = s(p.Body)
	case "zip":
		var z []nd
		for _, f := range p.Zip {
			z = append(z, nd{s(f.Name), s(f.Data)})
		}
		exp["zip"] = z
	case "list":
		var l []string
		for _, x := range p.List {
			l = append(l, s(x))
		}
		exp["list"] = l
	}
	body := string(o.body)
	if len(body) > 600 {
		body = body[:600] + "..."
	}
	return map[string]interface{}{"directory": dir, "request": "GET " + h.url[i], "expected": exp,
		"observed": map[string]interface{}{"status": o.status, "body": body, "error": o.err}}
}

func record(h *header, v *storeView, i int, o observed, prefix string) {
	vd, kind, why := judge(h, v, i, o)
	if prefix == "" {
		res.Eval(v.c.Pred[i].Status == 200) // distinct (store, request) pairs: sequential mode only
	} else {
		res.Eval(false)
	}
	switch vd {
	case drift:
		res.Count("drift:"+kind, 1)
		res.DriftAdd(vutil.Finding{Kind: prefix + kind, What: fmt.Sprintf("GET %s on store %v: %s", h.url[i], itemNames(h, v.c), why)})
	case bad:
		class := h.url[i]
		if kind == "rev-served-without-matching-hash" {
			class = "hex-revision-answered-by-version-without-matching-hash"
		}
		res.Violate(vutil.Finding{Kind: prefix + kind, Class: class,
			What:  fmt.Sprintf("GET %s on a server for %v: %s", h.url[i], itemNames(h, v.c), why),
			Input: describe(h, v, i, o)})
	}
}

func itemNames(h *header, c *caseRec) []string {
	var out []string
	for _, it := range c.Items {
		out = append(out, h.path[it.MV-1]+"@"+h.vers[it.MV-1]+" ("+it.Layout+")")
	}
	return out
}

// runStore: clients == 0 sequential, otherwise that many goroutines at once on a fresh server.
func runStore(h *header, c *caseRec, clients int) {
	tag := "seq"
	if clients > 0 {
		tag = "conc"
	}
	dir := materialise(c, tag)
	defer os.RemoveAll(dir)
	v := view(c)
	var srv *goproxytest.Server
	var err error
	func() {
		defer func() {
			if r := recover(); r != nil {
				err = fmt.Errorf("panic: %v", r)
			}
		}()
		srv, err = goproxytest.NewServer(spelled(dir), "127.0.0.1:0")
	}()
	if err != nil {
		res.Violate(vutil.Finding{Kind: "server-does-not-start", Class: fmt.Sprint(itemNames(h, c)),
			What: fmt.Sprintf("NewServer on the directory for %v: %v", itemNames(h, c), err), Input: describe(h, v, 0, observed{})})
		return
	}
	defer srv.Close()
	if !strings.HasSuffix(srv.URL, "/mod") {
		vutil.Fatalf("unexpected server URL %q", srv.URL)
	}
	base := strings.TrimSuffix(srv.URL, "/mod")
	tr := &http.Transport{MaxIdleConnsPerHost: 64, DisableCompression: true}
	defer tr.CloseIdleConnections()
	cl := &http.Client{Transport: tr, Timeout: 30 * time.Second}
	n := len(h.reqs)
	if clients == 0 {
		for i := 0; i < n; i++ {
			record(h, v, i, fetch(cl, base, h.url[i]), "")
		}
		if len(c.Items) > 0 {
			res.Sample(map[string]interface{}{"store": itemNames(h, c), "requests": n,
				"example": "GET " + h.url[4+3*(c.Items[0].MV-1)+2] + " -> zip of the stored non-dot files"}, 6)
		}
		return
	}
	// requests whose answer needs an archive first: they race on the caches
	var hot, cold []int
	for i := 0; i < n; i++ {
		if c.Pred[i].Status == 200 {
			hot = append(hot, i)
		} else {
			cold = append(cold, i)
		}
	}
	start := make(chan struct{})
	var wg sync.WaitGroup
	var omu sync.Mutex
	obs := make([]map[string]normResp, n)
	for i := range obs {
		obs[i] = map[string]normResp{}
	}
	for g := 0; g < clients; g++ {
		// every request that needs an archive, and a few of the others: what matters are the
		// FIRST requests on a fresh server, afterwards the caches are warm
		rng := rand.New(rand.NewSource(vutil.Seed()*7919 + c.Key*131 + int64(g)))
		some := append([]int(nil), cold...)
		rng.Shuffle(len(some), func(i, j int) { some[i], some[j] = some[j], some[i] })
		if len(some) > 6 {
			some = some[:6]
		}
		order := append(append([]int(nil), hot...), some...)
		if g%2 == 1 {
			rng.Shuffle(len(order), func(i, j int) { order[i], order[j] = order[j], order[i] })
		} else if g%4 == 2 {
			// zips first
			sort.SliceStable(order, func(a, b int) bool { return c.Pred[order[a]].Kind == "zip" && c.Pred[order[b]].Kind != "zip" })
		}
		wg.Add(1)
		go func(order []int) {
			defer wg.Done()
			<-start
			for _, i := range order {
				o := fetch(cl, base, h.url[i])
				record(h, v, i, o, "concurrent-")
				if traceW != nil {
					nr := normalise(h.reqs[i], o)
					b, _ := json.Marshal(nr)
					omu.Lock()
					obs[i][string(b)] = nr
					omu.Unlock()
				}
			}
		}(order)
	}
	close(start)
	wg.Wait()
	if traceW != nil {
		rec := struct {
			Key   int64        `json:"key"`
			Items []itemRec    `json:"items"`
			Obs   [][]normResp `json:"obs"`
		}{Key: c.Key, Items: c.Items, Obs: make([][]normResp, n)}
		if rec.Items == nil {
			rec.Items = []itemRec{}
		}
		for i := range obs {
			rec.Obs[i] = []normResp{}
			keys := make([]string, 0, len(obs[i]))
			for k := range obs[i] {
				keys = append(keys, k)
			}
			sort.Strings(keys)
			for _, k := range keys {
				rec.Obs[i] = append(rec.Obs[i], obs[i][k])
			}
		}
		traceW.Write(rec)
	}
	res.Count("concurrent_servers", 1)
}

// spelled returns one of several spellings of the same directory (as a caller might pass it: with a trailing separator,
// with a "." element, with a doubled separator): the server serves the directory, however its name was written.
var spellSeq int64

func spelled(dir string) string {
	switch atomic.AddInt64(&spellSeq, 1) % 4 {
	case 1:
		return dir + "/"
	case 2:
		return dir + "/."
	case 3:
		return filepath.Dir(dir) + "//" + filepath.Base(dir)
	}
	return dir
}
