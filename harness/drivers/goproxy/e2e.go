package main

// End to end: the go command downloads every stored, valid module version from the real
// server (fully offline: GOPROXY is the server, no checksum database, private module
// cache) and what arrives in the module cache is compared with the prediction.
// What the go command refuses for reasons of its own is counted, not judged.

import (
	"encoding/json"
	"fmt"
	"io/fs"
	"os"
	"os/exec"
	"path/filepath"
	"sort"
	"strings"

	"golang.org/x/mod/module"

	"github.com/rogpeppe/go-internal/goproxytest"

	"verifharness/vutil"
)

func rmAll(p string) {
	filepath.WalkDir(p, func(q string, d fs.DirEntry, err error) error {
		if err == nil && d.IsDir() {
			os.Chmod(q, 0o777)
		}
		return nil
	})
	os.RemoveAll(p)
}

func runE2E(h *header, cases []*caseRec, gobin string) {
	idx := map[string]int{}
	for i, u := range h.url {
		idx[u] = i
	}
	vutil.ParallelN(len(cases), func(ci int) {
		c := cases[ci]
		if len(c.Items) == 0 {
			return
		}
		dir := materialise(c, "e2e")
		defer os.RemoveAll(dir)
		srv, err := goproxytest.NewServer(spelled(dir), "127.0.0.1:0")
		if err != nil {
			res.Violate(vutil.Finding{Kind: "server-does-not-start", Class: fmt.Sprint(itemNames(h, c)), What: err.Error()})
			return
		}
		defer srv.Close()
		work := filepath.Join(scratch, fmt.Sprintf("e2ework-%d-%d", len(c.Items), c.Key))
		defer rmAll(work)
		os.MkdirAll(filepath.Join(work, "m"), 0o777)
		os.WriteFile(filepath.Join(work, "m", "go.mod"), []byte("module scratch\n\ngo 1.23\n"), 0o666)
		done := map[int]bool{}
		for _, it := range c.Items {
			k := it.MV - 1
			if done[k] || !h.fam[k].Valid {
				continue
			}
			done[k] = true
			path, vers := h.path[k], h.vers[k]
			ep, _ := module.EscapePath(path)
			ev, _ := module.EscapeVersion(vers)
			pi, okm := idx["/mod/"+ep+"/@v/"+ev+".mod"]
			zi, okz := idx["/mod/"+ep+"/@v/"+ev+".zip"]
			if !okm || !okz {
				vutil.Fatalf("no request for %s@%s", path, vers)
			}
			if c.Pred[pi].Status != 200 {
				continue // no .mod stored: nothing the go command could download
			}
			cmd := exec.Command(gobin, "mod", "download", "-json", path+"@"+vers)
			cmd.Dir = filepath.Join(work, "m")
			cmd.Env = append(os.Environ(),
				"GOPROXY="+srv.URL, "GONOSUMDB=*", "GONOSUMCHECK=1", "GONOPROXY=", "GOPRIVATE=", "GOINSECURE=*",
				"GOSUMDB=off", "GOFLAGS=-mod=mod", "GOTOOLCHAIN=local", "GOWORK=off", "GO111MODULE=on", "GOVCS=*:off",
				"GOMODCACHE="+filepath.Join(work, "modcache"), "GOPATH="+filepath.Join(work, "gopath"),
				"GOCACHE="+filepath.Join(work, "gocache"), "HOME="+work)
			out, err := cmd.Output()
			var dl struct{ Path, Version, Info, GoMod, Zip, Dir, Error string }
			jerr := json.Unmarshal(out, &dl)
			res.Count("e2e_downloads", 1)
			if err != nil || jerr != nil || dl.Error != "" {
				msg := dl.Error
				if ee, ok := err.(*exec.ExitError); ok && msg == "" {
					msg = string(ee.Stderr)
				}
				res.Count("e2e_refused_by_go", 1)
				res.DriftAdd(vutil.Finding{Kind: "e2e-go-refused", What: fmt.Sprintf("go mod download %s@%s: %.300s", path, vers, msg)})
				continue
			}
			res.Eval(true)
			v := view(c)
			fail := func(kind, why string) {
				res.Violate(vutil.Finding{Kind: "e2e-" + kind, Class: path + "@" + vers,
					What:  fmt.Sprintf("go mod download %s@%s from a server for %v: %s", path, vers, itemNames(h, c), why),
					Input: describe(h, v, zi, observed{})})
			}
			// go.mod as downloaded
			if b, err := os.ReadFile(dl.GoMod); err != nil || string(b) != s(c.Pred[pi].Body) {
				alt := false
				for _, e := range v.layoutsOf(path, vers) {
					if found, body, _ := answerOf(e, path, vers, "mod"); found && body == string(b) {
						alt = true
					}
				}
				if alt {
					res.DriftAdd(vutil.Finding{Kind: "layout-preference", What: "e2e .mod served from another layout"})
				} else {
					fail("mod-mismatch", fmt.Sprintf("downloaded .mod %q (%v), stored %q", b, err, s(c.Pred[pi].Body)))
				}
			}
			// info
			var info struct{ Version string }
			if b, err := os.ReadFile(dl.Info); err != nil || json.Unmarshal(b, &info) != nil || info.Version != vers {
				fail("info-mismatch", fmt.Sprintf("downloaded .info %q (%v), want Version %s", b, err, vers))
			}
			// zip and extracted tree
			var want []nd
			for _, f := range c.Pred[zi].Zip {
				want = append(want, nd{s(f.Name), s(f.Data)})
			}
			want = sortND(want)
			if b, err := os.ReadFile(dl.Zip); err != nil {
				fail("zip-missing", err.Error())
			} else if got, err := unzip(b); err != nil {
				fail("zip-invalid", err.Error())
			} else if !equalND(sortND(got), want) {
				altOK := false
				for _, e := range v.layoutsOf(path, vers) {
					if _, _, z := answerOf(e, path, vers, "zip"); equalND(sortND(got), z) {
						altOK = true
					}
				}
				if !altOK {
					fail("zip-mismatch", fmt.Sprintf("downloaded zip holds %q, stored %q", sortND(got), want))
				}
			} else {
				// extracted directory = the same files without the prefix
				var tree []nd
				filepath.WalkDir(dl.Dir, func(q string, d fs.DirEntry, err error) error {
					if err == nil && !d.IsDir() {
						b, _ := os.ReadFile(q)
						rel, _ := filepath.Rel(dl.Dir, q)
						tree = append(tree, nd{path + "@" + vers + "/" + filepath.ToSlash(rel), string(b)})
					}
					return nil
				})
				sort.Slice(tree, func(i, j int) bool { return tree[i].Name < tree[j].Name })
				if !equalND(tree, want) {
					fail("tree-mismatch", fmt.Sprintf("extracted %q, stored %q", tree, want))
				}
			}
			res.Sample(map[string]interface{}{"go_mod_download": path + "@" + vers, "store": itemNames(h, c),
				"files": len(want), "dir": strings.TrimPrefix(dl.Dir, work)}, 4)
		}
	})
}
