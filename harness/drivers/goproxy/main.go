// Driver for C20: goproxytest serves exactly the modules stored in its directory.
//
// Input: the ndjson emitted by TLC from spec/goproxy/MC_GoProxy.tla: one header
// (the module-version family with the specification's pseudo / valid / order
// judgements and the request set) and one record per store (the directory entries
// with their files, and the predicted response to every request).
//
//	-mode replay   every store is materialised in scratch, the REAL goproxytest.NewServer is
//	               started on it (127.0.0.1:0), every request is issued with net/http one after
//	               the other and the response compared with the prediction
//	-mode conc     as replay, but against a fresh server -clients goroutines issue the
//	               requests at once (half of them in the same order, so that the same first
//	               requests race on the archive and zip caches, half in seeded random orders);
//	               built with -race by the check
//	-mode e2e      `go mod download -json path@version` against the real server, fully offline
//
// Verdict policy: see compare.go.
package main

import (
	"encoding/json"
	"flag"
	"fmt"
	"io"
	"log"
	"os"
	"path/filepath"
	"sort"
	"strings"
	"sync"
	"sync/atomic"

	"golang.org/x/mod/module"
	"golang.org/x/mod/semver"

	"verifharness/vutil"
)

type famEntry struct {
	Path   []int  `json:"path"`
	Vers   []int  `json:"vers"`
	Pseudo bool   `json:"pseudo"`
	Valid  bool   `json:"valid"`
	Short  []int  `json:"short"`
	Less   []bool `json:"less"`
}

type reqDesc struct {
	Kind string `json:"kind"`
	URL  []int  `json:"url"`
	Path []int  `json:"path"`
	Vers []int  `json:"vers"`
	Ext  []int  `json:"ext"`
}

type fileRec struct {
	Name []int `json:"name"`
	Data []int `json:"data"`
}

type entryRec struct {
	Name  []int     `json:"name"`
	IsDir bool      `json:"isdir"`
	Files []fileRec `json:"files"`
}

type predRec struct {
	Status int       `json:"status"`
	Kind   string    `json:"kind"`
	Body   []int     `json:"body"`
	Zip    []fileRec `json:"zip"`
	List   [][]int   `json:"list"`
}

type itemRec struct {
	MV     int    `json:"mv"`
	Layout string `json:"layout"`
}

type caseRec struct {
	Kind    string     `json:"kind"`
	Key     int64      `json:"key"`
	Items   []itemRec  `json:"items"`
	Entries []entryRec `json:"entries"`
	Pred    []predRec  `json:"pred"`
	// header fields
	Fam  []famEntry `json:"fam"`
	Reqs []reqDesc  `json:"reqs"`
}

type header struct {
	fam  []famEntry
	reqs []reqDesc
	// decoded
	path, vers, short []string
	url               []string
}

func s(a []int) string { return string(vutil.Bytes(a)) }

var (
	res     = vutil.NewResult()
	scratch string
)

func loadCases(files []string) (*header, []*caseRec) {
	var hdr *header
	var cases []*caseRec
	seen := map[int64]bool{}
	for _, f := range files {
		vutil.ReadNDJSON(f, func(line []byte) {
			var c caseRec
			if err := json.Unmarshal(line, &c); err != nil {
				vutil.Fatalf("bad case line: %v: %.200s", err, line)
			}
			switch c.Kind {
			case "hdr":
				h := &header{fam: c.Fam, reqs: c.Reqs}
				for _, f := range c.Fam {
					h.path = append(h.path, s(f.Path))
					h.vers = append(h.vers, s(f.Vers))
					h.short = append(h.short, s(f.Short))
				}
				for _, r := range c.Reqs {
					h.url = append(h.url, s(r.URL))
				}
				if hdr != nil && len(hdr.url) != len(h.url) {
					vutil.Fatalf("case files with different request sets")
				}
				hdr = h
			case "store":
				id := c.Key*100 + int64(len(c.Items))
				if seen[id] {
					return
				}
				seen[id] = true
				cc := c
				cases = append(cases, &cc)
			default:
				vutil.Fatalf("unknown record kind %q", c.Kind)
			}
		})
	}
	if hdr == nil {
		vutil.Fatalf("no header record in %v", files)
	}
	for _, c := range cases {
		if len(c.Pred) != len(hdr.reqs) {
			vutil.Fatalf("store %d: %d predictions for %d requests", c.Key, len(c.Pred), len(hdr.reqs))
		}
	}
	sort.Slice(cases, func(i, j int) bool {
		if len(cases[i].Items) != len(cases[j].Items) {
			return len(cases[i].Items) < len(cases[j].Items)
		}
		return cases[i].Key < cases[j].Key
	})
	return hdr, cases
}

// checkReference compares what the specification says about the family's versions
// with golang.org/x/mod (the library goproxytest itself relies on for these
// judgements).  A difference is a problem of the specification: the check turns
// spec_vs_ref_disagreements > 0 into "no verdict".
func checkReference(h *header) {
	for i, f := range h.fam {
		p, v := h.path[i], h.vers[i]
		if got := module.IsPseudoVersion(v); got != f.Pseudo {
			res.Count("spec_vs_ref_disagreements", 1)
			res.DriftAdd(vutil.Finding{Kind: "spec-vs-x/mod", What: fmt.Sprintf("IsPseudoVersion(%q): x/mod %v, specification %v", v, got, f.Pseudo)})
		}
		if got := module.Check(p, v) == nil; got != f.Valid {
			res.Count("spec_vs_ref_disagreements", 1)
			res.DriftAdd(vutil.Finding{Kind: "spec-vs-x/mod", What: fmt.Sprintf("module.Check(%q, %q): x/mod %v, specification %v", p, v, got, f.Valid)})
		}
		for j := range h.fam {
			if got := semver.Compare(v, h.vers[j]) < 0; got != f.Less[j] {
				res.Count("spec_vs_ref_disagreements", 1)
				res.DriftAdd(vutil.Finding{Kind: "spec-vs-x/mod", What: fmt.Sprintf("semver.Compare(%q, %q) < 0: x/mod %v, specification %v", v, h.vers[j], got, f.Less[j])})
			}
		}
		ep, err1 := module.EscapePath(p)
		ev, err2 := module.EscapeVersion(v)
		if err1 != nil || err2 != nil {
			res.Count("spec_vs_ref_disagreements", 1)
			res.DriftAdd(vutil.Finding{Kind: "spec-vs-x/mod", What: fmt.Sprintf("x/mod cannot escape %q %q: %v %v", p, v, err1, err2)})
			continue
		}
		// the request URL the specification built for (path, version, .info) uses the same escaping
		want := "/mod/" + ep + "/@v/" + ev + ".info"
		found := false
		for _, u := range h.url {
			if u == want {
				found = true
			}
		}
		if !found {
			res.Count("spec_vs_ref_disagreements", 1)
			res.DriftAdd(vutil.Finding{Kind: "spec-vs-x/mod", What: fmt.Sprintf("no request URL %q: the specification escapes differently from x/mod", want)})
		}
		res.Count("reference_comparisons", int64(3+len(h.fam)))
	}
}

func main() {
	mode := flag.String("mode", "replay", "replay | conc | e2e")
	out := flag.String("out", "", "result file")
	clients := flag.Int("clients", 32, "concurrent clients (conc)")
	maxStores := flag.Int("max", 0, "use at most this many stores, chosen by seed (0 = all)")
	gobin := flag.String("go", "go", "go command (e2e)")
	trace := flag.String("trace", "", "conc: write one record per server with the distinct responses per request (validated by TLC)")
	flag.Parse()
	if *out == "" || flag.NArg() == 0 {
		vutil.Fatalf("usage: goproxy -mode M -out result.json cases.ndjson...")
	}
	log.SetOutput(io.Discard) // the server logs every 404 through log.Printf
	var err error
	scratch, err = os.MkdirTemp("", "goproxy-drv-")
	if err != nil {
		vutil.Fatalf("%v", err)
	}
	defer os.RemoveAll(scratch)

	hdr, cases := loadCases(flag.Args())
	checkReference(hdr)
	if *maxStores > 0 && len(cases) > *maxStores {
		// keep the small stores (they hold every single-layout case), thin the rest by seed
		rng := vutil.Rand(20)
		var small, big []*caseRec
		for _, c := range cases {
			if len(c.Items) <= 1 {
				small = append(small, c)
			} else {
				big = append(big, c)
			}
		}
		rng.Shuffle(len(big), func(i, j int) { big[i], big[j] = big[j], big[i] })
		n := *maxStores - len(small)
		if n < 0 {
			n = 0
		}
		if n > len(big) {
			n = len(big)
		}
		cases = append(small, big[:n]...)
	}
	res.Count("stores", int64(len(cases)))
	res.Count("requests_per_store", int64(len(hdr.reqs)))

	switch *mode {
	case "replay":
		vutil.ParallelN(len(cases), func(i int) { runStore(hdr, cases[i], 0) })
	case "conc":
		if *trace != "" {
			traceW = vutil.NewNDJSONWriter(*trace)
			defer traceW.Close()
		}
		// the stores run one after the other in a few lanes: the goroutines of one store are the concurrency under test
		lanes := 4
		var wg sync.WaitGroup
		ch := make(chan *caseRec)
		for l := 0; l < lanes; l++ {
			wg.Add(1)
			go func() {
				defer wg.Done()
				for c := range ch {
					runStore(hdr, c, *clients)
				}
			}()
		}
		for _, c := range cases {
			ch <- c
		}
		close(ch)
		wg.Wait()
	case "e2e":
		runE2E(hdr, cases, *gobin)
	default:
		vutil.Fatalf("unknown mode %q", *mode)
	}
	res.Write(*out)
}

// materialise writes the directory of a store below scratch and returns its path.
var linkSeq int64

func materialise(c *caseRec, tag string) string {
	dir := filepath.Join(scratch, fmt.Sprintf("%s-%d-%d", tag, len(c.Items), c.Key))
	if err := os.MkdirAll(dir, 0o777); err != nil {
		vutil.Fatalf("%v", err)
	}
	for _, e := range c.Entries {
		name := s(e.Name)
		if strings.ContainsAny(name, "/\x00") || name == "" {
			vutil.Fatalf("store %d: bad entry name %q", c.Key, name)
		}
		p := filepath.Join(dir, name)
		if e.IsDir {
			if err := os.MkdirAll(p, 0o777); err != nil {
				vutil.Fatalf("%v", err)
			}
			for _, f := range e.Files {
				fp := filepath.Join(p, filepath.FromSlash(s(f.Name)))
				if err := os.MkdirAll(filepath.Dir(fp), 0o777); err != nil {
					vutil.Fatalf("%v", err)
				}
				// in every other directory entry the .mod file and the .go files are symbolic links to files kept elsewhere
				// (a checkout managed by a tool that links its files in): what the link leads to is the file's content
				if linked := atomic.AddInt64(&linkSeq, 1)%2 == 0; linked && (strings.HasSuffix(fp, ".go") || strings.HasSuffix(fp, ".mod")) {
					tdir := filepath.Join(scratch, "link-targets")
					os.MkdirAll(tdir, 0o777)
					target := filepath.Join(tdir, fmt.Sprintf("t%d", atomic.AddInt64(&linkSeq, 2)))
					if err := os.WriteFile(target, vutil.Bytes(f.Data), 0o666); err != nil {
						vutil.Fatalf("%v", err)
					}
					os.Remove(fp)
					if err := os.Symlink(target, fp); err != nil {
						vutil.Fatalf("%v", err)
					}
					continue
				}
				os.Remove(fp)
				if err := os.WriteFile(fp, vutil.Bytes(f.Data), 0o666); err != nil {
					vutil.Fatalf("%v", err)
				}
			}
			// an empty sub-directory is not a file of the module
			if len(e.Files) > 1 {
				os.MkdirAll(filepath.Join(p, "emptydir"), 0o777)
			}
			continue
		}
		// archive layouts: txtar text written by hand (comment, then "-- name --" + data)
		var b strings.Builder
		if strings.HasSuffix(name, ".txt") {
			b.WriteString("written for the proxy\n\n")
		}
		for _, f := range e.Files {
			d := vutil.Bytes(f.Data)
			if len(d) > 0 && d[len(d)-1] != '\n' {
				vutil.Fatalf("store %d: archive data of %q does not end in a newline", c.Key, s(f.Name))
			}
			b.WriteString("-- " + s(f.Name) + " --\n")
			b.Write(d)
		}
		if err := os.WriteFile(p, []byte(b.String()), 0o666); err != nil {
			vutil.Fatalf("%v", err)
		}
	}
	return dir
}
