// Driver for C18: replays TLC-generated Go files and fragment strings into the
// real imports.ReadImports, compares with go/parser (the reference the property
// statement names) and with the specification's prediction, and records the
// real behaviour on seeded random mutations for validation by TLC.
package main

import (
	"bytes"
	"encoding/json"
	"flag"
	"fmt"
	"go/parser"
	"go/token"
	"io"
	"os"
	"sort"
	"strconv"
	"strings"
	"sync"
	"testing/iotest"
	"time"

	"verifharness/vutil"

	"github.com/rogpeppe/go-internal/imports"
)

var bom = []byte{0xEF, 0xBB, 0xBF}

// ---- the real code, under recover and a watchdog ----

type outcome struct {
	Out     []byte
	Err     string // "none" | "syntax" | "nul" | "other"
	ErrText string
	Imports []string
	Panic   string
	Hang    bool
}

func (o outcome) failed() bool { return o.Panic != "" || o.Hang }

func classify(err error) string {
	if err == nil {
		return "none"
	}
	s := strings.ToLower(err.Error())
	switch {
	case strings.Contains(s, "syntax"):
		return "syntax"
	case strings.Contains(s, "nul"):
		return "nul"
	}
	return "other"
}

const hangTimeout = 20 * time.Second

func runReal(in []byte, report bool, oneByte bool) outcome {
	ch := make(chan outcome, 1)
	go func() {
		var o outcome
		defer func() {
			if r := recover(); r != nil {
				o.Panic = fmt.Sprint(r)
			}
			ch <- o
		}()
		var rd io.Reader = bytes.NewReader(in)
		if oneByte {
			rd = iotest.OneByteReader(rd)
		}
		var list []string
		out, err := imports.ReadImports(rd, report, &list)
		// what was returned stays what it is: a later call (here on the same goroutine, so that any per-goroutine or pooled
		// storage comes round again) must not reach into an earlier result
		var decoy []string
		imports.ReadImports(strings.NewReader("package decoy\n\nimport (\n\t\"decoy/one\"\n\t\"decoy/two\"\n)\n\nvar decoy = 1\n"), false, &decoy)
		o.Out = out
		o.Err = classify(err)
		if err != nil {
			o.ErrText = err.Error()
		}
		o.Imports = list
	}()
	t := time.NewTimer(hangTimeout)
	defer t.Stop()
	select {
	case o := <-ch:
		return o
	case <-t.C:
		return outcome{Hang: true}
	}
}

// ---- the reference: go/parser ----

func goparse(src []byte, mode parser.Mode) (imps []string, err error) {
	defer func() {
		if r := recover(); r != nil {
			err = fmt.Errorf("go/parser panics: %v", r)
		}
	}()
	f, err := parser.ParseFile(token.NewFileSet(), "x.go", src, mode)
	if f != nil {
		for _, s := range f.Imports {
			if s.Path != nil {
				imps = append(imps, s.Path.Value)
			}
		}
	}
	return imps, err
}

func sameStrings(a, b []string) bool {
	if len(a) != len(b) {
		return false
	}
	for i := range a {
		if a[i] != b[i] {
			return false
		}
	}
	return true
}

// samePaths compares import paths the way the statement means it: the values of the
// literals (a raw literal holding a carriage return denotes the path without it, for
// go/parser and for strconv.Unquote alike); literals that cannot be unquoted compare as text.
func samePaths(a, b []string) bool {
	if len(a) != len(b) {
		return false
	}
	for i := range a {
		if a[i] == b[i] {
			continue
		}
		ua, erra := strconv.Unquote(a[i])
		ub, errb := strconv.Unquote(b[i])
		if erra != nil || errb != nil || ua != ub {
			return false
		}
	}
	return true
}

func hasBOM(b []byte) bool { return bytes.HasPrefix(b, bom) }

func isPrefixBOMAside(out, in []byte) bool {
	return bytes.HasPrefix(in, out) || (hasBOM(in) && bytes.HasPrefix(in[3:], out))
}

func isWholeBOMAside(out, in []byte) bool {
	return bytes.Equal(out, in) || (hasBOM(in) && bytes.Equal(out, in[3:]))
}

func inputDesc(in []byte) map[string]interface{} {
	return map[string]interface{}{"text": string(in), "bytes": vutil.Ints(in)}
}

func (o outcome) json() map[string]interface{} {
	return map[string]interface{}{"returned": string(o.Out), "returned_len": len(o.Out), "err": o.ErrText,
		"imports": o.Imports, "panic": o.Panic, "hang": o.Hang}
}

// what the specification predicts for one input
type specCase struct {
	Input   []int   `json:"input"`
	Imports [][]int `json:"imports"`
	End     int     `json:"end"`
	Err     string  `json:"err"` // absent (valid-file cases) means "none"
}

func (c *specCase) imports() []string {
	r := []string{}
	for _, i := range c.Imports {
		r = append(r, string(vutil.Bytes(i)))
	}
	return r
}

type judge struct {
	res     *vutil.Result
	outPath string
	mu      sync.Mutex
	seen    map[string]struct{}
	viol    map[string][]vutil.Finding // per kind: the findings with the shortest inputs
}

const keepPerKind = 20

// violate counts every violation and keeps, per kind, the ones with the shortest
// failing inputs (a defect usually shows on thousands of generated inputs).
func (j *judge) violate(f vutil.Finding) {
	j.res.Count("violations_seen", 1)
	j.res.Count("seen:"+f.Kind, 1)
	j.mu.Lock()
	defer j.mu.Unlock()
	l := append(j.viol[f.Kind], f)
	sort.SliceStable(l, func(a, b int) bool {
		// files that do import something first: they show what is lost
		if ia, ib := importsSomething(l[a]), importsSomething(l[b]); ia != ib {
			return ia
		}
		if len(l[a].Class) != len(l[b].Class) {
			return len(l[a].Class) < len(l[b].Class)
		}
		return l[a].Class < l[b].Class
	})
	if len(l) > keepPerKind {
		l = l[:keepPerKind]
	}
	j.viol[f.Kind] = l
}

func importsSomething(f vutil.Finding) bool {
	d, ok := f.Detail.(map[string]interface{})
	if !ok {
		return false
	}
	ref, ok := d["goparser_imports"].([]string)
	return ok && len(ref) > 0
}

// flush hands the kept findings to the result file.
func (j *judge) flush() {
	j.mu.Lock()
	defer j.mu.Unlock()
	kinds := []string{}
	for k := range j.viol {
		kinds = append(kinds, k)
	}
	sort.Strings(kinds)
	for _, k := range kinds {
		for _, f := range j.viol[k] {
			j.res.Violate(f)
		}
	}
	j.viol = map[string][]vutil.Finding{}
}

func (j *judge) first(in []byte) bool {
	j.mu.Lock()
	defer j.mu.Unlock()
	if _, ok := j.seen[string(in)]; ok {
		return false
	}
	j.seen[string(in)] = struct{}{}
	return true
}

// a hanging call keeps a CPU busy for ever: report and stop the driver at once
func (j *judge) hang(in []byte, mode string) {
	j.violate(vutil.Finding{Kind: "does-not-terminate", Class: string(in),
		What:  fmt.Sprintf("ReadImports(%q, reportSyntaxError=%s) did not return within %v", in, mode, hangTimeout),
		Input: inputDesc(in)})
	j.res.Count("aborted_after_hang", 1)
	j.flush()
	j.res.Write(j.outPath)
	os.Exit(0)
}

// check judges the real code on one input.  spec == nil: no prediction available.
// expectValid: the input was generated as a syntactically valid Go file.
// It returns the two outcomes (reportSyntaxError true, false) for trace recording.
func (j *judge) check(in []byte, spec *specCase, expectValid bool) (oT, oF outcome) {
	res := j.res
	oT = runReal(in, true, false)
	oF = runReal(in, false, true) // same law whatever the chunking of the io.Reader
	modes := []struct {
		name string
		o    outcome
	}{{"true", oT}, {"false", oF}}

	// --- arbitrary bytes: terminates, no panic, returns only bytes of the input ---
	for _, m := range modes {
		if m.o.Hang {
			j.hang(in, m.name)
		}
		if m.o.Panic != "" {
			j.violate(vutil.Finding{Kind: "panic", Class: string(in),
				What:  fmt.Sprintf("ReadImports(%q, reportSyntaxError=%s) panics: %s", in, m.name, m.o.Panic),
				Input: inputDesc(in)})
			return
		}
	}
	for _, m := range modes {
		if !isPrefixBOMAside(m.o.Out, in) {
			j.violate(vutil.Finding{Kind: "returned-bytes-not-a-prefix-of-input", Class: string(in),
				What:   fmt.Sprintf("ReadImports(%q, reportSyntaxError=%s) returned %q, not a leading portion of the input", in, m.name, m.o.Out),
				Input:  inputDesc(in),
				Detail: m.o.json()})
			break
		}
	}
	// --- syntax errors not requested: none reported, whole input returned ---
	if oF.Err == "syntax" {
		j.violate(vutil.Finding{Kind: "syntax-error-reported-though-not-requested", Class: string(in),
			What:  fmt.Sprintf("ReadImports(%q, reportSyntaxError=false) returned error %q", in, oF.ErrText),
			Input: inputDesc(in), Detail: oF.json()})
	}
	nulFree := bytes.IndexByte(in, 0) < 0
	swallowed := oF.Err == "none" && (oT.Err == "syntax" || (oT.Err != "none" && nulFree))
	if swallowed {
		res.Count("syntax_errors_swallowed", 1)
		if !isWholeBOMAside(oF.Out, in) {
			j.violate(vutil.Finding{Kind: "syntax-error-swallowed-but-input-not-returned-whole", Class: string(in),
				What: fmt.Sprintf("ReadImports(%q): reportSyntaxError=true fails with %q; with false it returns only %d of %d bytes, so a later parse cannot report the same errors",
					in, oT.ErrText, len(oF.Out), len(in)),
				Input: inputDesc(in), Detail: map[string]interface{}{"report_true": oT.json(), "report_false": oF.json()}})
		}
	}

	// --- syntactically valid Go files: go/parser is the reference ---
	_, fullErr := goparse(in, parser.AllErrors|parser.SkipObjectResolution)
	valid := fullErr == nil
	var ref []string
	if valid {
		ref, _ = goparse(in, parser.ImportsOnly)
		res.Count("valid_go_files", 1)
		if hasBOM(in) {
			res.Count("valid_go_files_with_bom", 1)
		}
		// diagnosis only: when the file starts with a byte-order mark, is that the cause?
		bomCause := func() bool {
			if !hasBOM(in) {
				return false
			}
			for _, report := range []bool{true, false} {
				o2 := runReal(in[3:], report, false)
				if o2.failed() || o2.Err != "none" || !samePaths(o2.Imports, ref) {
					return false
				}
			}
			return true
		}
		for _, m := range modes {
			o := m.o
			if o.Err != "none" || !samePaths(o.Imports, ref) {
				kind := "imports-differ-from-goparser"
				what := fmt.Sprintf("ReadImports(reportSyntaxError=%s) reports imports %q for the valid Go file %q; go/parser reports %q", m.name, o.Imports, in, ref)
				if o.Err != "none" {
					kind = "error-on-valid-file"
					what = fmt.Sprintf("ReadImports(reportSyntaxError=%s) fails with %q on the valid Go file %q (go/parser: imports %q)", m.name, o.ErrText, in, ref)
				}
				if bomCause() {
					kind = "byte-order-mark-not-skipped"
					what = fmt.Sprintf("valid Go file %q with a leading byte-order mark: ReadImports(reportSyntaxError=true) -> imports %q, error %q; (false) -> imports %q, error %q; "+
						"go/parser reports imports %q; without the byte-order mark ReadImports agrees with go/parser", in, oT.Imports, oT.ErrText, oF.Imports, oF.ErrText, ref)
				}
				j.violate(vutil.Finding{Kind: kind, Class: string(in), What: what, Input: inputDesc(in),
					Detail: map[string]interface{}{"goparser_imports": ref, "report_true": oT.json(), "report_false": oF.json()}})
				break
			}
			if !sameStrings(o.Imports, ref) {
				res.Count("literal_differs_but_same_path", 1)
			}
			pimps, perr := goparse(o.Out, parser.ImportsOnly)
			if perr != nil || !samePaths(pimps, ref) {
				j.violate(vutil.Finding{Kind: "returned-prefix-does-not-parse-to-the-imports", Class: string(in),
					What: fmt.Sprintf("ReadImports(reportSyntaxError=%s) on the valid Go file %q returns %q, which go/parser reads as imports %q, error %v (whole file: %q)",
						m.name, in, o.Out, pimps, perr, ref),
					Input: inputDesc(in), Detail: map[string]interface{}{"goparser_imports": ref, "real": o.json()}})
				break
			}
		}
	}

	// --- three-way with the specification ---
	if expectValid && !valid {
		res.Count("spec_vs_goparser_disagreements", 1)
		res.DriftAdd(vutil.Finding{Kind: "spec-file-rejected-by-goparser", What: fmt.Sprintf("the grammar generated %q, go/parser: %v", in, fullErr), Input: inputDesc(in)})
	}
	if spec != nil {
		serr := spec.Err
		if serr == "" {
			serr = "none"
		}
		if valid && (serr != "none" || !sameStrings(spec.imports(), ref)) {
			res.Count("spec_vs_goparser_disagreements", 1)
			res.DriftAdd(vutil.Finding{Kind: "spec-vs-goparser", What: fmt.Sprintf("specification (%s, %q) and go/parser (%q) disagree on the valid file %q", serr, spec.imports(), ref, in), Input: inputDesc(in)})
		}
		// conformance of the real code with the reference reader: drift, never a verdict
		for _, m := range modes {
			o := m.o
			want := serr
			conform := true
			if m.name == "false" && serr == "syntax" {
				conform = o.Err == "none" || (o.Err == "nul" && !nulFree)
			} else {
				conform = o.Err == want
			}
			if conform && serr == "none" {
				conform = sameStrings(o.Imports, spec.imports()) &&
					(len(o.Out) == spec.End || (hasBOM(in) && len(o.Out) == spec.End+3))
			}
			if !conform {
				res.DriftAdd(vutil.Finding{Kind: "real-differs-from-reference-reader",
					What:   fmt.Sprintf("ReadImports(%q, reportSyntaxError=%s): err %q, %d bytes, imports %q; reference reader: %s, %d bytes, imports %q", in, m.name, o.ErrText, len(o.Out), o.Imports, serr, spec.End, spec.imports()),
					Input:  inputDesc(in),
					Detail: o.json()})
				break
			}
		}
	}
	return
}

func nontrivialFile(in []byte, nimports int) bool {
	return nimports > 0
}

func record(in []byte, oT, oF outcome) map[string]interface{} {
	side := func(o outcome) map[string]interface{} {
		imps := [][]int{}
		for _, s := range o.Imports {
			imps = append(imps, vutil.Ints([]byte(s)))
		}
		e := o.Err
		if e == "" {
			e = "none"
		}
		return map[string]interface{}{"err": e, "out": vutil.Ints(o.Out), "imports": imps}
	}
	return map[string]interface{}{"input": vutil.Ints(in), "panic": oT.failed() || oF.failed(), "t": side(oT), "f": side(oF)}
}

func loadCorpus(path string) [][]byte {
	seen := map[string]struct{}{}
	var corpus [][]byte
	vutil.ReadNDJSON(path, func(line []byte) {
		var c specCase
		if err := json.Unmarshal(line, &c); err != nil {
			vutil.Fatalf("bad case %s: %v", line, err)
		}
		b := vutil.Bytes(c.Input)
		if _, ok := seen[string(b)]; !ok {
			seen[string(b)] = struct{}{}
			corpus = append(corpus, b)
		}
	})
	sort.Slice(corpus, func(i, k int) bool { return bytes.Compare(corpus[i], corpus[k]) < 0 })
	return corpus
}

func main() {
	mode := flag.String("mode", "files", "files | bytes | mutate | one")
	cases := flag.String("cases", "", "ndjson of TLC-emitted cases")
	out := flag.String("out", "result.json", "result file")
	trace := flag.String("trace", "", "ndjson trace to write (mutate mode)")
	n := flag.Int("n", 2000, "number of random inputs (mutate mode)")
	input := flag.String("input", "", "replay file (one mode)")
	flag.Parse()
	res := vutil.NewResult()
	j := &judge{res: res, outPath: *out, seen: map[string]struct{}{}, viol: map[string][]vutil.Finding{}}
	switch *mode {
	case "files", "bytes":
		// TLC-generated cases: valid Go files (files) or arbitrary fragment strings (bytes)
		vutil.ParallelLines(*cases, func(line []byte) {
			var c specCase
			if err := json.Unmarshal(line, &c); err != nil {
				vutil.Fatalf("bad case %s: %v", line, err)
			}
			res.Count("cases_read", 1)
			in := vutil.Bytes(c.Input)
			if !j.first(in) {
				return
			}
			oT, _ := j.check(in, &c, *mode == "files")
			if *mode == "files" {
				res.Eval(nontrivialFile(in, len(c.Imports)))
				if len(c.Imports) >= 2 && (bytes.Contains(in, []byte("/*")) || hasBOM(in)) {
					res.Sample(map[string]interface{}{"file": string(in), "spec_imports": c.imports(), "spec_prefix_len": c.End,
						"real_imports": oT.Imports, "real_prefix_len": len(oT.Out)}, 6)
				}
			} else {
				res.Eval(bytes.Contains(in, []byte("import")))
				if c.Err == "none" && len(c.Imports) > 0 {
					res.Sample(map[string]interface{}{"fragments": string(in), "spec_imports": c.imports(), "real_imports": oT.Imports}, 4)
				}
			}
		})
	case "mutate":
		corpus := loadCorpus(*cases)
		if len(corpus) == 0 {
			vutil.Fatalf("empty corpus %s", *cases)
		}
		rng := vutil.Rand(18)
		inputs := make([][]byte, 0, *n)
		for len(inputs) < *n {
			var in []byte
			if rng.Intn(4) == 0 {
				in = randomFragments(rng, 80)
			} else {
				in = mutate(rng, corpus)
			}
			if j.first(in) {
				inputs = append(inputs, in)
			}
		}
		w := vutil.NewNDJSONWriter(*trace)
		vutil.ParallelN(len(inputs), func(i int) {
			in := inputs[i]
			oT, oF := j.check(in, nil, false)
			res.Eval(bytes.Contains(in, []byte("import")))
			w.Write(record(in, oT, oF))
			if i < 4 {
				res.Sample(map[string]interface{}{"mutated_input": string(in), "err_report_true": oT.ErrText, "returned_len_report_false": len(oF.Out)}, 12)
			}
		})
		w.Close()
	case "inflate":
		// valid files with very long comments / literals in and around the import section: reading must not
		// depend on how much fits into a buffer.  Judged natively against go/parser (the named reference).
		corpus := loadCorpus(*cases)
		if len(corpus) == 0 {
			vutil.Fatalf("empty corpus %s", *cases)
		}
		rng := vutil.Rand(19)
		var inputs [][]byte
		// hand-made inputs around the places where a reader of file headers has to decide where something ends: line
		// comments and a lone CR, comments and strings that never end, a newline inside a string, nothing after a keyword.
		// Each is also tried inside every corpus-independent wrapper (own file, after other imports, in a group).
		edges := []string{
			"import \"fmt\nimport \"os\"\n", "import \"a\n\"\n", "import `a\nb`\n", "import \"a\\\nb\"\n",
			"// c\rimport \"x\"\nimport \"y\"\n", "import \"x\" // c\rimport \"y\"\n", "import (\n\"a\" // c\r\"b\"\n)\n",
			"/* never ends", "import \"a\" /* never ends", "import ( \"a\" /* never ends", "import \"never ends", "import `never ends",
			"import", "import (", "import ( \"a\"", "import ( \"a\";", "import x", "import . ", "import _",
			"/*/ import \"a\" /*/\nimport \"b\"\n", "/**/import\"a\"\n", "import(\"a\");import\"b\"\n", "import \"a\";;import \"b\"\n",
			"import \"a\"\r\nimport \"b\"\r\n", "import \"a\"\rimport \"b\"\r", "\x0cimport \"a\"\n", "import \"a\"\x00\n", "import \"\xff\"\n",
		}
		for _, e := range edges {
			inputs = append(inputs, []byte("package p\n"+e), []byte("package p\nimport \"first\"\n"+e), []byte("package p; "+e),
				[]byte("\xef\xbb\xbfpackage p\n"+e), []byte("// header\n\npackage p // c\n"+e+"var x = 1\n"))
		}
		res.Count("edge_inputs", int64(len(inputs)))
		for k := 0; k < *n; k++ {
			base := corpus[rng.Intn(len(corpus))]
			l := []int{4095, 4096, 4097, 5000, 8192, 70000}[rng.Intn(6)]
			fill := bytes.Repeat([]byte{'c'}, l)
			var ins []byte
			switch rng.Intn(6) {
			case 4:
				// identifiers with letters outside ASCII, among them letters whose encoding contains the byte 0x80
				ins = []byte([]string{"\nimport π \"u/pi\"\n", "\nimport (À \"a/x\"; 一 \"b/y\")\n", "\nimport Āb \"c/z\"\n", "\nimport _π \"d\"\n",
					// letters from further blocks (lead bytes D7, D0, D8, F0), and interpreted paths with escapes - an escaped quote does not end a path
					"\nimport א \"h/alef\"\n", "\nimport (д \"c/de\"; ب \"a/ba\"; 𝑥 \"m/x\")\n", "\nimport שלום \"h/s\"\nimport \"after\"\n",
					"\nimport \"a\\\"b\"\nimport \"next\"\n", "\nimport (\"x\\\"y\"; \"z\")\n", "\nimport \"a\\\\\"\nimport \"b\"\n", "\nimport \"\\\\\\\"\"\n",
					"\nimport \"\\u00e9/x\"\nimport q \"t\\tab\"\n"}[rng.Intn(12)])
			case 5:
				ins = nil
				for _, nm := range []string{"π", "À", "一x", "Ā"} {
					if i := bytes.Index(base, []byte("package p")); i >= 0 && rng.Intn(2) == 0 {
						base = append(append(append([]byte{}, base[:i]...), []byte("package "+nm)...), base[i+len("package p"):]...)
						break
					}
				}
			case 0:
				ins = append(append([]byte("//"), fill...), '\n')
			case 1:
				ins = append(append([]byte("/*"), fill...), []byte("*/")...)
			case 2:
				ins = append(append([]byte("/*\n"), fill...), []byte("\n*/\n")...)
			case 3:
				ins = append(append([]byte("\nimport \""), fill...), []byte("\"\n")...)
			}
			// positions: start of file (after a BOM), after some newline, end of file
			var cand []int
			start := 0
			if hasBOM(base) {
				start = 3
			}
			cand = append(cand, start, len(base))
			for i, c := range base {
				if c == '\n' {
					cand = append(cand, i+1)
				}
			}
			pos := cand[rng.Intn(len(cand))]
			in := append(append(append([]byte{}, base[:pos]...), ins...), base[pos:]...)
			inputs = append(inputs, in)
		}
		vutil.ParallelN(len(inputs), func(i int) {
			in := inputs[i]
			j.check(in, nil, false)
			res.Eval(true)
			if i < 2 {
				res.Sample(map[string]interface{}{"inflated_file_len": len(in), "head": string(in[:min(60, len(in))])}, 14)
			}
		})
	case "one":
		// replay of one input: {"input": {"bytes": [...]}} as written to evidence/replay
		b, err := os.ReadFile(*input)
		if err != nil {
			vutil.Fatalf("%v", err)
		}
		var v struct {
			Input struct {
				Bytes []int `json:"bytes"`
			} `json:"input"`
		}
		if err := json.Unmarshal(b, &v); err != nil {
			vutil.Fatalf("bad replay file: %v", err)
		}
		in := vutil.Bytes(v.Input.Bytes)
		oT, oF := j.check(in, nil, false)
		res.Eval(true)
		res.Sample(map[string]interface{}{"input": string(in), "report_true": oT.json(), "report_false": oF.json()}, 1)
	default:
		vutil.Fatalf("unknown mode %s", *mode)
	}
	j.flush()
	res.Write(*out)
}
