//go:build verif

// Driver for C06 / C07: the real lockedfile package (os -> vos, syscall ->
// vsyscall, sync -> vsync in its files) under the controlled scheduler - the
// kernel's flock decides admission, the schedule decides who tries - plus free
// runs with real processes and goroutines blocking in flock(2).
package main

import (
	"encoding/json"
	"errors"
	"flag"
	"fmt"
	"math/rand"
	"os"
	"os/exec"
	"path/filepath"
	"runtime"
	"sort"
	"strings"
	"sync"
	"sync/atomic"
	"syscall"
	"time"

	"verifharness/vutil"

	"github.com/rogpeppe/go-internal/lockedfile"
	"github.com/rogpeppe/go-internal/verifshim/vos"
	"github.com/rogpeppe/go-internal/verifshim/vsched"
	"github.com/rogpeppe/go-internal/verifshim/vsyscall"
)

type Op struct {
	Op   string   `json:"op"`
	V    []string `json:"v"`
	Kind string   `json:"kind"`
	Tok  string   `json:"tok"`
	Mode string   `json:"mode"`
}
type Prog map[string][]Op

type Config struct {
	Prog Prog     `json:"prog"`
	Init []string `json:"init"`
}

type Event struct {
	Ev   string   `json:"ev"` // call | ret | op | acq | rel
	A    string   `json:"a"`
	Op   string   `json:"op"`   // call/ret: api op; op: kind of file operation
	Mode string   `json:"mode"` // call: hold mode
	Kind string   `json:"kind"` // call: transform kind
	Tok  string   `json:"tok"`
	V    []string `json:"v"`    // call: written value; ret of read: value read
	Res  string   `json:"res"`  // ret: ok | err | val
	File string   `json:"file"` // op: data | mutex
	Fail bool     `json:"fail"`
}

type Inject struct {
	N    int    `json:"n"`
	Kind string `json:"kind"` // none | fail | short | ferr
}

type RunRec struct {
	Family string   `json:"family"`
	Mode   string   `json:"mode"`
	Prog   Prog     `json:"prog"`
	Init   []string `json:"init"`
	Inject Inject   `json:"inject"`
	Events []Event  `json:"events"`
	End    string   `json:"end"`
	Final  []string `json:"final"`
	// the data file did not exist when the run started / when it ended (an absent file is not an empty one)
	InitAbsent  bool              `json:"init_absent"`
	FinalAbsent bool              `json:"final_absent"`
	L1          []string          `json:"l1"`
	Count       int               `json:"count"`
	Detail      string            `json:"detail,omitempty"`
	Sched       []vsched.Decision `json:"sched,omitempty"`
}

func chars(b []byte) []string {
	r := make([]string, len(b))
	for i, c := range b {
		r[i] = string(rune(c))
	}
	return r
}

func apply(kind, tok string, old []byte) ([]byte, error) {
	switch kind {
	case "append":
		if atomic.AddInt64(&aliasSeq, 1)%2 == 0 {
			// the result is built on the argument (the documented contract forbids changing the bytes handed in, not growing
			// the slice behind them): it starts where the argument starts, and is one byte longer
			return append(old, tok[0]), nil
		}
		return append(append([]byte{}, old...), tok[0]), nil
	case "clear":
		return nil, nil
	case "chop":
		if len(old) == 0 {
			return old, nil
		}
		if atomic.AddInt64(&aliasSeq, 1)%2 == 0 {
			return old[:len(old)-1], nil // a prefix of the argument itself
		}
		return append([]byte{}, old[:len(old)-1]...), nil
	case "same":
		return []byte(strings.Repeat(tok, len(old))), nil
	case "grow":
		return []byte(strings.Repeat(tok, len(old)+1)), nil
	case "grow3":
		return []byte(strings.Repeat(tok, len(old)+3)), nil
	case "ferr":
		return nil, errors.New("transform function failed")
	}
	panic("unknown kind " + kind)
}

type runner struct {
	dir        string
	data       string
	mpath      string
	witness    string
	fifo       string
	newf       string // does not exist when a run starts (O_EXCL creators)
	dirp       string // a directory (free mode): it can be read-locked; whoever claims its write lock must really exclude
	gc         bool   // run the garbage collector inside critical sections
	mu         sync.Mutex
	events     []Event
	l1         []string
	nops       int
	inject     Inject
	readFailed bool
	shared     *lockedfile.Mutex
	children   []*exec.Cmd
	free       *os.File // free mode: shared O_APPEND log
}

func (r *runner) log(e Event) {
	if e.V == nil {
		e.V = []string{}
	}
	if r.free != nil {
		b, _ := json.Marshal(e)
		r.free.Write(append(b, '\n'))
		return
	}
	r.mu.Lock()
	r.events = append(r.events, e)
	r.mu.Unlock()
}

func (r *runner) bad(s string) {
	if r.free != nil {
		r.log(Event{Ev: "l1", Res: s})
		return
	}
	r.mu.Lock()
	r.l1 = append(r.l1, s)
	r.mu.Unlock()
}

func actorName() string {
	if s := vsched.Cur(); s != nil {
		return s.Current().Name
	}
	return "?"
}

func (r *runner) class(p string) string {
	switch p {
	case r.data:
		return "data"
	case r.mpath:
		return "mutex"
	case r.fifo:
		return "fifo"
	case r.newf:
		return "new"
	}
	return "other"
}

func (r *runner) Before(op *vos.Op) vos.Action {
	cls := r.class(op.Path)
	if cls == "other" {
		return vos.Action{}
	}
	s := vsched.Cur()
	if s == nil {
		return vos.Action{}
	}
	s.Point(op.Kind, cls, nil)
	ev := Event{Ev: "op", A: s.Current().Name, Op: op.Kind, File: cls}
	if r.inject.Kind == "eacces" && op.Kind == "open" && op.Flag&(os.O_WRONLY|os.O_RDWR) != 0 {
		// the caller may read the file but not write it: an open for writing is refused; nobody may then hold
		// the file write-locked (a weaker open in its place would take a weaker lock)
		ev.Fail = true
		r.log(ev)
		return vos.Action{Err: syscall.EACCES}
	}
	if cls == "data" && op.Kind == "read" && r.inject.Kind == "rfail" {
		// the first read of the contents fails: whoever wanted them has nothing to work on
		r.mu.Lock()
		first := !r.readFailed
		r.readFailed = true
		r.mu.Unlock()
		if first {
			ev.Fail = true
			r.log(ev)
			return vos.Action{Err: syscall.EIO}
		}
	}
	if cls == "data" && (op.Kind == "writeat" || op.Kind == "write" || (op.Kind == "truncate")) {
		r.mu.Lock()
		r.nops++
		n := r.nops
		r.mu.Unlock()
		if r.inject.Kind == "fail" && r.inject.N == n {
			ev.Fail = true
			r.log(ev)
			return vos.Action{Err: syscall.ENOSPC}
		}
		if r.inject.Kind == "short" && r.inject.N == n {
			ev.Fail = true
			r.log(ev)
			return vos.Action{Err: syscall.ENOSPC, Short: 1}
		}
	}
	r.log(ev)
	return vos.Action{}
}

func (r *runner) After(op *vos.Op, n int, err error) {
	if op.Kind == "close" {
		vsyscall.NoteRelease() // closing a descriptor drops its flock
	}
}

// critical is what a holder does while it holds the lock: an unlocked side file
// serves as an overlap witness that does not depend on any log.
func (r *runner) critical(name string, exclusive bool, dom string) {
	w := r.witness + "-" + dom // one witness per lock domain: data-file holders and mutex holders may overlap
	if exclusive {
		os.WriteFile(w, []byte(name), 0o666)
	}
	if r.gc {
		runtime.GC()
		runtime.Gosched() // let the finalizer goroutine run
	}
	vsched.Yield("hold")
	if exclusive {
		b, _ := os.ReadFile(w)
		if string(b) != name {
			r.bad(fmt.Sprintf("write-lock holder %s found %q in its witness file: another holder was inside", name, b))
		}
	}
}

func (r *runner) actor(name string, ops []Op) func() {
	return func() {
		for _, o := range ops {
			r.log(Event{Ev: "call", A: name, Op: o.Op, Mode: o.Mode, Kind: o.Kind, Tok: o.Tok, V: o.V})
			switch o.Op {
			case "read":
				b, err := lockedfile.Read(r.data)
				if err != nil {
					r.log(Event{Ev: "ret", A: name, Op: o.Op, Res: "err"})
				} else {
					r.log(Event{Ev: "ret", A: name, Op: o.Op, Res: "val", V: chars(b)})
				}
			case "write":
				err := lockedfile.Write(r.data, strings.NewReader(strings.Join(o.V, "")), 0o666)
				r.log(Event{Ev: "ret", A: name, Op: o.Op, Res: okErr(err)})
			case "transform":
				err := lockedfile.Transform(r.data, func(old []byte) ([]byte, error) { return apply(o.Kind, o.Tok, old) })
				r.log(Event{Ev: "ret", A: name, Op: o.Op, Res: okErr(err)})
			case "hold":
				var f *lockedfile.File
				var err error
				switch o.Mode {
				case "r":
					f, err = lockedfile.Open(r.data)
				case "w":
					f, err = lockedfile.Edit(r.data)
				case "create":
					f, err = lockedfile.Create(r.data)
				case "cf":
					// Create on a file that cannot be truncated (a FIFO): the truncate error is tolerated,
					// the returned File must still hold the write lock
					f, err = lockedfile.Create(r.fifo)
				case "wf":
					f, err = lockedfile.Edit(r.fifo)
				case "excl":
					// the creator of a file that did not exist: it holds the write lock like any other writer
					// (fails, and holds nothing, when somebody else created the file first)
					f, err = lockedfile.OpenFile(r.newf, os.O_RDWR|os.O_CREATE|os.O_EXCL, 0o666)
				case "wnew":
					f, err = lockedfile.OpenFile(r.newf, os.O_RDWR|os.O_CREATE, 0o666)
				case "rnew":
					f, err = lockedfile.Open(r.newf)
				case "rdir":
					// a directory can be opened for reading, and read-locked like any file
					f, err = lockedfile.Open(r.dirp)
				case "wdir":
					// ... but not for writing: the call fails and holds nothing
					f, err = lockedfile.Edit(r.dirp)
				case "wa":
					f, err = lockedfile.OpenFile(r.data, os.O_WRONLY|os.O_APPEND, 0o666)
				case "wx":
					// a write-lock holder whose descriptor is also held by a child process (as in the fork/exec
					// window of any concurrent command start, here made deterministic through ExtraFiles):
					// Close must still release the lock for everybody
					f, err = lockedfile.Edit(r.data)
					if err == nil {
						c := exec.Command("sleep", "1000")
						c.ExtraFiles = []*os.File{rawFile(f.File)}
						if cerr := c.Start(); cerr == nil {
							r.mu.Lock()
							r.children = append(r.children, c)
							r.mu.Unlock()
						}
					}
				}
				if err != nil {
					r.log(Event{Ev: "ret", A: name, Op: o.Op, Res: "err"})
					continue
				}
				dom := "data"
				if o.Mode == "cf" || o.Mode == "wf" {
					dom = "fifo"
				}
				if o.Mode == "excl" || o.Mode == "wnew" || o.Mode == "rnew" {
					dom = "new"
				}
				if o.Mode == "rdir" || o.Mode == "wdir" {
					dom = "dir"
				}
				r.log(Event{Ev: "acq", A: name, Op: o.Op, Mode: o.Mode, File: dom})
				// the late second Close of the handle this actor closed before (the `defer f.Close()` behind an explicit
				// Close): it reports an error and touches nothing - least of all the lock somebody holds now
				staleMu.Lock()
				st := stale[name]
				staleMu.Unlock()
				if st != nil {
					st.Close()
				}
				r.critical(name, o.Mode != "r" && o.Mode != "rnew" && o.Mode != "rdir", dom)
				r.log(Event{Ev: "rel", A: name, Op: o.Op, Mode: o.Mode, File: dom})
				err = f.Close()
				staleMu.Lock()
				stale[name] = f
				staleMu.Unlock()
				r.log(Event{Ev: "ret", A: name, Op: o.Op, Res: okErr(err)})
			case "mutex":
				mu := r.shared
				if o.Mode == "own" {
					// (a Mutex value made by hand, as the package documents: "the Path field must be set")
					mu = &lockedfile.Mutex{Path: r.mpath}
				}
				mdom := "mutex"
				if o.Mode == "dir" {
					// a Mutex whose path is a directory: Lock reports an error (a directory cannot be opened for
					// writing) - or, if it ever returns an unlock function, it excludes the readers of that path
					mu = &lockedfile.Mutex{Path: r.dirp}
					mdom = "dir"
				}
				unlock, err := mu.Lock()
				if err != nil {
					r.log(Event{Ev: "ret", A: name, Op: o.Op, Res: "err"})
					continue
				}
				r.log(Event{Ev: "acq", A: name, Op: o.Op, Mode: "w", File: mdom})
				r.critical(name, true, mdom)
				r.log(Event{Ev: "rel", A: name, Op: o.Op, Mode: "w", File: mdom})
				unlock()
				r.log(Event{Ev: "ret", A: name, Op: o.Op, Res: "ok"})
			}
		}
	}
}

// rawFile returns the *os.File behind the descriptor of a lockedfile.File, whether or not the
// lockedfile package was built with its os import redirected to vos.
func rawFile(f any) *os.File {
	switch v := f.(type) {
	case *os.File:
		return v
	case *vos.File:
		return v.File
	}
	panic("unexpected file type")
}

func okErr(err error) string {
	if err != nil {
		return "err"
	}
	return "ok"
}

var tmpRoot string

func newRunner(init []string) *runner {
	dir := filepath.Join(tmpRoot, "lf")
	os.MkdirAll(dir, 0o777)
	r := &runner{dir: dir, data: filepath.Join(dir, "data"), mpath: filepath.Join(dir, "lock"), witness: filepath.Join(dir, "witness"),
		fifo: filepath.Join(dir, "fifo"), newf: filepath.Join(dir, "newfile")}
	os.Remove(r.newf)
	// in every fourth run the file that does not exist yet lies in a directory that does not exist either: creating it
	// fails, and whoever is told otherwise holds no lock
	os.RemoveAll(filepath.Join(dir, "nodir"))
	if atomic.LoadInt64(&runnerSeq)%4 == 3 {
		r.newf = filepath.Join(dir, "nodir", "sub", "newfile")
	}
	os.Remove(r.witness + "-new")
	os.Remove(r.fifo)
	seq0 := atomic.LoadInt64(&runnerSeq)
	// the second lock domain is a FIFO, in every third run a character device (a private null device; needs privileges,
	// else it stays a FIFO): whatever the lock file is, it is locked
	if seq0%3 != 2 || syscall.Mknod(r.fifo, syscall.S_IFCHR|0o666, 1<<8|3) != nil {
		syscall.Mkfifo(r.fifo, 0o666)
	}
	// ... and in every third run the mutex path goes through a symbolic link and back up: the file the operating system
	// finds there is the lock, not what the path looks like when simplified as text
	os.MkdirAll(filepath.Join(dir, "real", "sub"), 0o777)
	os.Symlink(filepath.Join("real", "sub"), filepath.Join(dir, "link"))
	os.Remove(filepath.Join(dir, "real", "lock"))
	if seq0%3 == 1 {
		r.mpath = filepath.Join(dir, "link") + "/../lock"
	}
	os.Remove(r.witness + "-fifo")
	os.Remove(r.mpath)
	os.Remove(r.witness + "-data")
	os.Remove(r.witness + "-mutex")
	var werr error
	for try := 0; try < 4; try++ {
		// (a descriptor closed behind the driver's back - a stale finalizer of the code under test, say - makes one
		// write fail with EBADF: the next one gets a descriptor of its own)
		if werr = os.WriteFile(r.data, []byte(strings.Join(init, "")), 0o666); werr == nil {
			break
		}
		harnessIOErrors++
	}
	if werr != nil {
		// the driver's own file operations keep failing: this process is beyond use (descriptors are being closed behind its
		// back).  The runs made so far are kept and written out; no further run is started in this mode.
		harnessBroken = werr.Error()
	}
	r.shared = lockedfile.MutexAt(r.mpath)
	// every third run the data file carries no write permission bits: whoever may open it for writing all the same (its
	// creator's descriptor, the superuser) is a writer like any other, and readers have to wait for it
	seq := atomic.AddInt64(&runnerSeq, 1)
	if seq%3 == 0 {
		os.Chmod(r.data, 0o444)
	} else {
		os.Chmod(r.data, 0o666)
	}
	// every third run the data file is named relative to the current directory, and the garbage collector runs while
	// locks are held: a lock lasts until Close, not until the File value happens to be collected
	// ... and in every third run the data file is reached through a symbolic link: the file is what gets locked,
	// whatever the name that leads to it
	if seq%3 == 2 {
		link := filepath.Join(dir, "datalink")
		os.Remove(link)
		if err := os.Symlink("data", link); err == nil {
			r.data = link
		}
	}
	if seq%3 == 1 {
		if err := os.Chdir(dir); err == nil {
			r.data = "data"
			r.gc = seq%12 == 1 && atomic.AddInt64(&gcRuns, 1) <= 40 // (a collection costs tens of milliseconds in this process)
		}
	}
	return r
}

var runnerSeq int64
var aliasSeq int64

// the handle each actor closed last (kept across runs: a recycled File value would be found again by a later run)
var (
	staleMu sync.Mutex
	stale   = map[string]*lockedfile.File{}
)
var absentSeq int64
var harnessIOErrors int64
var harnessBroken string
var gcRuns int64

func runOne(family, mode string, cfg Config, strat vsched.Strategy, inj Inject) *RunRec {
	// C07: in every fourth run (not under DFS, whose re-runs have to start alike) the file does not exist yet when the
	// calls start: the first Write / Transform creates it, and that is one critical section like any other
	if family == "C07" && mode == "random" && atomic.AddInt64(&absentSeq, 1)%4 == 0 {
		noHold := true
		for _, ops := range cfg.Prog {
			for _, o := range ops {
				noHold = noHold && o.Op != "hold"
			}
		}
		if noHold {
			cfg.Init = []string{}
		}
	}
	if harnessBroken != "" {
		return &RunRec{Family: family, Mode: mode, Prog: cfg.Prog, Init: cfg.Init, Inject: inj, Events: []Event{}, End: "stalled", Final: []string{}, L1: []string{}}
	}
	r := newRunner(cfg.Init)
	if harnessBroken != "" {
		return &RunRec{Family: family, Mode: mode, Prog: cfg.Prog, Init: cfg.Init, Inject: inj, Events: []Event{}, End: "stalled", Final: []string{}, L1: []string{}}
	}
	initAbsent := false
	if family == "C07" && mode == "random" && len(cfg.Init) == 0 {
		os.Remove(r.data)
		initAbsent = true
	}
	r.inject = inj
	// every other random run: the first two lock requests that have to wait are interrupted (EINTR) before they get the
	// lock, as by a signal whose handler does not restart the call; an interrupted request holds nothing
	vsyscall.EINTRBudget = 0
	if mode == "random" && atomic.LoadInt64(&runnerSeq)%2 == 0 {
		vsyscall.EINTRBudget = 2
	}
	if inj.Kind == "eacces" {
		// the files exist (somebody else made them), the caller just may not write them
		os.WriteFile(r.mpath, nil, 0o444)
		os.WriteFile(r.newf, nil, 0o444)
	}
	vos.SetInterceptor(r)
	names := make([]string, 0, len(cfg.Prog))
	for a := range cfg.Prog {
		names = append(names, a)
	}
	sort.Strings(names)
	out := vsched.Run(strat, 20000, func() {
		s := vsched.Cur()
		for _, a := range names {
			if len(cfg.Prog[a]) > 0 {
				s.Go(a, r.actor(a, cfg.Prog[a]))
			}
		}
	})
	vos.SetInterceptor(nil)
	for _, c := range r.children {
		c.Process.Kill()
		c.Wait()
	}
	final, ferr := os.ReadFile(r.data)
	rec := &RunRec{Family: family, Mode: mode, Prog: cfg.Prog, Init: cfg.Init, Inject: inj, Events: r.events, End: out.Status,
		Final: chars(final), InitAbsent: initAbsent, FinalAbsent: os.IsNotExist(ferr), L1: append([]string{}, r.l1...), Count: 1}
	if rec.Events == nil {
		rec.Events = []Event{}
	}
	if out.Status != "done" {
		rec.Detail = out.Detail
		if len(rec.Detail) > 1500 {
			rec.Detail = rec.Detail[:1500]
		}
		rec.Sched = out.Trace
		if len(rec.Sched) > 300 {
			rec.Sched = rec.Sched[:300]
		}
	}
	return rec
}

// runs that ended "stalled" (the scheduler gave up: an actor blocked in a primitive the shims do not model)
var stalledRuns int

type collector struct {
	seen  map[string]*RunRec
	order []string
	runs  int
}

func (c *collector) add(r *RunRec) {
	if r.End == "stalled" { // harness limit (vsched.Stalled), not an observation
		stalledRuns++
		return
	}
	c.runs++
	b, _ := json.Marshal([]interface{}{r.Family, r.Prog, r.Init, r.Events, r.End, r.Final, r.L1, r.Inject, r.InitAbsent, r.FinalAbsent})
	k := string(b)
	if t, ok := c.seen[k]; ok {
		t.Count++
		return
	}
	c.seen[k] = r
	c.order = append(c.order, k)
}

// ---- free mode ----
func freeWorker(dir string, logPath string, gor, iters, id int, family string) {
	vos.SetInterceptor(nil)
	lf, err := os.OpenFile(logPath, os.O_WRONLY|os.O_APPEND, 0)
	if err != nil {
		vutil.Fatalf("%v", err)
	}
	r := &runner{dir: dir, data: filepath.Join(dir, "data"), mpath: filepath.Join(dir, "lock"), witness: filepath.Join(dir, "witness"), free: lf,
		dirp: filepath.Join(dir, "adir")}
	r.shared = lockedfile.MutexAt(r.mpath)
	var wg sync.WaitGroup
	for g := 0; g < gor; g++ {
		wg.Add(1)
		go func(g int) {
			defer wg.Done()
			name := fmt.Sprintf("p%dg%d", id, g)
			rng := rand.New(rand.NewSource(vutil.Seed()*104729 + int64(id*64+g)))
			var ops []Op
			for i := 0; i < iters; i++ {
				tok := string(rune('A' + (id*7+g*3+i)%26))
				if family == "C06" {
					switch rng.Intn(10) {
					case 7:
						ops = append(ops, Op{Op: "hold", Mode: "rdir"})
					case 8:
						ops = append(ops, Op{Op: "mutex", Mode: "dir"})
					case 9:
						ops = append(ops, Op{Op: "hold", Mode: "wdir"})
					case 6:
						ops = append(ops, Op{Op: "hold", Mode: "wa"})
					case 0:
						ops = append(ops, Op{Op: "hold", Mode: "r"})
					case 1:
						ops = append(ops, Op{Op: "hold", Mode: "w"})
					case 2:
						ops = append(ops, Op{Op: "hold", Mode: "create"})
					case 3:
						ops = append(ops, Op{Op: "mutex", Mode: "shared"})
					case 4:
						ops = append(ops, Op{Op: "mutex", Mode: "own"})
					default:
						ops = append(ops, Op{Op: "transform", Kind: "same", Tok: tok})
					}
				} else {
					switch rng.Intn(8) {
					case 0, 1, 2:
						ops = append(ops, Op{Op: "read"})
					case 3:
						ops = append(ops, Op{Op: "write", V: chars([]byte(strings.Repeat(tok, 1+rng.Intn(40))))})
					case 4:
						ops = append(ops, Op{Op: "transform", Kind: "grow", Tok: tok})
					case 5:
						ops = append(ops, Op{Op: "transform", Kind: "chop", Tok: tok})
					default:
						ops = append(ops, Op{Op: "transform", Kind: "same", Tok: tok})
					}
				}
			}
			r.actor(name, ops)()
		}(g)
	}
	wg.Wait()
}

func freeRun(family string, procs, gor, iters int, n int64) *RunRec {
	dir := filepath.Join(tmpRoot, fmt.Sprintf("free%d", n))
	os.MkdirAll(dir, 0o777)
	defer os.RemoveAll(dir)
	logPath := filepath.Join(tmpRoot, fmt.Sprintf("free%d.log", n))
	os.WriteFile(logPath, nil, 0o666)
	defer os.Remove(logPath)
	init := []string{"i", "i"}
	os.WriteFile(filepath.Join(dir, "data"), []byte("ii"), 0o666)
	os.MkdirAll(filepath.Join(dir, "adir"), 0o777)
	self, _ := os.Executable()
	var cmds []*exec.Cmd
	end := "done"
	for p := 0; p < procs; p++ {
		cmd := exec.Command(self, "-mode", "freeworker", "-dir", dir, "-log", logPath, "-gor", fmt.Sprint(gor), "-iters", fmt.Sprint(iters),
			"-worker", fmt.Sprint(p+int(n)*procs), "-family", family)
		cmd.Stderr = os.Stderr
		if err := cmd.Start(); err != nil {
			vutil.Fatalf("start worker: %v", err)
		}
		cmds = append(cmds, cmd)
	}
	// the workers of one run need about a second; workers that are still there after two minutes wait for a lock that
	// will not come (or never end for another reason): they are ended and the run is recorded as not terminating
	var hung int32
	watchdog := time.AfterFunc(120*time.Second, func() {
		atomic.StoreInt32(&hung, 1)
		for _, cmd := range cmds {
			cmd.Process.Kill()
		}
	})
	for _, cmd := range cmds {
		if err := cmd.Wait(); err != nil {
			end = "panic"
		}
	}
	watchdog.Stop()
	if atomic.LoadInt32(&hung) == 1 {
		end = "hang"
	}
	var evs []Event
	l1 := []string{}
	vutil.ReadNDJSON(logPath, func(line []byte) {
		var e Event
		if err := json.Unmarshal(line, &e); err != nil {
			vutil.Fatalf("bad log line: %v", err)
		}
		if e.Ev == "l1" {
			l1 = append(l1, e.Res)
			return
		}
		evs = append(evs, e)
	})
	final, ferr := os.ReadFile(filepath.Join(dir, "data"))
	return &RunRec{Family: family, Mode: "free", Prog: Prog{"a1": {}, "a2": {}, "a3": {}}, Init: init, Inject: Inject{Kind: "none"},
		Events: evs, End: end, Final: chars(final), FinalAbsent: os.IsNotExist(ferr), L1: l1, Count: 1}
}

func main() {
	mode := flag.String("mode", "dfs", "dfs | random | fault | free")
	family := flag.String("family", "C06", "C06 | C07 | Fault")
	cfgs := flag.String("configs", "", "")
	traces := flag.String("traces", "traces.ndjson", "")
	out := flag.String("out", "result.json", "")
	bound := flag.Int("bound", 2, "")
	maxruns := flag.Int("maxruns", 5000, "")
	runs := flag.Int("runs", 1000, "")
	tmp := flag.String("tmp", "", "")
	procs := flag.Int("procs", 4, "")
	gor := flag.Int("gor", 4, "")
	iters := flag.Int("iters", 25, "")
	dirFlag := flag.String("dir", "", "")
	logFlag := flag.String("log", "", "")
	worker := flag.Int("worker", 0, "")
	flag.Parse()
	tmpRoot = *tmp
	if *mode == "freeworker" {
		freeWorker(*dirFlag, *logFlag, *gor, *iters, *worker, *family)
		return
	}
	if tmpRoot == "" {
		var err error
		tmpRoot, err = os.MkdirTemp("", "lfdrv")
		if err != nil {
			vutil.Fatalf("%v", err)
		}
		defer os.RemoveAll(tmpRoot)
	}
	res := vutil.NewResult()
	col := &collector{seen: map[string]*RunRec{}}
	var configs []Config
	if *cfgs != "" {
		vutil.ReadNDJSON(*cfgs, func(line []byte) {
			var c Config
			if err := json.Unmarshal(line, &c); err != nil {
				vutil.Fatalf("bad config: %v", err)
			}
			for a, ops := range c.Prog {
				if ops == nil {
					c.Prog[a] = []Op{}
				}
				for i := range ops {
					if ops[i].V == nil {
						ops[i].V = []string{}
					}
				}
			}
			configs = append(configs, c)
		})
	}
	switch *mode {
	case "dfs":
		for _, cfg := range configs {
			d := &vsched.DFS{Bound: *bound}
			cnt := 0
			for {
				d.Reset()
				rec := runOne(*family, "dfs", cfg, d, Inject{Kind: "none"})
				col.add(rec)
				res.Eval(true)
				cnt++
				if rec.End != "done" {
					res.Count("dfs_stopped_at_failure", 1)
					break
				}
				if !d.Next() || cnt >= *maxruns {
					if cnt >= *maxruns {
						res.Count("dfs_truncated", 1)
					}
					break
				}
			}
			res.Count("dfs_runs", int64(cnt))
			if cnt > 3 {
				res.Sample(map[string]interface{}{"prog": cfg.Prog, "dfs_runs": cnt}, 3)
			}
		}
	case "random":
		rng := vutil.Rand(31)
		for i := 0; i < *runs; i++ {
			cfg := configs[rng.Intn(len(configs))]
			var st vsched.Strategy
			if i%2 == 0 {
				st = &vsched.Random{R: rand.New(rand.NewSource(rng.Int63())), Stay: 40}
			} else {
				st = &vsched.PCT{R: rand.New(rand.NewSource(rng.Int63())), Depth: 3, MaxStep: 60}
			}
			col.add(runOne(*family, "random", cfg, st, Inject{Kind: "none"}))
			res.Eval(true)
		}
		res.Count("random_runs", int64(*runs))
	case "fault":
		// Transform with a failure injected at each write step it performs, all length relations,
		// plus a failing transformation function
		// ... each also on a file that exists and is empty (old contents of length zero are contents too)
		withEmpty := append([]Config{}, configs...)
		for _, cfg := range configs {
			withEmpty = append(withEmpty, Config{Prog: cfg.Prog, Init: []string{}})
		}
		for _, cfg := range withEmpty {
			clean := runOne("Fault", "clean", cfg, &vsched.Replay{}, Inject{Kind: "none"})
			col.add(clean)
			res.Eval(true)
			nw := 0
			var stepKinds []string
			for _, e := range clean.Events {
				if e.Ev == "op" && e.File == "data" && (e.Op == "writeat" || e.Op == "write" || e.Op == "truncate") {
					nw++
					stepKinds = append(stepKinds, e.Op)
				}
			}
			isWrite := false
			for _, ops := range cfg.Prog {
				for _, o := range ops {
					isWrite = isWrite || o.Op == "write"
				}
			}
			for k := 1; k <= nw; k++ {
				for _, kind := range []string{"fail", "short"} {
					if isWrite && (stepKinds[k-1] != "truncate" || kind != "fail") {
						continue // Write: only the truncation under the lock (the copy that follows is documented as not atomic)
					}
					rec := runOne("Fault", kind, cfg, &vsched.Replay{}, Inject{N: k, Kind: kind})
					col.add(rec)
					res.Eval(true)
					res.Count("inject_"+kind, 1)
					res.Sample(map[string]interface{}{"prog": cfg.Prog["a1"], "inject": rec.Inject, "final": strings.Join(rec.Final, "")}, 4)
				}
			}
			// the function itself reports an error
			if isWrite {
				continue
			}
			// reading the old contents fails: nothing is known about them, nothing may be written
			col.add(runOne("Fault", "rfail", cfg, &vsched.Replay{}, Inject{Kind: "rfail"}))
			res.Eval(true)
			res.Count("inject_rfail", 1)
			c2 := Config{Prog: Prog{"a1": {{Op: "transform", Kind: "ferr", Tok: "t", V: []string{}}}, "a2": {}, "a3": {}}, Init: cfg.Init}
			col.add(runOne("Fault", "ferr", c2, &vsched.Replay{}, Inject{Kind: "ferr"}))
			res.Eval(true)
			// the same on a file that exists and is empty, followed by a look at it: an empty file is contents too
			c3 := Config{Prog: Prog{"a1": {{Op: "transform", Kind: "ferr", Tok: "t", V: []string{}}, {Op: "read", V: []string{}}}, "a2": {}, "a3": {}}, Init: []string{}}
			col.add(runOne("Fault", "ferr", c3, &vsched.Replay{}, Inject{Kind: "ferr"}))
			res.Eval(true)
		}
	case "perm":
		// every open for writing is refused (read-only lock file / data file): no call may end up holding a lock
		// that lets it into a writer's critical section
		// (bounded DFS: on the unchanged tree the calls fail after one operation each, so the search is small)
		for _, cfg := range configs {
			d := &vsched.DFS{Bound: *bound}
			cnt := 0
			for {
				d.Reset()
				rec := runOne(*family, "perm", cfg, d, Inject{Kind: "eacces"})
				col.add(rec)
				res.Eval(true)
				cnt++
				if rec.End != "done" || !d.Next() || cnt >= *maxruns {
					break
				}
			}
			res.Count("perm_runs", int64(cnt))
		}
	case "free":
		for i := 0; i < *runs; i++ {
			rec := freeRun(*family, *procs, *gor, *iters, int64(i))
			col.add(rec)
			res.Eval(true)
			if i == 0 {
				res.Sample(map[string]interface{}{"free_run_events": len(rec.Events), "final_len": len(rec.Final)}, 5)
			}
		}
		res.Count("free_runs", int64(*runs))
	default:
		vutil.Fatalf("unknown mode %s", *mode)
	}
	w := vutil.NewNDJSONWriter(*traces)
	for _, k := range col.order {
		w.Write(col.seen[k])
	}
	w.Close()
	res.Count("runs", int64(col.runs))
	res.Count("stalled_runs", int64(stalledRuns))
	if harnessBroken != "" {
		res.Extra["harness_broken"] = harnessBroken
	}
	if vsched.Stalled() {
		res.Extra["controlled_execution"] = "given up: an actor blocked in a primitive the shims do not model (channel, unredirected lock)"
	}
	res.Count("distinct_traces", int64(len(col.order)))
	res.Write(*out)
}
