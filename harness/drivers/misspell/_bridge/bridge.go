// Package vmisspell makes internal/misspell callable from the harness module.
//
// This file is NOT part of the harness module (the directory name starts with
// an underscore): checks/x03.py adds it, through the build overlay, as the
// virtual package github.com/rogpeppe/go-internal/verifshim/vmisspell, i.e.
// inside the module whose internal packages it may import.  Nothing is
// written into the repository.
package vmisspell

import "github.com/rogpeppe/go-internal/internal/misspell"

// AlmostEqual is the real misspell.AlmostEqual.
func AlmostEqual(a, b string) bool { return misspell.AlmostEqual(a, b) }
