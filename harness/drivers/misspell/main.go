//go:build verif && x03

// Driver for X03 (growth check): internal/misspell.AlmostEqual against
// spec/misspell.
//
//	-mode replay  FILE...   every pair TLC emitted from MC_Misspell (strings of rune ids,
//	                        predicted answer) is rendered through several rune tables
//	                        (ASCII, 2/3/4-byte runes, runes sharing bytes, invalid bytes)
//	                        and given to the real function both ways round
//	-mode random  -n N      seeded random pairs of strings of up to 40 runes, b obtained
//	                        from a by 0, 1 or 2 random edits (or drawn independently), plus
//	                        misspellings of testscript's command names; the real answers are
//	                        written to -trace and judged by TLC (Trace_Misspell.tla)
//
// The package under test is internal: it is reached through the bridge package
// verifshim/vmisspell that checks/x03.py adds to the go-internal module by build
// overlay (source: _bridge/bridge.go).  The build tag x03 keeps this package out of
// builds that do not have that overlay.
package main

import (
	"encoding/json"
	"flag"
	"fmt"
	"math/rand"
	"strconv"
	"sync/atomic"
	"unicode/utf8"

	"verifharness/vutil"

	misspell "github.com/rogpeppe/go-internal/verifshim/vmisspell"
)

// A table renders rune id k (1-based) as one of alts[k-1]; several alternatives are
// used in rotation by position: they are all "the same rune" for the specification.
type table struct {
	name string
	alts [][]string
}

var invalid = []string{"\xff", "\xc0", "\x80"} // each is one invalid rune wherever it stands

var tables = []table{
	{"mixed", [][]string{{"a"}, {"é"}, {"世"}, {"😀"}}},
	{"ascii", [][]string{{"a"}, {"b"}, {"c"}, {"d"}}},
	{"wide", [][]string{{"é"}, {"世"}, {"😀"}, {"ß"}}},
	// c3 a9, c3 a8, c4 a9, c4 a8: every byte is shared with another rune of the table
	{"near", [][]string{{"é"}, {"è"}, {"ĩ"}, {"Ĩ"}}},
	{"invalid", [][]string{{"a"}, invalid, {"世"}, {"é"}}},
}

var randTable = table{"random", [][]string{{"a"}, {"b"}, {"é"}, {"世"}, {"😀"}, invalid, {"e"}, {"è"}}}

func (t *table) render(ids []int, off int) string {
	var s []byte
	for i, id := range ids {
		if id < 1 || id > len(t.alts) {
			vutil.Fatalf("rune id %d outside table %s", id, t.name)
		}
		a := t.alts[id-1]
		s = append(s, a[(i+off)%len(a)]...)
	}
	// the rendering must keep one rune per id, whatever bytes stand next to each other
	if n := utf8.RuneCount(s); n != len(ids) {
		vutil.Fatalf("table %s renders %v as %q: %d runes", t.name, ids, s, n)
	}
	return string(s)
}

// call runs the real function under recover.
func call(a, b string) (got bool, panicked string) {
	defer func() {
		if r := recover(); r != nil {
			panicked = fmt.Sprint(r)
			if panicked == "" {
				panicked = "panic"
			}
		}
	}()
	return misspell.AlmostEqual(a, b), ""
}

func q(s string) string { return strconv.QuoteToASCII(s) }

type caseJ struct {
	A      []int `json:"a"`
	B      []int `json:"b"`
	Expect bool  `json:"expect"`
}

func equal(a, b []int) bool {
	if len(a) != len(b) {
		return false
	}
	for i := range a {
		if a[i] != b[i] {
			return false
		}
	}
	return true
}

func abs(n int) int {
	if n < 0 {
		return -n
	}
	return n
}

// at most maxStored findings are kept with their input (the counters count all of them)
const maxStored = 200

var stored int64

func violate(res *vutil.Result, f vutil.Finding) {
	if atomic.AddInt64(&stored, 1) > maxStored {
		res.Count("violations_total", 1)
		res.Count("violation:"+f.Kind, 1)
		return
	}
	res.Violate(f)
}

func replay(res *vutil.Result, files []string) {
	for _, f := range files {
		vutil.ParallelLines(f, func(line []byte) {
			var c caseJ
			if err := json.Unmarshal(line, &c); err != nil {
				vutil.Fatalf("bad case %q: %v", line, err)
			}
			res.Count("cases", 1)
			if c.Expect {
				res.Count("cases_true", 1)
			}
			nontrivial := !equal(c.A, c.B) && abs(len(c.A)-len(c.B)) <= 1
			for ti := range tables {
				t := &tables[ti]
				sa, sb := t.render(c.A, 0), t.render(c.B, 1)
				res.Eval(nontrivial)
				for dir, p := range [][2]string{{sa, sb}, {sb, sa}} {
					got, pan := call(p[0], p[1])
					in := map[string]interface{}{"a": q(p[0]), "b": q(p[1]), "table": t.name, "rune_ids_a": c.A, "rune_ids_b": c.B,
						"call": fmt.Sprintf("misspell.AlmostEqual(%s, %s)", q(p[0]), q(p[1]))}
					if dir == 1 {
						in["rune_ids_a"], in["rune_ids_b"] = c.B, c.A
					}
					cls := fmt.Sprintf("%s|%s|%s", t.name, q(p[0]), q(p[1]))
					if pan != "" {
						violate(res, vutil.Finding{Kind: "panic", What: fmt.Sprintf("AlmostEqual(%s, %s) panics: %s", q(p[0]), q(p[1]), pan), Input: in, Class: cls})
						continue
					}
					if got != c.Expect {
						violate(res, vutil.Finding{Kind: "prediction-mismatch",
							What:  fmt.Sprintf("AlmostEqual(%s, %s) = %v, the documented relation gives %v", q(p[0]), q(p[1]), got, c.Expect),
							Input: in, Class: cls})
					}
				}
				if ti == 0 && nontrivial && len(c.A) >= 3 && (c.A[0]+2*c.A[1]+3*c.B[0]+5*c.B[1]+7*len(c.B))%11 == 0 {
					res.Sample(map[string]interface{}{"a": q(sa), "b": q(sb), "expect": c.Expect}, 8)
				}
			}
		})
	}
	// not judged: the statement says "invalid runes are considered equal"; whether a well-formed
	// U+FFFD is "an invalid rune" too is not said.  Observed at the time of writing: it is.
	g1, _ := call("a\uFFFDb", "a\xffb")
	g2, _ := call("\uFFFD", "\xff")
	res.Extra["wellformed_U+FFFD_equals_invalid_byte"] = []bool{g1, g2}
	if !g1 || !g2 {
		res.DriftAdd(vutil.Finding{Kind: "fffd-vs-invalid", What: fmt.Sprintf("a well-formed U+FFFD is no longer taken as equal to an invalid byte (%v, %v)", g1, g2)})
	}
}

// ---------------------------------------------------------------------------
// random mode

type rec struct {
	A     []int  `json:"a"`
	B     []int  `json:"b"`
	Got   bool   `json:"got"`
	Rev   bool   `json:"rev"`
	Panic bool   `json:"panic"`
	K     int    `json:"k"`
	SA    string `json:"sa"` // quoted renderings, for the report
	SB    string `json:"sb"`
	Src   string `json:"src"`
}

func clone(a []int) []int { return append([]int{}, a...) }

// pos draws a position in [0,n): the ends are favoured (that is where off-by-one mistakes live).
func pos(r *rand.Rand, n int) int {
	switch r.Intn(6) {
	case 0:
		return 0
	case 1:
		return n - 1
	}
	return r.Intn(n)
}

// edit applies one random edit near `near` (if >= 0) and returns the result and the position used.
func edit(r *rand.Rand, a []int, alpha []int, near int) ([]int, int) {
	kind := r.Intn(4)
	if len(a) == 0 || (kind == 3 && len(a) < 2) {
		kind = 0
	}
	at := func(n int) int {
		if near >= 0 && r.Intn(2) == 0 {
			p := near + r.Intn(3) - 1
			if p < 0 {
				p = 0
			}
			if p >= n {
				p = n - 1
			}
			return p
		}
		return pos(r, n)
	}
	other := func(x int) int {
		for i := 0; i < 8; i++ {
			if y := alpha[r.Intn(len(alpha))]; y != x {
				return y
			}
		}
		return x%len(randTable.alts) + 1
	}
	b := clone(a)
	switch kind {
	case 0: // insert
		p := at(len(a) + 1)
		b = append(b[:p], append([]int{alpha[r.Intn(len(alpha))]}, a[p:]...)...)
		return b, p
	case 1: // delete
		p := at(len(a))
		return append(b[:p], a[p+1:]...), p
	case 2: // substitute by a different rune
		p := at(len(a))
		b[p] = other(a[p])
		return b, p
	}
	p := at(len(a) - 1) // swap p, p+1 (no change when the two are the same rune)
	b[p], b[p+1] = b[p+1], b[p]
	return b, p
}

func randString(r *rand.Rand, alpha []int, n int) []int {
	s := make([]int, n)
	for i := range s {
		s[i] = alpha[r.Intn(len(alpha))]
	}
	return s
}

func randLen(r *rand.Rand) int {
	switch r.Intn(10) {
	case 0, 1, 2:
		return r.Intn(5)
	case 3, 4, 5, 6:
		return 5 + r.Intn(11)
	}
	return 16 + r.Intn(25)
}

// testscript's built-in command names: what cmdSuggestions compares a misspelt command with.
var names = []string{"cd", "chmod", "cmp", "cmpenv", "cp", "env", "exec", "exists", "grep", "kill", "mkdir", "mv", "rm", "skip",
	"stdin", "stderr", "stdout", "ttyin", "ttyout", "stop", "symlink", "unix2dos", "unquote", "wait"}

func runes(s string) []int {
	var a []int
	for _, c := range s {
		a = append(a, int(c))
	}
	return a
}

func random(res *vutil.Result, n int, tracePath string) {
	w := vutil.NewNDJSONWriter(tracePath)
	defer w.Close()
	emit := func(a, b []int, sa, sb string, k int, src string) {
		got, p1 := call(sa, sb)
		rev, p2 := call(sb, sa)
		w.Write(rec{A: append([]int{}, a...), B: append([]int{}, b...), Got: got, Rev: rev, Panic: p1 != "" || p2 != "", K: k, SA: q(sa), SB: q(sb), Src: src})
		res.Eval(!equal(a, b) && abs(len(a)-len(b)) <= 1)
		res.Count(fmt.Sprintf("%s_k%d_%v", src, k, got), 1)
		if got {
			res.Count("answers_true", 1)
		} else {
			res.Count("answers_false", 1)
		}
		if k == 2 && len(a) > 6 {
			res.Sample(map[string]interface{}{"a": q(sa), "b": q(sb), "edits": k, "got": got}, 6)
		}
	}
	// (1) misspellings of command names (rune id = code point)
	for _, nm := range names {
		a := runes(nm)
		one := func(b []int) { emit(a, b, nm, stringOf(b), 1, "names") }
		for i := range a {
			one(append(clone(a[:i]), a[i+1:]...))
			for _, x := range []int{'x', 'é'} {
				b := clone(a)
				b[i] = x
				one(b)
			}
			if i+1 < len(a) {
				b := clone(a)
				b[i], b[i+1] = b[i+1], b[i]
				one(b)
			}
		}
		for i := 0; i <= len(a); i++ {
			for _, x := range []int{'x', 'é'} {
				one(append(clone(a[:i]), append([]int{x}, a[i:]...)...))
			}
		}
		for _, other := range names {
			if other != nm {
				emit(a, runes(other), nm, other, 9, "names")
			}
		}
	}
	// (2) random strings over sub-alphabets of the rune table
	r := vutil.Rand(303)
	for c := 0; c < n; c++ {
		m := 1 + r.Intn(len(randTable.alts))
		if r.Intn(2) == 0 {
			m = 1 + r.Intn(3) // few distinct runes: repeated runes, edits that cancel or coincide
		}
		alpha := r.Perm(len(randTable.alts))[:m]
		for i := range alpha {
			alpha[i]++
		}
		a := randString(r, alpha, randLen(r))
		var b []int
		k := 0
		switch d := r.Intn(20); {
		case d < 2:
			b = clone(a)
		case d < 9:
			k = 1
			b, _ = edit(r, a, alpha, -1)
		case d < 17:
			k = 2
			var p int
			b, p = edit(r, a, alpha, -1)
			b, _ = edit(r, b, alpha, p)
		default:
			k = 9
			l := len(a) + r.Intn(3) - 1
			if l < 0 {
				l = 0
			}
			b = randString(r, alpha, l)
		}
		emit(a, b, randTable.render(a, 0), randTable.render(b, 1), k, "random")
	}
	res.Count("records", int64(w.N))
}

func stringOf(a []int) string {
	var s []rune
	for _, c := range a {
		s = append(s, rune(c))
	}
	return string(s)
}

func main() {
	mode := flag.String("mode", "replay", "replay | random")
	out := flag.String("out", "result.json", "")
	n := flag.Int("n", 1000, "random pairs")
	trace := flag.String("trace", "trace.ndjson", "")
	flag.Parse()
	res := vutil.NewResult()
	switch *mode {
	case "replay":
		if flag.NArg() == 0 {
			vutil.Fatalf("replay: no case files")
		}
		replay(res, flag.Args())
	case "random":
		random(res, *n, *trace)
	default:
		vutil.Fatalf("unknown mode %q", *mode)
	}
	res.Write(*out)
}
