//go:build verif

// Driver for C10: the real par.Cache (sync.Map / sync.Mutex / sync/atomic
// redirected to the scheduler shims) is run through TLC-generated schedules,
// bounded exhaustive DFS and random/PCT schedules; free mode runs the
// unsubstituted package under -race.  Every run's observable event trace is
// recorded for validation by TLC against ParCacheL1.
package main

import (
	"encoding/json"
	"flag"
	"fmt"
	"math/rand"
	"sort"
	"strings"
	"sync"
	"sync/atomic"
	"time"

	"verifharness/vutil"

	"github.com/rogpeppe/go-internal/par"
	"github.com/rogpeppe/go-internal/verifshim/vsched"
)

type Op struct {
	Op string `json:"op"`
	K  string `json:"k"`
}
type Prog map[string][]Op

type Event struct {
	E string `json:"e"`
	A string `json:"a"`
	K string `json:"k"`
	V string `json:"v"`
	B bool   `json:"b"`
}

type Case struct {
	Prog   Prog          `json:"prog"`
	Sched  []vsched.Step `json:"sched"`
	Events []Event       `json:"events"`
	Final  bool          `json:"final"`
}

type TraceRec struct {
	Events []Event           `json:"events"`
	End    string            `json:"end"`
	Count  int               `json:"count"`
	Mode   string            `json:"mode"`
	Prog   Prog              `json:"prog,omitempty"`
	Sched  []vsched.Decision `json:"sched,omitempty"`
	Detail string            `json:"detail,omitempty"`
}

const freeHang = 60 * time.Second

func actorNames(p Prog) []string {
	var names []string
	for a := range p {
		names = append(names, a)
	}
	sort.Strings(names)
	return names
}

var runSeq int64

// nilRuns: off while TLC schedules are replayed (their predicted events carry the ordinary values)
var nilRuns = true

func runOne(p Prog, strat vsched.Strategy, budget int) ([]Event, vsched.Outcome) {
	var evs []Event
	var mu sync.Mutex
	log := func(e Event) {
		mu.Lock()
		evs = append(evs, e)
		mu.Unlock()
	}
	var c par.Cache
	// in every third run the function of the smallest key returns nil: a value like any other ("the value that single
	// invocation returned"), which must not be recomputed either
	nilKey := ""
	if nilRuns && atomic.AddInt64(&runSeq, 1)%3 == 0 {
		for _, ops := range p {
			for _, o := range ops {
				if nilKey == "" || o.K < nilKey {
					nilKey = o.K
				}
			}
		}
	}
	actor := func(a string) func() {
		return func() {
			for _, o := range p[a] {
				k := o.K
				if o.Op == "do" {
					log(Event{E: "DoCall", A: a, K: k, V: "nil"})
					v := c.Do(k, func() any {
						log(Event{E: "FStart", A: a, K: k, V: "nil"})
						vsched.Yield("f")
						if k == nilKey {
							log(Event{E: "FEnd", A: a, K: k, V: "nil"})
							return nil
						}
						val := k + ":" + a
						log(Event{E: "FEnd", A: a, K: k, V: val})
						return val
					})
					log(Event{E: "DoRet", A: a, K: k, V: str(v)})
				} else {
					blockedBefore := 0
					s := vsched.Cur()
					var me *vsched.Actor
					if s != nil {
						me = s.Current()
						blockedBefore = me.Blocked
					}
					log(Event{E: "GetCall", A: a, K: k, V: "nil"})
					v := c.Get(k)
					b := me != nil && me.Blocked > blockedBefore
					log(Event{E: "GetRet", A: a, K: k, V: str(v), B: b})
				}
			}
		}
	}
	names := actorNames(p)
	var out vsched.Outcome
	if strat == nil {
		done := make(chan interface{}, len(names))
		for _, a := range names {
			fn := actor(a)
			go func() {
				defer func() { done <- recover() }()
				fn()
			}()
		}
		out = vsched.Outcome{Status: "done"}
		timeout := time.After(freeHang)
		for range names {
			select {
			case r := <-done:
				if r != nil {
					out = vsched.Outcome{Status: "panic", Detail: fmt.Sprint(r)}
				}
			case <-timeout:
				out = vsched.Outcome{Status: "hang", Detail: "free-mode run did not finish within " + freeHang.String()}
			}
			if out.Status == "hang" {
				break
			}
		}
	} else {
		out = vsched.Run(strat, budget, func() {
			s := vsched.Cur()
			for _, a := range names {
				s.Go(a, actor(a))
			}
		})
	}
	mu.Lock()
	defer mu.Unlock()
	evs = append(evs, Event{E: "End", A: "main", K: "-", V: out.Status})
	return append([]Event(nil), evs...), out
}

func str(v any) string {
	if v == nil {
		return "nil"
	}
	if s, ok := v.(string); ok {
		return s
	}
	return fmt.Sprint(v)
}

// runs that ended "stalled" (the scheduler gave up: an actor blocked in a primitive the shims do not model)
var stalledRuns int64

type collector struct {
	mu    sync.Mutex
	seen  map[string]*TraceRec
	order []string
	runs  int
}

func (c *collector) add(mode string, p Prog, evs []Event, out vsched.Outcome) {
	if out.Status == "stalled" { // harness limit (vsched.Stalled), not an observation
		atomic.AddInt64(&stalledRuns, 1)
		return
	}
	var sb strings.Builder
	for _, e := range evs {
		fmt.Fprintf(&sb, "%s,%s,%s,%s,%v;", e.E, e.A, e.K, e.V, e.B)
	}
	k := sb.String()
	c.mu.Lock()
	defer c.mu.Unlock()
	c.runs++
	if t, ok := c.seen[k]; ok {
		t.Count++
		return
	}
	t := &TraceRec{Events: evs, End: out.Status, Count: 1, Mode: mode, Prog: p}
	if out.Status != "done" {
		t.Sched = out.Trace
		if len(t.Sched) > 300 {
			t.Sched = t.Sched[:300]
		}
		t.Detail = out.Detail
		if len(t.Detail) > 1500 {
			t.Detail = t.Detail[:1500]
		}
	}
	c.seen[k] = t
	c.order = append(c.order, k)
}

func eventsEqualPrefix(model, real []Event) bool {
	if len(model) > len(real) {
		return false
	}
	for i := range model {
		m, r := model[i], real[i]
		if m.E != r.E || m.A != r.A || m.K != r.K || m.V != r.V {
			return false
		}
	}
	return true
}

func randomProg(r *rand.Rand) Prog {
	p := Prog{}
	na := 2 + r.Intn(4)
	keys := []string{"k1", "k2", "k3"}[:1+r.Intn(3)]
	for i := 1; i <= na; i++ {
		ops := []Op{}
		for j := r.Intn(5); j > 0; j-- {
			o := Op{Op: "do", K: keys[r.Intn(len(keys))]}
			if r.Intn(3) == 0 {
				o.Op = "get"
			}
			ops = append(ops, o)
		}
		p[fmt.Sprintf("a%d", i)] = ops
	}
	return p
}

func main() {
	mode := flag.String("mode", "replay", "replay | dfs | random | free")
	cases := flag.String("cases", "", "")
	traces := flag.String("traces", "traces.ndjson", "")
	out := flag.String("out", "result.json", "")
	bound := flag.Int("bound", 2, "")
	maxruns := flag.Int("maxruns", 100000, "")
	runs := flag.Int("runs", 2000, "")
	flag.Parse()
	res := vutil.NewResult()
	nilRuns = *mode != "replay"
	col := &collector{seen: map[string]*TraceRec{}}
	progs := map[string]Prog{}
	var progKeys []string
	if *cases != "" {
		vutil.ReadNDJSON(*cases, func(line []byte) {
			var c Case
			if err := json.Unmarshal(line, &c); err != nil {
				vutil.Fatalf("bad case: %v", err)
			}
			pb, _ := json.Marshal(c.Prog)
			if _, ok := progs[string(pb)]; !ok {
				progs[string(pb)] = c.Prog
				progKeys = append(progKeys, string(pb))
			}
			if *mode != "replay" {
				return
			}
			rp := &vsched.Replay{Steps: c.Sched}
			evs, o := runOne(c.Prog, rp, 5000)
			col.add("replay", c.Prog, evs, o)
			res.Eval(len(c.Sched) >= 3)
			res.Count("replay_runs", 1)
			if len(rp.Drift) > 0 || !rp.Consumed() {
				res.DriftAdd(vutil.Finding{Kind: "schedule-not-applicable", What: strings.Join(rp.Drift, "; "), Input: c.Sched})
			} else if !eventsEqualPrefix(c.Events, evs) {
				res.DriftAdd(vutil.Finding{Kind: "events-differ-from-model", What: "observable events differ from the L2 prediction", Input: c.Sched,
					Detail: map[string]interface{}{"model": c.Events, "real": evs}})
			} else if c.Final && o.Status != "done" {
				res.DriftAdd(vutil.Finding{Kind: "final-state-not-reached", What: o.Status, Input: c.Sched})
			} else {
				res.Count("l2_conformant_runs", 1)
			}
			if c.Final {
				res.Sample(map[string]interface{}{"prog": c.Prog, "schedule": c.Sched, "real_events": evs}, 2)
			}
		})
	}
	sort.Strings(progKeys)
	switch *mode {
	case "dfs":
		for _, k := range progKeys {
			p := progs[k]
			d := &vsched.DFS{Bound: *bound}
			cnt := 0
			for {
				d.Reset()
				evs, o := runOne(p, d, 5000)
				col.add("dfs", p, evs, o)
				res.Eval(true)
				cnt++
				if o.Status != "done" {
					res.Count("dfs_stopped_at_failure", 1)
					break
				}
				if !d.Next() || cnt >= *maxruns {
					if cnt >= *maxruns {
						res.Count("dfs_truncated", 1)
					}
					break
				}
			}
			res.Count("dfs_runs", int64(cnt))
		}
	case "random":
		rng := vutil.Rand(11)
		for i := 0; i < *runs; i++ {
			p := randomProg(rng)
			var st vsched.Strategy
			if i%2 == 0 {
				st = &vsched.Random{R: rand.New(rand.NewSource(rng.Int63())), Stay: 30}
			} else {
				st = &vsched.PCT{R: rand.New(rand.NewSource(rng.Int63())), Depth: 3, MaxStep: 80}
			}
			evs, o := runOne(p, st, 20000)
			col.add("random", p, evs, o)
			res.Eval(true)
			if i < 1 {
				res.Sample(map[string]interface{}{"prog": p, "random_run_events": evs}, 6)
			}
		}
		res.Count("random_runs", int64(*runs))
	case "free":
		rng := vutil.Rand(12)
		for i := 0; i < *runs; i++ {
			p := randomProg(rng)
			// many goroutines per actor list: duplicate the program to raise contention
			evs, o := runOne(p, nil, 0)
			col.add("free", p, evs, o)
			res.Eval(true)
			if o.Status == "hang" {
				break
			}
		}
		res.Count("free_runs", int64(*runs))
	}
	w := vutil.NewNDJSONWriter(*traces)
	for _, k := range col.order {
		w.Write(col.seen[k])
	}
	w.Close()
	res.Count("runs", int64(col.runs))
	res.Count("stalled_runs", int64(stalledRuns))
	if vsched.Stalled() {
		res.Extra["controlled_execution"] = "given up: an actor blocked in a primitive the shims do not model (channel, unredirected lock)"
	}
	res.Count("distinct_traces", int64(len(col.order)))
	res.Write(*out)
}
