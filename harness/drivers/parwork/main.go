//go:build verif

// Driver for C09: runs the real par.Work (built with sync / math/rand redirected
// to the scheduler shims) through TLC-generated schedules, a bounded exhaustive
// DFS over all scheduling choices, and seeded random / PCT schedules; records
// the observable event trace of every run for validation by TLC against
// ParWorkL1.  In free mode (no import redirection, -race) it records traces of
// the unsubstituted package.
package main

import (
	"encoding/json"
	"flag"
	"fmt"
	"math/rand"
	"runtime"
	"sort"
	"strings"
	"sync"
	"sync/atomic"
	"time"

	"verifharness/vutil"

	"github.com/rogpeppe/go-internal/par"
	"github.com/rogpeppe/go-internal/verifshim/vsched"
)

type Graph struct {
	Succ map[string][]string `json:"succ"`
	Init []string            `json:"init"`
	// Meet: items whose f, once started, waits until all of them have started (free mode only; Do must be given at
	// least len(Meet)+1 runners): work that only gets done when every runner that was put to sleep is woken up again
	Meet []string `json:"meet,omitempty"`
}

type Event struct {
	E string `json:"e"`
	R string `json:"r"`
	X string `json:"x"`
}

type Case struct {
	N      int           `json:"n"`
	Graph  Graph         `json:"graph"`
	Sched  []vsched.Step `json:"sched"`
	Events []Event       `json:"events"`
	Final  bool          `json:"final"`
}

type TraceRec struct {
	N      int               `json:"n"`
	Events []Event           `json:"events"`
	End    string            `json:"end"`
	Count  int               `json:"count"`
	Mode   string            `json:"mode"`
	Graph  *Graph            `json:"graph,omitempty"`
	Sched  []vsched.Decision `json:"sched,omitempty"`
	Detail string            `json:"detail,omitempty"`
}

var callSeq int64

// node is the second item representation: distinct items are distinct pointers whose
// contents look alike, and f mutates the item it processes - identity, not appearance,
// is what "distinct item" means for a set of map keys.
type node struct {
	Label  string
	Visits int
}

var runSeq int64

const freeHang = 60 * time.Second
const maxEvents = 400

var hung int32

func runOne(n int, g Graph, strat vsched.Strategy, budget int) ([]Event, vsched.Outcome) {
	var evs []Event
	var mu sync.Mutex
	log := func(e, r, x string) {
		mu.Lock()
		if len(evs) < maxEvents || (len(g.Succ["root"]) > 1000 && len(evs) < 20000) { // a run that never ends is cut by the step budget; keep its trace small
			evs = append(evs, Event{e, r, x})
		}
		mu.Unlock()
	}
	repr := atomic.AddInt64(&runSeq, 1) % 3
	usePtr := repr == 0
	nodes := map[string]*node{}
	names := map[*node]string{}
	// third representation: the items are the values a caller is least likely to have tried - nil, zero values of
	// several types - every one a distinct, valid map key
	specials := []any{nil, "", 0, false, struct{}{}, 0.0, [0]int{}}
	special := map[string]int{}
	var nmu sync.Mutex
	toItem := func(x string) any {
		if repr == 2 {
			nmu.Lock()
			defer nmu.Unlock()
			k, ok := special[x]
			if !ok {
				k = len(special)
				special[x] = k
			}
			if k < len(specials) {
				return specials[k]
			}
			return x
		}
		if !usePtr {
			return x
		}
		nmu.Lock()
		defer nmu.Unlock()
		if nodes[x] == nil {
			nodes[x] = &node{Label: "n"}
			names[nodes[x]] = x
		}
		return nodes[x]
	}
	fromItem := func(item any) string {
		if repr == 2 {
			nmu.Lock()
			defer nmu.Unlock()
			for x, k := range special {
				if k < len(specials) && specials[k] == item {
					return x
				}
			}
			return item.(string)
		}
		if s, ok := item.(string); ok {
			return s
		}
		p := item.(*node)
		nmu.Lock()
		defer nmu.Unlock()
		p.Visits++
		return names[p]
	}
	var meetMu sync.Mutex
	meetN, meetCh := 0, make(chan struct{})
	body := func() {
		w := &par.Work{}
		for _, x := range g.Init {
			log("AddCall", "main", x)
			w.Add(toItem(x))
		}
		log("DoCall", "main", "-")
		w.Do(n, func(item any) {
			x := fromItem(item)
			var r string
			if s := vsched.Cur(); s != nil {
				r = s.Current().Name
			} else {
				r = fmt.Sprintf("c%d", atomic.AddInt64(&callSeq, 1))
			}
			log("FStart", r, x)
			for _, m := range g.Meet {
				if m == x {
					meetMu.Lock()
					meetN++
					if meetN == len(g.Meet) {
						close(meetCh)
					}
					meetMu.Unlock()
					select {
					case <-meetCh:
					case <-time.After(freeHang + 5*time.Second): // (the hang watchdog of the run fires first)
					}
				}
			}
			vsched.Yield("f")
			for _, y := range g.Succ[x] {
				log("AddCall", r, y)
				w.Add(toItem(y))
			}
			addsMeet := false
			for _, y := range g.Succ[x] {
				for _, m := range g.Meet {
					addsMeet = addsMeet || m == y
				}
			}
			if addsMeet {
				// the adder waits for the items it added to have started: it cannot run them itself
				select {
				case <-meetCh:
				case <-time.After(freeHang + 5*time.Second):
				}
			}
			log("FEnd", r, x)
		})
		log("DoReturn", "main", "-")
	}
	var out vsched.Outcome
	if strat == nil {
		// free mode: real goroutines, real sync
		done := make(chan interface{}, 1)
		go func() {
			defer func() { done <- recover() }()
			body()
		}()
		select {
		case p := <-done:
			if p != nil {
				out = vsched.Outcome{Status: "panic", Detail: fmt.Sprint(p)}
			} else {
				out = vsched.Outcome{Status: "done"}
			}
		case <-time.After(freeHang):
			// microseconds of work did not finish in a minute: Do never returned
			out = vsched.Outcome{Status: "hang", Detail: "free-mode run did not finish within " + freeHang.String()}
		}
	} else {
		out = vsched.Run(strat, budget, body)
	}
	mu.Lock()
	defer mu.Unlock()
	evs = append(evs, Event{"End", "main", out.Status})
	return append([]Event(nil), evs...), out
}

// BigSummary is what a run with tens of thousands of items is reduced to (an event trace of it would be too long for TLC;
// the counters say what the contract is about).
type BigSummary struct {
	N         int    `json:"n"`
	Items     int    `json:"items"`     // distinct items added (the root and its children)
	Adds      int    `json:"adds"`      // Add calls, duplicates included
	FCalls    int    `json:"fcalls"`    // calls of f
	MaxPer    int    `json:"maxper"`    // most calls of f for one item
	MaxInProg int    `json:"maxinprog"` // most calls of f in progress at once
	End       string `json:"end"`       // done | hang | panic
}

// bigRun: one item adds `kids` others in one go (more than any queue or table bound an implementation may have), and
// every child adds one of the first hundred children again - an item seen long ago.
func bigRun(n, kids int) BigSummary {
	calls := make([]int32, kids+1)
	var inprog, maxin, adds, fcalls int64
	sum := BigSummary{N: n, Items: kids + 1, End: "done"}
	done := make(chan interface{}, 1)
	go func() {
		defer func() { done <- recover() }()
		w := &par.Work{}
		atomic.AddInt64(&adds, 1)
		w.Add(0)
		w.Do(n, func(item any) {
			k := item.(int)
			cur := atomic.AddInt64(&inprog, 1)
			for {
				m := atomic.LoadInt64(&maxin)
				if cur <= m || atomic.CompareAndSwapInt64(&maxin, m, cur) {
					break
				}
			}
			atomic.AddInt32(&calls[k], 1)
			atomic.AddInt64(&fcalls, 1)
			if k == 0 {
				for c := 1; c <= kids; c++ {
					atomic.AddInt64(&adds, 1)
					w.Add(c)
				}
			} else {
				atomic.AddInt64(&adds, 1)
				w.Add(k%100 + 1)
			}
			atomic.AddInt64(&inprog, -1)
		})
	}()
	select {
	case p := <-done:
		if p != nil {
			sum.End = "panic"
		}
	case <-time.After(freeHang):
		sum.End = "hang"
	}
	sum.Adds, sum.FCalls, sum.MaxInProg = int(atomic.LoadInt64(&adds)), int(atomic.LoadInt64(&fcalls)), int(atomic.LoadInt64(&maxin))
	for k := range calls {
		if c := int(atomic.LoadInt32(&calls[k])); c > sum.MaxPer {
			sum.MaxPer = c
		}
	}
	return sum
}

// ---- trace collection with de-duplication ----
// runs that ended "stalled" (the scheduler gave up: an actor blocked in a primitive the shims do not model)
var stalledRuns int64

type collector struct {
	mu    sync.Mutex
	seen  map[string]*TraceRec
	order []string
	runs  int
}

func (c *collector) add(mode string, n int, g Graph, evs []Event, out vsched.Outcome) {
	if out.Status == "stalled" { // harness limit (vsched.Stalled), not an observation
		atomic.AddInt64(&stalledRuns, 1)
		return
	}
	var sb strings.Builder
	fmt.Fprintf(&sb, "%d|", n)
	for _, e := range evs {
		sb.WriteString(e.E + "," + e.R + "," + e.X + ";")
	}
	k := sb.String()
	c.mu.Lock()
	defer c.mu.Unlock()
	c.runs++
	if t, ok := c.seen[k]; ok {
		t.Count++
		return
	}
	gg := g
	t := &TraceRec{N: n, Events: evs, End: out.Status, Count: 1, Mode: mode, Graph: &gg}
	if out.Status != "done" {
		t.Sched = out.Trace
		if len(t.Sched) > 300 {
			t.Sched = t.Sched[:300]
		}
		t.Detail = out.Detail
		if len(t.Detail) > 1500 {
			t.Detail = t.Detail[:1500]
		}
	}
	c.seen[k] = t
	c.order = append(c.order, k)
}

func isPrefix(a, b []Event) bool {
	if len(a) > len(b) {
		return false
	}
	for i := range a {
		if a[i] != b[i] {
			return false
		}
	}
	return true
}

func randomGraph(r *rand.Rand, items int) Graph {
	names := []string{"a", "b", "c", "d", "e", "f", "g", "h"}[:items]
	g := Graph{Succ: map[string][]string{}}
	for _, x := range names {
		k := r.Intn(4)
		for i := 0; i < k; i++ {
			g.Succ[x] = append(g.Succ[x], names[r.Intn(items)])
		}
	}
	k := 1 + r.Intn(3)
	for i := 0; i < k; i++ {
		g.Init = append(g.Init, names[r.Intn(items)])
	}
	return g
}

func main() {
	mode := flag.String("mode", "replay", "replay | dfs | random | free")
	cases := flag.String("cases", "", "TLC-emitted schedules (ndjson)")
	traces := flag.String("traces", "traces.ndjson", "event traces for TLC")
	out := flag.String("out", "result.json", "")
	bound := flag.Int("bound", 2, "preemption bound for dfs")
	maxruns := flag.Int("maxruns", 200000, "cap on dfs runs per (n, graph)")
	runs := flag.Int("runs", 2000, "random / free runs")
	big := flag.String("big", "", "free mode: summaries (ndjson) of the runs that are too large to record event by event")
	flag.Parse()
	res := vutil.NewResult()
	col := &collector{seen: map[string]*TraceRec{}}
	graphs := map[string]Graph{}
	var graphKeys []string

	if *cases != "" {
		vutil.ReadNDJSON(*cases, func(line []byte) {
			var c Case
			if err := json.Unmarshal(line, &c); err != nil {
				vutil.Fatalf("bad case: %v", err)
			}
			gb, _ := json.Marshal(c.Graph)
			if _, ok := graphs[string(gb)]; !ok {
				graphs[string(gb)] = c.Graph
				graphKeys = append(graphKeys, string(gb))
			}
			if *mode != "replay" {
				return
			}
			rp := &vsched.Replay{Steps: c.Sched}
			evs, o := runOne(c.N, c.Graph, rp, 5000)
			col.add("replay", c.N, c.Graph, evs, o)
			res.Eval(len(c.Sched) >= 3 && c.N > 1)
			res.Count("replay_runs", 1)
			// conformance with the L2 model (drift only, never a verdict)
			if len(rp.Drift) > 0 || !rp.Consumed() {
				res.DriftAdd(vutil.Finding{Kind: "schedule-not-applicable", What: strings.Join(rp.Drift, "; "), Input: c.Sched})
			} else if !isPrefix(c.Events, evs) {
				res.DriftAdd(vutil.Finding{Kind: "events-differ-from-model", What: "observable events differ from the L2 prediction", Input: c.Sched,
					Detail: map[string]interface{}{"model": c.Events, "real": evs}})
			} else if c.Final && o.Status != "done" {
				res.DriftAdd(vutil.Finding{Kind: "final-state-not-reached", What: o.Status, Input: c.Sched})
			} else {
				res.Count("l2_conformant_runs", 1)
			}
			if c.Final && c.N == 3 {
				res.Sample(map[string]interface{}{"n": c.N, "graph": c.Graph, "schedule": c.Sched, "real_events": evs}, 2)
			}
		})
	}
	sort.Strings(graphKeys)
	switch *mode {
	case "dfs":
		// exhaustive over every scheduling choice of the REAL code up to the preemption bound
		for _, k := range graphKeys {
			g := graphs[k]
			for n := 1; n <= 3; n++ {
				d := &vsched.DFS{Bound: *bound}
				cnt := 0
				for {
					d.Reset()
					evs, o := runOne(n, g, d, 5000)
					col.add("dfs", n, g, evs, o)
					res.Eval(n > 1)
					cnt++
					if o.Status != "done" {
						// one failing run per (n, graph) is enough; the space below it may be unbounded
						res.Count("dfs_stopped_at_failure", 1)
						break
					}
					if !d.Next() || cnt >= *maxruns {
						if cnt >= *maxruns {
							res.Count("dfs_truncated", 1)
						}
						break
					}
				}
				res.Count("dfs_runs", int64(cnt))
				res.Count(fmt.Sprintf("dfs_runs_n%d", n), int64(cnt))
			}
		}
	case "random":
		rng := vutil.Rand(9)
		for i := 0; i < *runs; i++ {
			n := 1 + rng.Intn(6)
			g := randomGraph(rng, 2+rng.Intn(7))
			var st vsched.Strategy
			if i%2 == 0 {
				st = &vsched.Random{R: rand.New(rand.NewSource(rng.Int63())), Stay: 30}
			} else {
				st = &vsched.PCT{R: rand.New(rand.NewSource(rng.Int63())), Depth: 3, MaxStep: 60}
			}
			evs, o := runOne(n, g, st, 20000)
			col.add("random", n, g, evs, o)
			res.Eval(n > 1)
			if i < 2 {
				res.Sample(map[string]interface{}{"n": n, "graph": g, "random_run_events": evs}, 6)
			}
		}
		res.Count("random_runs", int64(*runs))
	case "free":
		rng := vutil.Rand(10)
		var wg sync.WaitGroup
		sem := make(chan struct{}, 8)
		for i := 0; i < *runs; i++ {
			n := 1 + rng.Intn(8)
			if i%16 == 5 {
				n = []int{64, 257, 300, 1000}[(i/16)%4] // far more runners than items: Do still has to return
			}
			g := randomGraph(rng, 2+rng.Intn(7))
			if i%16 == 11 {
				g = Graph{Succ: map[string][]string{}, Init: []string{}} // nothing added: Do returns at once
			}
			if i == 7 {
				// one item adds 1500 others: more than any queue bound an implementation might have
				kids := make([]string, 1500)
				for k := range kids {
					kids[k] = fmt.Sprintf("k%04d", k)
				}
				g = Graph{Succ: map[string][]string{"root": kids}, Init: []string{"root"}}
				n = 1 + (int(vutil.Seed()) % 3)
			}
			if i%16 == 3 {
				// an item adds two others while the other runners sleep; the two only finish once both have started,
				// so both sleepers have to be woken
				n = 3 + rng.Intn(3)
				g = Graph{Succ: map[string][]string{"root": {"mx", "my"}}, Init: []string{"root"}, Meet: []string{"mx", "my"}}
			}
			if i%16 == 9 || i%16 == 13 {
				// the same one step down a chain, with exactly as many runners as are needed at once: the runner that was woken
				// for mx may find it taken by the runner that added it and go back to sleep - the wake-ups for my and mz
				// must not be saved on its account
				n = 3
				g = Graph{Succ: map[string][]string{"root": {"mx"}, "mx": {"my", "mz"}}, Init: []string{"root"}, Meet: []string{"my", "mz"}}
			}
			wg.Add(1)
			sem <- struct{}{}
			if atomic.LoadInt32(&hung) > 0 {
				<-sem
				wg.Done()
				break
			}
			go func() {
				defer wg.Done()
				evs, o := runOne(n, g, nil, 0)
				if o.Status == "hang" {
					atomic.StoreInt32(&hung, 1)
				}
				col.add("free", n, g, evs, o)
				res.Eval(n > 1)
				<-sem
			}()
		}
		wg.Wait()
		// the number of runners is what the caller says, not what the machine has: item graphs that need n calls of f in
		// progress at once are run with fewer processors than runners
		if atomic.LoadInt32(&hung) == 0 {
			old := runtime.GOMAXPROCS(0)
			for _, procs := range []int{1, 2} {
				runtime.GOMAXPROCS(procs)
				for _, g := range []Graph{
					{Succ: map[string][]string{"root": {"mx"}, "mx": {"my", "mz"}}, Init: []string{"root"}, Meet: []string{"my", "mz"}},
					{Succ: map[string][]string{"root": {"mx", "my", "mz"}}, Init: []string{"root"}, Meet: []string{"mx", "my", "mz"}},
				} {
					n := len(g.Meet) + 1
					evs, o := runOne(n, g, nil, 0)
					col.add("free", n, g, evs, o)
					res.Eval(true)
					res.Count("free_runs_few_processors", 1)
					if o.Status == "hang" {
						break
					}
				}
			}
			runtime.GOMAXPROCS(old)
		}
		if *big != "" && atomic.LoadInt32(&hung) == 0 {
			bw := vutil.NewNDJSONWriter(*big)
			for _, n := range []int{1, 3} {
				bw.Write(bigRun(n, 70000))
				res.Eval(true)
				res.Count("free_runs_big", 1)
			}
			bw.Close()
		}
		res.Count("free_runs", int64(*runs))
	}
	w := vutil.NewNDJSONWriter(*traces)
	for _, k := range col.order {
		w.Write(col.seen[k])
	}
	w.Close()
	res.Count("runs", int64(col.runs))
	res.Count("stalled_runs", int64(stalledRuns))
	if vsched.Stalled() {
		res.Extra["controlled_execution"] = "given up: an actor blocked in a primitive the shims do not model (channel, unredirected lock)"
	}
	res.Count("distinct_traces", int64(len(col.order)))
	res.Write(*out)
}
