//go:build verif

// Driver for the renameio growth check (X01): renameio.go is built with os ->
// vos; every file operation of WriteFile is a scheduling point, a crash point
// and a fault point.  Readers use plain os.ReadFile (one atomic step).
package main

import (
	"encoding/json"
	"flag"
	"math/rand"
	"os"
	"path/filepath"
	"sort"
	"strings"
	"sync"
	"syscall"

	"verifharness/vutil"

	"github.com/rogpeppe/go-internal/renameio"
	"github.com/rogpeppe/go-internal/verifshim/vos"
	"github.com/rogpeppe/go-internal/verifshim/vsched"
)

type Op struct {
	Op string   `json:"op"`
	V  []string `json:"v"`
}
type Prog map[string][]Op
type Config struct {
	Prog Prog     `json:"prog"`
	Init []string `json:"init"`
}
type Event struct {
	Ev   string   `json:"ev"` // call | op | ret | crash
	A    string   `json:"a"`
	Op   string   `json:"op"`
	V    []string `json:"v"`
	Res  string   `json:"res"`
	Fail bool     `json:"fail"`
	K    int      `json:"k"`
}
type Inject struct {
	N    int    `json:"n"`
	Kind string `json:"kind"`
}
type RunRec struct {
	Mode   string   `json:"mode"`
	Prog   Prog     `json:"prog"`
	Init   []string `json:"init"`
	Inject Inject   `json:"inject"`
	Events []Event  `json:"events"`
	End    string   `json:"end"`
	Final  []string `json:"final"`
	Temps  int      `json:"temps"` // temporary files left in the directory
	Count  int      `json:"count"`
}

func blocks(b []byte) []string {
	// every logical block is 4 bytes of one letter
	r := []string{}
	for i := 0; i+4 <= len(b); i += 4 {
		r = append(r, string(b[i]))
	}
	if len(b)%4 != 0 {
		r = append(r, "?")
	}
	return r
}
func unblocks(v []string) []byte {
	var sb strings.Builder
	for _, x := range v {
		sb.WriteString(strings.Repeat(x, 4))
	}
	return []byte(sb.String())
}

type runner struct {
	dir, target string
	mu          sync.Mutex
	events      []Event
	nops        int
	inject      Inject
}

func (r *runner) log(e Event) {
	if e.V == nil {
		e.V = []string{}
	}
	r.mu.Lock()
	r.events = append(r.events, e)
	r.mu.Unlock()
}

func (r *runner) Before(op *vos.Op) vos.Action {
	if !strings.HasPrefix(op.Path, r.dir) {
		return vos.Action{}
	}
	s := vsched.Cur()
	if s == nil || s.OnActor() == nil {
		return vos.Action{}
	}
	s.Point(op.Kind, "", nil)
	name := s.Current().Name
	r.mu.Lock()
	r.nops++
	n := r.nops
	r.mu.Unlock()
	ev := Event{Ev: "op", A: name, Op: op.Kind}
	if r.inject.N == n {
		switch r.inject.Kind {
		case "crash":
			r.log(Event{Ev: "crash", A: name})
			s.Freeze()
		case "fail":
			ev.Fail = true
			r.log(ev)
			return vos.Action{Err: syscall.EIO}
		case "short":
			ev.Fail = true
			if op.Kind == "write" {
				ev.K = 1
				r.log(ev)
				return vos.Action{Err: syscall.ENOSPC, Short: 4}
			}
			r.log(ev)
			return vos.Action{Err: syscall.ENOSPC}
		}
	}
	r.log(ev)
	return vos.Action{}
}
func (r *runner) After(op *vos.Op, n int, err error) {}

func (r *runner) actor(name string, ops []Op) func() {
	return func() {
		for _, o := range ops {
			r.log(Event{Ev: "call", A: name, Op: o.Op, V: o.V})
			if o.Op == "write" {
				err := renameio.WriteFile(r.target, unblocks(o.V))
				res := "ok"
				if err != nil {
					res = "err"
				}
				r.log(Event{Ev: "ret", A: name, Op: o.Op, Res: res})
			} else {
				vsched.Yield("read")
				b, err := os.ReadFile(r.target)
				if err != nil {
					r.log(Event{Ev: "ret", A: name, Op: o.Op, Res: "err"})
				} else {
					r.log(Event{Ev: "ret", A: name, Op: o.Op, Res: "val", V: blocks(b)})
				}
			}
		}
	}
}

var tmpRoot string

func runOne(mode string, cfg Config, strat vsched.Strategy, inj Inject) *RunRec {
	dir := filepath.Join(tmpRoot, "rn")
	os.RemoveAll(dir)
	os.MkdirAll(dir, 0o777)
	r := &runner{dir: dir, target: filepath.Join(dir, "target"), inject: inj}
	os.WriteFile(r.target, unblocks(cfg.Init), 0o666)
	vos.SetInterceptor(r)
	names := []string{}
	for a := range cfg.Prog {
		names = append(names, a)
	}
	sort.Strings(names)
	out := vsched.Run(strat, 20000, func() {
		s := vsched.Cur()
		for _, a := range names {
			if len(cfg.Prog[a]) > 0 {
				s.Go(a, r.actor(a, cfg.Prog[a]))
			}
		}
	})
	vos.SetInterceptor(nil)
	final, _ := os.ReadFile(r.target)
	ents, _ := os.ReadDir(dir)
	rec := &RunRec{Mode: mode, Prog: cfg.Prog, Init: cfg.Init, Inject: inj, Events: r.events, End: out.Status, Final: blocks(final),
		Temps: len(ents) - 1, Count: 1}
	if rec.Events == nil {
		rec.Events = []Event{}
	}
	return rec
}

func main() {
	mode := flag.String("mode", "dfs", "dfs | random | fault")
	cfgs := flag.String("configs", "", "")
	traces := flag.String("traces", "traces.ndjson", "")
	out := flag.String("out", "result.json", "")
	bound := flag.Int("bound", 2, "")
	maxruns := flag.Int("maxruns", 3000, "")
	runs := flag.Int("runs", 500, "")
	tmp := flag.String("tmp", "", "")
	flag.Parse()
	tmpRoot = *tmp
	res := vutil.NewResult()
	seen := map[string]*RunRec{}
	var order []string
	add := func(r *RunRec) {
		b, _ := json.Marshal([]interface{}{r.Prog, r.Inject, r.Events, r.End, r.Final, r.Temps})
		if t, ok := seen[string(b)]; ok {
			t.Count++
			return
		}
		seen[string(b)] = r
		order = append(order, string(b))
	}
	var configs []Config
	vutil.ReadNDJSON(*cfgs, func(line []byte) {
		var c Config
		if err := json.Unmarshal(line, &c); err != nil {
			vutil.Fatalf("bad config: %v", err)
		}
		for a, ops := range c.Prog {
			if ops == nil {
				c.Prog[a] = []Op{}
			}
			for i := range ops {
				if ops[i].V == nil {
					ops[i].V = []string{}
				}
			}
		}
		configs = append(configs, c)
	})
	none := Inject{Kind: "none"}
	switch *mode {
	case "dfs":
		for _, cfg := range configs {
			d := &vsched.DFS{Bound: *bound}
			cnt := 0
			for {
				d.Reset()
				rec := runOne("dfs", cfg, d, none)
				add(rec)
				res.Eval(true)
				cnt++
				if rec.End != "done" || !d.Next() || cnt >= *maxruns {
					break
				}
			}
			res.Count("dfs_runs", int64(cnt))
			res.Sample(map[string]interface{}{"prog": cfg.Prog, "dfs_runs": cnt}, 2)
		}
	case "random":
		rng := vutil.Rand(51)
		for i := 0; i < *runs; i++ {
			cfg := configs[rng.Intn(len(configs))]
			add(runOne("random", cfg, &vsched.Random{R: rand.New(rand.NewSource(rng.Int63())), Stay: 40}, none))
			res.Eval(true)
		}
	case "fault":
		for _, cfg := range configs {
			clean := runOne("clean", cfg, &vsched.Replay{}, none)
			add(clean)
			res.Eval(true)
			n := 0
			for _, e := range clean.Events {
				if e.Ev == "op" {
					n++
				}
			}
			for k := 1; k <= n+1; k++ {
				for _, kind := range []string{"crash", "fail", "short"} {
					if kind != "crash" && k > n {
						continue
					}
					rec := runOne(kind, cfg, &vsched.Replay{}, Inject{N: k, Kind: kind})
					add(rec)
					res.Eval(true)
					res.Count("inject_"+kind, 1)
					if kind == "short" {
						res.Sample(map[string]interface{}{"inject": rec.Inject, "final": strings.Join(rec.Final, ""), "temps": rec.Temps}, 4)
					}
				}
			}
		}
	}
	w := vutil.NewNDJSONWriter(*traces)
	for _, k := range order {
		w.Write(seen[k])
	}
	w.Close()
	res.Count("distinct_traces", int64(len(order)))
	res.Write(*out)
}
