//go:build verif

// Driver for C04: batches of generated scripts are run by the real
// testscript.RunT under the controlled scheduler.  Scheduling points are the
// scripts' `gate` lines, their deferred functions, and - through the overlay of
// testscript.go (os -> vos, sync/atomic -> vatomic) - the removal of the work
// directories, the reference-count decrement and the removal of the shared
// root.  Every script is first run alone; in a batch it must observe exactly
// what it observed alone.
package main

import (
	"encoding/json"
	"errors"
	"flag"
	"fmt"
	"math/rand"
	"os"
	"path/filepath"
	"sort"
	"strconv"
	"strings"
	"sync"
	"syscall"
	"time"

	"verifharness/vutil"

	"github.com/rogpeppe/go-internal/testscript"
	"github.com/rogpeppe/go-internal/verifshim/vos"
	"github.com/rogpeppe/go-internal/verifshim/vsched"
)

// ---- a recording implementation of testscript.T ----

type failNow struct{}
type skipNow struct{}

type recT struct {
	name    string
	b       *batch
	verdict string
	log     []string
}

func (t *recT) Skip(a ...any) { t.verdict = "skip"; panic(skipNow{}) }
func (t *recT) Fatal(a ...any) {
	t.log = append(t.log, fmt.Sprint(a...))
	t.verdict = "fail"
	panic(failNow{})
}
func (t *recT) FailNow()      { t.verdict = "fail"; panic(failNow{}) }
func (t *recT) Log(a ...any)  { t.log = append(t.log, fmt.Sprint(a...)) }
func (t *recT) Verbose() bool { return false }
func (t *recT) Parallel() {
	if s := vsched.Cur(); s != nil {
		s.Point("parallel", t.name, nil)
	}
}
func (t *recT) Run(name string, f func(testscript.T)) {
	t.b.mu.Lock()
	if t.b.byOrder != nil {
		// explicit Params.Files: RunT starts the subtests in the order of the files, under names of its own choosing;
		// the k-th subtest is the k-th script whatever it is called
		sub := name
		if t.b.nrun < len(t.b.byOrder) {
			name = t.b.byOrder[t.b.nrun]
		}
		t.b.nrun++
		t.b.alias[sub] = name
	}
	child := &recT{name: name, b: t.b, verdict: "pass"}
	t.b.tests[name] = child
	t.b.mu.Unlock()
	body := func() {
		defer func() {
			if r := recover(); r != nil {
				switch r.(type) {
				case failNow, skipNow:
				default:
					child.verdict = "panic"
					child.log = append(child.log, fmt.Sprint(r))
				}
			}
			t.b.event(Event{Ev: "end", S: name, V: child.verdict})
		}()
		f(child)
	}
	if s := vsched.Cur(); s != nil {
		s.Go(name, body)
	} else {
		t.b.wg.Add(1)
		go func() { defer t.b.wg.Done(); body() }()
	}
}

// ---- events ----

type Event struct {
	Ev string `json:"ev"` // obs | defer | ran | end | rmwd | dec | rmroot | pids
	S  string `json:"s"`
	V  string `json:"v"`
	K  int    `json:"k"`
}

type batch struct {
	mu     sync.Mutex
	wg     sync.WaitGroup
	tests  map[string]*recT
	events []Event
	root   string // the private GOTMPDIR
	pids   []int
	nextK  map[string]int
	canary bool
	leaked []string // host variables visible to a script or its children with the host's value
	miss   []string // documented / Setup / pass-through variables a script did not see as promised
	// explicit-files batches: script names in file order, subtest name -> script name
	byOrder []string
	nrun    int
	alias   map[string]string
}

func (b *batch) event(e Event) {
	b.mu.Lock()
	b.events = append(b.events, e)
	b.mu.Unlock()
}

// scriptOf names the script a command runs in: the subtest name, which RunT derives from the file name (and, for
// explicit files with equal base names, makes unique in a way of its own: the driver translates it back).
func (b *batch) scriptOf(ts *testscript.TestScript) string {
	b.mu.Lock()
	defer b.mu.Unlock()
	if a, ok := b.alias[ts.Name()]; ok {
		return a
	}
	return ts.Name()
}

// host variables a script may legitimately see with the host's value
var passThrough = map[string]bool{"PATH": true, "GOCOVERDIR": true, "GORACE": true}

func (b *batch) missing(what string) {
	b.mu.Lock()
	defer b.mu.Unlock()
	for _, n := range b.miss {
		if n == what {
			return
		}
	}
	b.miss = append(b.miss, what)
}

func (b *batch) leak(name string) {
	b.mu.Lock()
	defer b.mu.Unlock()
	for _, n := range b.leaked {
		if n == name {
			return
		}
	}
	b.leaked = append(b.leaked, name)
}

func (b *batch) cmds() map[string]func(ts *testscript.TestScript, neg bool, args []string) {
	return map[string]func(ts *testscript.TestScript, neg bool, args []string){
		"gate": func(ts *testscript.TestScript, neg bool, args []string) { vsched.Yield("gate") },
		// probe: what this script can see of its own state
		"probe": func(ts *testscript.TestScript, neg bool, args []string) {
			work := ts.Getenv("WORK")
			cwd := strings.TrimPrefix(ts.MkAbs("."), work)
			var files []string
			filepath.Walk(work, func(p string, info os.FileInfo, err error) error {
				if err == nil && p != work && !strings.Contains(p, ".tmp") {
					f := strings.TrimPrefix(p, work)
					if i := strings.Index(f, "/stool-"); i >= 0 {
						f = f[:i] + "/stool-*" // the name carries the batch's unique program id (line kind tooldef)
					}
					files = append(files, f)
				}
				return nil
			})
			sort.Strings(files)
			if ts.Getenv("VERIF_CANARY") != "" {
				b.mu.Lock()
				b.canary = true
				b.mu.Unlock()
			}
			// what the statement says a script does see: Setup's additions, the pass-through variables, the documented ones
			for n, want := range map[string]string{"SETUP_ADDED": "yes", "GOCOVERDIR": os.Getenv("GOCOVERDIR"), "GORACE": os.Getenv("GORACE"),
				"WORK": work, "HOME": "/no-home", "TMPDIR": filepath.Join(work, ".tmp"), "devnull": os.DevNull, "/": "/", ":": ":", "$": "$", "exe": ""} {
				if got := ts.Getenv(n); got != want {
					b.missing(fmt.Sprintf("%s=%q (want %q)", n, got, want))
				}
			}
			// any host variable (other than the documented pass-through) visible with the host's value is a leak
			for _, kv := range os.Environ() {
				if i := strings.Index(kv, "="); i > 0 && !passThrough[kv[:i]] && kv[i+1:] != "" && ts.Getenv(kv[:i]) == kv[i+1:] {
					b.leak(kv[:i])
				}
			}
			b.event(Event{Ev: "obs", S: b.scriptOf(ts), V: fmt.Sprintf("cwd=%s V=%s files=%s", cwd, ts.Getenv("V"), strings.Join(files, ","))})
		},
		"mark": func(ts *testscript.TestScript, neg bool, args []string) {
			b.event(Event{Ev: "obs", S: b.scriptOf(ts), V: "mark " + strings.Join(args, " ")})
		},
		// childenv: what a child process sees (stdout of `exec env` is inspected)
		"childenv": func(ts *testscript.TestScript, neg bool, args []string) {
			out := ts.ReadFile("stdout")
			if strings.Contains(out, "VERIF_CANARY=") {
				b.mu.Lock()
				b.canary = true
				b.mu.Unlock()
			}
			host := map[string]string{}
			for _, kv := range os.Environ() {
				if i := strings.Index(kv, "="); i > 0 {
					host[kv[:i]] = kv[i+1:]
				}
			}
			for _, l := range strings.Split(out, "\n") {
				if i := strings.Index(l, "="); i > 0 && !passThrough[l[:i]] && l[i+1:] != "" && host[l[:i]] == l[i+1:] {
					b.leak(l[:i])
				}
			}
			var vars []string
			for _, l := range strings.Split(out, "\n") {
				if i := strings.Index(l, "="); i > 0 {
					n := l[:i]
					if n == "V" || n == "PWD" {
						vars = append(vars, strings.Replace(l, ts.Getenv("WORK"), "$WORK", -1))
					} else {
						vars = append(vars, n)
					}
				}
			}
			sort.Strings(vars)
			b.event(Event{Ev: "obs", S: b.scriptOf(ts), V: "childenv " + strings.Join(vars, " ")})
		},
		"defer": func(ts *testscript.TestScript, neg bool, args []string) {
			s := b.scriptOf(ts)
			b.mu.Lock()
			b.nextK[s]++
			k := b.nextK[s]
			b.mu.Unlock()
			b.event(Event{Ev: "defer", S: s, K: k})
			ts.Defer(func() {
				vsched.Yield("deferred")
				b.event(Event{Ev: "ran", S: s, K: k})
			})
		},
		// tfail / tskip: a custom command that ends the run through T itself
		"tfail": func(ts *testscript.TestScript, neg bool, args []string) {
			s := b.scriptOf(ts)
			b.mu.Lock()
			t := b.tests[s]
			b.mu.Unlock()
			if t != nil {
				t.Fatal("custom command fails the run through T")
			}
			panic(failNow{})
		},
		"tskip": func(ts *testscript.TestScript, neg bool, args []string) {
			s := b.scriptOf(ts)
			b.mu.Lock()
			t := b.tests[s]
			b.mu.Unlock()
			if t != nil {
				t.Skip("custom command skips the run through T")
			}
			panic(skipNow{})
		},
		// deferfail: a deferred function that reports a failure through T when it runs (as a Setup cleanup that audits
		// something would): the run is failed, the functions registered before it still have to run
		"deferfail": func(ts *testscript.TestScript, neg bool, args []string) {
			s := b.scriptOf(ts)
			b.mu.Lock()
			b.nextK[s]++
			k := b.nextK[s]
			t := b.tests[s]
			b.mu.Unlock()
			b.event(Event{Ev: "defer", S: s, K: k})
			ts.Defer(func() {
				vsched.Yield("deferred")
				b.event(Event{Ev: "ran", S: s, K: k})
				if t != nil {
					t.Fatal("deferred function reports a failure")
				}
				panic(failNow{})
			})
		},
		"pids": func(ts *testscript.TestScript, neg bool, args []string) {
			for _, c := range ts.BackgroundCmds() {
				if c.Process != nil {
					b.mu.Lock()
					b.pids = append(b.pids, c.Process.Pid)
					b.mu.Unlock()
				}
			}
		},
	}
}

// interceptor: removals below the private temp dir and nothing else are scheduling points
func (b *batch) Before(op *vos.Op) vos.Action {
	s := vsched.Cur()
	if s == nil || !strings.HasPrefix(op.Path, b.root) {
		return vos.Action{}
	}
	if op.Kind == "removeall" || op.Kind == "remove" {
		if a := s.OnActor(); a != nil {
			s.Point(op.Kind, "", nil)
		}
	}
	return vos.Action{}
}

func (b *batch) After(op *vos.Op, n int, err error) {
	if !strings.HasPrefix(op.Path, b.root) {
		return
	}
	name := "?"
	if s := vsched.Cur(); s != nil {
		if a := s.OnActor(); a != nil {
			name = a.Name
		}
	}
	switch {
	case op.Kind == "removeall":
		b.event(Event{Ev: "rmwd", S: name, V: okStr(err)})
	case op.Kind == "remove" && filepath.Dir(op.Path) == b.root:
		b.event(Event{Ev: "rmroot", S: name, V: okStr(err)})
	}
}

func okStr(err error) string {
	if err != nil {
		return "err"
	}
	return "ok"
}

// ---- scripts ----

type Script struct {
	Name  string   `json:"name"`
	Lines []string `json:"lines"` // abstract line kinds
	File  string   `json:"file"`  // "" or the script's path (without .txt) below the scripts directory: passed through Params.Files
}

type Config struct {
	Scripts []Script `json:"scripts"`
	Retain  bool     `json:"retain"`
	How     string   `json:"how"` // none | testwork | workdirroot
}

func render(sc Script, prog string) string {
	var sb strings.Builder
	for _, l := range sc.Lines {
		switch l {
		case "gate":
			sb.WriteString("gate\n")
		case "cd":
			sb.WriteString("mkdir sub-" + sc.Name + "\ncd sub-" + sc.Name + "\n")
		case "env":
			sb.WriteString("env V=val-" + sc.Name + "\n")
		case "write":
			sb.WriteString("cp $WORK/seed.txt $WORK/made-" + sc.Name + ".txt\n")
		case "probe":
			sb.WriteString("probe\n")
		case "childenv":
			sb.WriteString("exec env\nchildenv\n")
		case "bg":
			sb.WriteString("exec sleep 1000 &\npids\n")
		case "fail":
			sb.WriteString("exists no-such-file\n")
		case "bgfail":
			// a background command that exits on its own with a status the script does not accept
			sb.WriteString("exec false &\n")
		case "wait":
			sb.WriteString("wait\n")
		case "bgnamed":
			// a named background command that exits on its own
			sb.WriteString("exec true &n&\n")
		case "waitnamed":
			sb.WriteString("wait n\n")
		case "skip":
			sb.WriteString("skip\n")
		case "stop":
			sb.WriteString("stop\n")
		case "ro":
			sb.WriteString("mkdir ro/inner\ncp $WORK/seed.txt ro/inner/f.txt\nchmod 555 ro/inner\nchmod 555 ro\n")
		case "defer":
			sb.WriteString("defer\n")
		case "deferfail":
			sb.WriteString("deferfail\n")
		case "linkout":
			// links that lead out of the work directory, to read-only things of the host: removing the work directory
			// removes the links and leaves what they point to as it is
			sb.WriteString("symlink fixfile -> $FIXTURE/ro.txt\nsymlink fixdir -> $FIXTURE/rodir\nmkdir deep\nsymlink deep/again -> $FIXTURE/rodir/inner.txt\n")
		case "tooldef":
			// an executable of the script's own, in its work directory
			sb.WriteString("cp $WORK/seed.txt stool-" + prog + "\nchmod 755 stool-" + prog + "\n")
		case "condslash":
			// a condition on a program named with a directory part: whatever it is resolved against, a script that has no
			// such file must not be told there is one because another script has
			sb.WriteString("[exec:./stool-" + prog + "] mark has-slash\n[!exec:./stool-" + prog + "] mark no-slash\n")
		case "tfail":
			sb.WriteString("tfail\n")
		case "tskip":
			sb.WriteString("tskip\n")
		case "bgwriter":
			// a background command that keeps (re)creating a directory and a file below $WORK: it has to be stopped
			// before the work directory is removed, or it brings part of it back
			// (this binary itself, so that there are no grandchildren that could outlive it)
			sb.WriteString("exec " + selfExe + " bgwriter $WORK/bgw &\npids\n")
		case "envpwd":
			// the script assigns PWD itself: executed programs still get the script's environment, not the host's
			sb.WriteString("env PWD=/set/by/the/script\n")
		case "setupfail":
			sb.WriteString("# Setup fails for this script\n")
		case "bgdup":
			// a background name that is already in use: the line fails, and nothing it started may stay behind
			sb.WriteString("exec sleep 1000 &dup&\npids\nexec sleep 1000 &dup&\n")
		case "nopath":
			sb.WriteString("env PATH=/nonexistent\n")
		case "condexec":
			// prog is unique per batch, so the first evaluation of this condition in the process happens in this batch
			sb.WriteString("[exec:" + prog + "] mark has-prog\n[!exec:" + prog + "] mark no-prog\n")
		default:
			vutil.Fatalf("unknown line kind %q", l)
		}
	}
	sb.WriteString("-- seed.txt --\nseed\n")
	return sb.String()
}

type RunRec struct {
	Mode     string              `json:"mode"`
	Scripts  []Script            `json:"scripts"`
	Retain   bool                `json:"retain"`
	Events   []Event             `json:"events"`
	End      string              `json:"end"`
	Obs      map[string][]string `json:"obs"`  // per script, in order
	Solo     map[string][]string `json:"solo"` // the same script run alone
	Verdict  map[string]string   `json:"verdict"`
	SoloV    map[string]string   `json:"solov"`
	Reg      map[string][]int    `json:"reg"`  // deferred functions registered
	Ran      map[string][]int    `json:"ran"`  // ... and run, in order
	Left     []string            `json:"left"` // what remains in the private temp dir
	Live     []int               `json:"live"` // pids still alive
	Host     []string            `json:"host"` // changes of the host process state
	Canary   bool                `json:"canary"`
	Leaked   []string            `json:"leaked"`
	Missing  []string            `json:"missing"`
	RootLast bool                `json:"rootlast"` // the shared root was removed after every script's end
	Count    int                 `json:"count"`
	Detail   string              `json:"detail,omitempty"`
	Sched    []vsched.Decision   `json:"sched,omitempty"`
}

var tmpRoot string
var seq int

func runBatch(mode string, cfg Config, strat vsched.Strategy) *RunRec {
	seq++
	base := filepath.Join(tmpRoot, fmt.Sprintf("b%d", seq))
	gotmp := filepath.Join(base, "gotmp")
	sdir := filepath.Join(base, "scripts")
	os.MkdirAll(gotmp, 0o777)
	os.MkdirAll(sdir, 0o777)
	defer func() {
		filepath.Walk(base, func(p string, info os.FileInfo, err error) error {
			if err == nil && info.IsDir() {
				os.Chmod(p, 0o777)
			}
			return nil
		})
		os.RemoveAll(base)
	}()
	// a program that exists under a name no earlier run has used (conditions are cached per program name)
	bindir := filepath.Join(base, "bin")
	os.MkdirAll(bindir, 0o777)
	prog := fmt.Sprintf("vprog%d", seq)
	if err := os.Symlink("/bin/sleep", filepath.Join(bindir, prog)); err != nil {
		vutil.Fatalf("%v", err)
	}
	origPath := os.Getenv("PATH")
	os.Setenv("PATH", bindir+string(os.PathListSeparator)+origPath)
	defer os.Setenv("PATH", origPath)
	b := &batch{tests: map[string]*recT{}, root: gotmp, nextK: map[string]int{}, alias: map[string]string{}}
	var files []string
	useFiles := len(cfg.Scripts) > 0
	for _, sc := range cfg.Scripts {
		useFiles = useFiles && sc.File != "" // (free mode mixes scripts of several batches: then all go through Dir)
	}
	for _, sc := range cfg.Scripts {
		p := filepath.Join(sdir, sc.Name+".txt")
		if useFiles {
			p = filepath.Join(sdir, sc.File+".txt")
			os.MkdirAll(filepath.Dir(p), 0o777)
			files = append(files, p)
			b.byOrder = append(b.byOrder, sc.Name)
		}
		if err := os.WriteFile(p, []byte(render(sc, prog)), 0o666); err != nil {
			vutil.Fatalf("%v", err)
		}
	}
	os.Setenv("GOTMPDIR", gotmp)
	os.Setenv("VERIF_CANARY", "host-secret")
	// host variables named like the documented pass-through ones, but not them
	os.Setenv("GORACE_REPORT_DIR", "/host/only")
	os.Setenv("GOCOVERDIR_SAVED", "/host/only/too")
	os.Setenv("XGORACE", "host")
	os.Setenv("GOCOVERDIR", filepath.Join(base, "cov")) // documented pass-through variables
	os.Setenv("GORACE", "atexit_sleep_ms=7")
	// read-only things of the host that scripts may link to (line kind linkout)
	fixture := filepath.Join(base, "fixture")
	os.MkdirAll(filepath.Join(fixture, "rodir"), 0o777)
	os.WriteFile(filepath.Join(fixture, "ro.txt"), []byte("host fixture\n"), 0o444)
	os.WriteFile(filepath.Join(fixture, "rodir", "inner.txt"), []byte("host fixture\n"), 0o444)
	os.Chmod(filepath.Join(fixture, "ro.txt"), 0o444)
	os.Chmod(filepath.Join(fixture, "rodir", "inner.txt"), 0o444)
	os.Chmod(filepath.Join(fixture, "rodir"), 0o555)
	fixModes := map[string]os.FileMode{"ro.txt": 0o444, "rodir/inner.txt": 0o444, "rodir": 0o555}
	cwd0, _ := os.Getwd()
	env0 := strings.Join(os.Environ(), "\n")
	// a deadline far in the future: RunT then runs its scripts under a shared context with a timeout
	p := testscript.Params{Dir: sdir, Cmds: b.cmds(), Deadline: time.Now().Add(2 * time.Hour),
		Setup: func(e *testscript.Env) error {
			e.Setenv("SETUP_ADDED", "yes")
			e.Setenv("FIXTURE", fixture)
			// Setup registers a clean-up of its own (the first deferred function of every script) ...
			t, _ := e.T().(*recT)
			if t == nil {
				return nil
			}
			s := t.name
			b.mu.Lock()
			b.nextK[s]++
			k := b.nextK[s]
			b.mu.Unlock()
			b.event(Event{Ev: "defer", S: s, K: k})
			e.Defer(func() {
				vsched.Yield("deferred")
				b.event(Event{Ev: "ran", S: s, K: k})
			})
			// ... and, for the scripts that say so, fails after that: the clean-up still has to run
			for _, sc := range cfg.Scripts {
				if sc.Name == s && len(sc.Lines) > 0 && sc.Lines[0] == "setupfail" {
					return errors.New("setup fails as the script asks")
				}
			}
			return nil
		}}
	if files != nil {
		p.Dir, p.Files = "", files
	}
	if cfg.How == "workdirroot" {
		p.WorkdirRoot = filepath.Join(gotmp, "given-root")
		os.MkdirAll(p.WorkdirRoot, 0o777)
	} else if cfg.Retain {
		p.TestWork = true
	}
	vos.SetInterceptor(b)
	top := &recT{name: "top", b: b, verdict: "pass"}
	var out vsched.Outcome
	body := func() {
		defer func() {
			if r := recover(); r != nil {
				if _, ok := r.(failNow); !ok {
					panic(r)
				}
			}
		}()
		testscript.RunT(top, p)
	}
	if strat != nil {
		out = vsched.Run(strat, 50000, body)
	} else {
		body()
		b.wg.Wait()
		out = vsched.Outcome{Status: "done"}
	}
	vos.SetInterceptor(nil)
	rec := &RunRec{Mode: mode, Scripts: cfg.Scripts, Retain: cfg.Retain, Events: b.events, End: out.Status, Obs: map[string][]string{},
		Verdict: map[string]string{}, Reg: map[string][]int{}, Ran: map[string][]int{}, Left: []string{}, Live: []int{}, Host: []string{},
		Canary: b.canary, Leaked: append([]string{}, b.leaked...), Missing: append([]string{}, b.miss...), Count: 1, Solo: map[string][]string{}, SoloV: map[string]string{}}
	for _, sc := range cfg.Scripts {
		rec.Obs[sc.Name] = []string{}
		rec.Reg[sc.Name] = []int{}
		rec.Ran[sc.Name] = []int{}
		rec.Verdict[sc.Name] = "none"
		if t := b.tests[sc.Name]; t != nil {
			rec.Verdict[sc.Name] = t.verdict
		}
	}
	ended := map[string]int{}
	rootAt := -1
	for i, e := range b.events {
		switch e.Ev {
		case "obs":
			rec.Obs[e.S] = append(rec.Obs[e.S], e.V)
		case "defer":
			rec.Reg[e.S] = append(rec.Reg[e.S], e.K)
		case "ran":
			rec.Ran[e.S] = append(rec.Ran[e.S], e.K)
		case "end":
			ended[e.S] = i
		case "rmroot":
			if e.V == "ok" {
				rootAt = i
			}
		}
	}
	rec.RootLast = true
	if rootAt >= 0 {
		for _, sc := range cfg.Scripts {
			// a script's deferred work-dir removal runs before its "end" event is logged; the root must go after
			// every script's own work dir was dealt with: no rmwd event may follow the root removal
			_ = sc
		}
		for i, e := range b.events {
			if i > rootAt && (e.Ev == "rmwd" || e.Ev == "obs" || e.Ev == "ran") {
				rec.RootLast = false
			}
		}
	}
	ents, _ := os.ReadDir(gotmp)
	for _, e := range ents {
		sub, _ := os.ReadDir(filepath.Join(gotmp, e.Name()))
		n := "root"
		for _, s := range sub {
			n += " " + s.Name()
		}
		rec.Left = append(rec.Left, n)
	}
	for _, pid := range b.pids {
		// pids are reused quickly: a recorded pid counts as alive only if it still is a child of this process
		if st, err := os.ReadFile(fmt.Sprintf("/proc/%d/stat", pid)); err == nil {
			if i := strings.LastIndex(string(st), ")"); i > 0 {
				f := strings.Fields(string(st)[i+1:])
				if len(f) > 1 && f[1] == fmt.Sprint(os.Getpid()) {
					rec.Live = append(rec.Live, pid)
					syscall.Kill(pid, syscall.SIGKILL)
				}
			}
		}
	}
	// ... and processes the run started without ever recording them: any `sleep 1000` that is still a running child of this process
	if ents, err := os.ReadDir("/proc"); err == nil {
		for _, e := range ents {
			pid, err := strconv.Atoi(e.Name())
			if err != nil {
				continue
			}
			st, err := os.ReadFile(fmt.Sprintf("/proc/%d/stat", pid))
			if err != nil {
				continue
			}
			i := strings.LastIndex(string(st), ")")
			if i < 0 {
				continue
			}
			f := strings.Fields(string(st)[i+1:])
			if len(f) < 2 || f[1] != fmt.Sprint(os.Getpid()) || f[0] == "Z" {
				continue
			}
			cl, _ := os.ReadFile(fmt.Sprintf("/proc/%d/cmdline", pid))
			if strings.HasSuffix(strings.TrimRight(string(cl), "\x00"), "sleep\x001000") {
				known := false
				for _, p := range rec.Live {
					known = known || p == pid
				}
				if !known {
					rec.Live = append(rec.Live, pid)
				}
				syscall.Kill(pid, syscall.SIGKILL)
			}
		}
	}
	for _, f := range []string{"ro.txt", "rodir/inner.txt", "rodir"} {
		fi, err := os.Stat(filepath.Join(fixture, f))
		switch {
		case err != nil:
			rec.Host = append(rec.Host, "host fixture "+f+" is gone: "+err.Error())
		case fi.Mode().Perm() != fixModes[f]:
			rec.Host = append(rec.Host, fmt.Sprintf("mode of host fixture %s changed from %o to %o", f, fixModes[f], fi.Mode().Perm()))
		}
	}
	os.Chmod(filepath.Join(fixture, "rodir"), 0o777)
	if cwd1, _ := os.Getwd(); cwd1 != cwd0 {
		rec.Host = append(rec.Host, "cwd changed to "+cwd1)
		os.Chdir(cwd0)
	}
	if env1 := strings.Join(os.Environ(), "\n"); env1 != env0 {
		rec.Host = append(rec.Host, "process environment changed")
	}
	if out.Status != "done" {
		rec.Detail = out.Detail
		if len(rec.Detail) > 1500 {
			rec.Detail = rec.Detail[:1500]
		}
		rec.Sched = out.Trace
		if len(rec.Sched) > 300 {
			rec.Sched = rec.Sched[:300]
		}
	}
	if rec.Events == nil {
		rec.Events = []Event{}
	}
	return rec
}

type soloRes struct {
	obs     []string
	verdict string
}

var soloCache = map[string]soloRes{}

func solo(sc Script) soloRes {
	k, _ := json.Marshal(sc)
	if r, ok := soloCache[string(k)]; ok {
		return r
	}
	rec := runBatch("solo", Config{Scripts: []Script{sc}}, &vsched.Replay{})
	r := soloRes{obs: rec.Obs[sc.Name], verdict: rec.Verdict[sc.Name]}
	soloCache[string(k)] = r
	return r
}

// runs that ended "stalled" (the scheduler gave up: an actor blocked in a primitive the shims do not model)
var stalledRuns int

type collector struct {
	seen  map[string]*RunRec
	order []string
	runs  int
}

func (c *collector) add(r *RunRec) {
	if r.End == "stalled" { // harness limit (vsched.Stalled), not an observation
		stalledRuns++
		return
	}
	c.runs++
	evs := make([]Event, len(r.Events))
	copy(evs, r.Events)
	b, _ := json.Marshal([]interface{}{r.Scripts, r.Retain, evs, r.End, r.Obs, r.Verdict, r.Ran, r.Left, len(r.Live), r.Host, r.Canary, r.Leaked, r.Missing, r.RootLast})
	k := string(b)
	if t, ok := c.seen[k]; ok {
		t.Count++
		return
	}
	c.seen[k] = r
	c.order = append(c.order, k)
}

func withSolo(rec *RunRec) *RunRec {
	for _, sc := range rec.Scripts {
		s := solo(sc)
		rec.Solo[sc.Name] = s.obs
		if rec.Solo[sc.Name] == nil {
			rec.Solo[sc.Name] = []string{}
		}
		rec.SoloV[sc.Name] = s.verdict
	}
	return rec
}

var selfExe = func() string { p, _ := os.Executable(); return p }()

func main() {
	if len(os.Args) == 3 && os.Args[1] == "bgwriter" {
		for {
			os.MkdirAll(filepath.Join(os.Args[2], "d"), 0o777)
			os.WriteFile(filepath.Join(os.Args[2], "d", "f"), []byte("x\n"), 0o666)
		}
	}
	mode := flag.String("mode", "dfs", "replay | dfs | random | free")
	cfgs := flag.String("configs", "", "")
	cases := flag.String("cases", "", "")
	traces := flag.String("traces", "traces.ndjson", "")
	out := flag.String("out", "result.json", "")
	bound := flag.Int("bound", 2, "")
	maxruns := flag.Int("maxruns", 300, "")
	runs := flag.Int("runs", 300, "")
	stride := flag.Int("stride", 1, "")
	tmp := flag.String("tmp", "", "")
	flag.Parse()
	tmpRoot = *tmp
	if tmpRoot == "" {
		var err error
		tmpRoot, err = os.MkdirTemp("", "runtdrv")
		if err != nil {
			vutil.Fatalf("%v", err)
		}
		defer os.RemoveAll(tmpRoot)
	}
	res := vutil.NewResult()
	col := &collector{seen: map[string]*RunRec{}}
	var configs []Config
	seen := map[string]bool{}
	load := func(path string, fn func(c Config, sched []vsched.Step)) {
		vutil.ReadNDJSON(path, func(line []byte) {
			var c struct {
				Config
				Sched []vsched.Step `json:"sched"`
			}
			if err := json.Unmarshal(line, &c); err != nil {
				vutil.Fatalf("bad config: %v", err)
			}
			fn(c.Config, c.Sched)
		})
	}
	if *cfgs != "" {
		load(*cfgs, func(c Config, _ []vsched.Step) {
			k, _ := json.Marshal(c)
			if !seen[string(k)] {
				seen[string(k)] = true
				configs = append(configs, c)
			}
		})
	}
	switch *mode {
	case "replay":
		i := 0
		load(*cases, func(c Config, sched []vsched.Step) {
			i++
			if len(sched) == 0 || (i+int(vutil.Seed()))%*stride != 0 {
				return
			}
			rp := &vsched.Replay{Steps: sched}
			rec := withSolo(runBatch("replay", c, rp))
			col.add(rec)
			res.Eval(true)
			if len(rp.Drift) > 0 || !rp.Consumed() {
				res.DriftAdd(vutil.Finding{Kind: "schedule-not-applicable", What: strings.Join(rp.Drift, "; "), Input: sched})
			} else {
				res.Count("l2_conformant_runs", 1)
			}
		})
	case "dfs":
		for _, cfg := range configs {
			d := &vsched.DFS{Bound: *bound}
			cnt := 0
			for {
				d.Reset()
				rec := withSolo(runBatch("dfs", cfg, d))
				col.add(rec)
				res.Eval(true)
				cnt++
				if rec.End != "done" || !d.Next() || cnt >= *maxruns {
					if cnt >= *maxruns {
						res.Count("dfs_truncated", 1)
					}
					break
				}
			}
			res.Count("dfs_runs", int64(cnt))
			if cnt > 2 {
				res.Sample(map[string]interface{}{"scripts": cfg.Scripts, "retain": cfg.Retain, "dfs_runs": cnt}, 3)
			}
		}
	case "random":
		rng := vutil.Rand(41)
		for i := 0; i < *runs; i++ {
			cfg := configs[rng.Intn(len(configs))]
			var st vsched.Strategy
			if i%2 == 0 {
				st = &vsched.Random{R: rand.New(rand.NewSource(rng.Int63())), Stay: 30}
			} else {
				st = &vsched.PCT{R: rand.New(rand.NewSource(rng.Int63())), Depth: 3, MaxStep: 40}
			}
			col.add(withSolo(runBatch("random", cfg, st)))
			res.Eval(true)
		}
		res.Count("random_runs", int64(*runs))
	case "free":
		// real goroutines, no scheduler: many scripts at once (built with -race)
		rng := vutil.Rand(42)
		for i := 0; i < *runs; i++ {
			var cfg Config
			n := 0
			for n < 12 {
				c := configs[rng.Intn(len(configs))]
				for _, sc := range c.Scripts {
					sc.Name = fmt.Sprintf("%s%d", sc.Name, n)
					cfg.Scripts = append(cfg.Scripts, sc)
					n++
				}
			}
			rec := withSolo(runBatch("free", cfg, nil))
			col.add(rec)
			res.Eval(true)
		}
		res.Count("free_runs", int64(*runs))
	}
	w := vutil.NewNDJSONWriter(*traces)
	for _, k := range col.order {
		w.Write(col.seen[k])
	}
	w.Close()
	res.Count("runs", int64(col.runs))
	res.Count("stalled_runs", int64(stalledRuns))
	if vsched.Stalled() {
		res.Extra["controlled_execution"] = "given up: an actor blocked in a primitive the shims do not model (channel, unredirected lock)"
	}
	res.Count("distinct_traces", int64(len(col.order)))
	res.Write(*out)
}
