package main

import (
	"bytes"
	"os"
	"os/exec"
	"path/filepath"
)

// runCLI gives the script to the built cmd/testscript binary.  PATH holds only
// the helper directory testscript.Main created (no `go`, so no gotooltest setup).
func runCLI(bin, root, name string, text []byte, cont bool) (int, string) {
	return runCLIMulti(bin, root, name, text, cont, 0)
}

// companion scripts with a known verdict, given to the command together with the script under test:
// "exits 0 exactly when no script failed" is a statement about the whole invocation
var companions = map[string]string{
	"zpass": "exists seed.txt\n-- seed.txt --\nseed\n",
	"zskip": "skip\n",
	"zfail": "exists no-such-file\n",
}

// runCLIMulti: variant 0 = the script alone; 1 main+pass; 2 main+skip; 3 pass+main; 4 fail+main; 5 main+fail.
func runCLIMulti(bin, root, name string, text []byte, cont bool, variant int) (int, string) {
	dir := filepath.Join(root, name)
	if err := os.MkdirAll(dir, 0o777); err != nil {
		return -1, err.Error()
	}
	defer removeTree(dir)
	file := filepath.Join(dir, name+".txtar")
	if err := os.WriteFile(file, text, 0o666); err != nil {
		return -1, err.Error()
	}
	comp := func(n string) string {
		f := filepath.Join(dir, n+".txtar")
		os.WriteFile(f, []byte(companions[n]), 0o666)
		return f
	}
	files := []string{file}
	switch variant {
	case 1:
		files = []string{file, comp("zpass")}
	case 2:
		files = []string{file, comp("zskip")}
	case 3:
		files = []string{comp("zpass"), file}
	case 4:
		files = []string{comp("zfail"), file}
	case 5:
		files = []string{file, comp("zfail")}
	}
	tmp := filepath.Join(dir, "tmp")
	os.Mkdir(tmp, 0o777)
	args := []string{}
	if cont {
		args = append(args, "-continue")
	}
	args = append(args, files...)
	cmd := exec.Command(bin, args...)
	cmd.Dir = dir
	cmd.Env = []string{"PATH=" + helperDir(), "TMPDIR=" + tmp, "GOTMPDIR=" + tmp, "HOME=" + dir}
	var out bytes.Buffer
	cmd.Stdout = &out
	cmd.Stderr = &out
	err := cmd.Run()
	if err == nil {
		return 0, out.String()
	}
	if ee, ok := err.(*exec.ExitError); ok {
		return ee.ExitCode(), out.String()
	}
	return -1, err.Error()
}

// helperDir is the first PATH element: the directory testscript.Main set up.
func helperDir() string {
	return filepath.SplitList(os.Getenv("PATH"))[0]
}
