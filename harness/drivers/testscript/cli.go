package main

import (
	"bytes"
	"os"
	"os/exec"
	"path/filepath"
)

// runCLI gives the script to the built cmd/testscript binary.  PATH holds only
// the helper directory testscript.Main created (no `go`, so no gotooltest setup).
func runCLI(bin, root, name string, text []byte, cont bool) (int, string) {
	dir := filepath.Join(root, name)
	if err := os.MkdirAll(dir, 0o777); err != nil {
		return -1, err.Error()
	}
	defer removeTree(dir)
	file := filepath.Join(dir, name+".txtar")
	if err := os.WriteFile(file, text, 0o666); err != nil {
		return -1, err.Error()
	}
	tmp := filepath.Join(dir, "tmp")
	os.Mkdir(tmp, 0o777)
	args := []string{}
	if cont {
		args = append(args, "-continue")
	}
	args = append(args, file)
	cmd := exec.Command(bin, args...)
	cmd.Dir = dir
	cmd.Env = []string{"PATH=" + helperDir(), "TMPDIR=" + tmp, "GOTMPDIR=" + tmp, "HOME=" + dir}
	var out bytes.Buffer
	cmd.Stdout = &out
	cmd.Stderr = &out
	err := cmd.Run()
	if err == nil {
		return 0, out.String()
	}
	if ee, ok := err.(*exec.ExitError); ok {
		return ee.ExitCode(), out.String()
	}
	return -1, err.Error()
}

// helperDir is the first PATH element: the directory testscript.Main set up.
func helperDir() string {
	return filepath.SplitList(os.Getenv("PATH"))[0]
}
