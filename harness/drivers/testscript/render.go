package main

import (
	"fmt"
	"math/rand"
	"sort"
	"strconv"
	"strings"

	"verifharness/vutil"
)

// ---- what TLC emits (MC_Testscript.tla) ----

type wordJ struct {
	K string   `json:"k"` // lit | rel | abs | kv | cnt
	P []string `json:"p"`
	S string   `json:"s"`
	B []int    `json:"b"`
	N int      `json:"n"`
}

type condJ struct {
	N   string `json:"n"`
	Neg bool   `json:"neg"`
}

type lineJ struct {
	Conds []condJ `json:"conds"`
	Neg   bool    `json:"neg"`
	Cmd   string  `json:"cmd"`
	Args  []wordJ `json:"args"`
	Tok   string  `json:"tok"`
	Alt   bool    `json:"alt"`
}

type entJ struct {
	K string   `json:"k"`
	C []int    `json:"c"`
	W bool     `json:"w"`
	T []string `json:"t"`
}

type treeJ struct {
	P []string `json:"p"`
	E entJ     `json:"e"`
}

type obsJ struct {
	Cd  []string `json:"cd"`
	V   []int    `json:"v"`
	Out []int    `json:"out"`
	Err []int    `json:"err"`
}

type expJ struct {
	Verdict   string  `json:"verdict"`
	FailLine  int     `json:"failLine"`
	FailLines []int   `json:"failLines"`
	Tree      []treeJ `json:"tree"`
	Effects   []obsJ  `json:"effects"`
	Final     struct {
		Run bool `json:"run"`
		Obs obsJ `json:"obs"`
	} `json:"final"`
}

type profJ struct {
	Explicit bool     `json:"explicit"`
	HasCond  bool     `json:"hascond"`
	Cmds     []string `json:"cmds"`
	Unique   bool     `json:"unique"`
	Dup      bool     `json:"dup"`
	Arch     int      `json:"arch"`
}

type matchJ struct {
	Pat  string `json:"pat"`
	Text []int  `json:"text"`
	N    int    `json:"n"`
}

type caseJ struct {
	Header   bool             `json:"header"`
	Vocab    []lineJ          `json:"vocab"`
	Profiles map[string]profJ `json:"profiles"`
	Init     [][]treeJ        `json:"init"`
	Str      map[string][]int `json:"str"`
	BadPats  []string         `json:"badpats"`
	MatchTab []matchJ         `json:"matchtab"`

	Root struct {
		Coe  bool   `json:"coe"`
		Prof string `json:"prof"`
	} `json:"root"`
	Script []int  `json:"script"`
	Exp    expJ   `json:"exp"`
	Alt    bool   `json:"alt"`
	AltExp []expJ `json:"altexp"`
	Cli    bool   `json:"cli"`
}

// ---- rendering of a vocabulary line as script text ----

func needsQuote(s string) bool {
	return s == "" || strings.ContainsAny(s, " \t\r'#$")
}

func quoteWord(s string) string {
	if !needsQuote(s) {
		return s
	}
	return "'" + strings.ReplaceAll(s, "'", "''") + "'"
}

func renderWord(w wordJ) string {
	switch w.K {
	case "lit":
		return quoteWord(w.S)
	case "rel":
		if len(w.P) == 0 {
			return "."
		}
		return quoteWord(strings.Join(w.P, "/"))
	case "abs":
		if len(w.P) == 0 {
			return "$WORK"
		}
		return "$WORK/" + quoteWord(strings.Join(w.P, "/"))
	case "kv":
		return quoteWord(w.S + "=" + string(vutil.Bytes(w.B)))
	case "cnt":
		return "-count=" + strconv.Itoa(w.N)
	}
	panic("unknown word kind " + w.K)
}

func renderLine(l lineJ) string {
	if l.Cmd == "#" {
		return "# a comment"
	}
	var ws []string
	for _, c := range l.Conds {
		if c.Neg {
			ws = append(ws, "[!"+c.N+"]")
		} else {
			ws = append(ws, "["+c.N+"]")
		}
	}
	if l.Neg {
		ws = append(ws, "!")
	}
	if l.Cmd != "" {
		ws = append(ws, l.Cmd)
	}
	for _, a := range l.Args {
		ws = append(ws, renderWord(a))
	}
	s := strings.Join(ws, " ")
	if l.Tok == "unterminated" {
		s += " 'never closed"
	}
	return s
}

var padLines = []string{"", "# phase comment", "   ", "\t# indented comment", " \t "}

// rendered is a script text plus the map from vocabulary-line positions to
// line numbers of the file.
type rendered struct {
	Text    string
	LineNo  []int // LineNo[i] = file line of the i-th script line (1-based positions)
	Plain   string
	Padded  bool
	CRLF    bool
	Probe   int // file line of the trailing probe, 0 if none
	ArchTxt string
}

// renderScript builds the script file: the lines (optionally preceded by blank /
// comment lines, which only count for the line number -- PadLaw in the spec), a
// trailing probe line, and the archive.
var longComment = "# " + strings.Repeat("long ", 14000)

func renderScript(vocab []lineJ, script []int, arch string, rng *rand.Rand, withProbe bool) rendered {
	var r rendered
	var lines, plain []string
	pad := rng != nil && rng.Intn(3) > 0
	r.CRLF = rng != nil && rng.Intn(5) == 0
	addPad := func() {
		if !pad {
			return
		}
		for n := rng.Intn(3); n > 0; n-- {
			lines = append(lines, padLines[rng.Intn(len(padLines))])
			r.Padded = true
		}
		if rng.Intn(40) == 0 {
			// a comment line of 70 KB (more than the default buffer of a line scanner): a line like any other
			lines = append(lines, longComment)
			r.Padded = true
		}
	}
	for _, idx := range script {
		addPad()
		t := renderLine(vocab[idx-1])
		lines = append(lines, t)
		plain = append(plain, t)
		r.LineNo = append(r.LineNo, len(lines))
	}
	if withProbe {
		addPad()
		lines = append(lines, "probe")
		r.Probe = len(lines)
	}
	eol := "\n"
	if r.CRLF {
		eol = "\r\n"
	}
	var sb strings.Builder
	for _, l := range lines {
		sb.WriteString(l)
		sb.WriteString(eol)
	}
	sb.WriteString(arch)
	r.Text = sb.String()
	r.Plain = strings.Join(plain, " ; ")
	return r
}

// archiveText renders the initial tree as the txtar part of the script.  With dup
// the first file is named twice (first with other contents: the later entry wins
// unless RequireUniqueNames).
func archiveText(init []treeJ, dup bool) string { return archiveTextSpelled(init, dup, "") }

// dupSpellings: what the name of the duplicate (first) entry carries behind the name proper.  Entry names are
// expanded like script words, and during setup these expand to nothing: every spelling names the same file.
var dupSpellings = []string{"", "$exe", "${exe}"}

func archiveTextSpelled(init []treeJ, dup bool, spell string) string {
	type f struct{ name, data string }
	var fs []f
	for _, t := range init {
		if t.E.K == "file" {
			fs = append(fs, f{strings.Join(t.P, "/"), string(vutil.Bytes(t.E.C))})
		}
	}
	sort.Slice(fs, func(i, j int) bool { return fs[i].name < fs[j].name })
	var sb strings.Builder
	if dup && len(fs) > 0 {
		fmt.Fprintf(&sb, "-- %s%s --\nfirst version\n", fs[0].name, spell)
	}
	for _, x := range fs {
		fmt.Fprintf(&sb, "-- %s --\n%s", x.name, x.data)
	}
	return sb.String()
}

func (o obsJ) real() obs {
	cd := strings.Join(o.Cd, "/")
	if cd == "" {
		cd = "."
	}
	return obs{Cd: cd, V: string(vutil.Bytes(o.V)), Out: string(vutil.Bytes(o.Out)), Err: string(vutil.Bytes(o.Err))}
}

func expTree(ts []treeJ) map[string]treeEnt {
	m := map[string]treeEnt{}
	for _, t := range ts {
		e := treeEnt{Kind: t.E.K, W: t.E.W}
		switch t.E.K {
		case "file":
			e.Data = string(vutil.Bytes(t.E.C))
		case "link":
			e.Target = strings.Join(t.E.T, "/")
			e.W = false
		}
		m[strings.Join(t.P, "/")] = e
	}
	return m
}
