package main

import (
	"encoding/json"
	"fmt"
	"hash/fnv"
	"math/rand"
	"reflect"
	"regexp"
	"strings"
	"sync"
	"sync/atomic"

	"verifharness/vutil"
)

type header struct {
	vocab    []lineJ
	profiles map[string]profJ
	init     [][]treeJ
}

func (h *header) config(c *caseJ) config {
	p := h.profiles[c.Root.Prof]
	cmds := map[string]bool{}
	for _, n := range p.Cmds {
		cmds[n] = true
	}
	return config{Coe: c.Root.Coe, Explicit: p.Explicit, Unique: p.Unique, HasCond: p.HasCond, Cmds: cmds}
}

func readHeader(path string) *header {
	var h *header
	var bad string
	vutil.ReadNDJSON(path, func(line []byte) {
		if h != nil || !strings.Contains(string(line[:min(len(line), 40)]), `"header"`) {
			return
		}
		var c caseJ
		if err := json.Unmarshal(line, &c); err != nil {
			bad = err.Error()
			return
		}
		if c.Header {
			h = &header{vocab: c.Vocab, profiles: c.Profiles, init: c.Init}
			// the specification's literal match counts must be what Go's regexp gives
			for _, m := range c.MatchTab {
				re, err := regexp.Compile(`(?m)` + m.Pat)
				if err != nil {
					bad = "pattern " + m.Pat + " of the vocabulary does not compile"
					return
				}
				if n := len(re.FindAllString(string(vutil.Bytes(m.Text)), -1)); n != m.N {
					bad = fmt.Sprintf("specification counts %d matches of %q in %q, regexp %d", m.N, m.Pat, string(vutil.Bytes(m.Text)), n)
				}
			}
			for _, p := range c.BadPats {
				if _, err := regexp.Compile(`(?m)` + p); err == nil {
					bad = "pattern " + p + " is listed as not compiling but compiles"
				}
			}
			for w, b := range c.Str {
				if w != string(vutil.Bytes(b)) {
					bad = fmt.Sprintf("Str[%q] is %q", w, string(vutil.Bytes(b)))
				}
			}
		}
	})
	if bad != "" {
		vutil.Fatalf("specification tables disagree with the Go library: %s", bad)
	}
	if h == nil {
		vutil.Fatalf("no header record in %s", path)
	}
	return h
}

func min(a, b int) int {
	if a < b {
		return a
	}
	return b
}

func hash64(s string) int64 {
	h := fnv.New64a()
	h.Write([]byte(s))
	return int64(h.Sum64() >> 1)
}

// mismatch describes how a real run differs from an expectation ("" = conforms).
func mismatch(e *expJ, r *runResult, rd rendered, setupFails bool) (kind, what string) {
	if r.Verdict != e.Verdict {
		return "verdict", fmt.Sprintf("run reported %s, the specification says %s", r.Verdict, e.Verdict)
	}
	if e.Verdict == "fail" && !setupFails {
		want := rd.LineNo[e.FailLine-1]
		if len(r.FailLines) == 0 {
			return "failline", fmt.Sprintf("failed run whose log names no line (expected line %d)", want)
		}
		if r.FailLines[0] != want {
			return "failline", fmt.Sprintf("log names line %d first, the first offending line is %d", r.FailLines[0], want)
		}
	}
	if setupFails {
		if len(r.Effects) != 0 {
			return "effects", "a line ran although setup failed"
		}
		return "", ""
	}
	var wantEff []obs
	for _, o := range e.Effects {
		wantEff = append(wantEff, o.real())
	}
	if e.Final.Run && rd.Probe > 0 {
		wantEff = append(wantEff, e.Final.Obs.real())
	}
	if len(wantEff) != len(r.Effects) || (len(wantEff) > 0 && !reflect.DeepEqual(wantEff, r.Effects)) {
		return "effects", fmt.Sprintf("probe observations %+v, expected %+v", r.Effects, wantEff)
	}
	want := expTree(e.Tree)
	if r.TreeErr != "" || !reflect.DeepEqual(want, r.Tree) {
		return "tree", fmt.Sprintf("work tree {%s} %s, expected {%s}", treeString(r.Tree), r.TreeErr, treeString(want))
	}
	return "", ""
}

// class gives known-finding matching a stable handle on the two defects found while
// the check was built; everything else is identified by configuration + script.
func classify(c *caseJ, h *header, r *runResult, rd rendered) string {
	last := lineJ{}
	if n := len(c.Script); n > 0 {
		last = h.vocab[c.Script[n-1]-1]
	}
	if r.Verdict == "panic" && last.Cmd == "exec" && len(last.Args) == 1 && strings.HasPrefix(last.Args[0].S, "&") {
		return "exec-with-only-a-named-background-token-panics"
	}
	if c.Root.Coe && r.Verdict == "skip" && c.Exp.Verdict == "fail" && last.Cmd == "skip" {
		return "continue-on-error-skip-after-failure-reports-skip"
	}
	return fmt.Sprintf("coe=%v prof=%s | %s", c.Root.Coe, c.Root.Prof, rd.Plain)
}

func replay(root, cases, out, cli string, cliMax int, selfbug string) int {
	h := readHeader(cases)
	res := vutil.NewResult()
	seed := vutil.Seed()
	var archPlain []string
	var archDup [][]string // per initial tree: one text per spelling of the duplicate entry's name
	for _, t := range h.init {
		archPlain = append(archPlain, archiveText(t, false))
		var ds []string
		for _, sp := range dupSpellings {
			ds = append(ds, archiveTextSpelled(t, true, sp))
		}
		archDup = append(archDup, ds)
	}
	var seq int64
	var cliRuns, cliSkipped int64
	distinct := sync.Map{}
	var sampleMu sync.Mutex
	sampled := map[string]int{}
	var nCases, nCli int64
	// first pass only counts the cases eligible for the CLI so that the sample is even
	if cli != "" && cliMax > 0 {
		vutil.ReadNDJSON(cases, func(line []byte) {
			if strings.Contains(string(line), `"cli":true`) && strings.Contains(string(line), `"prof":"full"`) {
				nCli++
			}
		})
	}
	vutil.ParallelLines(cases, func(line []byte) {
		var c caseJ
		if err := json.Unmarshal(line, &c); err != nil {
			vutil.Fatalf("bad case: %v: %.200s", err, line)
		}
		if c.Header {
			return
		}
		atomic.AddInt64(&nCases, 1)
		prof := h.profiles[c.Root.Prof]
		cfg := h.config(&c)
		key := fmt.Sprintf("%v|%s|%v", c.Root.Coe, c.Root.Prof, c.Script)
		rng := rand.New(rand.NewSource(seed*7919 + hash64(key)))
		if prof.Arch < 1 || prof.Arch > len(archPlain) {
			vutil.Fatalf("profile %s names archive %d", c.Root.Prof, prof.Arch)
		}
		arch := archPlain[prof.Arch-1]
		if prof.Dup {
			ds := archDup[prof.Arch-1]
			arch = ds[rng.Intn(len(ds))]
		}
		rd := renderScript(h.vocab, c.Script, arch, rng, true)
		name := fmt.Sprintf("s%07d", atomic.AddInt64(&seq, 1))
		r := runScript(root, name, []byte(rd.Text), cfg)
		if selfbug == "verdict" && len(c.Script) == 2 && r.Verdict == "fail" {
			r.Verdict = "pass"
		}
		setupFails := prof.Dup && prof.Unique
		exp := &c.Exp
		kind, what := mismatch(exp, &r, rd, setupFails)
		if kind != "" && c.Alt && len(c.AltExp) == 1 {
			// doc.go and the engine disagree on this line's arity: the usage failure is accepted too
			if k2, _ := mismatch(&c.AltExp[0], &r, rd, setupFails); k2 == "" {
				kind = ""
				res.DriftAdd(vutil.Finding{Kind: "doc-vs-code-arity", What: "doc.go documents '" + renderLine(h.vocab[c.Script[len(c.Script)-1]-1]) +
					"' (chmod perm path...), the engine reports a usage failure at that line (loud, right line: not a verdict error)", Input: rd.Plain})
			}
		}
		nontrivial := false
		for _, idx := range c.Script {
			if l := h.vocab[idx-1]; l.Cmd != "" && l.Cmd != "#" {
				nontrivial = true
			}
		}
		if _, dup := distinct.LoadOrStore(key, true); dup {
			nontrivial = false
		}
		res.Eval(nontrivial)
		res.Count("verdict:"+r.Verdict, 1)
		res.Count("lines", int64(len(c.Script)))
		if rd.Padded {
			res.Count("scripts_with_blank_or_comment_padding", 1)
		}
		if rd.CRLF {
			res.Count("scripts_with_crlf", 1)
		}
		detail := map[string]interface{}{
			"config": cfg, "script": rd.Text, "lines": rd.Plain, "expected": exp, "observed_verdict": r.Verdict,
			"observed_fail_lines": r.FailLines, "observed_effects": r.Effects, "observed_tree": treeString(r.Tree),
			"panic": r.Panic, "log": r.Log,
		}
		if kind != "" {
			if r.Verdict == "driver-error" {
				vutil.Fatalf("driver error: %s", r.Panic)
			}
			res.Violate(vutil.Finding{Kind: kind, What: what + " -- " + rd.Plain, Input: map[string]interface{}{"config": cfg, "script": rd.Text},
				Detail: detail, Class: classify(&c, h, &r, rd)})
		} else {
			// beyond the statement: the complete list of reported lines under ContinueOnError
			if exp.Verdict == "fail" && !setupFails && !c.Alt {
				var want []int
				for _, n := range exp.FailLines {
					want = append(want, rd.LineNo[n-1])
				}
				if !reflect.DeepEqual(want, r.FailLines) {
					res.DriftAdd(vutil.Finding{Kind: "later-fail-lines", What: fmt.Sprintf("log names lines %v, model %v", r.FailLines, want), Input: rd.Plain})
				}
			}
			if exp.Verdict != "fail" && len(r.FailLines) > 0 && !c.Alt {
				res.DriftAdd(vutil.Finding{Kind: "fail-line-in-non-failing-run", What: fmt.Sprintf("log of a %s run names lines %v", r.Verdict, r.FailLines), Input: rd.Plain})
			}
			if len(c.Script) >= 2 {
				sampleMu.Lock()
				take := sampled[r.Verdict] < 3
				sampled[r.Verdict]++
				sampleMu.Unlock()
				if take {
					res.Sample(map[string]interface{}{"config": cfg, "script": rd.Text, "verdict": r.Verdict, "fail_lines": r.FailLines,
						"tree": treeString(r.Tree), "probe_observations": r.Effects}, 9)
				}
			}
		}
		// the standalone command on scripts that need nothing it does not have
		if cli != "" && cliMax > 0 && c.Cli && c.Root.Prof == "full" && !c.Alt {
			if nCli > int64(cliMax) && rng.Int63n(nCli) >= int64(cliMax) {
				atomic.AddInt64(&cliSkipped, 1)
				return
			}
			atomic.AddInt64(&cliRuns, 1)
			rc := renderScript(h.vocab, c.Script, arch, rng, false)
			variant := int(rng.Int63n(6))
			code, outp := runCLIMulti(cli, root, name+"c", []byte(rc.Text), c.Root.Coe, variant)
			if selfbug == "cli" && code == 1 && len(c.Script) == 2 {
				code = 0
			}
			wantZero := exp.Verdict != "fail" && variant < 4
			if (code == 0) != wantZero {
				cls := classify(&c, h, &runResult{Verdict: map[bool]string{true: "skip", false: "panic"}[code == 0]}, rc)
				res.Violate(vutil.Finding{Kind: "cli-exit-status", What: fmt.Sprintf("cmd/testscript%s (invocation variant %d: 0 alone, 1 +pass, 2 +skip, 3 pass+, 4 fail+, 5 +fail) exits %d, the script's verdict is %s -- %s",
					map[bool]string{true: " -continue", false: ""}[c.Root.Coe], variant, code, exp.Verdict, rc.Plain),
					Input:  map[string]interface{}{"continue": c.Root.Coe, "script": rc.Text},
					Detail: map[string]interface{}{"output": outp, "expected": exp}, Class: cls})
			}
		}
	})
	res.Count("cases", nCases)
	res.Count("cli_runs", cliRuns)
	res.Count("cli_eligible", nCli)
	res.Extra["vocabulary_lines"] = len(h.vocab)
	res.Write(out)
	return 0
}
