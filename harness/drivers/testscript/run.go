package main

import (
	"errors"
	"fmt"
	"io"
	"io/fs"
	"os"
	"path/filepath"
	"regexp"
	"sort"
	"strconv"
	"strings"
	"sync"
	"syscall"
	"time"

	"github.com/rogpeppe/go-internal/testscript"
)

// ---------------------------------------------------------------------------
// helper programs (behaviour defined in Testscript.tla, section "programs")

// (registered through testscript.RunMain, the older entry point that takes functions returning an exit status and hands
// them on to Main: both ways of registering programs are on the path of every helper)
var helperPrograms = map[string]func() int{
	// hecho WORD...: the words joined by blanks and a newline on stdout, status 0
	"hecho": func() int {
		fmt.Println(strings.Join(os.Args[1:], " "))
		return 0
	},
	// hfail: "so\n" on stdout, "se\n" on stderr, status 1
	"hfail": func() int {
		fmt.Print("so\n")
		fmt.Fprint(os.Stderr, "se\n")
		return 1
	},
	// hcat: copies stdin to stdout, status 0
	"hcat": func() int {
		io.Copy(os.Stdout, os.Stdin)
		return 0
	},
	// htouch NAME: writes "t\n" to NAME (relative to its working directory) like
	// open(O_CREAT|O_TRUNC) does; status 1 and "htouch: failed\n" on stderr otherwise
	"htouch": func() int {
		if len(os.Args) != 2 || os.WriteFile(os.Args[1], []byte("t\n"), 0o666) != nil {
			fmt.Fprint(os.Stderr, "htouch: failed\n")
			return 1
		}
		return 0
	},
	// hgetenv VAR: the value of VAR and a newline on stdout, status 0
	"hgetenv": func() int {
		if len(os.Args) != 2 {
			return 2
		}
		fmt.Println(os.Getenv(os.Args[1]))
		return 0
	},
	// hblock: never exits on its own and prints nothing; SIGINT and SIGKILL have
	// their default disposition (the process dies, status "signal: ...")
	"hblock": func() int {
		for {
			time.Sleep(time.Hour)
		}
	},
}

// ---------------------------------------------------------------------------
// recording implementation of testscript.T

type sentinel string

const (
	failSentinel sentinel = "verif: FailNow"
	skipSentinel sentinel = "verif: Skip"
)

type recT struct {
	mu      sync.Mutex
	log     strings.Builder
	verdict string // pass | fail | skip | panic
	panicV  string
	ran     int
}

func (t *recT) Skip(a ...any) {
	t.Log(a...)
	panic(skipSentinel)
}
func (t *recT) Fatal(a ...any) {
	t.Log(a...)
	t.FailNow()
}
func (t *recT) Parallel() {}
func (t *recT) Log(a ...any) {
	t.mu.Lock()
	t.log.WriteString(fmt.Sprint(a...))
	t.log.WriteString("\n")
	t.mu.Unlock()
}
func (t *recT) FailNow()      { panic(failSentinel) }
func (t *recT) Verbose() bool { return false }
func (t *recT) Run(name string, f func(testscript.T)) {
	t.ran++
	defer func() {
		switch e := recover(); e {
		case nil:
			if t.verdict == "" {
				t.verdict = "pass"
			}
		case failSentinel:
			t.verdict = "fail"
		case skipSentinel:
			if t.verdict == "" {
				t.verdict = "skip"
			}
		default:
			t.verdict = "panic"
			t.panicV = fmt.Sprint(e)
		}
	}()
	f(t)
}

// ---------------------------------------------------------------------------
// configuration of one run (= the Params fields the property quantifies over)

type config struct {
	Coe      bool            `json:"coe"`
	Explicit bool            `json:"explicit"`
	Unique   bool            `json:"unique"`
	HasCond  bool            `json:"hascond"`
	Cmds     map[string]bool `json:"cmds"`
}

func cmdSet(all bool) map[string]bool {
	if all {
		return map[string]bool{"probe": true, "cfail": true, "cout": true, "cpause": true}
	}
	return map[string]bool{"probe": true}
}

// obs is what a probe line sees.
type obs struct {
	Cd  string `json:"cd"` // relative to $WORK, "." for $WORK itself
	V   string `json:"v"`
	Out string `json:"out"`
	Err string `json:"err"`
}

type treeEnt struct {
	Kind   string `json:"k"` // file | dir | link
	Data   string `json:"c"`
	W      bool   `json:"w"`
	Target string `json:"t"`
}

type runResult struct {
	Verdict   string
	Panic     string
	Log       string
	FailLines []int
	Effects   []obs
	Tree      map[string]treeEnt
	TreeErr   string
}

var workSeq struct {
	sync.Mutex
	n int
}

const scriptHang = 40 * time.Second

// killBelow kills every process whose current directory is dir or below it.
func killBelow(dir string) {
	ents, err := os.ReadDir("/proc")
	if err != nil {
		return
	}
	for _, e := range ents {
		pid, err := strconv.Atoi(e.Name())
		if err != nil || pid == os.Getpid() {
			continue
		}
		cwd, err := os.Readlink("/proc/" + e.Name() + "/cwd")
		if err != nil {
			continue
		}
		if cwd == dir || strings.HasPrefix(cwd, dir+"/") {
			syscall.Kill(pid, syscall.SIGKILL)
		}
	}
}

// runScript runs one script file through the real RunT and collects everything
// the property talks about.  The work tree is removed afterwards.
func runScript(root, name string, text []byte, cfg config) (res runResult) {
	dir := filepath.Join(root, name)
	if err := os.MkdirAll(dir, 0o777); err != nil {
		res.Verdict, res.Panic = "driver-error", err.Error()
		return
	}
	defer removeTree(dir)
	file := filepath.Join(dir, name+".txtar")
	if err := os.WriteFile(file, text, 0o666); err != nil {
		res.Verdict, res.Panic = "driver-error", err.Error()
		return
	}
	wroot := filepath.Join(dir, "w")
	os.Mkdir(wroot, 0o777)
	var mu sync.Mutex
	var effects []obs
	cmds := map[string]func(ts *testscript.TestScript, neg bool, args []string){}
	if cfg.Cmds["probe"] {
		cmds["probe"] = func(ts *testscript.TestScript, neg bool, args []string) {
			if neg {
				ts.Fatalf("unsupported: ! probe")
			}
			work := ts.Getenv("WORK")
			rel, err := filepath.Rel(work, ts.MkAbs("."))
			if err != nil {
				rel = "?" + err.Error()
			}
			o := obs{Cd: rel, V: ts.Getenv("V"), Out: ts.ReadFile("stdout"), Err: ts.ReadFile("stderr")}
			mu.Lock()
			effects = append(effects, o)
			mu.Unlock()
		}
	}
	if cfg.Cmds["probe"] {
		// Params.Cmds is only consulted for commands that are not part of the standard set: entries named like standard
		// commands never run (these would turn every exists / grep / stop / cmp line into a line that just passes)
		for _, std := range []string{"exists", "grep", "stop", "cmp", "skip", "rm"} {
			cmds[std] = func(ts *testscript.TestScript, neg bool, args []string) {}
		}
	}
	if cfg.Cmds["cfail"] {
		// cfail fails (through ts.Fatalf) unless negated
		cmds["cfail"] = func(ts *testscript.TestScript, neg bool, args []string) {
			if !neg {
				ts.Fatalf("cfail: failing as asked")
			}
		}
	}
	if cfg.Cmds["cout"] {
		// cout writes "c\n" to the script's stdout buffer through ts.Stdout()
		cmds["cout"] = func(ts *testscript.TestScript, neg bool, args []string) {
			if neg {
				ts.Fatalf("unsupported: ! cout")
			}
			fmt.Fprint(ts.Stdout(), "c\n")
		}
	}
	if cfg.Cmds["cpause"] {
		// cpause lets time pass: background commands that end by themselves have ended when the next line runs
		cmds["cpause"] = func(ts *testscript.TestScript, neg bool, args []string) {
			if neg {
				ts.Fatalf("unsupported: ! cpause")
			}
			// until every background command that ends by itself is gone from the process table (hblock never ends)
			for _, c := range ts.BackgroundCmds() {
				if len(c.Args) > 0 && filepath.Base(c.Args[0]) == "hblock" || c.Process == nil {
					continue
				}
				for i := 0; i < 4000; i++ {
					if _, err := os.Stat(fmt.Sprintf("/proc/%d", c.Process.Pid)); err != nil {
						break
					}
					time.Sleep(5 * time.Millisecond)
				}
			}
			time.Sleep(10 * time.Millisecond) // the engine's collector goroutine has returned from Wait by now
		}
	}
	p := testscript.Params{
		Files:               []string{file},
		WorkdirRoot:         wroot,
		Cmds:                cmds,
		ContinueOnError:     cfg.Coe,
		RequireExplicitExec: cfg.Explicit,
		RequireUniqueNames:  cfg.Unique,
	}
	if cfg.HasCond {
		p.Condition = func(cond string) (bool, error) {
			switch cond {
			case "ctrue":
				return true, nil
			case "cfalse":
				return false, nil
			case "cvar": // differs between the runs of one process
				return cfg.Coe, nil
			}
			return false, errors.New("condition not defined by the harness: " + cond)
		}
	}
	t := &recT{}
	finished := make(chan struct{})
	hung := false
	go func() {
		defer close(finished)
		defer func() {
			if e := recover(); e != nil {
				t.verdict = "panic"
				t.panicV = "outside Run: " + fmt.Sprint(e)
			}
		}()
		testscript.RunT(t, p)
	}()
	// no script of the fragment waits for anything that does not end by itself: a run that is still going after
	// scriptHang is stuck.  Its helper processes (their current directory is below the script's directory) are killed
	// so that it comes to an end, and it is reported as hung.
	func() {
		tm := time.NewTimer(scriptHang)
		defer tm.Stop()
		for {
			select {
			case <-finished:
				return
			case <-tm.C:
				hung = true
				killBelow(dir)
				tm.Reset(time.Second)
			}
		}
	}()
	res.Verdict = t.verdict
	if hung {
		res.Verdict = "hang"
	}
	if t.ran != 1 && res.Verdict != "panic" {
		res.Verdict = "driver-error"
		res.Panic = fmt.Sprintf("RunT started %d subtests", t.ran)
	}
	res.Panic = res.Panic + t.panicV
	res.Log = t.log.String()
	res.Effects = effects
	re := regexp.MustCompile(`(?m)^FAIL: ` + regexp.QuoteMeta(file) + `:(\d+): `)
	for _, m := range re.FindAllStringSubmatch(res.Log, -1) {
		n, _ := strconv.Atoi(m[1])
		res.FailLines = append(res.FailLines, n)
	}
	res.Tree, res.TreeErr = walkTree(filepath.Join(wroot, "script-"+name))
	return
}

// walkTree reads the work tree with plain os calls (never through the code under test).
func walkTree(work string) (map[string]treeEnt, string) {
	tree := map[string]treeEnt{}
	if _, err := os.Lstat(work); err != nil {
		return tree, "no work directory"
	}
	var firstErr string
	filepath.WalkDir(work, func(path string, d fs.DirEntry, err error) error {
		if err != nil {
			if firstErr == "" {
				firstErr = err.Error()
			}
			return nil
		}
		rel, _ := filepath.Rel(work, path)
		if rel == "." {
			return nil
		}
		if rel == ".tmp" {
			return filepath.SkipDir
		}
		info, err := os.Lstat(path)
		if err != nil {
			if firstErr == "" {
				firstErr = err.Error()
			}
			return nil
		}
		e := treeEnt{W: info.Mode()&0o222 != 0}
		switch {
		case info.Mode()&os.ModeSymlink != 0:
			e.Kind = "link"
			e.W = false
			e.Target, _ = os.Readlink(path)
		case info.IsDir():
			e.Kind = "dir"
		case info.Mode().IsRegular():
			e.Kind = "file"
			b, err := os.ReadFile(path)
			if err != nil && firstErr == "" {
				firstErr = err.Error()
			}
			e.Data = string(b)
		default:
			e.Kind = "other"
		}
		tree[filepath.ToSlash(rel)] = e
		return nil
	})
	return tree, firstErr
}

func removeTree(dir string) {
	filepath.WalkDir(dir, func(path string, d fs.DirEntry, err error) error {
		if err == nil && d.IsDir() {
			os.Chmod(path, 0o777)
		}
		return nil
	})
	os.RemoveAll(dir)
}

func treeString(t map[string]treeEnt) string {
	var keys []string
	for k := range t {
		keys = append(keys, k)
	}
	sort.Strings(keys)
	var sb strings.Builder
	for _, k := range keys {
		e := t[k]
		fmt.Fprintf(&sb, "%s:%s", k, e.Kind)
		switch e.Kind {
		case "file":
			fmt.Fprintf(&sb, "(%q,w=%v)", e.Data, e.W)
		case "dir":
			fmt.Fprintf(&sb, "(w=%v)", e.W)
		case "link":
			fmt.Fprintf(&sb, "(->%s)", e.Target)
		}
		sb.WriteString(" ")
	}
	return strings.TrimSpace(sb.String())
}

// adhoc runs one hand-written script and prints what the driver observes (used
// while writing the specification and for replaying a reported case by hand).
func adhoc(root, script string, cfg config, cli string) int {
	text, err := os.ReadFile(script)
	if err != nil {
		fmt.Fprintln(os.Stderr, err)
		return 3
	}
	r := runScript(root, "adhoc", text, cfg)
	fmt.Printf("verdict=%s panic=%q failLines=%v\n", r.Verdict, r.Panic, r.FailLines)
	fmt.Printf("effects=%+v\n", r.Effects)
	fmt.Printf("tree=%s (%s)\n", treeString(r.Tree), r.TreeErr)
	fmt.Printf("log:\n%s\n", r.Log)
	if cli != "" {
		for _, c := range []bool{false, true} {
			code, out := runCLI(cli, root, "adhoc-cli", text, c)
			fmt.Printf("cli continue=%v exit=%d\n%s\n", c, code, out)
		}
	}
	return 0
}
