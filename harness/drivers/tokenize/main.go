// Driver for C02: replays TLC-generated lines / script groups into the real
// testscript engine (testscript.RunT with a recording T and probe commands
// registered in Params.Cmds), compares the argument vectors, Getenv values and
// the environment of an executed program with the predictions of
// spec/tokenize, and records real behaviour on seeded random scripts as ndjson
// for validation by TLC (Trace_Tokenize).
package main

import (
	"bytes"
	"encoding/hex"
	"encoding/json"
	"flag"
	"fmt"
	"os"
	"path/filepath"
	"strings"
	"unicode/utf8"

	"verifharness/vutil"
)

type varJ struct {
	Name  bs   `json:"name"`
	Value bs   `json:"value"`
	Set   bool `json:"set"`
}

type resJ struct {
	Ok   bool `json:"ok"`
	Args []bs `json:"args"`
}

type probeJ struct {
	Line bs   `json:"line"`
	Ok   bool `json:"ok"`
	Args []bs `json:"args"`
	Jd   bool `json:"jd"`
	Rx   bool `json:"rx"`
	Val  bs   `json:"val"`
}

type caseJ struct {
	T      string   `json:"t"`
	H      int      `json:"h"`
	Pre    []bs     `json:"pre"`
	Vars   []varJ   `json:"vars"`
	Line   bs       `json:"line"`
	Dep    bool     `json:"dep"`
	Jd     bool     `json:"jd"`
	Res    []resJ   `json:"res"`
	Fresh  bool     `json:"fresh"`
	Child  bool     `json:"child"`
	Probes []probeJ `json:"probes"`
}

func strs(a []bs) []string {
	r := make([]string, len(a))
	for i, x := range a {
		r[i] = string(x)
	}
	return r
}

func sameArgs(got []string, want []bs) bool {
	if len(got) != len(want) {
		return false
	}
	for i := range got {
		if got[i] != string(want[i]) {
			return false
		}
	}
	return true
}

func nontrivialLine(l []byte) bool {
	return strings.ContainsAny(string(l), "'$#")
}

// ctxInfo describes where a probe line ran, for the replay file.
type ctxInfo struct {
	pre  []string // the env lines that precede it
	note string
	dup  bool // the (environment, line) pairs of this context also occur in another generator: not counted as distinct
}

func (c ctxInfo) input(line []byte) map[string]interface{} {
	return map[string]interface{}{"env_lines_before": c.pre, "line": string(line), "line_bytes": vutil.Ints(line), "context": c.note}
}

func class(c ctxInfo, line []byte) string {
	return strings.Join(c.pre, "\n") + "\n>" + string(line)
}

// judgeProbe compares one observed probe line with its prediction.
func judgeProbe(res *vutil.Result, c ctxInfo, p *probeJ, got []string, called bool, failMsg string) {
	res.Eval(nontrivialLine(p.Line) && !c.dup)
	res.Count("probe_lines", 1)
	switch {
	case !p.Ok && !called:
		res.Count("unterminated_rejected", 1)
		return
	case !p.Ok && called:
		// the statement does not say what an open quote means
		res.DriftAdd(vutil.Finding{Kind: "open-quote-accepted", What: fmt.Sprintf("line %q has an open quote but was tokenised as %q", p.Line, got), Input: c.input(p.Line)})
		return
	case p.Ok && !called:
		f := vutil.Finding{Kind: "well-formed-line-rejected", Class: class(c, p.Line),
			What:   fmt.Sprintf("script line `probe %s` failed (%s); the statement gives it the words %q", p.Line, failMsg, strs(p.Args)),
			Input:  c.input(p.Line),
			Detail: map[string]interface{}{"expected_args": strs(p.Args), "fail_message": failMsg}}
		if p.Jd || p.Rx {
			res.Violate(f)
		} else {
			res.DriftAdd(f)
		}
		return
	}
	if p.Rx {
		res.Count("regexp_probes", 1)
		val := string(p.Val)
		if len(got) != 1 {
			res.Violate(vutil.Finding{Kind: "regexp-expansion-not-one-word", Class: class(c, p.Line),
				What:  fmt.Sprintf("%s with value %q gave %d words %q", p.Line, val, len(got), got),
				Input: c.input(p.Line), Detail: map[string]interface{}{"value": val, "got_args": got}})
			return
		}
		verdict, why := denotesExactly(got[0], val)
		switch verdict {
		case "inexact":
			res.Violate(vutil.Finding{Kind: "regexp-not-exactly-the-value", Class: class(c, p.Line),
				What:  fmt.Sprintf("%s with value %q expands to the pattern %q, which %s", p.Line, val, got[0], why),
				Input: c.input(p.Line), Detail: map[string]interface{}{"value": val, "pattern": got[0]}})
		case "undecided":
			res.Count("regexp_undecided", 1)
			if utf8.ValidString(val) {
				res.DriftAdd(vutil.Finding{Kind: "regexp-not-literal", What: fmt.Sprintf("%s with value %q expands to %q (%s)", p.Line, val, got[0], why), Input: c.input(p.Line)})
			}
		default:
			if !sameArgs(got, p.Args) {
				res.DriftAdd(vutil.Finding{Kind: "regexp-spelled-differently", What: fmt.Sprintf("%s with value %q expands to %q, specification %q (both denote the value)", p.Line, val, got[0], strs(p.Args)), Input: c.input(p.Line)})
			}
		}
		return
	}
	if sameArgs(got, p.Args) {
		return
	}
	f := vutil.Finding{Kind: "words-differ", Class: class(c, p.Line),
		What:   fmt.Sprintf("line %q was tokenised as %q, the statement gives %q", p.Line, got, strs(p.Args)),
		Input:  c.input(p.Line),
		Detail: map[string]interface{}{"expected_args": strs(p.Args), "got_args": got}}
	if p.Jd {
		res.Violate(f)
	} else {
		f.Kind = "unjudged-line-differs"
		res.DriftAdd(f)
	}
}

func judgeVars(res *vutil.Result, c ctxInfo, vars []varJ, getenv map[string]string, haveGetenv bool, child []string, haveChild bool) {
	if haveGetenv {
		for _, v := range vars {
			res.Eval(true)
			res.Count("getenv_compared", 1)
			if got := getenv[string(v.Name)]; got != string(v.Value) {
				res.Violate(vutil.Finding{Kind: "getenv-differs", Class: strings.Join(c.pre, "\n") + "\n" + string(v.Name),
					What:  fmt.Sprintf("after %q TestScript.Getenv(%q) = %q, latest assignment gives %q", c.pre, v.Name, got, v.Value),
					Input: map[string]interface{}{"env_lines": c.pre, "name": string(v.Name)}, Detail: map[string]interface{}{"got": got, "want": string(v.Value)}})
			}
		}
	}
	if haveChild {
		m := map[string]string{}
		cnt := map[string]int{}
		for _, kv := range child {
			if i := strings.IndexByte(kv, '='); i >= 0 {
				m[kv[:i]] = kv[i+1:]
				cnt[kv[:i]]++
			}
		}
		for _, v := range vars {
			res.Eval(true)
			res.Count("child_env_compared", 1)
			got, present := m[string(v.Name)]
			if present != v.Set || got != string(v.Value) {
				res.Violate(vutil.Finding{Kind: "child-env-differs", Class: strings.Join(c.pre, "\n") + "\n" + string(v.Name),
					What: fmt.Sprintf("after %q an executed program sees %s=%q (present %v); the script's value is %q (set %v)",
						c.pre, v.Name, got, present, v.Value, v.Set),
					Input:  map[string]interface{}{"env_lines": c.pre, "name": string(v.Name)},
					Detail: map[string]interface{}{"got": got, "present": present, "want": string(v.Value), "set": v.Set}})
			}
		}
	}
}

func reportScriptTrouble(res *vutil.Result, sc *script) {
	if sc.obs.panicked != nil {
		res.Violate(vutil.Finding{Kind: "engine-panic", Class: fmt.Sprint(sc.obs.panicked),
			What: fmt.Sprintf("the testscript engine panicked while running generated script %s: %v", sc.name, sc.obs.panicked), Input: string(sc.text())})
	}
	for _, r := range sc.obs.rogue {
		res.Violate(vutil.Finding{Kind: "probe-id-mangled", Class: r,
			What: "a probe command received an unreadable first argument (its numeric id): " + r, Input: sc.name})
	}
}

func readCases(files []string, fn func(c *caseJ)) {
	for _, f := range files {
		vutil.ReadNDJSON(f, func(line []byte) {
			var c caseJ
			if err := json.Unmarshal(line, &c); err != nil {
				vutil.Fatalf("bad case %.200s: %v", line, err)
			}
			fn(&c)
		})
	}
}

// ---- mode lines: MC_Tokenize output (histories + lines with per-history predictions) ----
func modeLines(res *vutil.Result, files []string, scratch string, perScript int) {
	// pass 1: the histories; pass 2: the lines, in batches (the thorough tier emits millions)
	var hists []*caseJ
	for _, f := range files {
		vutil.ReadNDJSON(f, func(line []byte) {
			if !bytes.Contains(line, []byte(`"t":"hist"`)) {
				return
			}
			var c caseJ
			if err := json.Unmarshal(line, &c); err != nil {
				vutil.Fatalf("bad case %.200s: %v", line, err)
			}
			hists = append(hists, &c)
		})
	}
	res.Count("histories", int64(len(hists)))
	const batch = 150000
	var lines []*caseJ
	nbatch := 0
	for _, f := range files {
		vutil.ReadNDJSON(f, func(line []byte) {
			if bytes.Contains(line, []byte(`"t":"hist"`)) {
				return
			}
			var c caseJ
			if err := json.Unmarshal(line, &c); err != nil {
				vutil.Fatalf("bad case %.200s: %v", line, err)
			}
			if c.T != "line" {
				return
			}
			lines = append(lines, &c)
			if len(lines) >= batch {
				linesBatch(res, hists, lines, scratch, perScript, nbatch)
				nbatch++
				lines = nil
			}
		})
	}
	if len(lines) > 0 || nbatch == 0 {
		linesBatch(res, hists, lines, scratch, perScript, nbatch)
	}
}

func linesBatch(res *vutil.Result, hists []*caseJ, lines []*caseJ, scratch string, perScript int, nbatch int) {
	nh := len(hists)
	if nh == 0 {
		vutil.Fatalf("no histories among the cases")
	}
	byH := make([]*caseJ, nh+1)
	for _, h := range hists {
		byH[h.H] = h
	}
	type ref struct {
		c *caseJ
		r int // index into c.Res
	}
	work := make([][]ref, nh+1)
	for i, c := range lines {
		if c.Dep {
			if len(c.Res) != nh {
				vutil.Fatalf("line case with %d predictions for %d histories", len(c.Res), nh)
			}
			for h := 1; h <= nh; h++ {
				work[h] = append(work[h], ref{c, h - 1})
			}
		} else {
			h := i%nh + 1
			work[h] = append(work[h], ref{c, 0})
		}
	}
	var scripts []*script
	type meta struct {
		h    int
		refs []ref
	}
	var metas []meta
	for h := 1; h <= nh; h++ {
		for start := 0; start < len(work[h]); start += perScript {
			end := start + perScript
			if end > len(work[h]) {
				end = len(work[h])
			}
			sc := &script{name: fmt.Sprintf("h%d-%05d", h, len(scripts))}
			for _, l := range byH[h].Pre {
				sc.items = append(sc.items, item{kind: itRaw, text: l})
			}
			var names []string
			for _, v := range byH[h].Vars {
				names = append(names, string(v.Name))
			}
			sc.items = append(sc.items, item{kind: itGetenv, names: names})
			for k := start; k < end; k++ {
				sc.items = append(sc.items, item{kind: itProbe, text: work[h][k].c.Line, ref: k})
			}
			scripts = append(scripts, sc)
			metas = append(metas, meta{h, work[h][start:end]})
		}
	}
	if err := runScripts(filepath.Join(scratch, "scripts", fmt.Sprintf("b%d", nbatch)), scripts, nil); err != nil {
		vutil.Fatalf("%v", err)
	}
	os.RemoveAll(filepath.Join(scratch, "scripts"))
	res.Count("scripts", int64(len(scripts)))
	res.Count("line_cases", int64(len(lines)))
	for si, sc := range scripts {
		reportScriptTrouble(res, sc)
		h := byH[metas[si].h]
		c := ctxInfo{pre: strs(h.Pre), note: fmt.Sprintf("history %d of MC_Tokenize", h.H)}
		base := 0
		for i, it := range sc.items {
			switch it.kind {
			case itGetenv:
				g, ok := sc.obs.getenv[i]
				if !ok {
					res.Violate(vutil.Finding{Kind: "env-lines-failed", Class: strings.Join(c.pre, "\n"),
						What: fmt.Sprintf("the env lines %q did not all succeed: %v", c.pre, sc.obs.fails), Input: c.pre})
				}
				judgeVars(res, c, h.Vars, g, ok, nil, false)
				base = i + 1
			case itProbe:
				r := metas[si].refs[i-base]
				p := probeJ{Line: r.c.Line, Ok: r.c.Res[r.r].Ok, Args: r.c.Res[r.r].Args, Jd: r.c.Jd}
				got, called := sc.obs.probes[i]
				judgeProbe(res, c, &p, got, called, sc.obs.fails[it.lineno])
				if r.c.Dep && r.c.Jd && len(r.c.Line) >= 5 && len(c.pre) >= 2 && bytes.IndexByte(r.c.Line, '\'') >= 0 && (i+si)%97 == 0 {
					res.Sample(map[string]interface{}{"env_lines": c.pre, "line": string(r.c.Line), "predicted_args": strs(p.Args), "tokenised": p.Ok, "real_args": got}, 6)
				}
			}
		}
	}
}

// ---- mode groups: MC_Laws / MC_Env output ----
func modeGroups(res *vutil.Result, files []string, scratch string, perScript int) {
	var prologue []bs
	var groups []*caseJ
	const batch = 20000
	nbatch := 0
	readCases(files, func(c *caseJ) {
		switch c.T {
		case "prologue":
			prologue = c.Pre
		case "group":
			groups = append(groups, c)
			if len(groups) >= batch {
				groupsBatch(res, prologue, groups, scratch, perScript, nbatch)
				nbatch++
				groups = nil
			}
		}
	})
	if len(groups) > 0 {
		groupsBatch(res, prologue, groups, scratch, perScript, nbatch)
	}
}

func groupsBatch(res *vutil.Result, prologue []bs, groups []*caseJ, scratch string, perScript int, nbatch int) {
	type span struct {
		g          *caseJ
		first      int // index of the first item of the group
		getenv     int
		child      int
		probeFirst int
	}
	var scripts []*script
	var spans [][]span
	var cur *script
	var curSpans []span
	flush := func() {
		if cur != nil {
			scripts = append(scripts, cur)
			spans = append(spans, curSpans)
			cur, curSpans = nil, nil
		}
	}
	addGroup := func(sc *script, g *caseJ) span {
		sp := span{g: g, first: len(sc.items), getenv: -1, child: -1}
		for _, l := range g.Pre {
			sc.items = append(sc.items, item{kind: itRaw, text: l})
		}
		if len(g.Vars) > 0 {
			var names []string
			for _, v := range g.Vars {
				names = append(names, string(v.Name))
			}
			sp.getenv = len(sc.items)
			sc.items = append(sc.items, item{kind: itGetenv, names: names})
		}
		sp.probeFirst = len(sc.items)
		for k := range g.Probes {
			sc.items = append(sc.items, item{kind: itProbe, text: g.Probes[k].Line})
		}
		if g.Child {
			sp.child = len(sc.items)
			sc.items = append(sc.items, item{kind: itChild})
		}
		return sp
	}
	nshared := 0
	for gi, g := range groups {
		if g.Fresh && g.Child && gi%3 == 1 {
			// a long history: k reassignments of a third variable in front of the group's own env lines (the statement
			// quantifies over all sequences of assignments; the latest one wins however many came before, for expansion
			// and for executed programs alike).  k varies so that every position of a long sequence is some group's last.
			k := 12 + (gi/3*7)%53
			long := *g
			long.Pre = nil
			for j := 1; j <= k; j++ {
				long.Pre = append(long.Pre, bs(fmt.Sprintf("env U=u%d", j)))
			}
			long.Pre = append(long.Pre, g.Pre...)
			long.Vars = append(append([]varJ{}, g.Vars...), varJ{Name: bs("U"), Value: bs(fmt.Sprintf("u%d", k)), Set: true})
			g = &long
			res.Count("groups_with_long_history", 1)
		}
		if g.Fresh && g.Child && gi%3 == 2 && len(g.Pre) > 0 {
			// a bare `env` line (it prints the environment) between the assignments and the probes: looking at the
			// environment changes nothing - not for expansion, not for executed programs
			listed := *g
			listed.Pre = append(append([]bs{}, g.Pre...), bs("env"))
			g = &listed
			res.Count("groups_with_bare_env_line", 1)
		}
		if g.Fresh {
			sc := &script{name: fmt.Sprintf("f-%06d", len(scripts))}
			sp := addGroup(sc, g)
			scripts = append(scripts, sc)
			spans = append(spans, []span{sp})
			continue
		}
		if cur == nil {
			cur = &script{name: fmt.Sprintf("s-%06d", len(scripts))}
			for _, l := range prologue {
				cur.items = append(cur.items, item{kind: itRaw, text: l})
			}
			nshared = 0
		}
		curSpans = append(curSpans, addGroup(cur, g))
		nshared++
		if nshared >= perScript {
			flush()
		}
	}
	flush()
	if err := runScripts(filepath.Join(scratch, "scripts", fmt.Sprintf("b%d", nbatch)), scripts, nil); err != nil {
		vutil.Fatalf("%v", err)
	}
	os.RemoveAll(filepath.Join(scratch, "scripts"))
	res.Count("scripts", int64(len(scripts)))
	res.Count("groups", int64(len(groups)))
	for si, sc := range scripts {
		reportScriptTrouble(res, sc)
		for _, sp := range spans[si] {
			g := sp.g
			pre := strs(g.Pre)
			if !g.Fresh {
				pre = append(strs(prologue), pre...)
			}
			c := ctxInfo{pre: pre, note: map[bool]string{true: "own script (variables start unset)", false: "shared script: only the prologue and this group's env lines are relevant"}[g.Fresh],
				dup: g.Fresh && len(g.Pre) == 0}
			for k := range g.Pre {
				if msg, bad := sc.obs.fails[sc.items[sp.first+k].lineno]; bad {
					res.Violate(vutil.Finding{Kind: "env-line-failed", Class: string(g.Pre[k]),
						What: fmt.Sprintf("script line %q failed: %s", g.Pre[k], msg), Input: c.input(g.Pre[k])})
				}
			}
			var genv map[string]string
			haveG := false
			if sp.getenv >= 0 {
				genv, haveG = sc.obs.getenv[sp.getenv]
			}
			var child []string
			haveC := false
			if sp.child >= 0 {
				child, haveC = sc.obs.child[sp.child]
				if !haveC {
					res.Violate(vutil.Finding{Kind: "child-not-run", Class: strings.Join(pre, "\n"),
						What:  fmt.Sprintf("exec of the environment helper failed after %q: %s", pre, sc.obs.fails[sc.items[sp.child].lineno]),
						Input: pre})
				}
			}
			judgeVars(res, c, g.Vars, genv, haveG, child, haveC)
			for k := range g.Probes {
				i := sp.probeFirst + k
				got, called := sc.obs.probes[i]
				judgeProbe(res, c, &g.Probes[k], got, called, sc.obs.fails[sc.items[i].lineno])
			}
			if g.Child && len(g.Pre) >= 2 && len(g.Vars) == 2 && g.Vars[0].Set && g.Vars[1].Set && strings.ContainsAny(string(g.Vars[0].Value)+string(g.Vars[1].Value), " $'#") && string(g.Vars[0].Value) != string(g.Vars[1].Value) {
				res.Sample(map[string]interface{}{"script_env_lines": pre, "predicted_child_env": func() map[string]string {
					m := map[string]string{}
					for _, v := range g.Vars {
						if v.Set {
							m[string(v.Name)] = string(v.Value)
						}
					}
					return m
				}(), "probe": string(g.Probes[len(g.Probes)-3].Line), "predicted_args": strs(g.Probes[len(g.Probes)-3].Args)}, 4)
			} else if len(g.Vars) == 1 && len(g.Vars[0].Value) >= 3 && nontrivialLine(g.Vars[0].Value) {
				res.Sample(map[string]interface{}{"value": string(g.Vars[0].Value), "assigned_by": pre[len(pre)-1],
					"probe": string(g.Probes[2].Line), "predicted_args": strs(g.Probes[2].Args)}, 4)
			}
		}
	}
}

func main() {
	if len(os.Args) > 1 && os.Args[1] == "envdump" {
		// helper run by `exec` inside the scripts: the environment this process received
		for _, kv := range os.Environ() {
			fmt.Println(hex.EncodeToString([]byte(kv)))
		}
		return
	}
	mode := flag.String("mode", "lines", "lines | groups | random")
	out := flag.String("out", "result.json", "result file")
	scratch := flag.String("scratch", "", "scratch directory (scripts, work directories)")
	per := flag.Int("per", 0, "probe lines (lines mode) / groups (groups mode) per script")
	n := flag.Int("n", 200, "random mode: number of scripts")
	trace := flag.String("trace", "", "random mode: ndjson trace to write")
	flag.Parse()
	var err error
	selfPath, err = os.Executable()
	if err != nil {
		vutil.Fatalf("%v", err)
	}
	if *scratch == "" {
		vutil.Fatalf("-scratch is required")
	}
	gotmp := filepath.Join(*scratch, "work")
	if err := os.MkdirAll(gotmp, 0o777); err != nil {
		vutil.Fatalf("%v", err)
	}
	// work directories of the scripts are created (and removed) by RunT below $GOTMPDIR
	os.Setenv("GOTMPDIR", gotmp)
	// the process the scripts run in has values of its own for every name the scripts refer to: a reference to a name the
	// script has not defined (yet) expands to nothing, not to what the host happens to hold
	for _, nm := range append([]string{"VW", "U", "u1", "NX", "UNSET"}, poolNames...) {
		os.Setenv(nm, "host-"+nm)
	}
	res := vutil.NewResult()
	switch *mode {
	case "lines":
		if *per == 0 {
			*per = 4000
		}
		modeLines(res, flag.Args(), *scratch, *per)
	case "groups":
		if *per == 0 {
			*per = 200
		}
		modeGroups(res, flag.Args(), *scratch, *per)
	case "random":
		modeRandom(res, *n, *trace, *scratch)
	default:
		vutil.Fatalf("unknown mode %s", *mode)
	}
	os.RemoveAll(filepath.Join(*scratch, "scripts"))
	os.RemoveAll(gotmp)
	res.Write(*out)
}
