package main

import (
	"fmt"
	"math/rand"
	"path/filepath"
	"strings"

	"verifharness/vutil"
)

// Seeded random scripts beyond the exhaustive bounds: env lines interleaved
// with probe lines made of arbitrary bytes (never LF).  Every probe line is
// recorded with the env lines before it; TLC validates the records.

var poolNames = []string{"V", "W", "a", "Va", "V1", "_u", "x", "VR", "R"}

func randBytes(r *rand.Rand, n int) []byte {
	b := make([]byte, 0, n)
	for len(b) < n {
		var c byte
		switch r.Intn(10) {
		case 0:
			c = byte(r.Intn(256)) // anything
		case 1:
			c = " \t\r"[r.Intn(3)]
		case 2:
			c = "'$#{}@R=\\.*[]()|+?^"[r.Intn(19)]
		case 3:
			c = byte(128 + r.Intn(128))
		case 4:
			c = byte(1 + r.Intn(31))
		default:
			c = "abVWxyz019_-/:,"[r.Intn(15)]
		}
		if c == '\n' {
			continue
		}
		b = append(b, c)
	}
	return b
}

func quoteBytes(w []byte) []byte {
	return []byte("'" + strings.ReplaceAll(string(w), "'", "''") + "'")
}

func randName(r *rand.Rand) string { return poolNames[r.Intn(len(poolNames))] }

// a variable value: arbitrary bytes, often holding text that would change if it were
// expanded or split again
func randValue(r *rand.Rand) []byte {
	b := randBytes(r, r.Intn(5))
	switch r.Intn(5) {
	case 0:
		b = append(b, ("$" + randName(r))...)
	case 1:
		b = append(b, ("${" + randName(r) + "}")...)
	case 2:
		b = append(b, " '#"[r.Intn(3)])
	}
	return append(b, randBytes(r, r.Intn(3))...)
}

// a word-ish fragment without separators
func randFragment(r *rand.Rand) []byte {
	switch r.Intn(16) {
	case 0:
		return []byte("$" + randName(r))
	case 1:
		return []byte("${" + randName(r) + "}")
	case 2:
		return []byte("${" + randName(r) + "@R}")
	case 3:
		return quoteBytes(randBytes(r, r.Intn(6)))
	case 4:
		return []byte("'")
	case 5:
		return []byte("''")
	case 6:
		return []byte([]string{"$", "${", "}", "$$", "${$}", "$1", "$*", "${}", "$/", "${/}", "${:}", "$@R", "$-"}[r.Intn(13)])
	case 7:
		return []byte("#")
	case 8:
		return []byte("$" + randName(r) + "@R")
	case 9, 10:
		return randBytes(r, 1+r.Intn(4))
	default:
		n := 1 + r.Intn(5)
		b := make([]byte, n)
		for i := range b {
			b[i] = "abVWxyz019_-/:,=.@R{}"[r.Intn(21)]
		}
		return b
	}
}

func randLine(r *rand.Rand) []byte {
	var b []byte
	n := r.Intn(9)
	for i := 0; i < n; i++ {
		b = append(b, randFragment(r)...)
		if r.Intn(3) == 0 {
			b = append(b, " \t\r "[r.Intn(4)])
		}
	}
	return b
}

func randEnvLine(r *rand.Rand) []byte {
	b := []byte("env")
	k := 1 + r.Intn(2)
	for i := 0; i < k; i++ {
		b = append(b, ' ')
		name := randName(r)
		switch r.Intn(6) {
		case 0:
			b = append(b, name...) // display only
		case 1:
			b = append(b, (name + "=$" + randName(r))...)
		case 2:
			b = append(b, (name + "=${" + name + "}" + "x")...)
		case 3:
			b = append(b, quoteBytes(append([]byte(name+"="), randValue(r)...))...)
		default:
			b = append(b, (name + "=")...)
			b = append(b, quoteBytes(randValue(r))...)
		}
	}
	return b
}

type traceRec struct {
	Pre  []bs `json:"pre"`
	Line bs   `json:"line"`
	Ok   bool `json:"ok"`
	Args []bs `json:"args"`
}

func modeRandom(res *vutil.Result, nscripts int, tracePath, scratch string) {
	rng := vutil.Rand(2)
	var scripts []*script
	for s := 0; s < nscripts; s++ {
		sc := &script{name: fmt.Sprintf("r-%05d", s)}
		nprobe := 20 + rng.Intn(20)
		envLeft := rng.Intn(6)
		for k := 0; k < nprobe; k++ {
			if envLeft > 0 && rng.Intn(6) == 0 {
				sc.items = append(sc.items, item{kind: itRaw, text: randEnvLine(rng)})
				envLeft--
			}
			sc.items = append(sc.items, item{kind: itProbe, text: randLine(rng)})
		}
		scripts = append(scripts, sc)
	}
	if err := runScripts(filepath.Join(scratch, "scripts"), scripts, poolNames); err != nil {
		vutil.Fatalf("%v", err)
	}
	w := vutil.NewNDJSONWriter(tracePath)
	seen := map[string]bool{}
	for _, sc := range scripts {
		reportScriptTrouble(res, sc)
		var pre []bs
		for i, it := range sc.items {
			if it.kind == itRaw {
				pre = append(pre, bs(it.text))
				continue
			}
			got, called := sc.obs.probes[i]
			rec := traceRec{Pre: append([]bs{}, pre...), Line: bs(it.text), Ok: called, Args: []bs{}}
			for _, a := range got {
				rec.Args = append(rec.Args, bs(a))
			}
			w.Write(rec)
			key := string(it.text) + "\x00" + fmt.Sprint(len(pre))
			nt := nontrivialLine(it.text) && !seen[key]
			seen[key] = true
			res.Eval(nt)
			// law 3 directly on the real values: a line that is exactly ${NAME@R}
			if called && len(got) == 1 {
				for _, nm := range poolNames {
					if string(it.text) == "${"+nm+"@R}" {
						val := sc.obs.snaps[i][nm]
						res.Count("regexp_probes", 1)
						if verdict, why := denotesExactly(got[0], val); verdict == "inexact" {
							res.Violate(vutil.Finding{Kind: "regexp-not-exactly-the-value", Class: string(it.text) + "|" + val,
								What:  fmt.Sprintf("${%s@R} with value %q expands to the pattern %q, which %s", nm, val, got[0], why),
								Input: map[string]interface{}{"env_lines_before": strs(pre), "line": string(it.text)}})
						}
					}
				}
			}
			if len(res.Samples) < 4 && len(pre) > 0 && len(it.text) > 6 {
				res.Sample(map[string]interface{}{"random_env_lines": strs(pre), "random_line": string(it.text), "real_args": got, "tokenised": called}, 4)
			}
		}
	}
	w.Close()
	res.Count("random_scripts", int64(len(scripts)))
	res.Count("random_records", int64(w.N))
}
