package main

import (
	"bytes"
	"encoding/hex"
	"encoding/json"
	"fmt"
	"os"
	"path/filepath"
	"regexp"
	"runtime"
	"strconv"
	"strings"
	"sync"

	"github.com/rogpeppe/go-internal/testscript"
)

// bs is a byte string that travels as a JSON array of numbers (the
// representation the TLA+ specifications use).
type bs []byte

func (b *bs) UnmarshalJSON(data []byte) error {
	var a []int
	if err := json.Unmarshal(data, &a); err != nil {
		return err
	}
	r := make([]byte, len(a))
	for i, x := range a {
		r[i] = byte(x)
	}
	*b = r
	return nil
}

func (b bs) MarshalJSON() ([]byte, error) {
	var buf bytes.Buffer
	buf.WriteByte('[')
	for i, x := range b {
		if i > 0 {
			buf.WriteByte(',')
		}
		buf.WriteString(strconv.Itoa(int(x)))
	}
	buf.WriteByte(']')
	return buf.Bytes(), nil
}

// ---------------------------------------------------------------------------
// scripts: a script is a list of items; every observing item has an id that is
// unique inside the script and is passed to the custom command as first argument.

type itemKind int

const (
	itRaw    itemKind = iota // a script line run as is ("env ...")
	itProbe                  // probe <id> <line>       -> argument vector
	itGetenv                 // probeenv <id> names...  -> TestScript.Getenv
	itChild                  // exec <self> envdump ; probeout <id> -> environment of an executed program
)

type item struct {
	kind   itemKind
	text   []byte   // itRaw: the line; itProbe: the text after "probe <id> "
	names  []string // itGetenv
	lineno int      // script line number (of the exec line for itChild)
	ref    int      // caller's handle
}

type script struct {
	name  string
	items []item
	obs   *observation
}

type observation struct {
	mu       sync.Mutex
	probes   map[int][]string
	snaps    map[int]map[string]string // probe id -> Getenv snapshot (random mode)
	getenv   map[int]map[string]string
	child    map[int][]string
	fails    map[int]string // script line number -> message of the FAIL line
	log      string
	failed   bool
	skipped  bool
	panicked interface{}
	done     bool
	rogue    []string // custom command calls whose id could not be read
}

func newObservation() *observation {
	return &observation{probes: map[int][]string{}, snaps: map[int]map[string]string{}, getenv: map[int]map[string]string{},
		child: map[int][]string{}, fails: map[int]string{}}
}

var selfPath string

func plainWord(s string) bool {
	if s == "" {
		return false
	}
	for i := 0; i < len(s); i++ {
		c := s[i]
		if !(c == '/' || c == '.' || c == '_' || c == '-' || c == '+' || '0' <= c && c <= '9' || 'a' <= c && c <= 'z' || 'A' <= c && c <= 'Z') {
			return false
		}
	}
	return true
}

// quoteWord is only used for words the harness itself needs in a script (helper
// path, names given to probeenv), never for the cases under test.
func quoteWord(s string) string {
	if plainWord(s) {
		return s
	}
	return "'" + strings.ReplaceAll(s, "'", "''") + "'"
}

// text renders the script and fills in the line numbers.
func (sc *script) text() []byte {
	var b bytes.Buffer
	n := 0
	for i := range sc.items {
		it := &sc.items[i]
		n++
		it.lineno = n
		switch it.kind {
		case itRaw:
			b.Write(it.text)
			b.WriteByte('\n')
		case itProbe:
			// the command word is a word like any other, and it starts at column 0: it is spelled with and without
			// quoted chunks, with an unquoted piece in front of, between and behind them
			fmt.Fprintf(&b, "%s %d ", []string{"probe", "'probe'", "p'robe'", "pro'b'e", "'p'robe", "pr''obe"}[i%6], i)
			b.Write(it.text)
			b.WriteByte('\n')
		case itGetenv:
			fmt.Fprintf(&b, "probeenv %d", i)
			for _, nm := range it.names {
				b.WriteByte(' ')
				b.WriteString(quoteWord(nm))
			}
			b.WriteByte('\n')
		case itChild:
			if i%2 == 1 {
				// a program started in the background is an executed program too: same environment
				fmt.Fprintf(&b, "exec %s envdump &\nwait\nprobeout %d\n", quoteWord(selfPath), i)
				n += 2
			} else {
				fmt.Fprintf(&b, "exec %s envdump\nprobeout %d\n", quoteWord(selfPath), i)
				n++
			}
		}
	}
	return b.Bytes()
}

// ---------------------------------------------------------------------------
// a recording testscript.T

type sentinel struct{ what string }

var (
	failSentinel = &sentinel{"fail"}
	skipSentinel = &sentinel{"skip"}
)

type recT struct {
	root *rootT
	obs  *observation // nil for the root
}

type rootT struct {
	mu      sync.Mutex
	wg      sync.WaitGroup
	sem     chan struct{}
	scripts map[string]*script
	logs    []string
	failed  bool
}

func (t *recT) Skip(a ...interface{}) {
	if t.obs != nil {
		t.obs.skipped = true
	}
	panic(skipSentinel)
}
func (t *recT) Fatal(a ...interface{}) { t.Log(a...); t.FailNow() }
func (t *recT) Parallel()              {}
func (t *recT) Verbose() bool          { return false }
func (t *recT) Log(a ...interface{}) {
	s := fmt.Sprint(a...)
	if t.obs != nil {
		t.obs.mu.Lock()
		t.obs.log += s
		t.obs.mu.Unlock()
		return
	}
	t.root.mu.Lock()
	t.root.logs = append(t.root.logs, s)
	t.root.mu.Unlock()
}
func (t *recT) FailNow() {
	if t.obs != nil {
		t.obs.failed = true
	} else {
		t.root.failed = true
	}
	panic(failSentinel)
}
func (t *recT) Run(name string, f func(testscript.T)) {
	sc := t.root.scripts[name]
	var obs *observation
	if sc != nil {
		obs = sc.obs
	} else {
		obs = newObservation()
	}
	child := &recT{root: t.root, obs: obs}
	t.root.wg.Add(1)
	t.root.sem <- struct{}{}
	go func() {
		defer func() {
			if r := recover(); r != nil && r != failSentinel && r != skipSentinel {
				obs.panicked = fmt.Sprint(r)
			}
			obs.done = true
			<-t.root.sem
			t.root.wg.Done()
		}()
		f(child)
	}()
}

// runScripts writes the scripts into dir and drives them through the real
// testscript.RunT with the recording T and the probe commands.
func runScripts(dir string, scripts []*script, snapNames []string) error {
	if err := os.MkdirAll(dir, 0o777); err != nil {
		return err
	}
	root := &rootT{sem: make(chan struct{}, runtime.NumCPU()), scripts: map[string]*script{}}
	for _, sc := range scripts {
		sc.obs = newObservation()
		root.scripts[sc.name] = sc
		if err := os.WriteFile(filepath.Join(dir, sc.name+".txt"), sc.text(), 0o666); err != nil {
			return err
		}
	}
	obsOf := func(ts *testscript.TestScript) *observation {
		if sc := root.scripts[ts.Name()]; sc != nil {
			return sc.obs
		}
		return nil
	}
	ident := func(o *observation, cmd string, args []string) (int, bool) {
		if len(args) >= 1 {
			if n, err := strconv.Atoi(args[0]); err == nil && n >= 0 {
				return n, true
			}
		}
		o.mu.Lock()
		if len(o.rogue) < 5 {
			o.rogue = append(o.rogue, fmt.Sprintf("%s %q", cmd, args))
		}
		o.mu.Unlock()
		return 0, false
	}
	params := testscript.Params{
		Dir:             dir,
		ContinueOnError: true,
		Cmds: map[string]func(ts *testscript.TestScript, neg bool, args []string){
			"probe": func(ts *testscript.TestScript, neg bool, args []string) {
				o := obsOf(ts)
				if o == nil {
					return
				}
				id, ok := ident(o, "probe", args)
				if !ok {
					return
				}
				cp := append([]string{}, args[1:]...)
				var snap map[string]string
				if len(snapNames) > 0 {
					snap = make(map[string]string, len(snapNames))
					for _, nm := range snapNames {
						snap[nm] = ts.Getenv(nm)
					}
				}
				o.mu.Lock()
				o.probes[id] = cp
				if snap != nil {
					o.snaps[id] = snap
				}
				o.mu.Unlock()
			},
			"probeenv": func(ts *testscript.TestScript, neg bool, args []string) {
				o := obsOf(ts)
				if o == nil {
					return
				}
				id, ok := ident(o, "probeenv", args)
				if !ok {
					return
				}
				m := map[string]string{}
				for _, nm := range args[1:] {
					m[nm] = ts.Getenv(nm)
				}
				o.mu.Lock()
				o.getenv[id] = m
				o.mu.Unlock()
			},
			"probeout": func(ts *testscript.TestScript, neg bool, args []string) {
				o := obsOf(ts)
				if o == nil {
					return
				}
				id, ok := ident(o, "probeout", args)
				if !ok {
					return
				}
				var env []string
				for _, l := range strings.Split(ts.ReadFile("stdout"), "\n") {
					if l == "" {
						continue
					}
					b, err := hex.DecodeString(l)
					if err != nil {
						continue
					}
					env = append(env, string(b))
				}
				o.mu.Lock()
				o.child[id] = env
				o.mu.Unlock()
			},
		},
	}
	rt := &recT{root: root}
	var rootPanic interface{}
	func() {
		defer func() {
			if r := recover(); r != nil && r != failSentinel && r != skipSentinel {
				rootPanic = r
			}
		}()
		testscript.RunT(rt, params)
	}()
	root.wg.Wait()
	if rootPanic != nil {
		return fmt.Errorf("testscript.RunT panicked: %v", rootPanic)
	}
	if root.failed {
		return fmt.Errorf("testscript.RunT failed before running the scripts: %s", strings.Join(root.logs, " | "))
	}
	// FAIL lines of the logs: "FAIL: <file>:<line>: message"
	for _, sc := range scripts {
		if !sc.obs.done {
			return fmt.Errorf("script %s was not run", sc.name)
		}
		prefix := "FAIL: " + filepath.Join(dir, sc.name+".txt") + ":"
		for _, l := range strings.Split(sc.obs.log, "\n") {
			if !strings.HasPrefix(l, prefix) {
				continue
			}
			rest := l[len(prefix):]
			k := strings.IndexByte(rest, ':')
			if k < 0 {
				continue
			}
			if n, err := strconv.Atoi(rest[:k]); err == nil {
				if _, dup := sc.obs.fails[n]; !dup {
					sc.obs.fails[n] = strings.TrimSpace(rest[k+1:])
				}
			}
		}
		sc.obs.log = ""
	}
	return nil
}

// ---------------------------------------------------------------------------
// does the pattern denote exactly {val}?  ("exact", "inexact", "undecided")

var metaRE = regexp.MustCompile(`[\\.+*?()|\[\]{}^$]`)

func literalOf(pat string) (string, bool) {
	// inverse of an escaping that puts one backslash before punctuation
	var b strings.Builder
	for i := 0; i < len(pat); i++ {
		c := pat[i]
		if c == '\\' {
			if i+1 >= len(pat) {
				return "", false
			}
			n := pat[i+1]
			if n < 0x80 && !(n == '_' || '0' <= n && n <= '9' || 'a' <= n && n <= 'z' || 'A' <= n && n <= 'Z') {
				b.WriteByte(n)
				i++
				continue
			}
			return "", false
		}
		if metaRE.MatchString(string(c)) {
			return "", false
		}
		b.WriteByte(c)
	}
	return b.String(), true
}

func denotesExactly(pat, val string) (verdict string, why string) {
	re, err := regexp.Compile("^(?:" + pat + ")$")
	if err != nil {
		if lit, ok := literalOf(pat); ok && lit == val {
			// a literal pattern Go's regexp cannot compile (invalid UTF-8 in the value): nothing to judge
			return "undecided", "value is not valid UTF-8"
		}
		return "inexact", "does not compile: " + err.Error()
	}
	if !re.MatchString(val) {
		return "inexact", "does not match the value"
	}
	if lit, ok := literalOf(pat); ok {
		if lit == val {
			return "exact", ""
		}
		return "inexact", fmt.Sprintf("is the literal %q", lit)
	}
	// not a plain literal: probe the neighbourhood of the value
	probes := []string{val + "x", "x" + val, val + val, ""}
	if len(val) > 0 {
		probes = append(probes, val[:len(val)-1], val[1:])
		for i := 0; i < len(val); i++ {
			probes = append(probes, val[:i]+"x"+val[i+1:], val[:i]+"\\"+val[i:], val[:i]+val[i+1:])
		}
	}
	for _, p := range probes {
		if p != val && re.MatchString(p) {
			return "inexact", fmt.Sprintf("also matches %q", p)
		}
	}
	return "undecided", "not a literal pattern, matches the value and none of its neighbours"
}
