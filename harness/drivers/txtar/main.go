// Driver for C03 / C14: replays TLC-generated cases into the real txtar package
// and records real behaviour on random inputs for validation by TLC.
package main

import (
	"bytes"
	"encoding/json"
	"flag"
	"fmt"
	"unicode/utf8"

	"verifharness/vutil"

	"github.com/rogpeppe/go-internal/txtar"
	xtxtar "golang.org/x/tools/txtar"
)

type fileJ struct {
	Name []int `json:"name"`
	Data []int `json:"data"`
}

type caseJ struct {
	Input      []int   `json:"input"`
	Comment    []int   `json:"comment"`
	Files      []fileJ `json:"files"`
	NeedsQuote bool    `json:"needsQuote"`
	Quotable   bool    `json:"quotable"`
	Quoted     []int   `json:"quoted"`
}

type arch struct {
	Comment []byte
	Names   []string
	Datas   [][]byte
}

func fromReal(a *txtar.Archive) arch {
	r := arch{Comment: a.Comment}
	for _, f := range a.Files {
		r.Names = append(r.Names, f.Name)
		r.Datas = append(r.Datas, f.Data)
	}
	return r
}

func (c *caseJ) expect() arch {
	r := arch{Comment: vutil.Bytes(c.Comment)}
	for _, f := range c.Files {
		r.Names = append(r.Names, string(vutil.Bytes(f.Name)))
		r.Datas = append(r.Datas, vutil.Bytes(f.Data))
	}
	return r
}

func (a arch) equal(b arch) bool {
	if !bytes.Equal(a.Comment, b.Comment) || len(a.Names) != len(b.Names) {
		return false
	}
	for i := range a.Names {
		if a.Names[i] != b.Names[i] || !bytes.Equal(a.Datas[i], b.Datas[i]) {
			return false
		}
	}
	return true
}

func (a arch) json() map[string]interface{} {
	fs := []interface{}{}
	for i := range a.Names {
		fs = append(fs, map[string]interface{}{"name": a.Names[i], "data": string(a.Datas[i])})
	}
	return map[string]interface{}{"comment": string(a.Comment), "files": fs}
}

// specJSON renders an archive in the representation Trace_Txtar.tla reads.
func (a arch) specJSON() map[string]interface{} {
	fs := []interface{}{}
	for i := range a.Names {
		fs = append(fs, map[string]interface{}{"name": vutil.Ints([]byte(a.Names[i])), "data": vutil.Ints(a.Datas[i])})
	}
	return map[string]interface{}{"comment": vutil.Ints(a.Comment), "files": fs}
}

// guarded hands a function its argument as the front part of a larger buffer (the capacity of the slice reaches into
// the guard bytes, as it does when a caller passes part of a file it has read); check reports whether the argument and
// the bytes behind it are what they were.  None of the functions under test may write to either.
var guardBytes = []byte(" -- g --\n>-- g --\n")

var guardRes *vutil.Result

func guarded(fn string, in []byte) (arg []byte, check func()) {
	buf := make([]byte, 0, len(in)+len(guardBytes))
	buf = append(append(buf, in...), guardBytes...)
	orig := append([]byte(nil), in...)
	return buf[:len(in)], func() {
		if guardRes == nil || (bytes.Equal(buf[:len(in)], orig) && bytes.Equal(buf[len(in):], guardBytes)) {
			return
		}
		guardRes.Violate(vutil.Finding{Kind: "argument-or-neighbour-modified", Class: fn + ":" + string(orig),
			What: fmt.Sprintf("txtar.%s(%q) wrote to its argument or to the caller's bytes behind it: the buffer %q became %q",
				fn, orig, string(orig)+string(guardBytes), buf),
			Input: inputDesc(orig)})
	}
}

func safeParse(in []byte) (a arch, panicked interface{}) {
	defer func() {
		if r := recover(); r != nil {
			panicked = fmt.Sprint(r)
		}
	}()
	arg, check := guarded("Parse", in)
	defer check()
	return fromReal(txtar.Parse(arg)), nil
}

func safeNeedsQuote(in []byte) (v bool, panicked interface{}) {
	defer func() {
		if r := recover(); r != nil {
			panicked = fmt.Sprint(r)
		}
	}()
	arg, check := guarded("NeedsQuote", in)
	defer check()
	return txtar.NeedsQuote(arg), nil
}

func safeQuote(in []byte) (q []byte, err error, panicked interface{}) {
	defer func() {
		if r := recover(); r != nil {
			panicked = fmt.Sprint(r)
		}
	}()
	arg, check := guarded("Quote", in)
	defer check()
	q, err = txtar.Quote(arg)
	// what was returned stays what it is: a later call on the same goroutine must not reach into an earlier result
	txtar.Quote(decoyBody)
	return q, err, nil
}

var decoyBody = []byte("decoy\n-- decoy --\ndecoy decoy decoy decoy\n-- d --\n")
var decoyArchive = &txtar.Archive{Comment: []byte("decoy comment\n"), Files: []txtar.File{{Name: "decoy/a", Data: []byte("decoy a\n")}, {Name: "decoy/b", Data: []byte("decoy b\ndecoy b\n")}}}

func safeUnquote(in []byte) (q []byte, err error, panicked interface{}) {
	defer func() {
		if r := recover(); r != nil {
			panicked = fmt.Sprint(r)
		}
	}()
	arg, check := guarded("Unquote", in)
	defer check()
	q, err = txtar.Unquote(arg)
	txtar.Unquote([]byte(">decoy\n>-- decoy --\n>decoy decoy decoy\n"))
	return q, err, nil
}

func toReal(a arch) *txtar.Archive {
	r := &txtar.Archive{Comment: a.Comment}
	for i := range a.Names {
		r.Files = append(r.Files, txtar.File{Name: a.Names[i], Data: a.Datas[i]})
	}
	return r
}

func safeFormat(a arch) (out []byte, panicked interface{}) {
	defer func() {
		if r := recover(); r != nil {
			panicked = fmt.Sprint(r)
		}
	}()
	r := toReal(a)
	for i := range r.Files {
		arg, check := guarded("Format: file data ", r.Files[i].Data)
		defer check()
		r.Files[i].Data = arg
	}
	carg, ccheck := guarded("Format: comment ", r.Comment)
	defer ccheck()
	if r.Comment != nil {
		r.Comment = carg
	}
	out = txtar.Format(r)
	txtar.Format(decoyArchive)
	return out, nil
}

// crClass: "none" no CR; "crlf" every CR is immediately followed by LF; "other".
func crClass(in []byte) string {
	if !bytes.Contains(in, []byte{'\r'}) {
		return "none"
	}
	for i, b := range in {
		if b == '\r' && (i+1 >= len(in) || in[i+1] != '\n') {
			return "other"
		}
	}
	return "crlf"
}

func fixNL(d []byte) []byte {
	if len(d) == 0 || d[len(d)-1] == '\n' {
		return d
	}
	return append(append([]byte{}, d...), '\n')
}

func inputDesc(in []byte) map[string]interface{} {
	return map[string]interface{}{"text": string(in), "bytes": vutil.Ints(in)}
}

// ---- C03 laws on one input; exp == nil when no spec prediction is available ----
func checkC03(res *vutil.Result, in []byte, exp *arch) {
	cls := crClass(in)
	got, p := safeParse(in)
	nontrivial := bytes.Contains(in, []byte("--"))
	res.Eval(nontrivial)
	if p != nil {
		res.Violate(vutil.Finding{Kind: "parse-panic", Class: string(in), What: fmt.Sprintf("txtar.Parse(%q) panics: %v", in, p), Input: inputDesc(in)})
		return
	}
	// re-parse stability with the real Format and the real Parse
	f, p := safeFormat(got)
	if p != nil {
		res.Violate(vutil.Finding{Kind: "format-panic", Class: string(in), What: fmt.Sprintf("txtar.Format(Parse(%q)) panics: %v", in, p), Input: inputDesc(in)})
		return
	}
	again, p := safeParse(f)
	if p != nil {
		res.Violate(vutil.Finding{Kind: "parse-panic", Class: string(f), What: fmt.Sprintf("txtar.Parse(%q) panics: %v", f, p), Input: inputDesc(f)})
		return
	}
	if !again.equal(got) {
		res.Violate(vutil.Finding{Kind: "reparse-unstable", Class: string(in),
			What:   fmt.Sprintf("Parse(Format(Parse(%q))) differs from Parse(%q)", in, in),
			Input:  inputDesc(in),
			Detail: map[string]interface{}{"first": got.json(), "formatted": string(f), "second": again.json()}})
	}
	// data of every parsed file is empty or newline terminated
	for i, d := range got.Datas {
		if len(d) > 0 && d[len(d)-1] != '\n' {
			res.Violate(vutil.Finding{Kind: "data-not-nl-terminated", Class: string(in),
				What: fmt.Sprintf("Parse(%q): file %q data not newline terminated", in, got.Names[i]), Input: inputDesc(in)})
		}
	}
	if cls == "none" {
		ref := arch{}
		xa := xtxtar.Parse(in)
		ref.Comment = xa.Comment
		for _, f := range xa.Files {
			ref.Names = append(ref.Names, f.Name)
			ref.Datas = append(ref.Datas, f.Data)
		}
		if exp != nil && !ref.equal(*exp) {
			// the reference named by the statement disagrees with the specification:
			// a specification bug, never a code verdict
			res.Count("spec_vs_xtools_disagreements", 1)
			res.DriftAdd(vutil.Finding{Kind: "spec-vs-xtools", What: fmt.Sprintf("spec and x/tools disagree on %q", in), Input: inputDesc(in)})
		}
		if !got.equal(ref) {
			res.Violate(vutil.Finding{Kind: "differs-from-xtools", Class: string(in),
				What:   fmt.Sprintf("Parse(%q) differs from golang.org/x/tools/txtar on CR-free input", in),
				Input:  inputDesc(in),
				Detail: map[string]interface{}{"got": got.json(), "xtools": ref.json()}})
		}
		res.Count("xtools_compared", 1)
	}
	if exp != nil && !got.equal(*exp) {
		f := vutil.Finding{Kind: "differs-from-spec", Class: string(in),
			What:   fmt.Sprintf("Parse(%q) differs from the reference semantics", in),
			Input:  inputDesc(in),
			Detail: map[string]interface{}{"got": got.json(), "spec": exp.json(), "cr_class": cls}}
		if cls == "crlf" {
			// statement: a marker line ending in CRLF is recognised exactly like one ending in LF
			f.Kind = "crlf-marker-not-like-lf"
			res.Violate(f)
		} else if cls == "other" {
			res.DriftAdd(f)
		}
		// cls == "none": already judged against x/tools, which is the named reference
	}
}

// ---- C14 laws on one body ----
func checkC14(res *vutil.Result, d []byte, c *caseJ) {
	nontrivial := bytes.Contains(d, []byte("--")) || bytes.Contains(d, []byte(">"))
	res.Eval(nontrivial)
	nq, p := safeNeedsQuote(d)
	if p != nil {
		res.Violate(vutil.Finding{Kind: "needsquote-panic", Class: string(d), What: fmt.Sprintf("txtar.NeedsQuote(%q) panics: %v", d, p), Input: inputDesc(d)})
	} else {
		// exactness against the real parser: does storing d as a body change the parse?
		one := arch{Names: []string{"x"}, Datas: [][]byte{d}}
		f, p1 := safeFormat(one)
		var back arch
		var p2 interface{}
		if p1 == nil {
			back, p2 = safeParse(f)
		}
		if p1 == nil && p2 == nil {
			want := arch{Comment: nil, Names: []string{"x"}, Datas: [][]byte{fixNL(d)}}
			changes := !back.equal(want)
			if changes != nq {
				res.Violate(vutil.Finding{Kind: "needsquote-inexact", Class: string(d),
					What:   fmt.Sprintf("NeedsQuote(%q) = %v but storing it as a file body changes the parse = %v", d, nq, changes),
					Input:  inputDesc(d),
					Detail: map[string]interface{}{"formatted": string(f), "parsed_back": back.json()}})
			}
		}
		if c != nil && nq != c.NeedsQuote && crClass(d) != "other" {
			res.Violate(vutil.Finding{Kind: "needsquote-differs-from-spec", Class: string(d),
				What:  fmt.Sprintf("NeedsQuote(%q) = %v, the body %s a marker line", d, nq, map[bool]string{true: "contains", false: "does not contain"}[c.NeedsQuote]),
				Input: inputDesc(d)})
		}
	}
	q, err, p := safeQuote(d)
	if p != nil {
		res.Violate(vutil.Finding{Kind: "quote-panic", Class: string(d), What: fmt.Sprintf("txtar.Quote(%q) panics: %v", d, p), Input: inputDesc(d)})
		return
	}
	quotable := (len(d) == 0 || d[len(d)-1] == '\n') && utf8.Valid(d)
	if err != nil {
		if quotable {
			res.DriftAdd(vutil.Finding{Kind: "quote-refuses-representable", What: fmt.Sprintf("Quote(%q) fails: %v", d, err), Input: inputDesc(d)})
		}
		return
	}
	res.Count("quote_accepted", 1)
	if !quotable {
		res.DriftAdd(vutil.Finding{Kind: "quote-accepts-more", What: fmt.Sprintf("Quote(%q) accepted", d), Input: inputDesc(d)})
	}
	if c != nil && c.Quotable && !bytes.Equal(q, vutil.Bytes(c.Quoted)) {
		res.DriftAdd(vutil.Finding{Kind: "quote-differs-from-spec", What: fmt.Sprintf("Quote(%q) = %q", d, q), Input: inputDesc(d)})
	}
	u, uerr, p := safeUnquote(q)
	if p != nil {
		res.Violate(vutil.Finding{Kind: "unquote-panic", Class: string(d), What: fmt.Sprintf("Unquote(Quote(%q)) panics: %v", d, p), Input: inputDesc(d)})
		return
	}
	if uerr != nil || !bytes.Equal(u, d) {
		res.Violate(vutil.Finding{Kind: "unquote-not-inverse", Class: string(d),
			What:  fmt.Sprintf("Unquote(Quote(%q)) = %q, %v", d, u, uerr),
			Input: inputDesc(d), Detail: map[string]interface{}{"quoted": string(q)}})
	}
	if nq2, p := safeNeedsQuote(q); p != nil || nq2 {
		res.Violate(vutil.Finding{Kind: "quoted-needs-quote", Class: string(d),
			What:  fmt.Sprintf("NeedsQuote(Quote(%q)) = %v (panic %v)", d, nq2, p),
			Input: inputDesc(d), Detail: map[string]interface{}{"quoted": string(q)}})
	}
	one := arch{Names: []string{"x"}, Datas: [][]byte{q}}
	f, p1 := safeFormat(one)
	if p1 == nil {
		back, p2 := safeParse(f)
		if p2 != nil || !back.equal(arch{Names: []string{"x"}, Datas: [][]byte{q}}) {
			res.Violate(vutil.Finding{Kind: "quoted-does-not-survive", Class: string(d),
				What:  fmt.Sprintf("Quote(%q) = %q does not survive Format/Parse", d, q),
				Input: inputDesc(d), Detail: map[string]interface{}{"parsed_back": back.json()}})
		}
	}
}

func main() {
	mode := flag.String("mode", "replay", "replay | archives | random")
	prop := flag.String("prop", "C03", "C03 | C14")
	cases := flag.String("cases", "", "ndjson of TLC-emitted cases")
	out := flag.String("out", "result.json", "result file")
	trace := flag.String("trace", "", "ndjson trace to write (random mode)")
	n := flag.Int("n", 2000, "number of random inputs")
	maxlen := flag.Int("maxlen", 120, "maximum length of random inputs")
	flag.Parse()
	res := vutil.NewResult()
	guardRes = res
	switch *mode {
	case "replay":
		vutil.ParallelLines(*cases, func(line []byte) {
			var c caseJ
			if err := json.Unmarshal(line, &c); err != nil {
				vutil.Fatalf("bad case %s: %v", line, err)
			}
			in := vutil.Bytes(c.Input)
			if *prop == "C03" {
				e := c.expect()
				checkC03(res, in, &e)
			} else {
				checkC14(res, in, &c)
			}
			if len(in) >= 5 && bytes.Contains(in, []byte("-- ")) {
				res.Sample(map[string]interface{}{"input": string(in), "spec_files": len(c.Files), "spec_needs_quote": c.NeedsQuote}, 5)
			}
		})
	case "archives":
		// well-formed archives generated by TLC: Parse(Format(a)) = a
		vutil.ParallelLines(*cases, func(line []byte) {
			var c caseJ
			if err := json.Unmarshal(line, &c); err != nil {
				vutil.Fatalf("bad case %s: %v", line, err)
			}
			a := c.expect()
			res.Eval(len(a.Names) > 0)
			f, p := safeFormat(a)
			if p != nil {
				res.Violate(vutil.Finding{Kind: "format-panic", What: fmt.Sprintf("Format panics: %v", p), Input: a.json()})
				return
			}
			back, p := safeParse(f)
			if p != nil {
				res.Violate(vutil.Finding{Kind: "parse-panic", Class: string(f), What: fmt.Sprintf("Parse(%q) panics: %v", f, p), Input: inputDesc(f)})
				return
			}
			if !back.equal(a) {
				res.Violate(vutil.Finding{Kind: "roundtrip-wellformed", Class: string(f),
					What:  fmt.Sprintf("Parse(Format(a)) != a for well-formed a, Format(a) = %q", f),
					Input: a.json(), Detail: map[string]interface{}{"parsed_back": back.json()}})
			}
			if !bytes.Equal(f, vutil.Bytes(c.Input)) {
				res.DriftAdd(vutil.Finding{Kind: "format-differs-from-spec", What: fmt.Sprintf("Format = %q", f), Input: a.json()})
			}
			res.Sample(map[string]interface{}{"archive": a.json(), "formatted": string(f)}, 3)
		})
	case "random":
		w := vutil.NewNDJSONWriter(*trace)
		rng := vutil.Rand(int64(len(*prop)))
		inputs := make([][]byte, *n)
		for i := range inputs {
			inputs[i] = randomInput(rng, *maxlen)
		}
		vutil.ParallelN(*n, func(i int) {
			in := inputs[i]
			if *prop == "C03" {
				checkC03(res, in, nil)
			} else {
				checkC14(res, in, nil)
			}
			// the record TLC validates against the specification
			got, p := safeParse(in)
			nq, p2 := safeNeedsQuote(in)
			rec := map[string]interface{}{"input": vutil.Ints(in), "panic": p != nil || p2 != nil, "cr": crClass(in),
				"needsQuote": nq, "arch": got.specJSON()}
			w.Write(rec)
			if i < 3 {
				res.Sample(map[string]interface{}{"random_input": string(in)}, 8)
			}
		})
		w.Close()
		if *prop == "C03" {
			// marker names with Unicode white space around them: judged against golang.org/x/tools/txtar (the reference the
			// statement names), Format/Parse stability and totality; the byte-wise specification is not consulted
			us := make([][]byte, *n/4)
			for i := range us {
				us[i] = randomUspaceInput(rng, *maxlen)
			}
			vutil.ParallelN(len(us), func(i int) { checkC03(res, us[i], nil) })
			res.Count("unicode_space_inputs", int64(len(us)))
		}
	default:
		vutil.Fatalf("unknown mode %s", *mode)
	}
	res.Write(*out)
}
