package main

import "math/rand"

// fragments from which random inputs are assembled; multi-byte Unicode white
// space (lead bytes 0xC2, 0xE1, 0xE2, 0xE3) is deliberately absent because the
// specification models strings.TrimSpace on the ASCII subset only.
var frags = []string{
	"-- ", " --", "--", "-- x --", "-- a/b.txt --", "--  y  --", "-- --", "--  --", "-", " ",
	"\n", "\n", "\n", "\r\n", "\r", ">", ">", "x", "hello", "\t", "\x00", "\xff", "\xc3\xa9", "-- x --\r", "-- z -- ",
	" -- w --", "--x --", "-- x--",
}

func randomInput(r *rand.Rand, maxlen int) []byte {
	n := r.Intn(maxlen + 1)
	var b []byte
	for len(b) < n {
		b = append(b, frags[r.Intn(len(frags))]...)
	}
	if len(b) > n && r.Intn(2) == 0 {
		b = b[:n]
	}
	return b
}
