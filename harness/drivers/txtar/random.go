package main

import "math/rand"

// fragments from which random inputs are assembled; multi-byte Unicode white
// space (lead bytes 0xC2, 0xE1, 0xE2, 0xE3) is deliberately absent because the
// specification models strings.TrimSpace on the ASCII subset only.
var frags = []string{
	"-- ", " --", "--", "-- x --", "-- a/b.txt --", "--  y  --", "-- --", "--  --", "-", " ",
	"\n", "\n", "\n", "\r\n", "\r", ">", ">", "x", "hello", "\t", "\x00", "\xff", "\xc3\xa9", "-- x --\r", "-- z -- ",
	" -- w --", "--x --", "-- x--", "-- a\\b --", "\\", "-- C:\\d\\f.txt --", "-- -rf --", "-- a- --", "-- - --",
}

// fragments with Unicode white space (which strings.TrimSpace strips and the byte-wise specification does not model):
// inputs built from them are judged against the reference implementation only, not by TLC
var uspaceFrags = []string{
	"-- ", " --", "\n", "\n", "x", "-- x --", "--  --",
	"\u00a0", "\u0085", "\u2003", "\u3000", "\u1680", "\u2028", "\ufeff", "\u200b",
	"-- \u00a0 --", "-- \u00a0go.mod --", "-- go.mod\u3000 --", "-- \u2003a\u2003b\u2003 --", "-- \u0085 --", "-- \ufeffx --",
}

func randomUspaceInput(r *rand.Rand, maxlen int) []byte {
	n := r.Intn(maxlen + 1)
	var b []byte
	for len(b) < n {
		b = append(b, uspaceFrags[r.Intn(len(uspaceFrags))]...)
	}
	return b
}

func randomInput(r *rand.Rand, maxlen int) []byte {
	n := r.Intn(maxlen + 1)
	var b []byte
	for len(b) < n {
		b = append(b, frags[r.Intn(len(frags))]...)
	}
	if len(b) > n && r.Intn(2) == 0 {
		b = b[:n]
	}
	return b
}
