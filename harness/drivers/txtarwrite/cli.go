package main

import (
	"bytes"
	"encoding/json"
	"errors"
	"fmt"
	"math/rand"
	"os"
	"os/exec"
	"path/filepath"
	"sort"
	"strings"
	"sync/atomic"

	"verifharness/vutil"

	"github.com/rogpeppe/go-internal/txtar"
)

func sortStrings(s []string) { sort.Strings(s) }

// ---- the TLC side of the interface (MC_TxtarCli.tla / Trace_TxtarCli.tla) ----

type cfileJ struct {
	Name     []int `json:"name"`
	Data     []int `json:"data"`
	Eligible bool  `json:"eligible"`
	Quoted   bool  `json:"quoted"`
}

type cexpJ struct {
	Name []int `json:"name"`
	Data []int `json:"data"`
}

type ccaseJ struct {
	Files   []cfileJ `json:"files"`
	All     bool     `json:"all"`
	Quote   bool     `json:"quote"`
	Archive []int    `json:"archive"`
	Unquote [][]int  `json:"unquote"`
	Expect  []cexpJ  `json:"expect"`
}

type srcFile struct {
	name string
	data []byte
}

type cliRun struct {
	cexit, xexit   int
	cerr, xerr     string
	archive        []byte
	out            map[string]node // files and directories found after extraction
	strayChanges   []string        // changes of the case directory outside out/
	cform, xform   int
	cargs, xargs   []string
}

func exitCode(err error, bin string) int {
	if err == nil {
		return 0
	}
	var ee *exec.ExitError
	if !errors.As(err, &ee) {
		vutil.Fatalf("cannot run %s: %v", bin, err)
	}
	return ee.ExitCode()
}

// roundTrip materialises the tree, runs the real txtar-c on it and the real txtar-x on
// what txtar-c printed.  k selects one of the ways the two commands can be invoked.
func roundTrip(sb *sandboxes, cbin, xbin string, files []srcFile, all, quote bool, k int) cliRun {
	root := sb.next()
	defer os.RemoveAll(root)
	src := filepath.Join(root, "src")
	if err := os.MkdirAll(src, 0o777); err != nil {
		vutil.Fatalf("mkdir: %v", err)
	}
	for _, f := range files {
		mustWrite(filepath.Join(src, filepath.FromSlash(f.name)), f.data)
	}
	// a decoy next to the extraction directory that must stay as it is
	mustWrite(filepath.Join(root, "decoy", "a"), []byte("decoy\n"))
	before := snapshot(root)

	var r cliRun
	r.cform, r.xform = k%5, (k/5)%4
	var flags []string
	if all {
		flags = append(flags, "-a")
	}
	if quote {
		flags = append(flags, "-quote")
	}
	var c *exec.Cmd
	switch r.cform {
	case 0:
		c = exec.Command(cbin, append(flags, src)...)
		c.Dir = root
	case 1:
		c = exec.Command(cbin, append(flags, "src")...)
		c.Dir = root
	case 2:
		c = exec.Command(cbin, append(flags, "src/")...)
		c.Dir = root
	case 3:
		c = exec.Command(cbin, append(flags, ".")...)
		c.Dir = src
	default:
		c = exec.Command(cbin, append(flags, "./decoy/../src")...)
		c.Dir = root
	}
	r.cargs = c.Args[1:]
	var stdout, stderr bytes.Buffer
	c.Stdout, c.Stderr = &stdout, &stderr
	r.cexit = exitCode(c.Run(), cbin)
	r.cerr = stderr.String()
	r.archive = stdout.Bytes()
	if r.cexit != 0 {
		return r
	}
	arfile := filepath.Join(root, "saved.txtar")
	mustWrite(arfile, r.archive)
	outdir := filepath.Join(root, "out")
	var x *exec.Cmd
	switch r.xform {
	case 0: // -C to a directory that does not exist yet
		x = exec.Command(xbin, "-C", "out", "saved.txtar")
		x.Dir = root
	case 1: // archive on standard input
		x = exec.Command(xbin, "-C", outdir)
		x.Dir = root
		x.Stdin = bytes.NewReader(r.archive)
	case 2: // default directory "."
		if err := os.MkdirAll(outdir, 0o777); err != nil {
			vutil.Fatalf("mkdir: %v", err)
		}
		x = exec.Command(xbin, arfile)
		x.Dir = outdir
	default: // nested missing directories
		outdir = filepath.Join(root, "out", "x", "y")
		x = exec.Command(xbin, "-C", "out/x/y", "saved.txtar")
		x.Dir = root
	}
	r.xargs = x.Args[1:]
	var xerr bytes.Buffer
	x.Stdout, x.Stderr = &xerr, &xerr
	r.xexit = exitCode(x.Run(), xbin)
	r.xerr = xerr.String()
	r.out = snapshot(outdir)
	after := snapshot(root)
	for _, p := range changed(before, after) {
		if p == "saved.txtar" || under(p, "out") {
			continue
		}
		r.strayChanges = append(r.strayChanges, fmt.Sprintf("%s: %s -> %s", p, descr(before[p], has(before, p)), descr(after[p], has(after, p))))
	}
	return r
}

func has(m map[string]node, p string) bool { _, ok := m[p]; return ok }

func dotNamed(name string) bool {
	for _, s := range strings.Split(name, "/") {
		if strings.HasPrefix(s, ".") {
			return true
		}
	}
	return false
}

// unquoteNames: the files an archive's comment lists in "unquote NAME" lines.
func unquoteNames(archive []byte) map[string]bool {
	m := map[string]bool{}
	for _, l := range strings.Split(string(txtar.Parse(archive).Comment), "\n") {
		l = strings.TrimSuffix(l, "\r")
		if strings.HasPrefix(l, "unquote ") && len(l) > 8 {
			m[l[8:]] = true
		}
	}
	return m
}

func safeUnquote(d []byte) (out []byte, err error) {
	defer func() {
		if r := recover(); r != nil {
			err = fmt.Errorf("panic: %v", r)
		}
	}()
	return txtar.Unquote(d)
}

func treeDesc(files []srcFile, all, quote bool) (string, map[string]interface{}) {
	fs := []interface{}{}
	var parts []string
	for _, f := range files {
		fs = append(fs, map[string]interface{}{"name": f.name, "data": string(f.data)})
		parts = append(parts, fmt.Sprintf("%s=%q", f.name, f.data))
	}
	class := fmt.Sprintf("a=%v quote=%v tree{%s}", all, quote, strings.Join(parts, ", "))
	return class, map[string]interface{}{"files": fs, "flag_a": all, "flag_quote": quote}
}

// judgeRoundTrip applies the round-trip half of the statement.  mustArchive says, per
// source file, whether the file has to come back (nil entry = the driver cannot tell
// without the specification; then only "nothing invented, what is there is right"
// is judged and TLC judges the rest on the record).
func judgeRoundTrip(res *vutil.Result, files []srcFile, all, quote bool, mustArchive map[string]bool, allEligible bool, r cliRun) (violated bool) {
	class, in := treeDesc(files, all, quote)
	in["txtar_c_args"] = r.cargs
	in["txtar_x_args"] = r.xargs
	v := func(kind, what string, detail interface{}) {
		violated = true
		violate(res, vutil.Finding{Kind: kind, Class: class, What: what, Input: in, Detail: detail})
	}
	if r.cexit != 0 || r.xexit != 0 {
		what := fmt.Sprintf("round trip fails on %s: txtar-c exit %d %q, txtar-x exit %d %q", class, r.cexit, r.cerr, r.xexit, r.xerr)
		if allEligible {
			v("roundtrip-command-failed", what, map[string]interface{}{"archive": string(r.archive)})
		} else {
			res.DriftAdd(vutil.Finding{Kind: "roundtrip-command-failed-on-unarchivable", What: what, Input: in})
		}
		return
	}
	if len(r.strayChanges) > 0 {
		v("outside-dir", fmt.Sprintf("txtar-c/txtar-x changed paths outside the extraction directory on %s: %s", class, strings.Join(r.strayChanges, "; ")), nil)
	}
	unq := unquoteNames(r.archive)
	src := map[string][]byte{}
	for _, f := range files {
		src[f.name] = f.data
	}
	restored := func(name string, n node) ([]byte, error) {
		if unq[name] {
			return safeUnquote(n.Data)
		}
		return n.Data, nil
	}
	detail := func() interface{} {
		out := map[string]string{}
		for p, n := range r.out {
			if n.Kind == "file" {
				out[p] = string(n.Data)
			} else {
				out[p] = "<" + n.Kind + ">"
			}
		}
		return map[string]interface{}{"archive": string(r.archive), "extracted": out, "txtar_c_stderr": r.cerr}
	}
	for _, f := range files {
		if !mustArchive[f.name] {
			continue
		}
		n, ok := r.out[f.name]
		if !ok || n.Kind != "file" {
			v("file-not-reproduced", fmt.Sprintf("%s: %s is missing after txtar-c | txtar-x", class, f.name), detail())
			continue
		}
		got, err := restored(f.name, n)
		if err != nil || !bytes.Equal(got, fixNL(f.data)) {
			v("content-not-reproduced", fmt.Sprintf("%s: %s comes back as %q (unquote listed: %v, err %v), want %q", class, f.name, trunc(n.Data), unq[f.name], err, trunc(fixNL(f.data))), detail())
		}
	}
	for p, n := range r.out {
		if n.Kind != "file" {
			continue
		}
		d, ok := src[p]
		if !ok {
			v("file-invented", fmt.Sprintf("%s: extraction created %s which is not a file of the tree", class, p), detail())
			continue
		}
		if mustArchive[p] {
			continue // judged above
		}
		got, err := restored(p, n)
		if err != nil || !bytes.Equal(got, fixNL(d)) {
			v("content-not-reproduced", fmt.Sprintf("%s: %s comes back as %q, want %q", class, p, trunc(n.Data), trunc(fixNL(d))), detail())
		}
	}
	return
}

func cliReplay(res *vutil.Result, cases, work, cbin, xbin string, stride int) {
	sb := &sandboxes{work: work}
	if stride < 1 {
		stride = 1
	}
	off := int64(vutil.Seed()) % int64(stride)
	var idx int64
	vutil.ParallelLines(cases, func(line []byte) {
		var c ccaseJ
		if err := json.Unmarshal(line, &c); err != nil {
			vutil.Fatalf("bad case %s: %v", line, err)
		}
		k := atomic.AddInt64(&idx, 1)
		if k%int64(stride) != off {
			return
		}
		var files []srcFile
		must := map[string]bool{}
		allEligible := true
		nontrivial := false
		for _, f := range c.Files {
			sf := srcFile{name: string(vutil.Bytes(f.Name)), data: vutil.Bytes(f.Data)}
			files = append(files, sf)
			must[sf.name] = f.Eligible
			allEligible = allEligible && f.Eligible
			if f.Quoted || dotNamed(sf.name) || strings.Contains(sf.name, "/") || bytes.Contains(sf.data, []byte("--")) {
				nontrivial = true
			}
		}
		res.Eval(nontrivial)
		r := roundTrip(sb, cbin, xbin, files, c.All, c.Quote, int(k/int64(stride))+int(vutil.Seed()))
		res.Count("cli_round_trips", 1)
		bad := judgeRoundTrip(res, files, c.All, c.Quote, must, allEligible, r)
		// conformance with the SaveDir / Extract model: drift only
		if !bad && r.cexit == 0 && r.xexit == 0 {
			class, in := treeDesc(files, c.All, c.Quote)
			if !bytes.Equal(r.archive, vutil.Bytes(c.Archive)) {
				res.Count("model_mismatch", 1)
				res.DriftAdd(vutil.Finding{Kind: "archive-differs-from-model", Class: class, Input: in,
					What:   fmt.Sprintf("txtar-c on %s prints %q, model %q (round trip holds)", class, r.archive, vutil.Bytes(c.Archive)),
					Detail: map[string]interface{}{"txtar_c_stderr": r.cerr}})
			} else {
				exp := map[string][]byte{}
				for _, e := range c.Expect {
					exp[string(vutil.Bytes(e.Name))] = vutil.Bytes(e.Data)
				}
				same := true
				nfiles := 0
				for p, n := range r.out {
					if n.Kind == "file" {
						nfiles++
						if d, ok := exp[p]; !ok || !bytes.Equal(d, n.Data) {
							same = false
						}
					}
				}
				if !same || nfiles != len(exp) {
					res.Count("model_mismatch", 1)
					res.DriftAdd(vutil.Finding{Kind: "extraction-differs-from-model", Class: class, Input: in,
						What: fmt.Sprintf("txtar-x on %s creates files other than the model's (round trip holds)", class)})
				}
			}
		}
		if nontrivial && c.Quote && len(files) > 1 && sampleCap.ok("cli", 3) {
			class, _ := treeDesc(files, c.All, c.Quote)
			res.Sample(map[string]interface{}{"round_trip": class, "txtar_c": r.cargs, "txtar_x": r.xargs, "archive": string(r.archive)}, 6)
		}
	})
}

// ---- random trees (recorded for TLC) ----

var randNames = []string{"a", "b", "a.b", "..c", "...", ".h", ".d", "d", "e", "x y", "-- x --", "é", "Z", "a-b", "unquote", "c.txt", "--", "..", "."}

var randBody = []string{
	"-- ", " --", "--", "-- x --", "-- a/b --", "-- y --\n", "--  z  --\n", "\n", "\n", "\r\n", ">", ">", "x", "hello", "\t", "é", " ",
	"unquote a\n", "-- x --\r\n", "--x --", "-- x--", "-- --\n",
}

func randomBody(r *rand.Rand) []byte {
	if r.Intn(8) == 0 {
		return nil
	}
	n := r.Intn(60)
	var b []byte
	for len(b) < n {
		b = append(b, randBody[r.Intn(len(randBody))]...)
	}
	return b
}

// randomTree returns files in directory-walk order (sorted segment-wise).
func randomTree(r *rand.Rand) []srcFile {
	type dirT map[string]interface{} // name -> dirT or []byte
	root := dirT{}
	nfiles := r.Intn(7)
	for i := 0; i < nfiles; i++ {
		depth := r.Intn(3)
		d := root
		ok := true
		for k := 0; k < depth && ok; k++ {
			nm := pickName(r)
			switch sub := d[nm].(type) {
			case nil:
				nd := dirT{}
				d[nm] = nd
				d = nd
			case dirT:
				d = sub
			default:
				ok = false
			}
		}
		if !ok {
			continue
		}
		nm := pickName(r)
		if _, exists := d[nm]; exists {
			continue
		}
		body := randomBody(r)
		if body == nil {
			body = []byte{}
		}
		d[nm] = body
	}
	var out []srcFile
	var walk func(d dirT, prefix string)
	walk = func(d dirT, prefix string) {
		names := []string{}
		for n := range d {
			names = append(names, n)
		}
		sort.Strings(names)
		for _, n := range names {
			switch v := d[n].(type) {
			case dirT:
				walk(v, prefix+n+"/")
			case []byte:
				out = append(out, srcFile{name: prefix + n, data: v})
			}
		}
	}
	walk(root, "")
	return out
}

func pickName(r *rand.Rand) string {
	for {
		n := randNames[r.Intn(len(randNames))]
		if n != "." && n != ".." { // not file names
			return n
		}
	}
}

type crecFile struct {
	Name []int `json:"name"`
	Data []int `json:"data"`
}

type crecJ struct {
	Files   []crecFile `json:"files"`
	All     bool       `json:"all"`
	Quote   bool       `json:"quote"`
	Cexit   int        `json:"cexit"`
	Xexit   int        `json:"xexit"`
	Archive []int      `json:"archive"`
	Out     []crecFile `json:"out"`
	Flagged bool       `json:"flagged"`
	Text    string     `json:"text"`
}

func cliRandom(res *vutil.Result, work, cbin, xbin, trace string, n int) {
	sb := &sandboxes{work: work}
	rng := vutil.Rand(1515)
	type job struct {
		files      []srcFile
		all, quote bool
		k          int
	}
	jobs := make([]job, n)
	for i := range jobs {
		jobs[i] = job{files: randomTree(rng), all: rng.Intn(2) == 0, quote: rng.Intn(2) == 0, k: rng.Intn(20)}
	}
	recs := make([]crecJ, n)
	vutil.ParallelN(n, func(i int) {
		j := jobs[i]
		r := roundTrip(sb, cbin, xbin, j.files, j.all, j.quote, j.k)
		res.Eval(false) // random cases may repeat: not counted as distinct
		res.Count("cli_round_trips", 1)
		// without the specification the driver knows for sure that plain files must come back
		must := map[string]bool{}
		allPlain := true
		for _, f := range j.files {
			plain := !dotNamed(f.name) && !bytes.Contains(f.data, []byte("--"))
			must[f.name] = plain
			allPlain = allPlain && plain
		}
		flagged := judgeRoundTrip(res, j.files, j.all, j.quote, must, allPlain, r)
		class, _ := treeDesc(j.files, j.all, j.quote)
		rec := crecJ{All: j.all, Quote: j.quote, Cexit: r.cexit, Xexit: r.xexit, Archive: vutil.Ints(r.archive), Flagged: flagged, Text: class,
			Files: []crecFile{}, Out: []crecFile{}}
		for _, f := range j.files {
			rec.Files = append(rec.Files, crecFile{Name: vutil.Ints([]byte(f.name)), Data: vutil.Ints(f.data)})
		}
		var outs []string
		for p, nd := range r.out {
			if nd.Kind == "file" {
				outs = append(outs, p)
			}
		}
		sort.Strings(outs)
		for _, p := range outs {
			rec.Out = append(rec.Out, crecFile{Name: vutil.Ints([]byte(p)), Data: vutil.Ints(r.out[p].Data)})
		}
		recs[i] = rec
		if i < 2 {
			res.Sample(map[string]interface{}{"random_round_trip": class, "archive": string(r.archive)}, 9)
		}
	})
	w := vutil.NewNDJSONWriter(trace)
	for i := range recs {
		w.Write(recs[i])
	}
	w.Close()
}
