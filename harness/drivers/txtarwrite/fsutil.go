package main

import (
	"bytes"
	"fmt"
	"os"
	"path/filepath"
	"sort"
	"strings"
	"sync"

	"verifharness/vutil"
)

// node is one entry of a snapshot.
type node struct {
	Kind string // "dir", "file", "other"
	Data []byte // files only
}

// snapshot lists everything below root (root itself excluded) with plain os calls.
// Keys are slash separated paths relative to root.
func snapshot(root string) map[string]node {
	m := map[string]node{}
	var walk func(dir, rel string)
	walk = func(dir, rel string) {
		ents, err := os.ReadDir(dir)
		if err != nil {
			if os.IsNotExist(err) {
				return
			}
			vutil.Fatalf("snapshot %s: %v", dir, err)
		}
		for _, e := range ents {
			p := filepath.Join(dir, e.Name())
			r := e.Name()
			if rel != "" {
				r = rel + "/" + e.Name()
			}
			fi, err := os.Lstat(p)
			if err != nil {
				vutil.Fatalf("snapshot lstat %s: %v", p, err)
			}
			switch {
			case fi.IsDir():
				m[r] = node{Kind: "dir"}
				walk(p, r)
			case fi.Mode().IsRegular():
				b, err := os.ReadFile(p)
				if err != nil {
					vutil.Fatalf("snapshot read %s: %v", p, err)
				}
				m[r] = node{Kind: "file", Data: b}
			default:
				m[r] = node{Kind: "other"}
			}
		}
	}
	walk(root, "")
	return m
}

func sameNode(a, b node) bool { return a.Kind == b.Kind && bytes.Equal(a.Data, b.Data) }

// changed returns the sorted paths that differ between two snapshots.
func changed(before, after map[string]node) []string {
	var out []string
	for p, a := range before {
		if b, ok := after[p]; !ok || !sameNode(a, b) {
			out = append(out, p)
		}
	}
	for p := range after {
		if _, ok := before[p]; !ok {
			out = append(out, p)
		}
	}
	sort.Strings(out)
	return out
}

// under reports whether p is dir itself or lies beneath it (slash paths, dir "" = root).
func under(p, dir string) bool {
	return dir == "" || p == dir || strings.HasPrefix(p, dir+"/")
}

// ancestorOf reports whether p is a proper ancestor directory path of dir.
func ancestorOf(p, dir string) bool { return strings.HasPrefix(dir, p+"/") }

// containment judges the difference of two snapshots of a sandbox against the
// statement: every change lies in dir (or is the creation of dir's own missing
// ancestors as directories), and no pre-existing regular file changed.
// It returns human readable descriptions of the offending paths.
func containment(before, after map[string]node, dir string) (outside, overwritten []string) {
	for _, p := range changed(before, after) {
		b, hadB := before[p]
		a, hasA := after[p]
		if hadB && b.Kind == "file" {
			overwritten = append(overwritten, fmt.Sprintf("%s: %s -> %s", p, descr(b, true), descr(a, hasA)))
		}
		if under(p, dir) {
			continue
		}
		if ancestorOf(p, dir) && hasA && a.Kind == "dir" {
			continue
		}
		outside = append(outside, fmt.Sprintf("%s: %s -> %s", p, descr(b, hadB), descr(a, hasA)))
	}
	return
}

func descr(n node, present bool) string {
	if !present {
		return "absent"
	}
	if n.Kind == "file" {
		return fmt.Sprintf("file %q", trunc(n.Data))
	}
	return n.Kind
}

func trunc(b []byte) string {
	if len(b) > 60 {
		return string(b[:60]) + "..."
	}
	return string(b)
}

// sandboxes hands out private directories below work.
type sandboxes struct {
	work string
	mu   sync.Mutex
	n    int
}

func (s *sandboxes) next() string {
	s.mu.Lock()
	s.n++
	k := s.n
	s.mu.Unlock()
	parent := filepath.Join(s.work, fmt.Sprintf("s%03d", k%512))
	if err := os.MkdirAll(parent, 0o777); err != nil {
		vutil.Fatalf("mkdir %s: %v", parent, err)
	}
	d := filepath.Join(parent, fmt.Sprintf("c%d", k))
	if err := os.Mkdir(d, 0o777); err != nil { // must be new: a sandbox never starts from leftovers
		vutil.Fatalf("mkdir %s: %v", d, err)
	}
	return d
}

func mustWrite(path string, data []byte) {
	if err := os.MkdirAll(filepath.Dir(path), 0o777); err != nil {
		vutil.Fatalf("mkdir: %v", err)
	}
	if err := os.WriteFile(path, data, 0o666); err != nil {
		vutil.Fatalf("write: %v", err)
	}
}

func fixNL(d []byte) []byte {
	if len(d) == 0 || d[len(d)-1] == '\n' {
		return d
	}
	return append(append([]byte{}, d...), '\n')
}

// capper limits how many findings of one kind are stored (all are counted).
type capper struct {
	mu sync.Mutex
	n  map[string]int
}

func (c *capper) ok(kind string, max int) bool {
	c.mu.Lock()
	defer c.mu.Unlock()
	if c.n == nil {
		c.n = map[string]int{}
	}
	c.n[kind]++
	return c.n[kind] <= max
}
