// Driver for C15: replays TLC-generated cases into the real txtar.Write and the
// real txtar-c / txtar-x commands (built from the tree under test), and records
// real behaviour on seeded random inputs as ndjson for validation by TLC.
//
// Everything the driver learns about the file system it learns through plain os
// calls (snapshot before / after), never through the code under test.
package main

import (
	"flag"
	"fmt"
	"os"
	"path/filepath"

	"verifharness/vutil"
)

func main() {
	mode := flag.String("mode", "", "write-replay | write-random | cli-replay | cli-random")
	cases := flag.String("cases", "", "ndjson of TLC-emitted cases")
	out := flag.String("out", "result.json", "result file")
	trace := flag.String("trace", "", "ndjson trace to write (random modes)")
	work := flag.String("work", "", "scratch directory for sandboxes")
	n := flag.Int("n", 1000, "number of random cases")
	cbin := flag.String("cbin", "", "txtar-c binary")
	xbin := flag.String("xbin", "", "txtar-x binary")
	stride := flag.Int("stride", 1, "cli-replay: run every stride-th case; write-replay: run txtar-x on every stride-th case (0 = never)")
	flag.Parse()
	if *work == "" {
		vutil.Fatalf("-work is required")
	}
	// a private directory per driver process: sandboxes are never shared between runs
	*work = filepath.Join(*work, fmt.Sprintf("%s-%d", *mode, os.Getpid()))
	if err := os.MkdirAll(*work, 0o777); err != nil {
		vutil.Fatalf("mkdir %s: %v", *work, err)
	}
	res := vutil.NewResult()
	switch *mode {
	case "write-replay":
		writeReplay(res, *cases, *work, *xbin, *stride)
	case "write-random":
		writeRandom(res, *cases, *work, *trace, *n)
	case "cli-replay":
		cliReplay(res, *cases, *work, *cbin, *xbin, *stride)
	case "cli-random":
		cliRandom(res, *work, *cbin, *xbin, *trace, *n)
	default:
		vutil.Fatalf("unknown mode %q", *mode)
	}
	os.RemoveAll(*work)
	res.Write(*out)
}
