package main

import (
	"fmt"
	"math/rand"

	"verifharness/vutil"
)

// segments from which random entry names are assembled: beyond the exhaustive
// generator's {a, b, ., .., ""} there are look-alikes of "..", a backslash (an
// ordinary character on this platform), white space, non-ASCII, and the names of
// the sandbox's own directories.
var randSegs = []string{
	"a", "b", "a", "b", ".", "..", "..", "", "..a", "a..", "...", "..b", `a\b`, `..\a`, `\`, " ", "c d", "é", "t", "u", "w",
}

func randomName(r *rand.Rand) []string {
	n := 1 + r.Intn(7)
	dotdots := 0
	segs := make([]string, 0, n)
	for len(segs) < n {
		s := randSegs[r.Intn(len(randSegs))]
		if s == ".." {
			if dotdots == 4 { // deeper climbs would leave the observed sandbox
				continue
			}
			dotdots++
		}
		segs = append(segs, s)
	}
	return segs
}

type wrecJ struct {
	Pop     string     `json:"pop"`
	Entries []entryJ   `json:"entries"`
	Failed  bool       `json:"failed"`
	Panic   bool       `json:"panic"`
	After   []nodeJ    `json:"after"`
	Removed [][]string `json:"removed"`
	Flagged bool       `json:"flagged"`
	Error   string     `json:"error"`
}

// writeRandom records the real Write on random archives; TLC (Trace_TxtarWrite)
// judges the records.  The driver itself only applies the laws that need no
// prediction (containment, existing files untouched, no panic).
func writeRandom(res *vutil.Result, cases, work, trace string, n int) {
	pops := loadPops(cases)
	names := []string{}
	for p := range pops {
		names = append(names, p)
	}
	sortStrings(names)
	rng := vutil.Rand(15)
	type job struct {
		pop     string
		entries []entryJ
	}
	jobs := make([]job, n)
	for i := range jobs {
		j := job{pop: names[rng.Intn(len(names))]}
		ne := 1 + rng.Intn(3)
		for k := 0; k < ne; k++ {
			j.entries = append(j.entries, entryJ{Name: randomName(rng), Data: fmt.Sprintf("n%d", k+1)})
		}
		jobs[i] = j
	}
	recs := make([]wrecJ, n)
	pool := newPool(&sandboxes{work: work})
	vutil.ParallelN(n, func(i int) {
		j := jobs[i]
		pop := pops[j.pop]
		obs := runWrite(pool, pop, j.entries)
		res.Eval(false) // random cases may repeat: not counted as distinct
		flagged := judgeWrite(res, "txtar.Write", pop, j.entries, false, nil, obs, obs.err != nil, inProcess)
		after, removed := diffJ(obs, inProcess)
		recs[i] = wrecJ{Pop: j.pop, Entries: j.entries, Failed: obs.err != nil, Panic: obs.panicked != nil,
			After: after, Removed: removed, Flagged: flagged, Error: fmt.Sprint(obs.err)}
		if i < 3 {
			class, _ := describe(j.pop, j.entries)
			res.Sample(map[string]interface{}{"random_write_case": class, "real_error": fmt.Sprint(obs.err)}, 9)
		}
	})
	w := vutil.NewNDJSONWriter(trace)
	for i := range recs {
		w.Write(recs[i])
	}
	w.Close()
}
