package main

import (
	"bytes"
	"encoding/json"
	"errors"
	"fmt"
	"io/fs"
	"os"
	"os/exec"
	"path/filepath"
	"sort"
	"strings"
	"sync"
	"sync/atomic"
	"syscall"

	"verifharness/vutil"

	"github.com/rogpeppe/go-internal/txtar"
)

// ---- the TLC side of the interface (MC_TxtarWrite.tla / Trace_TxtarWrite.tla) ----

type nodeJ struct {
	Path []string `json:"path"`
	Kind string   `json:"kind"`
	Data string   `json:"data"`
}

type popJ struct {
	Pop   string   `json:"pop"`
	Dir   []string `json:"dir"`
	Nodes []nodeJ  `json:"nodes"`
}

type entryJ struct {
	Name []string `json:"name"`
	Data string   `json:"data"`
}

type wcaseJ struct {
	Type      string     `json:"type"`
	Pop       string     `json:"pop"`
	Entries   []entryJ   `json:"entries"`
	MustError bool       `json:"mustError"`
	Err       string     `json:"err"`
	Targets   [][]string `json:"targets"`
	After     []nodeJ    `json:"after"`
	Removed   [][]string `json:"removed"`
}

// data tokens of the specification -> bytes on disk
var entryData = map[string][]byte{
	"n1": []byte("E1 first entry\n"),
	"n2": []byte("E2 second entry, no final newline"),
	"n3": {},
}

func oldData(rel string) []byte { return []byte("old content of " + rel + "\n") }

var violCap, sampleCap capper

func violate(res *vutil.Result, f vutil.Finding) {
	if violCap.ok(f.Kind, 40) {
		res.Violate(f)
		return
	}
	res.Count("violations_total", 1)
	res.Count("violation:"+f.Kind, 1)
}

func loadPops(path string) map[string]*popJ {
	pops := map[string]*popJ{}
	vutil.ReadNDJSON(path, func(line []byte) {
		if !bytes.Contains(line, []byte(`"type":"pop"`)) {
			return
		}
		var p popJ
		if err := json.Unmarshal(line, &p); err != nil {
			vutil.Fatalf("bad pop %s: %v", line, err)
		}
		pops[p.Pop] = &p
	})
	if len(pops) == 0 {
		vutil.Fatalf("no population records in %s", path)
	}
	return pops
}

// build materialises a population below root.
func (p *popJ) build(root string) {
	nodes := append([]nodeJ{}, p.Nodes...)
	sort.Slice(nodes, func(i, j int) bool { return len(nodes[i].Path) < len(nodes[j].Path) })
	for _, n := range nodes {
		rel := strings.Join(n.Path, "/")
		full := filepath.Join(root, filepath.FromSlash(rel))
		if n.Kind == "dir" {
			if err := os.MkdirAll(full, 0o777); err != nil {
				vutil.Fatalf("mkdir: %v", err)
			}
		} else if n.Kind == "other" {
			// a symbolic link; its target (relative to its own directory) is the node's data
			if err := os.Symlink(n.Data, full); err != nil {
				vutil.Fatalf("symlink: %v", err)
			}
		} else {
			mustWrite(full, oldData(rel))
		}
	}
}

type observation struct {
	before, after map[string]node
	err           error
	panicked      interface{}
}

func nameOf(segs []string) string { return strings.Join(segs, "/") }

func archiveOf(entries []entryJ) *txtar.Archive {
	a := new(txtar.Archive)
	for _, e := range entries {
		a.Files = append(a.Files, txtar.File{Name: nameOf(e.Name), Data: entryData[e.Data]})
	}
	return a
}

func safeWrite(a *txtar.Archive, dir string) (err error, panicked interface{}) {
	defer func() {
		if r := recover(); r != nil {
			panicked = fmt.Sprint(r)
		}
	}()
	return txtar.Write(a, dir), nil
}

func describe(pop string, entries []entryJ) (string, map[string]interface{}) {
	var names []string
	for _, e := range entries {
		names = append(names, nameOf(e.Name))
	}
	class := fmt.Sprintf("pop=%s names=%q", pop, names)
	in := map[string]interface{}{"population": pop, "entry_names": names, "dir": "w/v/u/t (relative to the sandbox root)"}
	return class, in
}

func errKind(err error) string {
	switch {
	case err == nil:
		return "none"
	case strings.Contains(err.Error(), "outside parent directory"):
		return "outside"
	case errors.Is(err, fs.ErrExist):
		return "exists"
	case errors.Is(err, syscall.ENOTDIR):
		return "notdir"
	}
	return "other:" + err.Error()
}

// judgeWrite applies the statement's laws to one observed call.  targets[k] is the
// specification's prediction of where entry k lives (nil for entries that must fail).
func judgeWrite(res *vutil.Result, via string, pop *popJ, entries []entryJ, mustError bool, targets [][]string,
	obs observation, failed bool, stored func(tok string) []byte) (violated bool) {
	class, in := describe(pop.Pop, entries)
	in["via"] = via
	dir := strings.Join(pop.Dir, "/")
	v := func(kind, what string, detail interface{}) {
		violated = true
		violate(res, vutil.Finding{Kind: kind, Class: class, What: what, Input: in, Detail: detail})
	}
	if obs.panicked != nil {
		v("write-panic", fmt.Sprintf("%s panics on %s: %v", via, class, obs.panicked), nil)
		return
	}
	outside, overwritten := containment(obs.before, obs.after, dir)
	if len(outside) > 0 {
		v("outside-dir", fmt.Sprintf("%s (%s) created or changed paths outside the target directory %s: %s", via, class, dir, strings.Join(outside, "; ")),
			map[string]interface{}{"changes_outside": outside, "error_returned": fmt.Sprint(obs.err)})
	}
	if len(overwritten) > 0 {
		v("existing-file-changed", fmt.Sprintf("%s (%s) changed an existing file: %s", via, class, strings.Join(overwritten, "; ")),
			map[string]interface{}{"changed": overwritten, "error_returned": fmt.Sprint(obs.err)})
	}
	if mustError && !failed {
		v("missing-error", fmt.Sprintf("%s (%s) reports no error although an entry name is absolute or climbs out through '..'", via, class),
			map[string]interface{}{"changes": changed(obs.before, obs.after)})
	}
	if !failed && !mustError {
		for k, e := range entries {
			if k >= len(targets) || len(targets[k]) == 0 {
				continue
			}
			p := strings.Join(targets[k], "/")
			got, ok := obs.after[p]
			want := stored(e.Data)
			if !ok || got.Kind != "file" || !bytes.Equal(got.Data, want) {
				v("content-mismatch", fmt.Sprintf("%s (%s) succeeded but %s is %s, want file %q", via, class, p, descr(got, ok), trunc(want)), nil)
			}
		}
	}
	return
}

// token maps file content back to the data tokens of the specification.
func token(rel string, n node, stored func(string) []byte) string {
	if n.Kind != "file" {
		return ""
	}
	for _, t := range []string{"n1", "n2", "n3"} {
		if bytes.Equal(n.Data, stored(t)) {
			return t
		}
	}
	if bytes.Equal(n.Data, oldData(rel)) {
		return "o"
	}
	return "?" + string(n.Data)
}

func split(p string) []string {
	if p == "" {
		return []string{}
	}
	return strings.Split(p, "/")
}

// diffJ renders the observed difference in the representation of the specification.
func diffJ(obs observation, stored func(string) []byte) (after []nodeJ, removed [][]string) {
	after, removed = []nodeJ{}, [][]string{}
	for _, p := range changed(obs.before, obs.after) {
		if a, ok := obs.after[p]; ok {
			after = append(after, nodeJ{Path: split(p), Kind: a.Kind, Data: token(p, a, stored)})
		} else {
			removed = append(removed, split(p))
		}
	}
	return
}

func sameDiff(a []nodeJ, ar [][]string, b []nodeJ, br [][]string) bool {
	key := func(ns []nodeJ, rs [][]string) string {
		var l []string
		for _, n := range ns {
			l = append(l, "+"+strings.Join(n.Path, "/")+"|"+n.Kind+"|"+n.Data)
		}
		for _, r := range rs {
			l = append(l, "-"+strings.Join(r, "/"))
		}
		sort.Strings(l)
		return strings.Join(l, "\n")
	}
	return key(a, ar) == key(b, br)
}

func inProcess(tok string) []byte { return entryData[tok] }
func viaArchive(tok string) []byte { return fixNL(entryData[tok]) }

// A sandbox is reused for many cases: after a case whose changes were only additions,
// the added paths are removed again; after anything else the sandbox is thrown away.
// Every 50th reuse the sandbox is re-read with plain os calls and must equal its
// pristine snapshot (otherwise the driver itself is broken: exit 3).
type sandbox struct {
	root     string
	pristine map[string]node
	uses     int
}

type sandboxPool struct {
	sb   *sandboxes
	mu   sync.Mutex
	free map[string][]*sandbox
}

func newPool(sb *sandboxes) *sandboxPool { return &sandboxPool{sb: sb, free: map[string][]*sandbox{}} }

func (p *sandboxPool) get(pop *popJ) *sandbox {
	p.mu.Lock()
	l := p.free[pop.Pop]
	if n := len(l); n > 0 {
		s := l[n-1]
		p.free[pop.Pop] = l[:n-1]
		p.mu.Unlock()
		return s
	}
	p.mu.Unlock()
	root := p.sb.next()
	pop.build(root)
	return &sandbox{root: root, pristine: snapshot(root)}
}

func (p *sandboxPool) put(pop *popJ, s *sandbox, obs observation) {
	reusable := obs.panicked == nil
	var created []string
	for _, c := range changed(obs.before, obs.after) {
		if _, was := obs.before[c]; was {
			reusable = false
			break
		}
		created = append(created, c)
	}
	if !reusable {
		os.RemoveAll(s.root)
		return
	}
	for i, c := range created { // sorted: a created directory precedes what it contains
		if i > 0 && strings.HasPrefix(c, created[i-1]+"/") {
			created[i] = created[i-1] // keep the top-most created path as the marker
			continue
		}
		if err := os.RemoveAll(filepath.Join(s.root, filepath.FromSlash(c))); err != nil {
			vutil.Fatalf("revert sandbox: %v", err)
		}
	}
	s.uses++
	if s.uses%50 == 0 {
		if d := changed(s.pristine, snapshot(s.root)); len(d) > 0 {
			vutil.Fatalf("sandbox %s not pristine after revert: %v", s.root, d)
		}
	}
	p.mu.Lock()
	p.free[pop.Pop] = append(p.free[pop.Pop], s)
	p.mu.Unlock()
}

// runWrite runs the real txtar.Write in a pristine sandbox of the population.
func runWrite(p *sandboxPool, pop *popJ, entries []entryJ) observation {
	s := p.get(pop)
	var obs observation
	obs.before = s.pristine
	dir := filepath.Join(s.root, filepath.FromSlash(strings.Join(pop.Dir, "/")))
	obs.err, obs.panicked = safeWrite(archiveOf(entries), dir)
	obs.after = snapshot(s.root)
	p.put(pop, s, obs)
	return obs
}

// representable: can the entries be written as a txtar archive text?
func representable(entries []entryJ) bool {
	for _, e := range entries {
		n := nameOf(e.Name)
		if n == "" || strings.TrimSpace(n) != n || strings.ContainsAny(n, "\n\r") {
			return false
		}
	}
	return true
}

// runExtract feeds the same entries to the real txtar-x command.
func runExtract(sb *sandboxes, xbin string, pop *popJ, entries []entryJ, k int) (observation, int, string) {
	root := sb.next()
	sand := filepath.Join(root, "sandbox")
	if err := os.MkdirAll(sand, 0o777); err != nil {
		vutil.Fatalf("mkdir: %v", err)
	}
	pop.build(sand)
	var text []byte
	for _, e := range entries {
		text = append(text, "-- "+nameOf(e.Name)+" --\n"...)
		text = append(text, fixNL(entryData[e.Data])...)
	}
	arfile := filepath.Join(root, "in.txtar")
	mustWrite(arfile, text)
	var obs observation
	obs.before = snapshot(sand)
	rel := filepath.FromSlash(strings.Join(pop.Dir, "/"))
	var cmd *exec.Cmd
	switch k % 3 {
	case 0: // -C with an absolute directory, archive as argument
		cmd = exec.Command(xbin, "-C", filepath.Join(sand, rel), arfile)
		cmd.Dir = root
	case 1: // -C with a relative directory, archive on stdin
		cmd = exec.Command(xbin, "-C", rel)
		cmd.Dir = sand
		cmd.Stdin = bytes.NewReader(text)
	default: // -C=dir form relative to a different working directory
		cmd = exec.Command(xbin, "-C="+filepath.Join("sandbox", rel), "in.txtar")
		cmd.Dir = root
	}
	var stderr bytes.Buffer
	cmd.Stderr = &stderr
	cmd.Stdout = &stderr
	err := cmd.Run()
	code := 0
	if err != nil {
		var ee *exec.ExitError
		if !errors.As(err, &ee) {
			vutil.Fatalf("cannot run %s: %v", xbin, err)
		}
		code = ee.ExitCode()
		obs.err = fmt.Errorf("exit %d: %s", code, strings.TrimSpace(stderr.String()))
	}
	obs.after = snapshot(sand)
	return obs, code, root
}

func writeReplay(res *vutil.Result, cases, work, xbin string, stride int) {
	pops := loadPops(cases)
	sb := &sandboxes{work: work}
	pool := newPool(sb)
	var idx int64
	vutil.ParallelLines(cases, func(line []byte) {
		if !bytes.Contains(line, []byte(`"type":"case"`)) {
			return
		}
		var c wcaseJ
		if err := json.Unmarshal(line, &c); err != nil {
			vutil.Fatalf("bad case %s: %v", line, err)
		}
		pop := pops[c.Pop]
		if pop == nil {
			vutil.Fatalf("unknown population %q", c.Pop)
		}
		k := atomic.AddInt64(&idx, 1)
		nontrivial := false
		for _, e := range c.Entries {
			for _, s := range e.Name {
				if s == ".." || s == "" {
					nontrivial = true
				}
			}
		}
		res.Eval(nontrivial)
		obs := runWrite(pool, pop, c.Entries)
		bad := judgeWrite(res, "txtar.Write", pop, c.Entries, c.MustError, c.Targets, obs, obs.err != nil, inProcess)
		// conformance with the model of Write (error class, exact resulting tree): drift only
		after, removed := diffJ(obs, inProcess)
		if obs.panicked == nil && (errKind(obs.err) != c.Err || !sameDiff(after, removed, c.After, c.Removed)) {
			res.Count("model_mismatch", 1)
			if !bad {
				class, in := describe(c.Pop, c.Entries)
				res.DriftAdd(vutil.Finding{Kind: "write-differs-from-model", Class: class, Input: in,
					What:   fmt.Sprintf("txtar.Write (%s): error %q / tree differ from the model's %q (the statement's laws hold)", class, errKind(obs.err), c.Err),
					Detail: map[string]interface{}{"observed_after": after, "observed_removed": removed, "model_after": c.After}})
			}
		}
		cat := "other"
		switch {
		case c.MustError:
			cat = "must-error"
		case c.Err == "none" && len(c.Entries) > 1:
			cat = "success"
		case c.Err != "none":
			cat = c.Err
		}
		if k%7 == 3 && sampleCap.ok(cat, 1) {
			class, _ := describe(c.Pop, c.Entries)
			res.Sample(map[string]interface{}{"write_case": class, "must_error": c.MustError, "model_error": c.Err, "real_error": errKind(obs.err), "paths_changed": len(after)}, 6)
		}
		if stride > 0 && xbin != "" && k%int64(stride) == 0 && representable(c.Entries) {
			xo, code, xroot := runExtract(sb, xbin, pop, c.Entries, int(k/int64(stride)))
			res.Count("txtar_x_runs", 1)
			judgeWrite(res, "txtar-x", pop, c.Entries, c.MustError, c.Targets, xo, code != 0, viaArchive)
			if (code != 0) != (c.Err != "none") {
				res.Count("model_mismatch", 1)
			}
			os.RemoveAll(xroot)
		}
	})
}
