// Driver for C16 (Params.UpdateScripts): replays the scripts that TLC enumerates
// from spec/updatescripts/MC_UpdateScripts.tla into the real testscript.RunT.
//
// Every case is run on a scratch copy of the script file:
//
//	run 1  with UpdateScripts      -> verdict, file bytes afterwards
//	run 2  without UpdateScripts   -> verdict, file bytes afterwards (if run 1 passed)
//	run 1' with UpdateScripts on a non-canonical spelling of the same archive
//	       (only for scripts the statement says are never modified)
//
// The file is read back with plain os calls and parsed with txtar.Parse.  What the
// statement of C16 fixes is judged (violations); everything else the model of
// UpdateScripts.tla predicts is only compared (drift).
//
// The same binary is the helper program of the scripts: invoked as `hprint i j` it
// prints entry i of the specification's content table to stdout and entry j to
// stderr (the table travels in the environment variable C16_TABLE).
package main

import (
	"encoding/hex"
	"flag"
	"fmt"
	"os"
	"path/filepath"
	"strconv"
	"strings"

	"verifharness/vutil"
)

const tableEnv = "C16_TABLE"

func helperMain() {
	tab := strings.Split(os.Getenv(tableEnv), ",")
	if len(os.Args) != 3 {
		fmt.Fprintln(os.Stderr, "usage: hprint i j")
		os.Exit(2)
	}
	for k, w := range []*os.File{os.Stdout, os.Stderr} {
		i, err := strconv.Atoi(os.Args[k+1])
		if err != nil || i < 1 || i > len(tab) {
			fmt.Fprintln(os.Stderr, "hprint: bad index", os.Args[k+1])
			os.Exit(2)
		}
		b, err := hex.DecodeString(tab[i-1])
		if err != nil {
			fmt.Fprintln(os.Stderr, "hprint: bad table")
			os.Exit(2)
		}
		w.Write(b)
	}
	os.Exit(0)
}

func main() {
	if filepath.Base(os.Args[0]) == "hprint" {
		helperMain()
	}
	cases := flag.String("cases", "", "ndjson of TLC-emitted cases (the line holding the content table first or anywhere)")
	out := flag.String("out", "result.json", "result file")
	work := flag.String("work", "", "scratch directory")
	stride := flag.Int("stride", 1, "run every stride-th case (offset taken from VERIF_SEED)")
	shard := flag.Int("shard", 0, "this process runs the cases with number = shard mod shards (process spawning is serialised inside one Go process)")
	shards := flag.Int("shards", 1, "number of driver processes sharing the case file")
	selfbug := flag.String("selfbug", "", "self test of the comparison: tamper with the script file after run 1 (comment | swap | other | revert)")
	flag.Parse()
	if *work == "" || *cases == "" {
		vutil.Fatalf("-work and -cases are required")
	}
	*work = filepath.Join(*work, fmt.Sprintf("us-%d", os.Getpid()))
	if err := os.MkdirAll(*work, 0o777); err != nil {
		vutil.Fatalf("mkdir %s: %v", *work, err)
	}
	res := vutil.NewResult()
	replay(res, *cases, *work, *stride, *shard, *shards, *selfbug)
	os.RemoveAll(*work)
	res.Write(*out)
}
