package main

import (
	"bytes"
	"encoding/hex"
	"encoding/json"
	"fmt"
	"os"
	"path/filepath"
	"reflect"
	"runtime"
	"strings"
	"sync"
	"sync/atomic"
	"time"

	"github.com/rogpeppe/go-internal/testscript"
	"github.com/rogpeppe/go-internal/txtar"

	"verifharness/vutil"
)

// ---------------------------------------------------------------------------
// the emitted case (MC_UpdateScripts.tla, operator Case)

type slotT struct {
	Src  string `json:"src"`  // out | err | file | ain
	Cmp  string `json:"cmp"`  // cmp | neg | env
	C    int    `json:"c"`    // index of the actual content
	Gold string `json:"gold"` // arch | run
	G    int    `json:"g"`    // index of the golden content
}

type entryT struct {
	Name   []int `json:"name"`
	Old    []int `json:"old"`
	Update bool  `json:"update"` // a failing plain cmp names this entry
	Must   bool  `json:"must"`   // ... and it is the last entry of that name (the one on disk): it has to hold the actual content
	Want   []int `json:"want"`   // what the statement wants it to hold afterwards
	Alt    []int `json:"alt"`    // tolerated instead for a content that cannot be quoted as it is
}

type caseT struct {
	Table    [][]int  `json:"table"`
	By       bool     `json:"by"`
	Sub      bool     `json:"sub"`
	Variant  string   `json:"variant"`
	Slots    []slotT  `json:"slots"`
	Script   []int    `json:"script"`
	Comment  []int    `json:"comment"`
	Entries  []entryT `json:"entries"`
	Updated  int      `json:"updated"`
	Failing  int      `json:"failing"`
	CantHold bool     `json:"cantHold"`
	First    struct {
		Verdict    string `json:"verdict"`
		Written    bool   `json:"written"`
		After      []int  `json:"after"`
		Unquotable bool   `json:"unquotable"`
	} `json:"first"`
	Second struct {
		Verdict  string `json:"verdict"`
		MustPass bool   `json:"mustPass"`
	} `json:"second"`
	Nontrivial bool `json:"nontrivial"`
}

// ---------------------------------------------------------------------------
// recording implementation of testscript.T: FailNow and Skip unwind with a
// sentinel that Run recovers; any other panic that leaves the subtest function is
// recorded as such (with *testing.T it would take the test binary down).

type sentinel string

const (
	failSentinel sentinel = "verif: FailNow"
	skipSentinel sentinel = "verif: Skip"
)

type recT struct {
	mu      sync.Mutex
	log     strings.Builder
	verdict string // pass | fail | skip | panic
	panicV  string
	ran     int
	// verdict of the companion script, if the run had one
	companion string
}

func (t *recT) Skip(a ...any) {
	t.Log(a...)
	panic(skipSentinel)
}
func (t *recT) Fatal(a ...any) {
	t.Log(a...)
	t.FailNow()
}
func (t *recT) Parallel() {}
func (t *recT) Log(a ...any) {
	t.mu.Lock()
	t.log.WriteString(fmt.Sprint(a...))
	t.log.WriteString("\n")
	t.mu.Unlock()
}
func (t *recT) FailNow()      { panic(failSentinel) }
func (t *recT) Verbose() bool { return false }
func (t *recT) Run(name string, f func(testscript.T)) {
	if strings.HasPrefix(name, "zz-companion") {
		// the second script of the run (see runFile): its verdict and log are its own
		ct := &recT{}
		ct.Run("companion", f)
		t.mu.Lock()
		t.companion = ct.verdict + " " + ct.panicV
		t.mu.Unlock()
		return
	}
	t.ran++
	defer func() {
		switch e := recover(); e {
		case nil:
			if t.verdict == "" {
				t.verdict = "pass"
			}
		case failSentinel:
			t.verdict = "fail"
		case skipSentinel:
			if t.verdict == "" {
				t.verdict = "skip"
			}
		default:
			t.verdict = "panic"
			t.panicV = fmt.Sprint(e)
		}
	}()
	f(t)
}

// ---------------------------------------------------------------------------

type runner struct {
	res     *vutil.Result
	work    string
	binDir  string
	table   string // value of C16_TABLE
	content [][]byte
	selfbug string
}

type outcome struct {
	// the companion script of the run (same entry names, nothing to update): what became of its file
	CompanionBefore, CompanionAfter []byte
	CompanionVerdict                string
	Verdict                         string
	Panic                           string
	Log                             string
	After                           []byte
	Rewritten                       bool // the modification time of the script file changed
}

var uniqSeq int64

var longAgo = time.Date(2001, 2, 3, 4, 5, 6, 0, time.UTC)

// runFile runs the real RunT on the one script file and reads the file back.
func (r *runner) runFile(file string, update bool, setupCd string) (o outcome) {
	return r.runFiles(file, update, nil, setupCd)
}

// companionOf makes a second script for the same run: its archive has entries named like those of the case, with
// contents of its own, and its script compares nothing: whatever the case's comparisons record is not its business.
func companionOf(orig []byte) []byte {
	a := txtar.Parse(orig)
	c := &txtar.Archive{Comment: []byte("# companion of the case: same entry names, nothing to update\n")}
	seen := map[string]bool{}
	for _, f := range a.Files {
		if !seen[f.Name] {
			seen[f.Name] = true
			c.Files = append(c.Files, txtar.File{Name: f.Name, Data: []byte("companion keeps this\n")})
		}
	}
	return txtar.Format(c)
}

// setupCd: the directory (relative to the work directory) the Setup hook moves the script to, "" for none.
func (r *runner) runFiles(file string, update bool, companion []byte, setupCd string) (o outcome) {
	uniqueNames := false
	if b, err := os.ReadFile(file); err == nil && atomic.AddInt64(&uniqSeq, 1)%2 == 0 {
		seen := map[string]bool{}
		uniqueNames = true
		for _, f := range txtar.Parse(b).Files {
			if seen[f.Name] {
				uniqueNames = false
			}
			seen[f.Name] = true
		}
	}
	if err := os.Chtimes(file, longAgo, longAgo); err != nil {
		vutil.Fatalf("chtimes: %v", err)
	}
	files := []string{file}
	cfile := filepath.Join(filepath.Dir(file), "zz-companion.txtar")
	if companion != nil {
		if err := os.WriteFile(cfile, companion, 0o666); err != nil {
			vutil.Fatalf("write: %v", err)
		}
		files = append(files, cfile)
		defer os.Remove(cfile)
	}
	p := testscript.Params{
		Files:         files,
		UpdateScripts: update,
		// (entry names are unique in all variants but dup: asking for that changes nothing, least of all the rewrite)
		RequireUniqueNames: uniqueNames,
		Setup: func(env *testscript.Env) error {
			env.Setenv("PATH", r.binDir+string(os.PathListSeparator)+env.Getenv("PATH"))
			env.Setenv(tableEnv, r.table)
			if setupCd != "" {
				// the hook chooses where the script starts (variant setupcd of the model)
				d := filepath.Join(env.WorkDir, setupCd)
				if err := os.MkdirAll(d, 0o777); err != nil {
					return err
				}
				env.Cd = d
			}
			return nil
		},
	}
	t := &recT{}
	func() {
		defer func() {
			if e := recover(); e != nil {
				t.verdict = "panic"
				t.panicV = "outside T.Run: " + fmt.Sprint(e)
			}
		}()
		testscript.RunT(t, p)
	}()
	o.Verdict, o.Panic, o.Log = t.verdict, t.panicV, t.log.String()
	if companion != nil {
		o.CompanionBefore, o.CompanionVerdict = companion, t.companion
		o.CompanionAfter, _ = os.ReadFile(cfile)
	}
	if t.ran != 1 && o.Verdict != "panic" {
		vutil.Fatalf("RunT started %d subtests for one file", t.ran)
	}
	b, err := os.ReadFile(file)
	if err != nil {
		vutil.Fatalf("script file unreadable after the run: %v", err)
	}
	o.After = b
	if st, err := os.Stat(file); err == nil {
		o.Rewritten = !st.ModTime().Equal(longAgo)
	}
	r.res.Count("runs", 1)
	return o
}

func slotString(s slotT, content [][]byte) string {
	op := map[string]string{"cmp": "cmp", "neg": "! cmp", "env": "cmpenv"}[s.Cmp]
	src := map[string]string{"out": "stdout", "err": "stderr", "file": "run-time file", "ain": "archive entry"}[s.Src]
	gold := "archive entry"
	if s.Gold == "run" {
		gold = "run-time file"
	}
	if s.Gold == "link" {
		gold = "symbolic link to an archive entry"
	}
	return fmt.Sprintf("%s %s=%q with %s=%q", op, src, content[s.C-1], gold, content[s.G-1])
}

func (r *runner) describe(c *caseT) string {
	var parts []string
	for _, s := range c.Slots {
		parts = append(parts, slotString(s, r.content))
	}
	d := strings.Join(parts, "; ")
	if c.By {
		d += "; plus untouched entries first and last"
	}
	if c.Sub && c.Variant == "setupcd" {
		d += "; every entry under sub/, the Setup hook starts the script there (Env.Cd)"
	} else if c.Sub {
		d += "; every entry under sub/, script runs after `cd sub`"
	}
	if c.Variant == "stop" {
		d += "; the script ends with a stop line"
	}
	if c.Variant == "again" {
		d += "; the script then compares the golden file of slot 1 with a further entry of the same content"
	}
	if c.Variant == "dup" {
		d += "; a stale second entry named like the first golden stands in front"
	}
	return d
}

func tail(s string, n int) string {
	if len(s) > n {
		return "..." + s[len(s)-n:]
	}
	return s
}

// noncanonical spells the same archive differently: extra blanks inside the first
// marker line, and no newline at the very end unless the last line is a marker.
// A rewrite through txtar.Format would change these bytes.
func noncanonical(orig []byte) []byte {
	lines := bytes.SplitAfter(orig, []byte("\n"))
	if n := len(lines); n > 0 && len(lines[n-1]) == 0 {
		lines = lines[:n-1]
	}
	isMarker := func(l []byte) bool {
		return bytes.HasPrefix(l, []byte("-- ")) && bytes.HasSuffix(l, []byte(" --\n"))
	}
	changed := false
	for i, l := range lines {
		if isMarker(l) {
			name := l[3 : len(l)-4]
			lines[i] = []byte("--  " + string(name) + "  --\n")
			changed = true
			break
		}
	}
	if n := len(lines); n > 0 && !isMarker(lines[n-1]) && len(lines[n-1]) > 1 && !bytes.HasPrefix(lines[n-1], []byte("--  ")) {
		lines[n-1] = lines[n-1][:len(lines[n-1])-1]
		changed = true
	}
	if !changed {
		return nil
	}
	return bytes.Join(lines, nil)
}

type judged struct {
	r     *runner
	c     *caseT
	idx   int
	desc  string
	input map[string]any
	nviol int
}

func (j *judged) violate(kind, class, what string, detail map[string]any) {
	j.nviol++
	if class == "" {
		class = j.desc
	}
	j.r.res.Violate(vutil.Finding{Kind: kind, Class: class, What: what, Input: j.input, Detail: detail})
}

func (j *judged) drift(kind, what string) {
	j.r.res.DriftAdd(vutil.Finding{Kind: kind, What: what + " [" + j.desc + "]"})
}

// unquotableClass names the concrete content that cannot be stored.
func (j *judged) unquotableClass() string {
	for _, s := range j.c.Slots {
		d := j.r.content[s.C-1]
		if s.Gold == "arch" && s.Cmp == "cmp" && txtar.NeedsQuote(d) && len(d) > 0 && d[len(d)-1] != '\n' {
			return fmt.Sprintf("update content %q (marker line, no final newline)", d)
		}
	}
	return ""
}

// checkFile judges the script file after a run with UpdateScripts against what the
// statement fixes: script text, names, order and every other entry unchanged;
// an entry named by a failing cmp holds the old or the wanted data.
func (j *judged) checkFile(after []byte, o outcome, variant string) (parsedOK bool) {
	c := j.c
	a := txtar.Parse(after)
	det := func() map[string]any {
		return map[string]any{"variant": variant, "verdict": o.Verdict, "file_after": string(after), "log": tail(o.Log, 1500)}
	}
	parsedOK = true
	if !bytes.Equal(a.Comment, vutil.Bytes(c.Comment)) {
		parsedOK = false
		j.violate("script-text-changed", "", fmt.Sprintf("after the run with UpdateScripts the script text (comment section) differs: %q", a.Comment), det())
	}
	same := len(a.Files) == len(c.Entries)
	if same {
		for i, e := range c.Entries {
			if a.Files[i].Name != string(vutil.Bytes(e.Name)) {
				same = false
			}
		}
	}
	if !same {
		var got []string
		for _, f := range a.Files {
			got = append(got, f.Name)
		}
		j.violate("entries-renamed-or-reordered", "", fmt.Sprintf("after the run with UpdateScripts the archive has entries %q", got), det())
		return false
	}
	for i, e := range c.Entries {
		got := a.Files[i].Data
		old, want, alt := vutil.Bytes(e.Old), vutil.Bytes(e.Want), vutil.Bytes(e.Alt)
		switch {
		case bytes.Equal(got, old):
		case e.Update && (bytes.Equal(got, want) || bytes.Equal(got, alt)):
		case e.Update:
			parsedOK = false
			j.violate("updated-entry-wrong-content", "", fmt.Sprintf("entry %q holds %q, neither the old content %q nor the actual content as txtar stores it %q",
				a.Files[i].Name, got, old, want), det())
		default:
			parsedOK = false
			j.violate("other-entry-changed", "", fmt.Sprintf("entry %q, not named by any failing cmp, changed from %q to %q", a.Files[i].Name, old, got), det())
		}
	}
	return parsedOK
}

func (r *runner) runCase(idx int, c *caseT) {
	dir := filepath.Join(r.work, fmt.Sprintf("c%d", idx))
	if err := os.MkdirAll(dir, 0o777); err != nil {
		vutil.Fatalf("mkdir: %v", err)
	}
	defer os.RemoveAll(dir)
	orig := vutil.Bytes(c.Script)
	j := &judged{r: r, c: c, idx: idx, desc: r.describe(c)}
	j.input = map[string]any{"script": string(orig), "slots": c.Slots, "untouched_entries": c.By, "content_table_index_base": 1}
	res := r.res
	res.Eval(c.Nontrivial)
	if c.Updated > 0 {
		res.Count("cases_with_update", 1)
	}
	if c.Failing > 0 {
		res.Count("cases_with_failing_compare", 1)
	}
	if c.CantHold {
		res.Count("cases_unquotable", 1)
	}

	// ---- run 1: with UpdateScripts ----
	file := filepath.Join(dir, "case.txtar")
	if err := os.WriteFile(file, orig, 0o666); err != nil {
		vutil.Fatalf("write: %v", err)
	}
	var comp []byte
	if idx%3 == 1 && c.Variant != "dup" {
		comp = companionOf(orig)
	}
	setupCd := ""
	if c.Variant == "setupcd" {
		setupCd = "sub"
		res.Count("runs_started_elsewhere_by_setup_hook", 1)
	}
	o1 := r.runFiles(file, true, comp, setupCd)
	if comp != nil {
		res.Count("runs_with_companion_script", 1)
		if !bytes.Equal(o1.CompanionAfter, o1.CompanionBefore) || strings.TrimSpace(o1.CompanionVerdict) != "pass" {
			j.violate("other-script-of-the-run-modified", "", fmt.Sprintf("a second script of the same RunT call (entries named like the case's, no comparison at all) "+
				"ended as %q and its file went from %q to %q", o1.CompanionVerdict, o1.CompanionBefore, o1.CompanionAfter),
				map[string]any{"run": "first (UpdateScripts)", "companion_before": string(o1.CompanionBefore), "companion_after": string(o1.CompanionAfter)})
		}
	}
	if r.selfbug != "" {
		o1.After = tamper(r.selfbug, o1.After, orig, c)
		os.WriteFile(file, o1.After, 0o666)
	}
	det1 := map[string]any{"run": "first (UpdateScripts)", "verdict": o1.Verdict, "panic": o1.Panic,
		"file_after": string(o1.After), "model_verdict": c.First.Verdict, "log": tail(o1.Log, 1500)}
	if o1.Verdict == "panic" {
		j.violate("panic-escapes-run", j.unquotableClass(),
			"the run with UpdateScripts did not end through the T it was given (FailNow/Skip) but with a panic leaving the subtest: "+o1.Panic, det1)
	}
	parsedOK := j.checkFile(o1.After, o1, "canonical")
	changed := !bytes.Equal(o1.After, orig)
	if c.Updated == 0 {
		// only matching comparisons, comparisons against files outside the archive, cmpenv, ! cmp
		if changed && parsedOK {
			j.violate("script-modified-without-mismatch", "", "no cmp against an archive entry failed, yet the script file changed", det1)
		} else if !changed && o1.Rewritten {
			j.drift("rewritten-without-mismatch", "the script file was written again with identical bytes although nothing mismatched")
		}
	}
	lawful := c.Failing == 0 && !c.CantHold // the statement: the run passes and every named entry holds the actual content
	if lawful {
		if o1.Verdict == "fail" || o1.Verdict == "skip" {
			j.violate("update-run-did-not-pass", "", fmt.Sprintf("every failing cmp had its second file in the archive, yet the run with UpdateScripts ended as %q", o1.Verdict), det1)
		}
		if parsedOK && c.Updated > 0 {
			a := txtar.Parse(o1.After)
			for i, e := range c.Entries {
				if e.Update && e.Must && !bytes.Equal(a.Files[i].Data, vutil.Bytes(e.Want)) {
					j.violate("updated-entry-not-holding-actual", "", fmt.Sprintf("entry %q holds %q after the run, the actual content is stored as %q",
						a.Files[i].Name, a.Files[i].Data, vutil.Bytes(e.Want)), det1)
				}
			}
		}
	}
	if j.nviol == 0 {
		// the rest is the model's prediction, not the statement's
		if o1.Verdict != c.First.Verdict {
			j.drift("verdict-differs-from-model", fmt.Sprintf("run 1 ended as %q, the model says %q", o1.Verdict, c.First.Verdict))
		}
		if !bytes.Equal(o1.After, vutil.Bytes(c.First.After)) {
			j.drift("file-differs-from-model", fmt.Sprintf("file after run 1 is %q, the model says %q", o1.After, vutil.Bytes(c.First.After)))
		}
		if changed != (c.First.Written && !bytes.Equal(vutil.Bytes(c.First.After), orig)) {
			j.drift("written-differs-from-model", "file modified or not, unlike the model")
		}
	}
	firstClean := j.nviol == 0

	// ---- run 2: the updated script without UpdateScripts ----
	if o1.Verdict == "pass" {
		res.Count("second_runs", 1)
		o2 := r.runFile(file, false, setupCd)
		det2 := map[string]any{"run": "second (no UpdateScripts)", "verdict": o2.Verdict, "panic": o2.Panic,
			"file_before": string(o1.After), "file_after": string(o2.After), "log": tail(o2.Log, 1500)}
		if o2.Verdict == "panic" {
			j.violate("panic-escapes-run", "", "the second run (no UpdateScripts) ended with a panic leaving the subtest: "+o2.Panic, det2)
		}
		if !bytes.Equal(o2.After, o1.After) {
			j.violate("second-run-modified-script", "", "the run without UpdateScripts changed the script file", det2)
		} else if o2.Rewritten {
			j.drift("second-run-rewrote-script", "the run without UpdateScripts wrote the script file again (identical bytes)")
		}
		if c.Second.MustPass && firstClean {
			res.Count("second_runs_must_pass", 1)
			if o2.Verdict == "fail" || o2.Verdict == "skip" {
				j.violate("second-run-failed", "", fmt.Sprintf("every updated content is representable in txtar, yet re-running the updated script ended as %q", o2.Verdict), det2)
			}
		} else if firstClean && o2.Verdict != c.Second.Verdict {
			j.drift("second-verdict-differs-from-model", fmt.Sprintf("run 2 ended as %q, the model says %q", o2.Verdict, c.Second.Verdict))
		}
	}

	// ---- run 1'': the script text with CR LF line endings (entries as they are), when an update has to be written: the
	// ---- text stays byte for byte what it was, carriage returns included
	if c.Updated > 0 && lawful && firstClean && r.selfbug == "" && idx%4 == 2 {
		a := txtar.Parse(orig)
		crText := bytes.ReplaceAll(a.Comment, []byte("\n"), []byte("\r\n"))
		cr := append(append([]byte{}, crText...), orig[len(a.Comment):]...)
		if b := txtar.Parse(cr); bytes.Equal(b.Comment, crText) && len(b.Files) == len(a.Files) {
			crdir := filepath.Join(dir, "cr")
			os.MkdirAll(crdir, 0o777)
			file := filepath.Join(crdir, "case.txtar")
			if err := os.WriteFile(file, cr, 0o666); err != nil {
				vutil.Fatalf("write: %v", err)
			}
			res.Count("crlf_runs", 1)
			o := r.runFile(file, true, setupCd)
			det := map[string]any{"run": "first (UpdateScripts), script text with CR LF line endings", "script": string(cr), "verdict": o.Verdict,
				"panic": o.Panic, "file_after": string(o.After), "log": tail(o.Log, 1500)}
			if o.Verdict != o1.Verdict {
				j.drift("crlf-verdict-differs", fmt.Sprintf("the same script with CR LF line endings ended as %q instead of %q", o.Verdict, o1.Verdict))
			} else if o.Verdict == "pass" {
				after := txtar.Parse(o.After)
				if !bytes.Equal(after.Comment, crText) {
					j.violate("script-text-changed", "", fmt.Sprintf("the script text (CR LF line endings) is not byte for byte what it was after the update: %q became %q",
						crText, after.Comment), det)
				}
			}
		}
	}

	// ---- run 1': a non-canonical spelling of a script that must never be modified ----
	if c.Updated == 0 && r.selfbug == "" {
		nc := noncanonical(orig)
		if nc != nil {
			if !reflect.DeepEqual(txtar.Parse(nc), txtar.Parse(orig)) {
				vutil.Fatalf("case %d: the non-canonical spelling is a different archive:\n%s", idx, nc)
			}
			ncdir := filepath.Join(dir, "nc")
			os.MkdirAll(ncdir, 0o777)
			file := filepath.Join(ncdir, "case.txtar")
			if err := os.WriteFile(file, nc, 0o666); err != nil {
				vutil.Fatalf("write: %v", err)
			}
			res.Count("noncanonical_runs", 1)
			o := r.runFile(file, true, setupCd)
			det := map[string]any{"run": "first (UpdateScripts), non-canonical spelling", "script": string(nc), "verdict": o.Verdict,
				"panic": o.Panic, "file_after": string(o.After), "log": tail(o.Log, 1500)}
			if o.Verdict == "panic" {
				j.violate("panic-escapes-run", "", "the run with UpdateScripts ended with a panic leaving the subtest: "+o.Panic, det)
			}
			if !bytes.Equal(o.After, nc) {
				j.violate("script-modified-without-mismatch", "", "no cmp against an archive entry failed, yet the script file (non-canonical spelling) changed", det)
			}
			if o.Verdict != o1.Verdict {
				j.drift("noncanonical-verdict-differs", fmt.Sprintf("the same archive spelled differently ended as %q instead of %q", o.Verdict, o1.Verdict))
			}
		}
	}
	res.Sample(map[string]any{"case": j.desc, "script": string(orig), "run1": o1.Verdict, "file_after_run1": string(o1.After),
		"model": map[string]any{"run1": c.First.Verdict, "written": c.First.Written, "run2": c.Second.Verdict, "run2_must_pass": c.Second.MustPass}}, 12)
}

// tamper is the self test of the comparison code: it stands for an implementation
// that damages the script file.
func tamper(mode string, after, orig []byte, c *caseT) []byte {
	a := txtar.Parse(after)
	switch mode {
	case "comment":
		a.Comment = append([]byte("# tampered\n"), a.Comment...)
	case "swap":
		if len(a.Files) >= 2 {
			a.Files[0], a.Files[1] = a.Files[1], a.Files[0]
		}
	case "other":
		for i, e := range c.Entries {
			if !e.Update && i < len(a.Files) {
				a.Files[i].Data = append(a.Files[i].Data, "z\n"...)
				break
			}
		}
	case "revert":
		return orig
	default:
		vutil.Fatalf("unknown -selfbug %q", mode)
	}
	return txtar.Format(a)
}

func replay(res *vutil.Result, casesPath, work string, stride, shard, shards int, selfbug string) {
	r := &runner{res: res, work: work, selfbug: selfbug}
	// the content table
	vutil.ReadNDJSON(casesPath, func(line []byte) {
		if r.content == nil && bytes.HasPrefix(line, []byte(`{"table"`)) {
			var c caseT
			if err := json.Unmarshal(line, &c); err != nil {
				vutil.Fatalf("table: %v", err)
			}
			var hx []string
			for _, e := range c.Table {
				r.content = append(r.content, vutil.Bytes(e))
				hx = append(hx, hex.EncodeToString(vutil.Bytes(e)))
			}
			r.table = strings.Join(hx, ",")
		}
	})
	if r.content == nil {
		vutil.Fatalf("no content table in %s", casesPath)
	}
	// the helper program: this binary under the name hprint
	r.binDir = filepath.Join(work, "bin")
	if err := os.MkdirAll(r.binDir, 0o777); err != nil {
		vutil.Fatalf("mkdir: %v", err)
	}
	exe, err := os.Executable()
	if err != nil {
		vutil.Fatalf("executable: %v", err)
	}
	if err := os.Symlink(exe, filepath.Join(r.binDir, "hprint")); err != nil {
		vutil.Fatalf("symlink: %v", err)
	}
	if stride < 1 {
		stride = 1
	}
	if shards < 1 {
		shards = 1
	}
	offset := int(vutil.Seed() % int64(stride))
	type item struct {
		idx  int
		line []byte
	}
	ch := make(chan item, 64)
	var wg sync.WaitGroup
	nworkers := 2 * runtime.NumCPU() / shards // the shards together keep every CPU busy without flooding the machine
	if nworkers < 2 {
		nworkers = 2
	}
	for w := 0; w < nworkers; w++ {
		wg.Add(1)
		go func() {
			defer wg.Done()
			for it := range ch {
				var c caseT
				if err := json.Unmarshal(it.line, &c); err != nil {
					vutil.Fatalf("case %d: %v", it.idx, err)
				}
				r.runCase(it.idx, &c)
			}
		}()
	}
	n := 0
	vutil.ReadNDJSON(casesPath, func(line []byte) {
		if bytes.HasPrefix(line, []byte(`{"table"`)) {
			return
		}
		n++
		res.Count("cases_emitted", 1)
		if (n+offset)%stride != 0 || (n/stride)%shards != shard {
			return
		}
		ch <- item{n, line}
	})
	close(ch)
	wg.Wait()
}
