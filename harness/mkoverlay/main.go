// mkoverlay builds a `go build -overlay` file that, without writing to the
// repository, (1) redirects chosen imports of chosen go-internal source files
// to the shim packages, (2) rewrites their `go` statements into calls of the
// scheduler-aware vsync.Go, (3) adds the shim packages as virtual packages
// github.com/rogpeppe/go-internal/verifshim/<name> and (4) adds extra virtual
// files (same-package accessors).
//
// usage: mkoverlay -config cfg.json -out overlay.json -scratch dir
package main

import (
	"bytes"
	"encoding/json"
	"flag"
	"fmt"
	"go/ast"
	"go/parser"
	"go/printer"
	"go/token"
	"os"
	"path/filepath"
	"strconv"
	"strings"
)

type fileCfg struct {
	Imports   map[string]string `json:"imports"`    // "sync" -> "vsync"
	RewriteGo bool              `json:"rewrite_go"` // go f(x) -> vsync.Go(func(){f(x)})
}

type config struct {
	Repo    string             `json:"repo"`
	ShimDir string             `json:"shim_dir"`
	Files   map[string]fileCfg `json:"files"` // path relative to repo
	Shims   []string           `json:"shims"` // names under shim_dir
	Add     map[string]string  `json:"add"`   // virtual path relative to repo -> real file
}

const shimPrefix = "github.com/rogpeppe/go-internal/verifshim/"

func fatal(f string, a ...interface{}) {
	fmt.Fprintf(os.Stderr, "mkoverlay: "+f+"\n", a...)
	os.Exit(1)
}

func main() {
	cfgPath := flag.String("config", "", "")
	out := flag.String("out", "overlay.json", "")
	scratch := flag.String("scratch", "", "")
	flag.Parse()
	b, err := os.ReadFile(*cfgPath)
	if err != nil {
		fatal("%v", err)
	}
	var cfg config
	if err := json.Unmarshal(b, &cfg); err != nil {
		fatal("%v", err)
	}
	replace := map[string]string{}
	n := 0
	for rel, fc := range cfg.Files {
		src := filepath.Join(cfg.Repo, rel)
		fset := token.NewFileSet()
		f, err := parser.ParseFile(fset, src, nil, parser.ParseComments)
		if err != nil {
			fatal("parse %s: %v", src, err)
		}
		for _, im := range f.Imports {
			p, _ := strconv.Unquote(im.Path.Value)
			if s, ok := fc.Imports[p]; ok {
				name := filepath.Base(p)
				if im.Name != nil {
					name = im.Name.Name
				}
				im.Name = ast.NewIdent(name)
				im.Path.Value = strconv.Quote(shimPrefix + s)
			}
		}
		if fc.RewriteGo {
			if rewriteGo(f) {
				addImport(f, "verifgo", shimPrefix+"vsync")
			}
		}
		var buf bytes.Buffer
		if err := printer.Fprint(&buf, fset, f); err != nil {
			fatal("print %s: %v", src, err)
		}
		n++
		dst := filepath.Join(*scratch, fmt.Sprintf("f%d_%s", n, filepath.Base(rel)))
		if err := os.WriteFile(dst, buf.Bytes(), 0o644); err != nil {
			fatal("%v", err)
		}
		replace[src] = dst
	}
	for _, s := range cfg.Shims {
		dir := filepath.Join(cfg.ShimDir, s)
		ents, err := os.ReadDir(dir)
		if err != nil {
			fatal("%v", err)
		}
		for _, e := range ents {
			if strings.HasSuffix(e.Name(), ".go") {
				replace[filepath.Join(cfg.Repo, "verifshim", s, e.Name())] = filepath.Join(dir, e.Name())
			}
		}
	}
	for virt, real := range cfg.Add {
		replace[filepath.Join(cfg.Repo, virt)] = real
	}
	ob, _ := json.MarshalIndent(map[string]interface{}{"Replace": replace}, "", " ")
	if err := os.WriteFile(*out, ob, 0o644); err != nil {
		fatal("%v", err)
	}
}

func addImport(f *ast.File, name, path string) {
	spec := &ast.ImportSpec{Name: ast.NewIdent(name), Path: &ast.BasicLit{Kind: token.STRING, Value: strconv.Quote(path)}}
	for _, d := range f.Decls {
		if g, ok := d.(*ast.GenDecl); ok && g.Tok == token.IMPORT {
			g.Specs = append(g.Specs, spec)
			if !g.Lparen.IsValid() {
				g.Lparen = g.Pos()
				g.Rparen = g.End()
			}
			f.Imports = append(f.Imports, spec)
			return
		}
	}
	g := &ast.GenDecl{Tok: token.IMPORT, Specs: []ast.Spec{spec}}
	f.Decls = append([]ast.Decl{g}, f.Decls...)
	f.Imports = append(f.Imports, spec)
}

// rewriteGo replaces every `go call(args)` by
//
//	{ a0 := arg0; ...; verifgo.Go(func() { call(a0, ...) }) }
//
// so that arguments are still evaluated at the go statement.
func rewriteGo(f *ast.File) bool {
	changed := false
	var visitList func(list []ast.Stmt)
	rewrite := func(gs *ast.GoStmt) ast.Stmt {
		changed = true
		call := gs.Call
		var pre []ast.Stmt
		newArgs := make([]ast.Expr, len(call.Args))
		for i, a := range call.Args {
			switch a.(type) {
			case *ast.BasicLit:
				newArgs[i] = a
				continue
			}
			if call.Ellipsis.IsValid() && i == len(call.Args)-1 {
				// keep variadic spread simple
			}
			id := ast.NewIdent(fmt.Sprintf("verifArg%d", i))
			pre = append(pre, &ast.AssignStmt{Lhs: []ast.Expr{id}, Tok: token.DEFINE, Rhs: []ast.Expr{a}})
			newArgs[i] = id
		}
		fun := call.Fun
		if _, isLit := fun.(*ast.FuncLit); !isLit {
			// evaluate the function value (method value receiver) now
			id := ast.NewIdent("verifFn")
			pre = append(pre, &ast.AssignStmt{Lhs: []ast.Expr{id}, Tok: token.DEFINE, Rhs: []ast.Expr{fun}})
			fun = id
		}
		inner := &ast.CallExpr{Fun: fun, Args: newArgs, Ellipsis: call.Ellipsis}
		lit := &ast.FuncLit{Type: &ast.FuncType{Params: &ast.FieldList{}}, Body: &ast.BlockStmt{List: []ast.Stmt{&ast.ExprStmt{X: inner}}}}
		goCall := &ast.ExprStmt{X: &ast.CallExpr{Fun: &ast.SelectorExpr{X: ast.NewIdent("verifgo"), Sel: ast.NewIdent("Go")}, Args: []ast.Expr{lit}}}
		return &ast.BlockStmt{List: append(pre, goCall)}
	}
	visitList = func(list []ast.Stmt) {
		for i, st := range list {
			if gs, ok := st.(*ast.GoStmt); ok {
				list[i] = rewrite(gs)
			}
		}
	}
	ast.Inspect(f, func(n ast.Node) bool {
		switch x := n.(type) {
		case *ast.BlockStmt:
			visitList(x.List)
		case *ast.CaseClause:
			visitList(x.Body)
		case *ast.CommClause:
			visitList(x.Body)
		case *ast.LabeledStmt:
			if gs, ok := x.Stmt.(*ast.GoStmt); ok {
				x.Stmt = rewrite(gs)
			}
		}
		return true
	})
	return changed
}
