// Package vutil holds the small pieces every driver shares: ndjson I/O, a
// result file, seeded randomness and a parallel for-each.
package vutil

import (
	"bufio"
	"encoding/json"
	"fmt"
	"math/rand"
	"os"
	"runtime"
	"strconv"
	"sync"
)

// Seed returns VERIF_SEED (default 1).
func Seed() int64 {
	n, err := strconv.ParseInt(os.Getenv("VERIF_SEED"), 10, 64)
	if err != nil {
		return 1
	}
	return n
}

func Rand(salt int64) *rand.Rand { return rand.New(rand.NewSource(Seed()*1000003 + salt)) }

// Finding is one observation about the real code.
type Finding struct {
	Kind   string      `json:"kind"`            // stable identifier of the law that failed
	What   string      `json:"what"`            // human readable
	Input  interface{} `json:"input,omitempty"` // the concrete failing input / history
	Detail interface{} `json:"detail,omitempty"`
	Class  string      `json:"class,omitempty"` // for known-finding matching
}

// Result is what a driver writes with -out.
type Result struct {
	mu          sync.Mutex
	Evaluations int64                  `json:"evaluations"`
	Nontrivial  int64                  `json:"distinct_nontrivial"`
	Violations  []Finding              `json:"violations"`
	Drift       []Finding              `json:"drift"`
	Samples     []interface{}          `json:"samples"`
	Counters    map[string]int64       `json:"counters"`
	Extra       map[string]interface{} `json:"extra,omitempty"`
	nviol       map[string]int
}

func NewResult() *Result {
	return &Result{Counters: map[string]int64{}, Extra: map[string]interface{}{}, nviol: map[string]int{}}
}

const maxPerKind = 25

func (r *Result) Violate(f Finding) {
	r.mu.Lock()
	defer r.mu.Unlock()
	r.Counters["violations_total"]++
	r.Counters["violation:"+f.Kind]++
	k := f.Kind + "|" + f.Class
	if r.nviol[k] >= maxPerKind {
		return
	}
	r.nviol[k]++
	r.Violations = append(r.Violations, f)
}

func (r *Result) DriftAdd(f Finding) {
	r.mu.Lock()
	defer r.mu.Unlock()
	r.Counters["drift_total"]++
	if len(r.Drift) < 20 {
		r.Drift = append(r.Drift, f)
	}
}

func (r *Result) Count(name string, n int64) {
	r.mu.Lock()
	r.Counters[name] += n
	r.mu.Unlock()
}

func (r *Result) Eval(nontrivial bool) {
	r.mu.Lock()
	r.Evaluations++
	if nontrivial {
		r.Nontrivial++
	}
	r.mu.Unlock()
}

func (r *Result) Sample(s interface{}, max int) {
	r.mu.Lock()
	if len(r.Samples) < max {
		r.Samples = append(r.Samples, s)
	}
	r.mu.Unlock()
}

func (r *Result) Write(path string) {
	r.mu.Lock()
	defer r.mu.Unlock()
	if r.Violations == nil {
		r.Violations = []Finding{}
	}
	if r.Drift == nil {
		r.Drift = []Finding{}
	}
	if r.Samples == nil {
		r.Samples = []interface{}{}
	}
	b, err := json.MarshalIndent(r, "", " ")
	if err != nil {
		Fatalf("marshal result: %v", err)
	}
	if err := os.WriteFile(path, b, 0o644); err != nil {
		Fatalf("write result: %v", err)
	}
}

func Fatalf(format string, a ...interface{}) {
	fmt.Fprintf(os.Stderr, "driver: "+format+"\n", a...)
	os.Exit(3)
}

// ReadNDJSON calls fn for every line of path (lines may be large).
func ReadNDJSON(path string, fn func(line []byte)) {
	f, err := os.Open(path)
	if err != nil {
		Fatalf("open %s: %v", path, err)
	}
	defer f.Close()
	sc := bufio.NewScanner(f)
	sc.Buffer(make([]byte, 1<<20), 1<<28)
	for sc.Scan() {
		b := sc.Bytes()
		if len(b) == 0 {
			continue
		}
		c := make([]byte, len(b))
		copy(c, b)
		fn(c)
	}
	if err := sc.Err(); err != nil {
		Fatalf("read %s: %v", path, err)
	}
}

// NDJSONWriter writes one JSON value per line, safe for concurrent use.
type NDJSONWriter struct {
	mu sync.Mutex
	f  *os.File
	w  *bufio.Writer
	N  int
}

func NewNDJSONWriter(path string) *NDJSONWriter {
	f, err := os.Create(path)
	if err != nil {
		Fatalf("create %s: %v", path, err)
	}
	return &NDJSONWriter{f: f, w: bufio.NewWriterSize(f, 1<<20)}
}

func (w *NDJSONWriter) Write(v interface{}) {
	b, err := json.Marshal(v)
	if err != nil {
		Fatalf("marshal: %v", err)
	}
	w.mu.Lock()
	w.w.Write(b)
	w.w.WriteByte('\n')
	w.N++
	w.mu.Unlock()
}

func (w *NDJSONWriter) Close() {
	w.w.Flush()
	w.f.Close()
}

// ParallelLines feeds the lines of path to nworkers goroutines.
func ParallelLines(path string, fn func(line []byte)) {
	n := runtime.NumCPU()
	ch := make(chan []byte, 4*n)
	var wg sync.WaitGroup
	for i := 0; i < n; i++ {
		wg.Add(1)
		go func() {
			defer wg.Done()
			for l := range ch {
				fn(l)
			}
		}()
	}
	ReadNDJSON(path, func(l []byte) { ch <- l })
	close(ch)
	wg.Wait()
}

// ParallelN runs fn(i) for i in [0,n) on all CPUs.
func ParallelN(n int, fn func(i int)) {
	w := runtime.NumCPU()
	var wg sync.WaitGroup
	ch := make(chan int, 4*w)
	for k := 0; k < w; k++ {
		wg.Add(1)
		go func() {
			defer wg.Done()
			for i := range ch {
				fn(i)
			}
		}()
	}
	for i := 0; i < n; i++ {
		ch <- i
	}
	close(ch)
	wg.Wait()
}

// Ints converts bytes to the int arrays the specs use.
func Ints(b []byte) []int {
	r := make([]int, len(b))
	for i, c := range b {
		r[i] = int(c)
	}
	return r
}

// Bytes converts back.
func Bytes(a []int) []byte {
	r := make([]byte, len(a))
	for i, c := range a {
		r[i] = byte(c)
	}
	return r
}
