"""Common machinery for the /verif checks: scratch handling, TLC runner and
output parser, Go harness builder, evidence writer, known-findings policy.

Exit codes used by every check (DESIGN.md section 2.5):
  0  property held on everything explored (KNOWN-FINDING lines allowed)
  1  + "VIOLATION property=<id> replay=<path>"  real code observed breaking it
  2  no verdict (tool failure, timeout, spec/model inconsistency)
"""
import json
import os
import re
import shutil
import signal
import subprocess
import sys
import tempfile
import time

VERIF = os.path.dirname(os.path.dirname(os.path.abspath(__file__)))
REPO = os.environ.get("VERIF_REPO", "/repo")
SPEC = os.path.join(VERIF, "spec")
HARNESS = os.path.join(VERIF, "harness")
EVIDENCE = os.environ.get("VERIF_EVIDENCE") or os.path.join(VERIF, "evidence")
REPLAY = os.path.join(EVIDENCE, "replay")
KNOWN = os.path.join(VERIF, "known_findings.json")
TLA_CP = "/opt/veriftools/tla/tla2tools.jar:/opt/veriftools/tla/CommunityModules-deps.jar"
NCPU = os.cpu_count() or 4


class NoVerdict(Exception):
    """Raised when the machinery itself failed; maps to exit status 2."""


def log(*a):
    print(*a, flush=True)


def go_env():
    e = dict(os.environ)
    e.update(GOFLAGS="-mod=mod", GOPROXY="off", GOSUMDB="off", GOTOOLCHAIN="local",
             CGO_ENABLED=e.get("CGO_ENABLED", "1"))
    return e


class Ctx:
    def __init__(self, prop, tier, seed):
        self.prop = prop
        self.tier = tier
        self.seed = seed
        self.t0 = time.time()
        self.scratch = tempfile.mkdtemp(prefix="verif-%s-" % prop.lower())
        self.tlc_states = 0
        self.tlc_transitions = 0
        self.tlc_runs = []
        self.keep = bool(os.environ.get("VERIF_KEEP"))
        self.fast_root = None

    def fastdir(self, *p):
        """A directory for work trees that are created and removed tens of thousands of times: on tmpfs when there is
        one (VERIF_NO_TMPFS=1 turns that off), else under the scratch directory.  Removed with the scratch directory."""
        if self.fast_root is None:
            self.fast_root = self.scratch
            if not os.environ.get("VERIF_NO_TMPFS"):
                for base in ("/dev/shm",):
                    if os.path.isdir(base) and os.access(base, os.W_OK):
                        try:
                            self.fast_root = tempfile.mkdtemp(prefix="verif-%s-" % self.prop.lower(), dir=base)
                            break
                        except OSError:
                            pass
        d = os.path.join(self.fast_root, *p)
        os.makedirs(d, exist_ok=True)
        return d

    def path(self, *p):
        d = os.path.join(self.scratch, *p)
        os.makedirs(os.path.dirname(d), exist_ok=True)
        return d

    def mkdir(self, *p):
        d = os.path.join(self.scratch, *p)
        os.makedirs(d, exist_ok=True)
        return d

    def cleanup(self):
        if self.keep:
            log("scratch kept at", self.scratch)
            return
        # work dirs may contain read-only directories
        for root, dirs, _ in os.walk(self.scratch):
            for d in dirs:
                try:
                    os.chmod(os.path.join(root, d), 0o700)
                except OSError:
                    pass
        shutil.rmtree(self.scratch, ignore_errors=True)
        if self.fast_root and self.fast_root != self.scratch:
            for root, dirs, _ in os.walk(self.fast_root):
                for d in dirs:
                    try:
                        os.chmod(os.path.join(root, d), 0o700)
                    except OSError:
                        pass
            shutil.rmtree(self.fast_root, ignore_errors=True)


# --------------------------------------------------------------------------
# Go harness

def go_build(ctx, pkg, out_name=None, tags="verif", overlay=None, race=False, timeout=600):
    """Build ./<pkg> of the harness module against /repo's working tree."""
    # the module file is generated per run so that the code under test is REPO's
    # working tree (default /repo; VERIF_REPO points the checks at a scratch worktree)
    modfile = ctx.path("gomod", "go.mod")
    with open(os.path.join(HARNESS, "go.mod")) as fh:
        mod = fh.read()
    mod = re.sub(r"(replace github.com/rogpeppe/go-internal => ).*", lambda m: m.group(1) + REPO, mod)
    with open(modfile, "w") as fh:
        fh.write(mod)
    src = os.path.join(REPO, "go.sum")
    if os.path.exists(src):
        shutil.copyfile(src, ctx.path("gomod", "go.sum"))
    out = ctx.path("bin", out_name or os.path.basename(pkg))
    cmd = ["go", "build", "-modfile", modfile, "-tags", tags, "-o", out]
    if overlay:
        cmd += ["-overlay", overlay]
    if race:
        cmd += ["-race"]
    cmd += ["./" + pkg]
    env = go_env()
    r = subprocess.run(cmd, cwd=HARNESS, env=env, stdout=subprocess.PIPE, stderr=subprocess.STDOUT,
                       text=True, timeout=timeout)
    if r.returncode != 0:
        raise NoVerdict("go build %s failed:\n%s" % (pkg, r.stdout[-4000:]))
    return out


def go_build_repo(ctx, pkg, out_name, timeout=600):
    """Build a command of /repo itself (e.g. ./cmd/txtar-c) from the working tree."""
    out = ctx.path("bin", out_name)
    r = subprocess.run(["go", "build", "-o", out, pkg], cwd=REPO, env=go_env(),
                       stdout=subprocess.PIPE, stderr=subprocess.STDOUT, text=True, timeout=timeout)
    if r.returncode != 0:
        raise NoVerdict("go build %s failed:\n%s" % (pkg, r.stdout[-4000:]))
    return out


def run_driver(ctx, argv, timeout=3600, env=None, cwd=None, stdin=None):
    """Run a harness driver.  Convention: the driver writes its result JSON to the
    path given with -out, exit 0 on completion (whatever it found), non-zero on
    an internal failure."""
    e = go_env()
    e["VERIF_SEED"] = str(ctx.seed)
    e["VERIF_TIER"] = ctx.tier
    e["TMPDIR"] = ctx.mkdir("tmp")
    e["GOTMPDIR"] = ctx.mkdir("gotmp")
    if env:
        e.update(env)
    if os.environ.get("VERIF_DRIVER_TIMEOUT"):
        timeout = min(timeout, int(os.environ["VERIF_DRIVER_TIMEOUT"]))
    p = subprocess.Popen(argv, cwd=cwd or ctx.scratch, env=e, stdout=subprocess.PIPE, stderr=subprocess.STDOUT, text=True,
                         errors="replace", stdin=stdin)
    try:
        out, _ = p.communicate(timeout=timeout)
    except subprocess.TimeoutExpired:
        # ask the Go runtime for its goroutines before killing: a hung driver is a harness problem to be diagnosed
        p.send_signal(signal.SIGQUIT)
        try:
            out, _ = p.communicate(timeout=20)
        except subprocess.TimeoutExpired:
            p.kill()
            out, _ = p.communicate()
        dump = os.path.join(EVIDENCE, "driver-timeout-%s.txt" % os.path.basename(argv[0]))
        try:
            with open(dump, "w") as fh:
                fh.write(" ".join(argv) + "\n" + (out or "")[-400000:])
        except OSError:
            dump = "(not written)"
        raise NoVerdict("driver timed out after %ds: %s (goroutine dump: %s)" % (timeout, " ".join(argv[:3]), dump))
    if p.returncode != 0:
        raise NoVerdict("driver failed (%d): %s\n%s" % (p.returncode, " ".join(argv[:4]), out[-6000:]))
    return out


# --------------------------------------------------------------------------
# TLC

class TLCResult:
    def __init__(self):
        self.generated = 0
        self.distinct = 0
        self.depth = 0
        self.ok = False            # "No error has been found"
        self.violation = None      # text of the first error
        self.postcondition_failed = False
        self.out_path = None
        self.emit_path = None
        self.emits = 0
        self.wall = 0.0
        self.cfg = None


_unesc_re = re.compile(r'\\(.)')


def _tla_unescape(s):
    def rep(m):
        c = m.group(1)
        return {"n": "\n", "t": "\t", "r": "\r", "f": "\f"}.get(c, c)
    return _unesc_re.sub(rep, s)


def tlc(ctx, specdir, module, cfg, workers=None, timeout=1800, emit_to=None, files=None,
        simulate=None, depth=None, deque=False, heap="8g", extra=None, expect_violation=False,
        cfg_text=None, coverage=False, name=None):
    """Run TLC on a scratch copy of spec/<specdir>.  `files` are extra files (traces)
    copied into the working directory.  EMIT lines are unescaped into emit_to."""
    name = name or (cfg.replace(".cfg", ""))
    wd = ctx.mkdir("tlc", name + "-" + str(len(ctx.tlc_runs)))
    srcdir = os.path.join(SPEC, specdir)
    for f in os.listdir(srcdir):
        if f.endswith(".tla") or f.endswith(".cfg"):
            shutil.copyfile(os.path.join(srcdir, f), os.path.join(wd, f))
    common = os.path.join(SPEC, "common")
    if os.path.isdir(common):
        for f in os.listdir(common):
            if f.endswith(".tla"):
                shutil.copyfile(os.path.join(common, f), os.path.join(wd, f))
    if cfg_text is not None:
        with open(os.path.join(wd, cfg), "w") as fh:
            fh.write(cfg_text)
    for f in (files or []):
        dst = os.path.join(wd, os.path.basename(f))
        if os.path.abspath(f) != os.path.abspath(dst):
            try:
                os.link(f, dst)
            except OSError:
                shutil.copyfile(f, dst)
    workers = workers or NCPU
    jopts = ["-XX:+UseParallelGC", "-XX:ParallelGCThreads=%d" % max(2, min(8, workers)),
             "-Xmx" + heap, "-Xss512m", "-Djava.io.tmpdir=" + ctx.mkdir("jtmp")]
    if deque:
        jopts.append("-Dtlc2.tool.queue.IStateQueue=StateDeque")
    cmd = ["java"] + jopts + ["-cp", TLA_CP, "tlc2.TLC", "-workers", str(workers),
                              "-metadir", os.path.join(wd, "meta"), "-config", cfg]
    if simulate:
        cmd += ["-simulate", simulate]
    if depth:
        cmd += ["-depth", str(depth)]
    if simulate or True:
        cmd += ["-seed", str(ctx.seed)]
    if coverage:
        cmd += ["-coverage", "1"]
    cmd += (extra or [])
    cmd += [module]
    res = TLCResult()
    res.cfg = cfg
    res.out_path = os.path.join(wd, "tlc.out")
    t0 = time.time()
    env = dict(os.environ)
    env.pop("JAVA_TOOL_OPTIONS", None)
    with open(res.out_path, "w") as fh:
        try:
            p = subprocess.run(cmd, cwd=wd, stdout=fh, stderr=subprocess.STDOUT, timeout=timeout, env=env)
            rc = p.returncode
        except subprocess.TimeoutExpired:
            subprocess.run(["pkill", "-f", wd], check=False)
            raise NoVerdict("TLC timed out after %ds on %s/%s" % (timeout, specdir, cfg))
    res.wall = time.time() - t0
    efh = open(emit_to, "a") if emit_to else None
    err_lines = []
    in_err = False
    with open(res.out_path, errors="replace") as fh:
        for line in fh:
            if line.startswith('<<"EMIT", "'):
                if efh:
                    efh.write(_tla_unescape(line.rstrip("\n")[11:-3]) + "\n")
                res.emits += 1
                continue
            m = re.match(r"(\d+) states generated, (\d+) distinct states found", line)
            if m:
                res.generated = int(m.group(1))
                res.distinct = int(m.group(2))
            m = re.match(r"The depth of the complete state graph search is (\d+)", line)
            if m:
                res.depth = int(m.group(1))
            if "No error has been found" in line:
                res.ok = True
            if line.startswith("Error:"):
                in_err = True
            if in_err and len(err_lines) < 60:
                err_lines.append(line.rstrip("\n"))
            if "Postcondition" in line and "is false" in line or "violated" in line and "ostcondition" in line:
                res.postcondition_failed = True
    if efh:
        efh.close()
    res.emit_path = emit_to
    if err_lines:
        res.violation = "\n".join(err_lines)
        res.ok = False
    ctx.tlc_runs.append(dict(spec=specdir + "/" + module, cfg=cfg, generated=res.generated,
                             distinct=res.distinct, wall_s=round(res.wall, 2), ok=res.ok,
                             simulate=simulate or "", emits=res.emits))
    if not expect_violation:
        ctx.tlc_states += res.distinct
        ctx.tlc_transitions += max(res.generated - 1, 0)
    if rc != 0 and not err_lines and not res.ok:
        tail = subprocess.run(["tail", "-30", res.out_path], stdout=subprocess.PIPE, text=True).stdout
        raise NoVerdict("TLC failed (rc=%d) on %s/%s:\n%s" % (rc, specdir, cfg, tail))
    return res


def require_tlc_ok(res, what):
    """A TLC error on a spec-level check is a model problem: no verdict (exit 2)."""
    if not res.ok:
        raise NoVerdict("TLC reported an error in %s (%s): spec-level inconsistency, not a code verdict\n%s"
                        % (what, res.cfg, (res.violation or "")[:3000]))


# --------------------------------------------------------------------------
# known findings, verdict, evidence

def load_known(prop):
    if not os.path.exists(KNOWN):
        return []
    with open(KNOWN) as fh:
        k = json.load(fh)
    return [f for f in k.get("findings", []) if f.get("property") == prop and f.get("status") == "known"]


def match_known(known, violation):
    """A known finding lists a 'match' dict; every key must equal the violation's key."""
    for k in known:
        m = k.get("match", {})
        if m and all(violation.get(key) == val for key, val in m.items()):
            return k
    return None


def write_replay(prop, name, obj):
    os.makedirs(REPLAY, exist_ok=True)
    p = os.path.join(REPLAY, "%s-%s.json" % (prop, name))
    with open(p, "w") as fh:
        json.dump(obj, fh, indent=1, sort_keys=True)
    return p


def write_evidence(ctx, level, coverage, assumptions, violations=0, extra=None):
    os.makedirs(EVIDENCE, exist_ok=True)
    cov = dict(coverage)
    if level == "model_checking":
        cov.setdefault("states", ctx.tlc_states)
        cov.setdefault("transitions", ctx.tlc_transitions)
        cov.setdefault("traces_validated_against_impl", 0)
    cov["tlc_runs"] = ctx.tlc_runs
    ev = dict(property_id=ctx.prop, tier=ctx.tier, seed=ctx.seed, level=level, coverage=cov,
              assumptions=assumptions, wall_s=round(time.time() - ctx.t0, 2), violations=violations)
    if extra:
        ev.update(extra)
    tmp = os.path.join(EVIDENCE, ".%s.json.tmp" % ctx.prop)
    with open(tmp, "w") as fh:
        json.dump(ev, fh, indent=1)
    os.replace(tmp, os.path.join(EVIDENCE, "%s.json" % ctx.prop))


def conclude(ctx, violations, level, coverage, assumptions, extra=None):
    """violations: list of dicts with at least 'kind' and 'what'.  Splits them into
    known findings and new ones, prints the interface lines, writes evidence and
    returns the exit status."""
    known = load_known(ctx.prop)
    new, seen_known = [], {}
    for v in violations:
        k = match_known(known, v)
        if k is not None:
            seen_known.setdefault(k["id"], (k, v))
        else:
            new.append(v)
    for kid, (k, v) in sorted(seen_known.items()):
        log("KNOWN-FINDING: property=%s %s" % (ctx.prop, k.get("what", kid)))
    coverage = dict(coverage)
    coverage["known_findings_seen"] = sorted(seen_known)
    write_evidence(ctx, level, coverage, assumptions, violations=len(new), extra=extra)
    if new:
        # one VIOLATION line per kind of failure (at most 3 replay files per kind)
        bykind = {}
        for v in new:
            bykind.setdefault(v.get("kind", "violation"), []).append(v)
        for kind, vs in sorted(bykind.items()):
            log("  %s: %d case(s)" % (kind, len(vs)))
            for n, v in enumerate(vs[:3]):
                name = re.sub(r"[^A-Za-z0-9_]+", "_", kind)[:40] + "-" + str(n + 1)
                p = write_replay(ctx.prop, name, v)
                log("  detail: %s" % json.dumps(v, sort_keys=True)[:500])
                if n == 0:
                    log("VIOLATION property=%s replay=%s" % (ctx.prop, p))
        return 1
    return 0


def main_wrapper(prop, fn):
    """fn(ctx) -> exit status.  Handles argv (--tier, --replay), seed, scratch, exit 2."""
    import argparse
    # A check started as a background job of a non-interactive shell inherits SIGINT / SIGQUIT ignored, and Go programs
    # keep inherited ignores: the interrupt testscript sends to a background command (SIGINT) or to a command that runs
    # into the deadline (SIGQUIT) would then do nothing and the scripts under observation would never end.  The checks
    # observe the code under default dispositions, whatever the caller's shell did.
    for sig in (signal.SIGINT, signal.SIGQUIT, signal.SIGTERM, signal.SIGHUP):
        try:
            if signal.getsignal(sig) == signal.SIG_IGN:
                signal.signal(sig, signal.default_int_handler if sig == signal.SIGINT else signal.SIG_DFL)
        except (OSError, ValueError):
            pass
    try:
        signal.pthread_sigmask(signal.SIG_UNBLOCK, {signal.SIGINT, signal.SIGQUIT, signal.SIGTERM, signal.SIGHUP, signal.SIGPIPE, signal.SIGCHLD})
    except (OSError, ValueError, AttributeError):
        pass
    ap = argparse.ArgumentParser()
    ap.add_argument("--tier", default=os.environ.get("VERIF_TIER", "quick"), choices=["quick", "thorough"])
    ap.add_argument("--replay", default=None)
    ap.add_argument("--selftest", action="store_true")
    args = ap.parse_args(sys.argv[2:])
    try:
        seed = int(os.environ.get("VERIF_SEED", "1"))
    except ValueError:
        seed = 1
    ctx = Ctx(prop, args.tier, seed)
    ctx.replay = args.replay
    ctx.selftest = args.selftest
    if args.replay:
        # a replay file holds the concrete failing input / history of an earlier violation; checks without a
        # dedicated single-case mode re-run the tier that found it (same seed => same cases) after showing it
        try:
            with open(args.replay) as fh:
                log("replaying %s:\n%s" % (args.replay, fh.read()[:3000]))
        except OSError as e:
            log("cannot read replay file: %s" % e)
    try:
        rc = fn(ctx)
    except NoVerdict as e:
        log("NO-VERDICT property=%s: %s" % (prop, e))
        rc = 2
    except subprocess.TimeoutExpired as e:
        log("NO-VERDICT property=%s: timeout %s" % (prop, e))
        rc = 2
    finally:
        ctx.cleanup()
    log("check %s tier=%s seed=%d exit=%d wall=%.1fs" % (prop, args.tier, seed, rc, time.time() - ctx.t0))
    return rc


# --------------------------------------------------------------------------
# overlay (binding C): redirect imports of chosen /repo files to the shims

SHIM_DIR = os.path.join(HARNESS, "_shim")
ALL_SHIMS = sorted(d for d in os.listdir(SHIM_DIR)) if os.path.isdir(SHIM_DIR) else []


def make_overlay(ctx, name, files, shims=None, add=None):
    """files: {"par/work.go": {"imports": {"sync": "vsync"}, "rewrite_go": True}}.
    Returns the overlay path.  Nothing is written into the repository."""
    tool = ctx.path("bin", "mkoverlay")
    if not os.path.exists(tool):
        r = subprocess.run(["go", "build", "-o", tool, "./mkoverlay"], cwd=HARNESS, env=go_env(),
                           stdout=subprocess.PIPE, stderr=subprocess.STDOUT, text=True)
        if r.returncode != 0:
            raise NoVerdict("go build mkoverlay failed:\n" + r.stdout[-3000:])
    d = ctx.mkdir("overlay", name)
    cfg = dict(repo=REPO, shim_dir=SHIM_DIR, files=files, shims=shims or ALL_SHIMS, add=add or {})
    cfgp = os.path.join(d, "cfg.json")
    with open(cfgp, "w") as fh:
        json.dump(cfg, fh)
    outp = os.path.join(d, "overlay.json")
    r = subprocess.run([tool, "-config", cfgp, "-out", outp, "-scratch", d], stdout=subprocess.PIPE,
                       stderr=subprocess.STDOUT, text=True)
    if r.returncode != 0:
        raise NoVerdict("mkoverlay failed:\n" + r.stdout[-3000:])
    return outp


def bad_traces(res):
    """Parse <<"BAD", "Inv", idx>> lines of a trace-validation run: {idx: {invs}}."""
    bad = {}
    with open(res.out_path, errors="replace") as fh:
        for line in fh:
            m = re.match(r'<<"BAD", "(\w+)", (\d+)>>', line)
            if m:
                bad.setdefault(int(m.group(2)), set()).add(m.group(1))
    return bad


def load_result(path):
    with open(path) as fh:
        return json.load(fh)
