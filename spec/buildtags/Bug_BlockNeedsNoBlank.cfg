\* sanity: run with MC_BuildBlock.tla; TLC must report InvL1L2 / InvNoBlank violated
\* (the leading block taken without the "must be followed by a blank line" rule)
SPECIFICATION Spec
CONSTANTS
  L = 2
  Alpha = {1, 2, 3, 4, 5, 6, 7, 8, 9, 10, 11, 12, 13, 14}
  Emit = FALSE
  Bug = "BlockNeedsNoBlank"
INVARIANTS InvL1L2 InvCount InvNoBlank InvAfterCode
CHECK_DEADLOCK FALSE
