\* sanity: run with MC_BuildNames.tla; TLC must report InvL1L2 / InvAndroid violated
\* (this seeded fault is the defect found in imports.MatchFile: tags[os] instead of the android rule)
SPECIFICATION Spec
CONSTANTS
  MaxSeg = 2
  Emit = FALSE
  Bug = "MatchFileNoAndroid"
INVARIANTS InvTokens InvL1L2 InvAndroid InvStar InvMonotone InvExt InvNoUnderscore
CHECK_DEADLOCK FALSE
