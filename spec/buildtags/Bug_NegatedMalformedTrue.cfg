\* sanity: run with MC_BuildExpr.tla; TLC must report InvL1L2 / InvMalformed violated
\* (a negated malformed term taken as true, the pre-go1.17 go/build reading)
SPECIFICATION Spec
CONSTANTS
  N = 3
  Emit = FALSE
  Bug = "NegatedMalformedTrue"
INVARIANTS InvOneLine InvL1L2 InvAndroid InvStar InvNegation InvMalformed
CHECK_DEADLOCK FALSE
