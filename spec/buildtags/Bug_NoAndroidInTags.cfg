\* sanity: run with MC_BuildExpr.tla; TLC must report InvL1L2 / InvAndroid violated
SPECIFICATION Spec
CONSTANTS
  N = 3
  Emit = FALSE
  Bug = "NoAndroidInTags"
INVARIANTS InvOneLine InvL1L2 InvAndroid InvStar InvNegation InvMalformed
CHECK_DEADLOCK FALSE
