----------------------------- MODULE BuildTags ------------------------------
(***************************************************************************)
(* Reference semantics of Go's legacy build constraints as the package     *)
(* github.com/rogpeppe/go-internal/imports implements them (property C19): *)
(*                                                                         *)
(*   ShouldBuild(content, tags)   "// +build" lines of the leading comment *)
(*                                block of a source file                   *)
(*   MatchFile(name, tags)        the _GOOS / _GOARCH / _GOOS_GOARCH       *)
(*                                [_test] file-name rule                   *)
(*                                                                         *)
(* Bytes are naturals, strings are sequences of naturals, a tag set is the *)
(* set of the tag names that map to true (map entries that are false and   *)
(* missing entries are the same thing).  Only ASCII is modelled: the white *)
(* space of bytes.TrimSpace / strings.Fields is {TAB LF VT FF CR SP} and   *)
(* unicode.IsLetter / IsDigit are [A-Za-z] / [0-9]; the drivers never feed *)
(* bytes >= 128.                                                           *)
(*                                                                         *)
(* The module is definitional.  Both functions are written twice:          *)
(*   - statement-shaped (suffix L1): the wording of the property;          *)
(*   - code-shaped (no suffix): the algorithm of go/build that the         *)
(*     package copies (line scanner, Fields, Split, l[n-2] / l[n-1]).      *)
(* The MC_* modules make TLC check that the two agree, check the laws of   *)
(* the statement (android selects linux, "*", negation, malformed terms),  *)
(* and emit the predicted results that are replayed into the real code;    *)
(* Trace_BuildTags evaluates the same definitions on records of the real   *)
(* code.  Bug is "none" or the name of a seeded fault (sanity configs).    *)
(***************************************************************************)
EXTENDS Naturals, Sequences, FiniteSets

CONSTANT Bug

TAB == 9
LF == 10
CR == 13
SP == 32
BANG == 33
STAR == 42
PLUS == 43
COMMA == 44
MINUS == 45
DOT == 46
SLASH == 47
USCORE == 95

W_build   == <<98, 117, 105, 108, 100>>
W_linux   == <<108, 105, 110, 117, 120>>
W_android == <<97, 110, 100, 114, 111, 105, 100>>
W_windows == <<119, 105, 110, 100, 111, 119, 115>>
W_amd64   == <<97, 109, 100, 54, 52>>
W_arm     == <<97, 114, 109>>
W_plan9   == <<112, 108, 97, 110, 57>>
W_foo     == <<102, 111, 111>>
W_ignore  == <<105, 103, 110, 111, 114, 101>>
W_test    == <<116, 101, 115, 116>>
W_x       == <<120>>
W_star    == <<STAR>>
SlashSlash == <<SLASH, SLASH>>
PlusBuild  == <<PLUS>> \o W_build

\* The token lists that make a file-name suffix significant (the anchor's
\* "state"): imports.KnownOS / KnownArch, copied from go/build's syslist.go.
KnownOS == {
  <<97, 105, 120>>,                               \* aix
  <<97, 110, 100, 114, 111, 105, 100>>,           \* android
  <<100, 97, 114, 119, 105, 110>>,                \* darwin
  <<100, 114, 97, 103, 111, 110, 102, 108, 121>>, \* dragonfly
  <<102, 114, 101, 101, 98, 115, 100>>,           \* freebsd
  <<104, 117, 114, 100>>,                         \* hurd
  <<105, 108, 108, 117, 109, 111, 115>>,          \* illumos
  <<105, 111, 115>>,                              \* ios
  <<106, 115>>,                                   \* js
  <<108, 105, 110, 117, 120>>,                    \* linux
  <<110, 97, 99, 108>>,                           \* nacl
  <<110, 101, 116, 98, 115, 100>>,                \* netbsd
  <<111, 112, 101, 110, 98, 115, 100>>,           \* openbsd
  <<112, 108, 97, 110, 57>>,                      \* plan9
  <<115, 111, 108, 97, 114, 105, 115>>,           \* solaris
  <<119, 105, 110, 100, 111, 119, 115>>,          \* windows
  <<122, 111, 115>> }                             \* zos
KnownArch == {
  <<51, 56, 54>>,                                 \* 386
  <<97, 109, 100, 54, 52>>,                       \* amd64
  <<97, 109, 100, 54, 52, 112, 51, 50>>,          \* amd64p32
  <<97, 114, 109>>,                               \* arm
  <<97, 114, 109, 98, 101>>,                      \* armbe
  <<97, 114, 109, 54, 52>>,                       \* arm64
  <<97, 114, 109, 54, 52, 98, 101>>,              \* arm64be
  <<108, 111, 111, 110, 103, 54, 52>>,            \* loong64
  <<109, 105, 112, 115>>,                         \* mips
  <<109, 105, 112, 115, 108, 101>>,               \* mipsle
  <<109, 105, 112, 115, 54, 52>>,                 \* mips64
  <<109, 105, 112, 115, 54, 52, 108, 101>>,       \* mips64le
  <<109, 105, 112, 115, 54, 52, 112, 51, 50>>,    \* mips64p32
  <<109, 105, 112, 115, 54, 52, 112, 51, 50, 108, 101>>, \* mips64p32le
  <<112, 112, 99>>,                               \* ppc
  <<112, 112, 99, 54, 52>>,                       \* ppc64
  <<112, 112, 99, 54, 52, 108, 101>>,             \* ppc64le
  <<114, 105, 115, 99, 118>>,                     \* riscv
  <<114, 105, 115, 99, 118, 54, 52>>,             \* riscv64
  <<115, 51, 57, 48>>,                            \* s390
  <<115, 51, 57, 48, 120>>,                       \* s390x
  <<115, 112, 97, 114, 99>>,                      \* sparc
  <<115, 112, 97, 114, 99, 54, 52>>,              \* sparc64
  <<119, 97, 115, 109>> }                         \* wasm

----------------------------------------------------------------------------
\* byte-string helpers (ASCII subset of bytes / strings)

IsSpace(b) == b \in {9, 10, 11, 12, 13, 32}

RECURSIVE TrimLeft(_), TrimRight(_)
TrimLeft(s)  == IF s # <<>> /\ IsSpace(Head(s)) THEN TrimLeft(Tail(s)) ELSE s
TrimRight(s) == IF s # <<>> /\ IsSpace(s[Len(s)]) THEN TrimRight(SubSeq(s, 1, Len(s)-1)) ELSE s
TrimSpace(s) == TrimRight(TrimLeft(s))

HasPrefix(s, p) == Len(s) >= Len(p) /\ SubSeq(s, 1, Len(p)) = p
HasSuffix(s, p) == Len(s) >= Len(p) /\ SubSeq(s, Len(s) - Len(p) + 1, Len(s)) = p
DropPrefix(s, n) == SubSeq(s, n + 1, Len(s))

\* strings.Index(s, b) for one byte: position of the first b, 0 if none
RECURSIVE IndexFrom(_, _, _)
IndexFrom(s, b, i) == IF i > Len(s) THEN 0 ELSE IF s[i] = b THEN i ELSE IndexFrom(s, b, i + 1)
IndexByte(s, b) == IndexFrom(s, b, 1)

\* strings.Split(s, sep) for a one-byte separator: always at least one part
RECURSIVE SplitFrom(_, _, _, _)
SplitFrom(s, b, i, start) ==
  IF i > Len(s) THEN <<SubSeq(s, start, Len(s))>>
  ELSE IF s[i] = b THEN <<SubSeq(s, start, i - 1)>> \o SplitFrom(s, b, i + 1, i + 1)
  ELSE SplitFrom(s, b, i + 1, start)
Split(s, b) == SplitFrom(s, b, 1, 1)

\* strings.Fields(s): maximal runs of non-space bytes
RECURSIVE FieldsFrom(_, _, _)
FieldsFrom(s, i, start) ==     \* start = 0: not inside a field
  IF i > Len(s) THEN (IF start = 0 THEN <<>> ELSE <<SubSeq(s, start, Len(s))>>)
  ELSE IF IsSpace(s[i]) THEN (IF start = 0 THEN FieldsFrom(s, i + 1, 0)
                              ELSE <<SubSeq(s, start, i - 1)>> \o FieldsFrom(s, i + 1, 0))
  ELSE FieldsFrom(s, i + 1, IF start = 0 THEN i ELSE start)
Fields(s) == FieldsFrom(s, 1, 0)

\* The line scanner both passes of ShouldBuild use: split after every LF, the
\* LF is not part of the line, an unterminated rest is a last line, an empty
\* rest is not.
RECURSIVE LinesFrom(_, _, _)
LinesFrom(s, i, start) ==
  IF i > Len(s) THEN (IF start > Len(s) THEN <<>> ELSE <<SubSeq(s, start, Len(s))>>)
  ELSE IF s[i] = LF THEN <<SubSeq(s, start, i - 1)>> \o LinesFrom(s, i + 1, i + 1)
  ELSE LinesFrom(s, i + 1, start)
Lines(s) == LinesFrom(s, 1, 1)

----------------------------------------------------------------------------
\* Tag sets

StarOn(tags) == W_star \in tags
\* "android also satisfies / selects linux"
Selects(tags, n) == n \in tags \/ (n = W_linux /\ W_android \in tags)

----------------------------------------------------------------------------
\* ShouldBuild

IsBlankLine(l)   == TrimSpace(l) = <<>>
IsCommentLine(l) == HasPrefix(TrimSpace(l), SlashSlash)

\* Index of the last line of the leading block: the leading run of // comment
\* lines and blank lines, cut back to its last blank line ("which must be
\* followed by a blank line"); 0 = there is no such block.
RECURSIVE BlockEnd(_, _, _)
BlockEnd(ls, i, end) ==
  IF i > Len(ls) THEN (IF Bug = "BlockNeedsNoBlank" THEN Len(ls) ELSE end)
  ELSE IF IsBlankLine(ls[i]) THEN BlockEnd(ls, i + 1, i)
  ELSE IF IsCommentLine(ls[i]) THEN BlockEnd(ls, i + 1, end)
  ELSE (IF Bug = "BlockNeedsNoBlank" THEN i - 1 ELSE end)
LeadingBlock(c) == LET ls == Lines(c) IN SubSeq(ls, 1, BlockEnd(ls, 1, 0))

\* text of a comment line after the "//", trimmed
CommentText(l) == TrimSpace(DropPrefix(TrimSpace(l), 2))
\* a "// +build" line: a comment whose text starts with '+' and whose first
\* field is exactly "+build" ("//+build" counts, "// +builder" does not)
IsBuildLine(l) == /\ IsCommentLine(l)
                  /\ CommentText(l) # <<>>
                  /\ Fields(CommentText(l))[1] = PlusBuild
Options(l) == Tail(Fields(CommentText(l)))      \* space-separated options
Terms(o)   == Split(o, COMMA)                   \* comma-separated terms

ValidTagByte(b) == \/ b \in 48..57 \/ b \in 65..90 \/ b \in 97..122
                   \/ b = USCORE \/ b = DOT
ValidTag(n) == n # <<>> /\ \A k \in 1..Len(n) : ValidTagByte(n[k])
TermNegated(t) == t # <<>> /\ Head(t) = BANG
TermTag(t)     == IF TermNegated(t) THEN Tail(t) ELSE t
\* malformed: empty, "!", "!!x", a byte that is no letter, digit, '_' or '.'
TermWellFormed(t) == ValidTag(TermTag(t))

\* one term under a tag set.  tags["*"]: every tag except "ignore" is both
\* true and false.  Malformed terms are false whatever their polarity.
TermTrue(t, tags) ==
  IF ~TermWellFormed(t) THEN (Bug = "NegatedMalformedTrue" /\ TermNegated(t) /\ ~HasPrefix(t, <<BANG, BANG>>) /\ Len(t) > 1)
  ELSE IF StarOn(tags) /\ TermTag(t) # W_ignore THEN TRUE
  ELSE IF Bug = "NoAndroidInTags" THEN (TermTag(t) \in tags) # TermNegated(t)
  ELSE Selects(tags, TermTag(t)) # TermNegated(t)

\* parsed form of a file: one entry per +build line of the leading block,
\* each a sequence of options, each a sequence of terms
ParseLine(l)  == [k \in 1..Len(Options(l)) |-> Terms(Options(l)[k])]
BuildLines(c) == SelectSeq(LeadingBlock(c), IsBuildLine)
Parsed(c)     == LET bl == BuildLines(c) IN [k \in 1..Len(bl) |-> ParseLine(bl[k])]

OptionTrue(o, tags) == \A k \in 1..Len(o) : TermTrue(o[k], tags)        \* AND
LineTrue(l, tags)   == \E k \in 1..Len(l) : OptionTrue(l[k], tags)      \* OR
EvalParsed(p, tags) == \A k \in 1..Len(p) : LineTrue(p[k], tags)        \* every line
ShouldBuild(c, tags) == EvalParsed(Parsed(c), tags)

\* facts about a parsed file the verdict policy needs
AllWellFormed(p) == \A i \in 1..Len(p) : \A j \in 1..Len(p[i]) : \A k \in 1..Len(p[i][j]) :
                       TermWellFormed(p[i][j][k])
HasEmptyLine(p)  == \E i \in 1..Len(p) : Len(p[i]) = 0
\* under "*" the statement ("accept every file except one excluded by the
\* 'ignore' tag") and its first sentence ("malformed terms are false", an
\* empty disjunction is false) pull in different directions: not judged.
StarAmbiguous(p) == HasEmptyLine(p) \/ ~AllWellFormed(p)
MentionsIgnore(p) == \E i \in 1..Len(p) : \E j \in 1..Len(p[i]) : \E k \in 1..Len(p[i][j]) :
                       TermTag(p[i][j][k]) = W_ignore

----------------------------------------------------------------------------
\* MatchFile

BaseName(name) == LET d == IndexByte(name, DOT) IN IF d = 0 THEN name ELSE SubSeq(name, 1, d - 1)

\* --- statement-shaped: "false exactly when the name ends in _GOOS, _GOARCH or
\* _GOOS_GOARCH (optionally followed by _test) for a known OS or architecture
\* that tags does not select"
Us(t) == <<USCORE>> \o t
StripTest(b) == IF HasSuffix(b, Us(W_test)) THEN SubSeq(b, 1, Len(b) - 5) ELSE b
SuffixTokensL1(name) ==
  LET b == StripTest(BaseName(name)) IN
    {o \in KnownOS : HasSuffix(b, Us(o))}
    \cup {a \in KnownArch : HasSuffix(b, Us(a))}
    \cup {o \in KnownOS : \E a \in KnownArch : HasSuffix(b, Us(a)) /\ HasSuffix(b, Us(o) \o Us(a))}
MatchTokensL1(toks, tags) == StarOn(tags) \/ \A t \in toks : Selects(tags, t)
MatchFileL1(name, tags) == MatchTokensL1(SuffixTokensL1(name), tags)

\* --- code-shaped (go/build.goodOSArchFile): cut at the first '.', drop what
\* precedes the first '_', split at '_', drop a final "test", look at l[n-2], l[n-1]
Segments(name) ==
  LET b == BaseName(name)
      i == IndexByte(b, USCORE)
  IN IF i = 0 THEN <<>>
     ELSE LET l == Split(SubSeq(b, i, Len(b)), USCORE)
          IN IF l[Len(l)] = W_test THEN SubSeq(l, 1, Len(l) - 1) ELSE l
Required(name) ==
  LET l == Segments(name)
      n == Len(l)
  IN IF n >= 2 /\ l[n-1] \in KnownOS /\ l[n] \in KnownArch THEN {l[n-1], l[n]}
     ELSE IF n >= 1 /\ l[n] \in KnownOS THEN {l[n]}
     ELSE IF n >= 1 /\ l[n] \in KnownArch THEN {l[n]}
     ELSE {}
SelectsImpl(tags, t) == IF Bug = "MatchFileNoAndroid" THEN t \in tags ELSE Selects(tags, t)
MatchRequired(req, tags) == StarOn(tags) \/ \A t \in req : SelectsImpl(tags, t)
MatchFile(name, tags) == MatchRequired(Required(name), tags)

----------------------------------------------------------------------------
\* Enumeration helper for the MC modules: the k-th subset (k in 1..2^n) of a
\* sequence U of tag names, by the bits of k-1 (bit j-1 <=> U[j] is set).  The Go
\* driver rebuilds the same tag sets from the universe the generator emits.
RECURSIVE Pow2(_)
Pow2(n) == IF n = 0 THEN 1 ELSE 2 * Pow2(n - 1)
SubsetByIndex(U, k) == {U[j] : j \in {j \in 1..Len(U) : ((k - 1) \div Pow2(j - 1)) % 2 = 1}}

RECURSIVE Concat(_, _, _)
Concat(tok, s, i) == IF i > Len(s) THEN <<>> ELSE tok[s[i]] \o Concat(tok, s, i + 1)

=============================================================================
