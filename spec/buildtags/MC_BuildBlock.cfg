SPECIFICATION Spec
CONSTANTS
  L = 3
  Alpha = {1, 2, 3, 4, 5, 6, 7, 8, 9, 10, 11, 12, 13, 14}
  Emit = FALSE
  Bug = "none"
INVARIANTS InvL1L2 InvCount InvNoBlank InvAfterCode
CHECK_DEADLOCK FALSE
