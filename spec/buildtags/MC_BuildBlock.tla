---------------------------- MODULE MC_BuildBlock ---------------------------
(***************************************************************************)
(* Enumerator for the placement of "// +build" lines: which lines belong   *)
(* to "the leading comment block (the block that must be followed by a     *)
(* blank line)" and which comment lines are +build lines at all.           *)
(* The reachable states are all sequences of <= L lines over the line      *)
(* alphabet Line restricted to Alpha (a tree).  Every state stands for two *)
(* files: all lines LF-terminated, and the last line unterminated.         *)
(* The four real +build lines of the alphabet need four different tags, so *)
(* the results over all tag sets tell exactly which lines were counted.    *)
(*                                                                         *)
(* TLC checks in every state, for every tag set over Universe:             *)
(*   InvL1L2     byte-level evaluation (line scanner, TrimSpace, "//"      *)
(*               prefix, Fields) = statement-shaped evaluation on the line *)
(*               sequence: leading run of blank / comment lines, cut back  *)
(*               to its last blank line, every +build line in it must be   *)
(*               satisfied                                                 *)
(*   InvNoBlank  a file without a blank line in its leading run is always  *)
(*               accepted                                                  *)
(*   InvAfterCode lines after the first non-blank non-comment line never   *)
(*               matter                                                    *)
(* and emits the predicted ShouldBuild per file and tag set.               *)
(***************************************************************************)
EXTENDS BuildTags, TLC, Json

CONSTANTS L, Alpha, Emit

W_package_p == <<112, 97, 99, 107, 97, 103, 101, 32, 112>>
BuildSp == SlashSlash \o <<SP>> \o PlusBuild     \* "// +build"
W_er == <<101, 114>>

Line == <<
  <<>>,                                                             \*  1 blank
  <<TAB, SP, CR>>,                                                  \*  2 white space only
  SlashSlash \o <<SP, 99>>,                                         \*  3 "// c"
  W_package_p,                                                      \*  4 "package p"
  <<SLASH, STAR, SP, 99, SP, STAR, SLASH>>,                         \*  5 "/* c */"
  BuildSp \o <<SP>> \o W_linux,                                     \*  6 "// +build linux"
  BuildSp \o <<SP>> \o W_windows,                                   \*  7 "// +build windows"
  SlashSlash \o PlusBuild \o <<SP>> \o W_amd64,                     \*  8 "//+build amd64"
  <<TAB>> \o SlashSlash \o <<TAB>> \o PlusBuild \o <<TAB>> \o W_arm \o <<CR>>,  \*  9 TAB "//" TAB "+build" TAB "arm" CR
  BuildSp,                                                          \* 10 "// +build"        (no option: never satisfied)
  BuildSp \o W_er \o <<SP>> \o W_foo,                               \* 11 "// +builder foo"  (not a +build line)
  SlashSlash \o <<SP, PLUS, SP>> \o W_build \o <<SP>> \o W_foo,     \* 12 "// + build foo"   (not a +build line)
  <<SLASH>> \o BuildSp \o <<SP>> \o W_foo,                          \* 13 "/// +build foo"   (not a +build line)
  SlashSlash \o <<SP, 120, SP>> \o PlusBuild \o <<SP>> \o W_foo     \* 14 "// x +build foo"  (not a +build line)
>>
\* what the statement says about each line of the alphabet
IsBlankTok(k)   == k \in {1, 2}
IsCommentTok(k) == k = 3 \/ k \in 6..14
IsBuildTok(k)   == k \in 6..10
ReqTag(k) == CASE k = 6 -> W_linux [] k = 7 -> W_windows [] k = 8 -> W_amd64 [] k = 9 -> W_arm

Universe == <<W_linux, W_windows, W_amd64, W_arm, W_star>>
NSets == Pow2(Len(Universe))
TS == [k \in 1..NSets |-> SubsetByIndex(Universe, k)]

RECURSIVE Join(_, _)
Join(t, i) == IF i > Len(t) THEN <<>> ELSE Line[t[i]] \o <<LF>> \o Join(t, i + 1)
ContentT(t) == Join(t, 1)                                       \* every line terminated
ContentF(t) == SubSeq(Join(t, 1), 1, Len(Join(t, 1)) - 1)       \* last line unterminated

\* The file with an unterminated last line exists as a separate case only if
\* that last line is not empty (otherwise it is ContentT of the shorter state).
HasF(t) == t # <<>> /\ t[Len(t)] # 1

\* s: line sequence; pT/resT: parse and prediction for ContentT(s); pF/resF: same
\* for ContentF(s) (<<>> when ~HasF(s))
VARIABLES s, pT, resT, pF, resF
vars == <<s, pT, resT, pF, resF>>

----------------------------------------------------------------------------
\* statement-shaped evaluation on the line sequence
RECURSIVE RunLen(_, _)
RunLen(t, i) == IF i <= Len(t) /\ (IsBlankTok(t[i]) \/ IsCommentTok(t[i])) THEN RunLen(t, i + 1) ELSE i - 1
BlockLenL1(t) == LET r == RunLen(t, 1)
                     B == {i \in 1..r : IsBlankTok(t[i])}
                 IN IF B = {} THEN 0 ELSE CHOOSE i \in B : \A j \in B : j <= i
CountedL1(t) == {i \in 1..BlockLenL1(t) : IsBuildTok(t[i])}
EvalL1(t, tags) == \A i \in CountedL1(t) : t[i] # 10 /\ (StarOn(tags) \/ Selects(tags, ReqTag(t[i])))

----------------------------------------------------------------------------
Results(q) == [k \in 1..NSets |-> EvalParsed(q, TS[k])]
CaseOf(c, q, r, t, fin) ==
  [kind |-> "sb", content |-> c, blines |-> BuildLines(c), nlines |-> Len(q),
   wf |-> AllWellFormed(q), amb |-> StarAmbiguous(q), expect |-> r, lines |-> t, fin |-> fin]
Header == [kind |-> "hdr", universe |-> Universe, nsets |-> NSets]
EmitNext ==
  IF Emit THEN /\ PrintT(<<"EMIT", ToJson(CaseOf(ContentT(s'), pT', resT', s', TRUE))>>)
               /\ (HasF(s') => PrintT(<<"EMIT", ToJson(CaseOf(ContentF(s'), pF', resF', s', FALSE))>>))
  ELSE TRUE

Init == /\ s = <<0>> /\ pT = <<>> /\ resT = <<>> /\ pF = <<>> /\ resF = <<>>
        /\ (IF Emit THEN PrintT(<<"EMIT", ToJson(Header)>>) ELSE TRUE)
Grow(t) == /\ s' = t
           /\ pT' = Parsed(ContentT(t))
           /\ resT' = Results(pT')
           /\ pF' = IF HasF(t) THEN Parsed(ContentF(t)) ELSE <<>>
           /\ resF' = IF HasF(t) THEN Results(pF') ELSE <<>>
           /\ EmitNext
Next == IF s = <<0>> THEN Grow(<<>>)
        ELSE Len(s) < L /\ \E k \in Alpha : Grow(Append(s, k))
Spec == Init /\ [][Next]_vars

----------------------------------------------------------------------------
Started == s # <<0>>
InvL1L2 == Started => /\ \A k \in 1..NSets : resT[k] = EvalL1(s, TS[k])
                      /\ HasF(s) => \A k \in 1..NSets : resF[k] = EvalL1(s, TS[k])
\* the number of +build lines found by the byte-level parse is the number the
\* statement-shaped reading counts
InvCount == Started => /\ Len(pT) = Cardinality(CountedL1(s))
                       /\ HasF(s) => Len(pF) = Cardinality(CountedL1(s))
InvNoBlank == (Started /\ \A i \in 1..RunLen(s, 1) : ~IsBlankTok(s[i])) =>
                 /\ \A k \in 1..NSets : resT[k]
                 /\ HasF(s) => \A k \in 1..NSets : resF[k]
\* appending anything after a code line changes nothing
InvAfterCode == (Started /\ Len(s) >= 2 /\ \E i \in 1..(Len(s) - 1) : ~IsBlankTok(s[i]) /\ ~IsCommentTok(s[i])) =>
                   resT = Results(Parsed(ContentT(SubSeq(s, 1, Len(s) - 1))))
=============================================================================
