SPECIFICATION Spec
CONSTANTS
  N = 4
  Emit = FALSE
  Bug = "none"
INVARIANTS InvOneLine InvL1L2 InvAndroid InvStar InvNegation InvMalformed
CHECK_DEADLOCK FALSE
