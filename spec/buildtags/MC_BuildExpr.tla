---------------------------- MODULE MC_BuildExpr ----------------------------
(***************************************************************************)
(* Enumerator for the expression part of one "// +build" line.  The        *)
(* reachable states are all token strings of length <= N over the token    *)
(* alphabet Tok (a tree); the file under test is                           *)
(*     "// +build " expr LF LF "package p" LF                              *)
(* TLC checks in every state, for every tag set over Universe:             *)
(*   InvL1L2      the byte-level, code-shaped evaluation (line scanner,    *)
(*                Fields, Split, matchTag) equals the statement-shaped     *)
(*                evaluation done on the token string itself (options      *)
(*                ORed, terms ANDed, ! negates, android selects linux,     *)
(*                malformed terms false, "*")                              *)
(*   InvAndroid   a tag set with android gives the same result with and    *)
(*                without linux                                            *)
(*   InvStar      with "*" every unambiguous line not mentioning ignore    *)
(*                is satisfied                                             *)
(*   InvNegation  !w is satisfied exactly when w is not (no "*")           *)
(*   InvMalformed a line all of whose options contain a malformed term is  *)
(*                never satisfied                                          *)
(* and emits per state the predicted ShouldBuild for every tag set.        *)
(***************************************************************************)
EXTENDS BuildTags, TLC, Json

CONSTANTS N, Emit

\*         1        2          3         4        5          6          7      8         9          10
Tok == << <<SP>>, <<COMMA>>, <<BANG>>, W_linux, W_android, W_windows, W_foo, W_ignore, <<MINUS>>, <<TAB>> >>
IsWord(k) == k \in 4..8

Universe == <<W_linux, W_android, W_windows, W_ignore, W_star>>
NSets == Pow2(Len(Universe))
TS == [k \in 1..NSets |-> SubsetByIndex(Universe, k)]

W_package_p == <<112, 97, 99, 107, 97, 103, 101, 32, 112>>
Content(s) == SlashSlash \o <<SP>> \o PlusBuild \o <<SP>> \o Concat(Tok, s, 1) \o <<LF, LF>> \o W_package_p \o <<LF>>

\* s: the token string; p: its parse (+build lines of the leading block of
\* Content(s)); res: the predicted ShouldBuild per tag set.  p and res are
\* functions of s, kept as variables so that every invariant reads them.
VARIABLES s, p, res
vars == <<s, p, res>>

----------------------------------------------------------------------------
\* statement-shaped evaluation on the token string
RECURSIVE SplitTok(_, _, _, _)
SplitTok(t, seps, i, start) ==
  IF i > Len(t) THEN <<SubSeq(t, start, Len(t))>>
  ELSE IF t[i] \in seps THEN <<SubSeq(t, start, i - 1)>> \o SplitTok(t, seps, i + 1, i + 1)
  ELSE SplitTok(t, seps, i + 1, start)
OptionsL1(t) == SelectSeq(SplitTok(t, {1, 10}, 1, 1), LAMBDA o : o # <<>>)   \* SP, TAB
TermsL1(o)   == SplitTok(o, {2}, 1, 1)                                       \* COMMA

NegL1(t)  == t # <<>> /\ t[1] = 3
BodyL1(t) == IF NegL1(t) THEN Tail(t) ELSE t
WfL1(t)   == BodyL1(t) # <<>> /\ \A k \in 1..Len(BodyL1(t)) : IsWord(BodyL1(t)[k])
\* two adjacent words read as one tag that nobody sets and that is not "ignore"
SelL1(b, tags) == Len(b) = 1 /\ Selects(tags, Tok[b[1]])
TermL1(t, tags) ==
  /\ WfL1(t)
  /\ \/ StarOn(tags) /\ BodyL1(t) # <<8>>
     \/ SelL1(BodyL1(t), tags) # NegL1(t)
ParsedL1(t) == LET os == OptionsL1(t) IN [i \in 1..Len(os) |-> TermsL1(os[i])]
EvalL1(pl, tags) == \E i \in 1..Len(pl) : \A j \in 1..Len(pl[i]) : TermL1(pl[i][j], tags)
LineL1(t, tags) == EvalL1(ParsedL1(t), tags)

----------------------------------------------------------------------------
Results(q) == [k \in 1..NSets |-> EvalParsed(q, TS[k])]
Case == [kind |-> "sb", content |-> Content(s'), blines |-> BuildLines(Content(s')), nlines |-> Len(p'),
         wf |-> AllWellFormed(p'), amb |-> StarAmbiguous(p'), expect |-> res']
Header == [kind |-> "hdr", universe |-> Universe, nsets |-> NSets]
EmitNext == IF Emit THEN PrintT(<<"EMIT", ToJson(Case)>>) ELSE TRUE

\* the empty expression is the root: it is emitted as the successor of a
\* start state that carries the header
Init == /\ s = <<0>> /\ p = <<>> /\ res = <<>>
        /\ (IF Emit THEN PrintT(<<"EMIT", ToJson(Header)>>) ELSE TRUE)
Grow(t) == /\ s' = t
           /\ p' = Parsed(Content(t))
           /\ res' = Results(p')
           /\ EmitNext
Next == IF s = <<0>> THEN Grow(<<>>)
        ELSE Len(s) < N /\ \E k \in 1..Len(Tok) : Grow(Append(s, k))
Spec == Init /\ [][Next]_vars

----------------------------------------------------------------------------
Started == s # <<0>>
InvOneLine == Started => Len(p) = 1
InvL1L2 == Started => LET pl == ParsedL1(s) IN \A k \in 1..NSets : res[k] = EvalL1(pl, TS[k])
InvAndroid == Started => \A k \in 1..NSets : W_android \in TS[k] => res[k] = EvalParsed(p, TS[k] \cup {W_linux})
InvStar == (Started /\ ~StarAmbiguous(p) /\ ~MentionsIgnore(p)) => \A k \in 1..NSets : StarOn(TS[k]) => res[k]
InvNegation == (Started /\ Len(s) = 1 /\ IsWord(s[1])) =>
                 \A k \in 1..NSets : ~StarOn(TS[k]) => ShouldBuild(Content(<<3>> \o s), TS[k]) = ~res[k]
InvMalformed == (Started /\ \A i \in 1..Len(p[1]) : \E j \in 1..Len(p[1][i]) : ~TermWellFormed(p[1][i][j]))
                   => \A k \in 1..NSets : ~res[k]
=============================================================================
