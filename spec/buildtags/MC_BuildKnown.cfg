SPECIFICATION Spec
CONSTANTS
  Emit = FALSE
  Bug = "none"
INVARIANTS InvExact InvL1L2 InvTokens
CHECK_DEADLOCK FALSE
