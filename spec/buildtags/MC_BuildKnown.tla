---------------------------- MODULE MC_BuildKnown ---------------------------
(***************************************************************************)
(* Sweep over the complete KnownOS / KnownArch lists (the anchor's state): *)
(* the states are <<>>, every single known token <<t>> and every pair      *)
(* <<os, arch>>; a state stands for the names  x_t.go, x_t_test.go  (resp. *)
(* x_os_arch.go, x_os_arch_test.go).  Tag sets: every subset of the tokens *)
(* of the name plus android.                                               *)
(*                                                                         *)
(* TLC checks in every state that the name is accepted exactly when every  *)
(* token of the suffix is selected (android also selecting linux), in the  *)
(* code-shaped and in the statement-shaped formulation, and emits the      *)
(* predictions.  Dropping one token from the real lists is thereby seen.   *)
(***************************************************************************)
EXTENDS BuildTags, TLC, Json

CONSTANTS Emit

W_go == <<103, 111>>
Suffixes == << <<DOT>> \o W_go, <<USCORE>> \o W_test \o <<DOT>> \o W_go >>

RECURSIVE JoinU(_, _)
JoinU(t, i) == IF i > Len(t) THEN <<>> ELSE <<USCORE>> \o t[i] \o JoinU(t, i + 1)
Name(t, e) == W_x \o JoinU(t, 1) \o Suffixes[e]

Toks(t) == {t[i] : i \in 1..Len(t)}
TagSetsFor(t) == SUBSET (Toks(t) \cup {W_android})

VARIABLE s
vars == <<s>>

\* one case per tag set; a set of records is rendered as a JSON array
CasesOf(t, e) == {[tags |-> T, expect |-> MatchFile(Name(t, e), T)] : T \in TagSetsFor(t)}
Case(t, e) == [kind |-> "mfx", name |-> Name(t, e), toks |-> t, cases |-> CasesOf(t, e)]
Header == [kind |-> "known", os |-> KnownOS, arch |-> KnownArch]
EmitState(t) == IF Emit THEN \A e \in 1..Len(Suffixes) : PrintT(<<"EMIT", ToJson(Case(t, e))>>) ELSE TRUE

Init == s = <<>> /\ (IF Emit THEN PrintT(<<"EMIT", ToJson(Header)>>) ELSE TRUE) /\ EmitState(<<>>)
Next == \/ /\ s = <<>>
           /\ \E t \in KnownOS \cup KnownArch : s' = <<t>> /\ EmitState(s')
        \/ /\ Len(s) = 1 /\ s[1] \in KnownOS
           /\ \E a \in KnownArch : s' = Append(s, a) /\ EmitState(s')
Spec == Init /\ [][Next]_vars

InvExact == \A e \in 1..Len(Suffixes) : \A T \in TagSetsFor(s) :
               MatchFile(Name(s, e), T) = (\A t \in Toks(s) : Selects(T, t))
InvL1L2 == \A e \in 1..Len(Suffixes) : \A T \in TagSetsFor(s) :
               MatchFile(Name(s, e), T) = MatchFileL1(Name(s, e), T)
InvTokens == \A e \in 1..Len(Suffixes) : Required(Name(s, e)) = Toks(s) /\ SuffixTokensL1(Name(s, e)) = Toks(s)
=============================================================================
