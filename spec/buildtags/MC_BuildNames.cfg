SPECIFICATION Spec
CONSTANTS
  MaxSeg = 3
  Emit = FALSE
  Bug = "none"
INVARIANTS InvTokens InvL1L2 InvAndroid InvStar InvMonotone InvExt InvNoUnderscore
CHECK_DEADLOCK FALSE
