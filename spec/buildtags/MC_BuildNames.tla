---------------------------- MODULE MC_BuildNames ---------------------------
(***************************************************************************)
(* Enumerator for the file-name rule.  The reachable states are all        *)
(* sequences of <= MaxSeg segments over the segment alphabet Seg (known    *)
(* and unknown OS / architecture tokens, "test", the empty segment); every *)
(* state stands for the names  seg1_seg2_..._segn ++ ext  for each ext in  *)
(* Ext (the third one puts known tokens behind the first '.', where they   *)
(* must not count).  Tag sets: all subsets of Universe.                    *)
(*                                                                         *)
(* TLC checks in every state:                                              *)
(*   InvL1L2     code-shaped MatchFile (cut at '.', cut before first '_',  *)
(*               split, l[n-2] / l[n-1]) = statement-shaped MatchFileL1    *)
(*               ("ends in _GOOS, _GOARCH or _GOOS_GOARCH, optionally      *)
(*               followed by _test, for a known token tags does not        *)
(*               select, android also selecting linux")                    *)
(*   InvTokens   both find the same significant tokens                     *)
(*   InvAndroid  with android set, linux makes no difference               *)
(*   InvStar     "*" accepts every name                                    *)
(*   InvMonotone setting one more tag never rejects an accepted name       *)
(*   InvExt      what follows the first '.' is irrelevant                  *)
(* and emits the predicted MatchFile per name and tag set.                 *)
(***************************************************************************)
EXTENDS BuildTags, TLC, Json

CONSTANTS MaxSeg, Emit

\*         1     2    3        4          5          6        7      8       9        10
Seg == << <<>>, W_x, W_linux, W_android, W_windows, W_amd64, W_arm, W_test, W_plan9, W_foo >>
W_go == <<103, 111>>
Ext == << <<>>,                                                       \* no extension
          <<DOT>> \o W_go,                                            \* ".go"
          <<DOT>> \o W_windows \o <<USCORE>> \o W_arm \o <<DOT>> \o W_go >>   \* ".windows_arm.go"
NExt == Len(Ext)

Universe == <<W_linux, W_android, W_windows, W_amd64, W_arm, W_star>>
NSets == Pow2(Len(Universe))
TS == [k \in 1..NSets |-> SubsetByIndex(Universe, k)]
\* index of TS[k] \cup {Universe[j]}
WB == [k \in 1..NSets |-> [j \in 1..Len(Universe) |->
          IF ((k - 1) \div Pow2(j - 1)) % 2 = 1 THEN k ELSE k + Pow2(j - 1)]]
WithBit(k, j) == WB[k][j]

RECURSIVE JoinSeg(_, _)
JoinSeg(t, i) == IF i > Len(t) THEN <<>>
                 ELSE (IF i > 1 THEN <<USCORE>> ELSE <<>>) \o Seg[t[i]] \o JoinSeg(t, i + 1)
Name(t, e) == JoinSeg(t, 1) \o Ext[e]

\* s: segment sequence; req[e]: significant tokens of Name(s, e) found the code-shaped
\* way, l1[e]: found the statement-shaped way; res[e][k]: predicted MatchFile
VARIABLES s, req, l1, res
vars == <<s, req, l1, res>>

Results(r) == [k \in 1..NSets |-> MatchRequired(r, TS[k])]
CaseOf(e) == [kind |-> "mf", name |-> Name(s', e), req |-> req'[e], expect |-> res'[e], segs |-> s']
Header == [kind |-> "hdr", universe |-> Universe, nsets |-> NSets]
EmitNext == IF Emit THEN \A e \in 1..NExt : PrintT(<<"EMIT", ToJson(CaseOf(e))>>) ELSE TRUE

Init == /\ s = <<0>> /\ req = <<>> /\ l1 = <<>> /\ res = <<>>
        /\ (IF Emit THEN PrintT(<<"EMIT", ToJson(Header)>>) ELSE TRUE)
Grow(t) == /\ s' = t
           /\ req' = [e \in 1..NExt |-> Required(Name(t, e))]
           /\ l1' = [e \in 1..NExt |-> SuffixTokensL1(Name(t, e))]
           /\ res' = [e \in 1..NExt |-> Results(req'[e])]
           /\ EmitNext
Next == IF s = <<0>> THEN Grow(<<>>)
        ELSE Len(s) < MaxSeg /\ \E k \in 1..Len(Seg) : Grow(Append(s, k))
Spec == Init /\ [][Next]_vars

----------------------------------------------------------------------------
Started == s # <<0>>
InvTokens == Started => req = l1
InvL1L2 == Started => \A e \in 1..NExt : \A k \in 1..NSets : res[e][k] = MatchTokensL1(l1[e], TS[k])
InvAndroid == Started => \A e \in 1..NExt : \A k \in 1..NSets :
                 W_android \in TS[k] => res[e][k] = res[e][WithBit(k, 1)]
InvStar == Started => \A e \in 1..NExt : \A k \in 1..NSets : StarOn(TS[k]) => res[e][k]
InvMonotone == Started => \A e \in 1..NExt : \A k \in 1..NSets : \A j \in 1..Len(Universe) :
                  res[e][k] => res[e][WithBit(k, j)]
InvExt == Started => \A e \in 2..NExt : res[e] = res[1]
\* a name without '_' before its first '.' is never rejected
InvNoUnderscore == (Started /\ Len(s) <= 1) => \A e \in 1..NExt : \A k \in 1..NSets : res[e][k]
=============================================================================
