SPECIFICATION Spec
CONSTANTS
  K = 16
  Bug = "none"
INVARIANTS RecNoPanic RecShouldBuild RecMatchFile RecMatchFileL1 RecRefSB RecRefMF RecStarDrift
CHECK_DEADLOCK FALSE
