--------------------------- MODULE Trace_BuildTags --------------------------
(***************************************************************************)
(* Validation of records produced by the real imports package on seeded    *)
(* random inputs (binding B1).  One record per call:                       *)
(*   kind  "sb" (ShouldBuild, input = file content)                        *)
(*         "mf" (MatchFile,  input = file name)                            *)
(*   tags  the tag names that are true                                     *)
(*   got   what the real function returned, panic whether it panicked      *)
(*   ref   "true" / "false" / "undef": what go/build.Context.MatchFile     *)
(*         says where the driver could ask it                              *)
(* TLC evaluates the reference semantics of BuildTags.tla on every record. *)
(* Records are independent: the index runs in K lanes.                     *)
(***************************************************************************)
EXTENDS BuildTags, TLC, Json

CONSTANTS K

Trace == ndJsonDeserialize("trace.ndjson")

VARIABLE i
vars == <<i>>

Init == i \in 1..K
Next == i + K <= Len(Trace) /\ i' = i + K
Spec == Init /\ [][Next]_vars

TagsOf(r) == {r.tags[j] : j \in 1..Len(r.tags)}
Live == i <= Len(Trace)
IsSB == Live /\ Trace[i].kind = "sb" /\ ~Trace[i].panic
IsMF == Live /\ Trace[i].kind = "mf" /\ ~Trace[i].panic

\* inputs on which the statement fixes the result (see StarAmbiguous)
JudgedSB(r) == ~(StarOn(TagsOf(r)) /\ StarAmbiguous(Parsed(r.input)))
\* inputs on which go/build is a reference for the statement: no "*", and
\* every term well formed (go/build/constraint reads a negated malformed
\* term as "not ignore", the statement says malformed terms are false; it
\* encodes "never satisfied" as the tag ignore, so a +build line without
\* options is outside the reference when ignore is set)
RefSB(r) == /\ r.ref # "undef" /\ ~StarOn(TagsOf(r))
            /\ LET p == Parsed(r.input) IN AllWellFormed(p) /\ ~(HasEmptyLine(p) /\ W_ignore \in TagsOf(r))
RefMF(r) == r.ref # "undef" /\ ~StarOn(TagsOf(r))

\* A failing record is named on stdout ("BAD", invariant, index).  PrintT is TRUE, so
\* the invariants always hold and TLC ends normally; the BAD lines are the verdict.
Bad(name) == PrintT(<<"BAD", name, i>>)
RecNoPanic == (Live => ~Trace[i].panic) \/ Bad("RecNoPanic")
RecShouldBuild == ((IsSB /\ JudgedSB(Trace[i])) => ShouldBuild(Trace[i].input, TagsOf(Trace[i])) = Trace[i].got)
                     \/ Bad("RecShouldBuild")
RecMatchFile == (IsMF => MatchFile(Trace[i].input, TagsOf(Trace[i])) = Trace[i].got) \/ Bad("RecMatchFile")
RecMatchFileL1 == (IsMF => MatchFileL1(Trace[i].input, TagsOf(Trace[i])) = Trace[i].got) \/ Bad("RecMatchFileL1")
\* specification against the named reference (a failure here is a spec problem, not a verdict)
RecRefSB == ((IsSB /\ RefSB(Trace[i])) => ShouldBuild(Trace[i].input, TagsOf(Trace[i])) = (Trace[i].ref = "true"))
               \/ Bad("RecRefSB")
RecRefMF == ((IsMF /\ RefMF(Trace[i])) => MatchFile(Trace[i].input, TagsOf(Trace[i])) = (Trace[i].ref = "true"))
               \/ Bad("RecRefMF")
\* not judged, reported as drift only
RecStarDrift == ((IsSB /\ ~JudgedSB(Trace[i])) => ShouldBuild(Trace[i].input, TagsOf(Trace[i])) = Trace[i].got)
                   \/ PrintT(<<"DRIFT", "RecStarDrift", i>>)
=============================================================================
