SPECIFICATION Spec
CONSTANTS
  Contents = {"c0", "c1", "c2", "c3"}
  SizeOf <- MCSizeOf
  Bug = "EmptyShortcut"
  Emit = FALSE
INVARIANTS InvLawBytes InvLawFile InvEmit
CHECK_DEADLOCK FALSE
