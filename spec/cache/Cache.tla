-------------------------------- MODULE Cache -------------------------------
(***************************************************************************)
(* The build cache of cache/cache.go at file-operation granularity (L2),   *)
(* shared by C05 (sequential histories with damage), C11 (concurrent       *)
(* users) and C12 (crash / fault at every operation boundary).             *)
(*                                                                         *)
(* One action = one file operation of the real code (as observed through   *)
(* the vos shim) plus the local code up to the next one.  A data file is   *)
(* content addressed: file "c" is meant to hold Blocks(c) = <<c,1>> ..     *)
(* <<c,Size[c]>>; the last block is the "last byte" that Put writes        *)
(* separately, after it re-verified the hash.  An index file holds one     *)
(* fixed-size entry, written by a single write at offset 0 and truncated   *)
(* afterwards (never O_TRUNC).                                             *)
(*                                                                         *)
(* Operations of a program:  [op |-> "put", id, c, rd]  rd = behaviour of  *)
(* the source reader on the second pass: same | seekerr | short0 | short1  *)
(* | lasterr | diff;   [op |-> "getbytes" | "getfile", id].                *)
(***************************************************************************)
EXTENDS Naturals, Sequences, FiniteSets, TLC

CONSTANTS Actors, Ids, Contents, Size, Progs, StartStates,
          Bug,          \* "none" | "OTruncIndex" | "CommitFirst" | "NoRehash" | "NoSizeGate"
          AllowCrash,   \* a put may stop forever between any two operations
          MaxFaults,    \* number of operations that may fail (return an error, no effect)
          Record        \* keep the history variable

VARIABLES prog, data, idx, pc, ip, loc, started, completed, crashed, faults, hist, base, sched
vars == <<prog, data, idx, pc, ip, loc, started, completed, crashed, faults, hist, base, sched>>

Blocks(c) == [k \in 1..Size[c] |-> <<c, k>>]
Junk(n)   == [k \in 1..n |-> <<"x", k>>]          \* bytes that are not c's
NoFile == [ex |-> FALSE, b |-> <<>>]
NoEnt  == [k |-> "none", id |-> "-", out |-> "-", size |-> 0]
EmptyEnt == [k |-> "empty", id |-> "-", out |-> "-", size |-> 0]
OkEnt(id, c) == [k |-> "ok", id |-> id, out |-> c, size |-> Size[c]]
NoIdx == [ex |-> FALSE, e |-> NoEnt, trail |-> FALSE]
NoLoc == [off |-> 0, buf |-> <<>>, ent |-> NoEnt, stex |-> FALSE, stlen |-> 0, okAtStart |-> FALSE, err |-> FALSE]

Cur(a) == prog[a][ip[a]]

ValidEntry(e, id) == e.k = "ok" /\ e.id = id
BytesOf(d, x, id) == LET f == x[id] IN
  IF f.ex /\ ValidEntry(f.e, id) /\ ~f.trail /\ (IF d[f.e.out].ex THEN d[f.e.out].b ELSE <<>>) = Blocks(f.e.out)
  THEN "bytes:" \o f.e.out ELSE "miss"

Init == /\ prog \in Progs
        /\ \E s \in StartStates : data = s.data /\ idx = s.idx /\ started = s.started
                                  /\ base = [fresh |-> [id \in Ids |-> BytesOf(s.data, s.idx, id)], damaged |-> s.damaged, name |-> s.name]
        /\ pc = [a \in Actors |-> "next"] /\ ip = [a \in Actors |-> 0]
        /\ loc = [a \in Actors |-> NoLoc]
        /\ completed = {} /\ crashed = {} /\ faults = 0 /\ hist = <<>> /\ sched = <<>>

Goto(a, l) == pc' = [pc EXCEPT ![a] = l]
Set(a, f, v) == loc' = [loc EXCEPT ![a][f] = v]
Ret(a, res) == /\ hist' = IF Record THEN Append(hist, [a |-> a, op |-> Cur(a).op, id |-> Cur(a).id, res |-> res, ok0 |-> loc[a].okAtStart]) ELSE hist
               /\ Goto(a, "next")
Same == UNCHANGED <<data, idx, loc, completed>>

\* write blocks `new` at 0-based block offset `at` of a file holding `old` (holes read as zero blocks)
Overwrite(old, new, at) ==
  [k \in 1..(IF Len(old) > at + Len(new) THEN Len(old) ELSE at + Len(new)) |->
      IF k > at /\ k <= at + Len(new) THEN new[k - at] ELSE IF k <= Len(old) THEN old[k] ELSE <<"zero", 0>>]

NextOp(a) ==
  /\ pc[a] = "next" /\ ip[a] < Len(prog[a])
  /\ ip' = [ip EXCEPT ![a] = @ + 1]
  /\ LET o == prog[a][ip[a] + 1] IN
     /\ pc' = [pc EXCEPT ![a] = IF o.op = "put" THEN "p_stat" ELSE "g_open"]
     /\ started' = IF o.op = "put" THEN started \cup {<<o.id, o.c>>} ELSE started
     /\ loc' = [loc EXCEPT ![a] = [NoLoc EXCEPT !.okAtStart = \E c \in Contents : <<o.id, c>> \in completed]]
  /\ UNCHANGED <<prog, data, idx, hist, completed, crashed, faults, base, sched>>

-----------------------------------------------------------------------------
\* Put: copyFile
PStat(a, fail, k) ==
   /\ pc[a] = "p_stat"
   /\ LET f == data[Cur(a).c] IN
      /\ loc' = [loc EXCEPT ![a].stex = f.ex /\ ~fail, ![a].stlen = Len(f.b)]
      /\ Goto(a, IF f.ex /\ ~fail /\ Len(f.b) = Size[Cur(a).c] /\ Bug # "NoRehash" THEN "pr_open"
                 ELSE IF f.ex /\ ~fail /\ Len(f.b) = Size[Cur(a).c] /\ Bug = "NoRehash" THEN "i_open" ELSE "p_open")
   /\ UNCHANGED <<data, idx, hist, completed>>
PROpen(a, fail, k) ==
   /\ pc[a] = "pr_open"
   /\ IF data[Cur(a).c].ex /\ ~fail THEN Set(a, "buf", <<>>) /\ Goto(a, "pr_read")
      ELSE Goto(a, "p_open") /\ UNCHANGED loc
   /\ UNCHANGED <<data, idx, hist, completed>>
PRRead(a, fail, k) ==
   /\ pc[a] = "pr_read"
   /\ LET b == data[Cur(a).c].b  n == Len(loc[a].buf) IN
      IF Len(b) > n /\ ~fail THEN Set(a, "buf", loc[a].buf \o SubSeq(b, n + 1, Len(b))) /\ UNCHANGED pc
      ELSE Goto(a, "pr_close") /\ UNCHANGED loc
   /\ UNCHANGED <<data, idx, hist, completed>>
PRClose(a, fail, k) ==
   /\ pc[a] = "pr_close"
   /\ Goto(a, IF loc[a].buf = Blocks(Cur(a).c) THEN "pr_ustat" ELSE "p_open")
   /\ UNCHANGED <<data, idx, loc, hist, completed>>
\* the output is already there with the right hash: used(name) refreshes its mtime (stat; Chtimes when the stat failed)
PRUStat(a, fail, k) ==
   /\ pc[a] = "pr_ustat"
   /\ Goto(a, IF fail \/ ~data[Cur(a).c].ex THEN "pr_uchtimes" ELSE "i_open")
   /\ UNCHANGED <<data, idx, loc, hist, completed>>
PRUChtimes(a, fail, k) ==
   /\ pc[a] = "pr_uchtimes" /\ Goto(a, "i_open")
   /\ UNCHANGED <<data, idx, loc, hist, completed>>
POpen(a, fail, k) ==
   /\ pc[a] = "p_open"
   /\ LET c == Cur(a).c  n == Size[c]  tr == loc[a].stex /\ loc[a].stlen > n  rd == Cur(a).rd IN
      IF fail THEN Ret(a, "err") /\ Same
      ELSE /\ data' = [data EXCEPT ![c] = [ex |-> TRUE, b |-> IF tr \/ ~data[c].ex THEN <<>> ELSE data[c].b]]
           /\ Set(a, "off", 0)
           /\ Goto(a, IF n = 0 THEN "p_close0"
                      ELSE IF rd = "seekerr" \/ (rd = "short0") THEN "p_trunc"
                      ELSE IF n = 1 THEN (IF rd \in {"lasterr", "diff", "short1"} THEN "p_trunc" ELSE "p_write2")
                      ELSE "p_write1")
           /\ UNCHANGED <<idx, hist, completed>>
PClose0(a, fail, k) == /\ pc[a] = "p_close0" /\ Goto(a, "i_open") /\ UNCHANGED <<data, idx, loc, hist, completed>>
\* io.CopyN(w, file, size-1): all but the last byte (one write for the small files modelled)
PWrite1(a, fail, k) ==
   /\ pc[a] = "p_write1"
   /\ LET c == Cur(a).c  n == Size[c]  rd == Cur(a).rd
          src == IF rd = "diff" THEN Junk(n - 1) ELSE SubSeq(Blocks(c), 1, n - 1)
          wr  == IF Bug = "CommitFirst" THEN <<Blocks(c)[n]>>
                 ELSE IF fail THEN SubSeq(src, 1, k) ELSE IF rd = "short1" THEN SubSeq(src, 1, 1) ELSE src
          at  == IF Bug = "CommitFirst" THEN n - 1 ELSE 0 IN
      /\ data' = [data EXCEPT ![c].b = Overwrite(@, wr, at)]
      /\ Goto(a, IF fail \/ rd # "same" THEN "p_trunc" ELSE "p_write2")
   /\ UNCHANGED <<idx, loc, hist, completed>>
\* the committing last byte, written only after the hash of what was copied was re-verified
PWrite2(a, fail, k) ==
   /\ pc[a] = "p_write2"
   /\ LET c == Cur(a).c  n == Size[c] IN
      IF fail THEN Goto(a, "p_trunc") /\ UNCHANGED data
      ELSE /\ data' = [data EXCEPT ![c].b = IF Bug = "CommitFirst" THEN Overwrite(@, SubSeq(Blocks(c), 1, n - 1), 0)
                                            ELSE Overwrite(@, <<Blocks(c)[n]>>, n - 1)]
           /\ Goto(a, "p_close")
   /\ UNCHANGED <<idx, loc, hist, completed>>
\* error path: best-effort f.Truncate(0), then the deferred Close, then the error is returned
PTrunc(a, fail, k) ==
   /\ pc[a] = "p_trunc"
   /\ data' = [data EXCEPT ![Cur(a).c].b = IF fail THEN @ ELSE <<>>]
   /\ Goto(a, "p_eclose") /\ UNCHANGED <<idx, loc, hist, completed>>
PEClose(a, fail, k) == /\ pc[a] = "p_eclose" /\ Ret(a, "err") /\ Same
PClose(a, fail, k) ==
   /\ pc[a] = "p_close"
   /\ Goto(a, IF fail THEN "p_remove" ELSE "p_chtimes") /\ UNCHANGED <<data, idx, loc, hist, completed>>
PRemove(a, fail, k) ==
   /\ pc[a] = "p_remove"
   /\ data' = [data EXCEPT ![Cur(a).c] = IF fail THEN @ ELSE NoFile]
   /\ Goto(a, "p_eclose") /\ UNCHANGED <<idx, loc, hist, completed>>
PChtimes(a, fail, k) == /\ pc[a] = "p_chtimes" /\ Goto(a, "p_dclose") /\ UNCHANGED <<data, idx, loc, hist, completed>>
PDClose(a, fail, k) == /\ pc[a] = "p_dclose" /\ Goto(a, "i_open") /\ UNCHANGED <<data, idx, loc, hist, completed>>

\* Put: putIndexEntry
IOpen(a, fail, k) ==
   /\ pc[a] = "i_open"
   /\ IF fail THEN Ret(a, "err") /\ Same
      ELSE /\ idx' = [idx EXCEPT ![Cur(a).id] = IF @.ex /\ Bug # "OTruncIndex" THEN @ ELSE [ex |-> TRUE, e |-> EmptyEnt, trail |-> FALSE]]
           /\ Goto(a, "i_write") /\ UNCHANGED <<data, loc, hist, completed>>
IWrite(a, fail, k) ==
   /\ pc[a] = "i_write"
   /\ IF fail THEN Goto(a, "i_eclose") /\ UNCHANGED idx
      ELSE idx' = [idx EXCEPT ![Cur(a).id].e = OkEnt(Cur(a).id, Cur(a).c)] /\ Goto(a, "i_trunc")
   /\ UNCHANGED <<data, loc, hist, completed>>
ITrunc(a, fail, k) ==
   /\ pc[a] = "i_trunc"
   /\ IF fail THEN Goto(a, "i_eclose") /\ UNCHANGED idx
      ELSE idx' = [idx EXCEPT ![Cur(a).id].trail = FALSE] /\ Goto(a, "i_close")
   /\ UNCHANGED <<data, loc, hist, completed>>
IClose(a, fail, k) ==
   /\ pc[a] = "i_close"
   /\ Goto(a, IF fail THEN "i_remove" ELSE "i_chtimes") /\ UNCHANGED <<data, idx, loc, hist, completed>>
IEClose(a, fail, k) == /\ pc[a] = "i_eclose" /\ Goto(a, "i_remove") /\ UNCHANGED <<data, idx, loc, hist, completed>>
IRemove(a, fail, k) ==
   /\ pc[a] = "i_remove"
   /\ idx' = [idx EXCEPT ![Cur(a).id] = IF fail THEN @ ELSE NoIdx]
   /\ Ret(a, "err") /\ UNCHANGED <<data, loc, completed>>
IChtimes(a, fail, k) ==
   /\ pc[a] = "i_chtimes"
   /\ completed' = completed \cup {<<Cur(a).id, Cur(a).c>>}
   /\ Ret(a, "ok") /\ UNCHANGED <<data, idx, loc>>

-----------------------------------------------------------------------------
\* Get: read and validate the index entry
GOpen(a, fail, k) ==
   /\ pc[a] = "g_open"
   /\ IF ~idx[Cur(a).id].ex \/ fail THEN Ret(a, "miss") /\ Same
      ELSE Goto(a, "g_read") /\ UNCHANGED <<data, idx, loc, hist, completed>>
GRead(a, fail, k) ==
   /\ pc[a] = "g_read"
   /\ LET f == idx[Cur(a).id] IN
      IF fail \/ f.e.k = "empty" \/ f.trail THEN Set(a, "ent", NoEnt) /\ Goto(a, "g_mclose")
      ELSE Set(a, "ent", f.e) /\ Goto(a, "g_read2")
   /\ UNCHANGED <<data, idx, hist, completed>>
GRead2(a, fail, k) ==                           \* ReadFull's second read: end of file expected
   /\ pc[a] = "g_read2"
   /\ Goto(a, IF fail \/ ~ValidEntry(loc[a].ent, Cur(a).id) THEN "g_mclose" ELSE "g_ustat")
   /\ UNCHANGED <<data, idx, loc, hist, completed>>
GMClose(a, fail, k) == /\ pc[a] = "g_mclose" /\ Ret(a, "miss") /\ Same
GUStat(a, fail, k) == /\ pc[a] = "g_ustat" /\ Goto(a, "g_close") /\ UNCHANGED <<data, idx, loc, hist, completed>>
GClose(a, fail, k) == /\ pc[a] = "g_close" /\ Goto(a, "o_ustat") /\ UNCHANGED <<data, idx, loc, hist, completed>>
\* OutputFile -> used(-d file): stat, and Chtimes when the stat failed
OUStat(a, fail, k) ==
   /\ pc[a] = "o_ustat"
   /\ Goto(a, IF ~data[loc[a].ent.out].ex \/ fail THEN "o_uchtimes" ELSE IF Cur(a).op = "getfile" THEN "gf_stat" ELSE "gb_open")
   /\ UNCHANGED <<data, idx, loc, hist, completed>>
OUChtimes(a, fail, k) ==
   /\ pc[a] = "o_uchtimes"
   /\ Goto(a, IF Cur(a).op = "getfile" THEN "gf_stat" ELSE "gb_open") /\ UNCHANGED <<data, idx, loc, hist, completed>>
\* GetFile: the size gate
GFStat(a, fail, k) ==
   /\ pc[a] = "gf_stat"
   /\ LET e == loc[a].ent  f == data[e.out] IN
      IF ~fail /\ f.ex /\ (Len(f.b) = e.size \/ Bug = "NoSizeGate")
      THEN Ret(a, IF f.b = Blocks(e.out) THEN "file:" \o e.out ELSE "BADFILE:" \o e.out)
      ELSE Ret(a, "miss")
   /\ Same
\* GetBytes: read everything, then the checksum gate
GBOpen(a, fail, k) ==
   /\ pc[a] = "gb_open"
   /\ LET e == loc[a].ent IN
      IF ~data[e.out].ex \/ fail
      THEN Ret(a, IF Size[e.out] = 0 THEN "bytes:" \o e.out ELSE "miss") /\ UNCHANGED loc
      ELSE Goto(a, "gb_read") /\ Set(a, "buf", <<>>) /\ UNCHANGED hist
   /\ UNCHANGED <<data, idx, completed>>
GBRead(a, fail, k) ==
   /\ pc[a] = "gb_read"
   /\ LET e == loc[a].ent  b == data[e.out].b  n == Len(loc[a].buf) IN
      IF Len(b) > n /\ ~fail THEN Set(a, "buf", loc[a].buf \o SubSeq(b, n + 1, Len(b))) /\ UNCHANGED pc
      ELSE Goto(a, "gb_close") /\ UNCHANGED loc
   /\ UNCHANGED <<data, idx, hist, completed>>
GBClose(a, fail, k) ==
   /\ pc[a] = "gb_close"
   /\ Ret(a, IF loc[a].buf = Blocks(loc[a].ent.out) THEN "bytes:" \o loc[a].ent.out ELSE "miss") /\ Same

OpStep(a, fail, k) ==
   \/ PStat(a, fail, k) \/ PROpen(a, fail, k) \/ PRRead(a, fail, k) \/ PRClose(a, fail, k) \/ PRUStat(a, fail, k) \/ PRUChtimes(a, fail, k) \/ POpen(a, fail, k) \/ PClose0(a, fail, k)
   \/ PWrite1(a, fail, k) \/ PWrite2(a, fail, k) \/ PTrunc(a, fail, k) \/ PEClose(a, fail, k) \/ PClose(a, fail, k) \/ PRemove(a, fail, k)
   \/ PChtimes(a, fail, k) \/ PDClose(a, fail, k)
   \/ IOpen(a, fail, k) \/ IWrite(a, fail, k) \/ ITrunc(a, fail, k) \/ IClose(a, fail, k) \/ IEClose(a, fail, k) \/ IRemove(a, fail, k) \/ IChtimes(a, fail, k)
   \/ GOpen(a, fail, k) \/ GRead(a, fail, k) \/ GRead2(a, fail, k) \/ GMClose(a, fail, k) \/ GUStat(a, fail, k) \/ GClose(a, fail, k)
   \/ OUStat(a, fail, k) \/ OUChtimes(a, fail, k) \/ GFStat(a, fail, k) \/ GBOpen(a, fail, k) \/ GBRead(a, fail, k) \/ GBClose(a, fail, k)

\* operations whose failure changes nothing observable are not offered as faults (keeps the fault space meaningful)
Faultable(l) == l \notin {"p_eclose", "p_chtimes", "p_dclose", "pr_close", "p_close0", "i_eclose", "i_chtimes",
                          "g_mclose", "g_ustat", "g_close", "o_uchtimes", "gb_close", "pr_uchtimes"}

Step(a) == /\ pc[a] # "next" /\ a \notin crashed
           /\ \/ OpStep(a, FALSE, 0) /\ UNCHANGED faults
              \/ /\ faults < MaxFaults /\ Cur(a).op = "put" /\ Faultable(pc[a])
                 /\ Cur(a).rd = "same"      \* one adverse event per Put: a failing operation or a misbehaving source, not both
                 /\ \E k \in (IF pc[a] = "p_write1" THEN {0, 1} ELSE {0}) : OpStep(a, TRUE, k)   \* a failing write may be short
                 /\ faults' = faults + 1
           /\ sched' = IF Record THEN Append(sched, [a |-> a]) ELSE sched
           /\ UNCHANGED <<prog, ip, started, crashed, base>>

Crash(a) == /\ AllowCrash /\ a \notin crashed /\ pc[a] # "next" /\ Cur(a).op = "put"
            /\ crashed' = crashed \cup {a}
            /\ UNCHANGED <<prog, data, idx, pc, ip, loc, hist, started, completed, faults, base, sched>>

Next == \E a \in Actors : NextOp(a) \/ Step(a) \/ Crash(a)
Spec == Init /\ [][Next]_vars

-----------------------------------------------------------------------------
\* what a fresh reader that runs without interference gets in the current state
FreshFile(id) == LET f == idx[id] IN
  IF f.ex /\ ValidEntry(f.e, id) /\ ~f.trail /\ data[f.e.out].ex /\ (Len(data[f.e.out].b) = f.e.size \/ Bug = "NoSizeGate")
  THEN IF data[f.e.out].b = Blocks(f.e.out) THEN "file:" \o f.e.out ELSE "BADFILE:" \o f.e.out
  ELSE "miss"
FreshBytes(id) == BytesOf(data, idx, id)

\* C12: wherever a Put stopped or failed, a lookup never hands out unverified content
GetFileSound == ~base.damaged => \A id \in Ids : FreshFile(id) \in {"miss"} \cup {"file:" \o c : c \in Contents}
\* C11 / C05: every completed lookup returned not-found or content that some Put of that id carried
LookupsSound == \A k \in 1..Len(hist) : LET h == hist[k] IN
   h.op \in {"getbytes", "getfile"} =>
      \/ h.res = "miss"
      \/ \E c \in Contents : h.res \in {"bytes:" \o c, "file:" \o c} /\ <<h.id, c>> \in started
AllPuts == UNION {{prog[a][k] : k \in 1..Len(prog[a])} : a \in Actors}
SameContent(id) == Cardinality({o.c : o \in {o \in AllPuts : o.op = "put" /\ o.id = id}}) <= 1
AllSame(id) == \A o \in {o \in AllPuts : o.op = "put" /\ o.id = id} : o.rd = "same"
\* C11: re-storing identical content never makes a lookup that began after a completed Put miss
NoMissDuringRestore == \A k \in 1..Len(hist) : LET h == hist[k] IN
   (h.op \in {"getbytes", "getfile"} /\ h.ok0 /\ SameContent(h.id) /\ AllSame(h.id) /\ crashed = {} /\ faults = 0) => h.res # "miss"
Quiescent == \A a \in Actors : a \in crashed \/ (pc[a] = "next" /\ ip[a] = Len(prog[a]))
\* C11: once all writers are done every stored id is readable again
ReadableAtQuiescence == (Quiescent /\ crashed = {} /\ faults = 0 /\ \A o \in AllPuts : o.op = "put" => o.rd = "same")
                           => \A p \in completed : FreshBytes(p[1]) # "miss"
\* C12: entries of ids that no Put of the run names stay readable, whatever happens to the Puts
OthersStayReadable == \A id \in Ids : ((\A o \in AllPuts : o.op = "put" => o.id # id) /\ base.fresh[id] # "miss") => FreshBytes(id) = base.fresh[id]
View == <<prog, data, idx, pc, ip, loc, started, completed, crashed, faults, base>>
=============================================================================
